/-
C05 — Failures are reported as failures, in the caller's dialect.
Theorems about `Olla.Model.Handler.serve` (the three handler families composed with the retry loop
`Olla.Model.Retry.execute`), for every variant of the tree, every request, every candidate list,
every selector meeting the C06 contract, every assignment of attempt outcomes, every body-kind oracle
and every schedule of the streaming hand-off.
-/
import Olla.Model.Handler
import Olla.Spec.C05

namespace Olla.Props.C05
open Olla.Model.Retry Olla.Model.Handler Olla.Spec.C05

/-- The only thing assumed of the balancer (proved for all three in `Olla.Props.C06.selectors_member`). -/
def SelectContract (select : List Nat → Option Nat) : Prop := ∀ l e, select l = some e → e ∈ l

/-- "No backend produced a response": no candidate's attempt gets as far as a status line. -/
def NoBackendResponse (outcome : Nat → Attempt) (eps : List Nat) : Prop :=
  ∀ e ∈ eps, (outcome e).started = false

/-- The inputs on which the pinned tree's streaming hand-off fabricates a completion: Anthropic
    route, translation mode, streaming, a request Olla accepts, at least one endpoint after filtering. -/
def StreamHandoffCase (rq : Req) (eps : List Nat) : Prop :=
  rq.route = .anthropic ∧ rq.mode = .translate ∧ rq.stream = true ∧ rq.problem = none ∧
  rq.endpointsErr = false ∧ eps ≠ []

/-! ### Helper facts about the trace readers -/

private theorem writers_append (a b : List Ev) : writers (a ++ b) = writers a ++ writers b := by
  induction a with
  | nil => rfl
  | cons x xs ih => cases x <;> simp [writers, ih]

private theorem writeEvents_append (a b : List Ev) : writeEvents (a ++ b) = writeEvents a ++ writeEvents b := by
  induction a with
  | nil => rfl
  | cons x xs ih => cases x <;> simp [writeEvents, ih]

private theorem clientBody_append (a b : List Ev) : clientBody (a ++ b) = clientBody a ++ clientBody b := by
  induction a with
  | nil => rfl
  | cons x xs ih => cases x <;> simp [clientBody, ih]

private theorem clientStatus_skip (a b : List Ev) (h : writers a = []) : clientStatus (a ++ b) = clientStatus b := by
  induction a with
  | nil => rfl
  | cons x xs ih => cases x <;> simp_all [writers, clientStatus]

private theorem clientStatus_none (a : List Ev) (h : writers a = []) : clientStatus a = none := by
  induction a with
  | nil => rfl
  | cons x xs ih => cases x <;> simp_all [writers, clientStatus]

private theorem clientBody_none (a : List Ev) (h : writers a = []) : clientBody a = [] := by
  induction a with
  | nil => rfl
  | cons x xs ih => cases x <;> simp_all [writers, clientBody]

private theorem writeEvents_none (a : List Ev) (h : writers a = []) : writeEvents a = [] := by
  induction a with
  | nil => rfl
  | cons x xs ih => cases x <;> simp_all [writers, writeEvents]

/-- What `ProxyRequestToEndpoints` can have done when it returns: nothing reached the writer and it
    failed, or exactly one attempt wrote one header and its body bytes (complete iff it succeeded). -/
private def Shape (outcome : Nat → Attempt) (eps : List Nat) (out : List Ev × Result) : Prop :=
  (clientStatus out.1 = none ∧ clientBody out.1 = [] ∧ writeEvents out.1 = [] ∧ (∀ e, out.2 ≠ .served e)) ∨
  ∃ e r body, e ∈ eps ∧
    ((outcome e = .ok r ∧ body = r.body ∧ out.2 = .served e) ∨
     (∃ k re, outcome e = .failAfter r k re ∧ body = r.body.take k ∧ out.2 = .failed e)) ∧
    clientStatus out.1 = some (e, r.status, r.headers) ∧ clientBody out.1 = body ∧
    writeEvents out.1 = [.writeHeader r.status, .write body]

private theorem shape_nothing (outcome : Nat → Attempt) (eps : List Nat) (tr : List Ev) (res : Result)
    (h : writers tr = []) (hr : ∀ e, res ≠ .served e) : Shape outcome eps (tr, res) :=
  Or.inl ⟨clientStatus_none tr h, clientBody_none tr h, writeEvents_none tr h, hr⟩

private theorem loop_shape (select : List Nat → Option Nat) (outcome : Nat → Attempt) (eps : List Nat)
    (hsel : SelectContract select) :
    ∀ (fuel : Nat) (avail : List Nat) (tr : List Ev), writers tr = [] → (∀ x ∈ avail, x ∈ eps) →
      Shape outcome eps (loop select outcome fuel avail tr) := by
  intro fuel
  induction fuel with
  | zero => intro avail tr h _; simp only [loop]; exact shape_nothing outcome eps tr _ h (by simp)
  | succ n ih =>
    intro avail tr h hsub
    unfold loop
    by_cases hav : avail = []
    · simp only [hav, ↓reduceIte]; exact shape_nothing outcome eps tr _ h (by simp)
    · simp only [hav, ↓reduceIte]
      cases hs : select avail with
      | none => exact shape_nothing outcome eps tr _ h (by simp)
      | some e =>
        have hmem : e ∈ eps := hsub e (hsel avail e hs)
        have hsub' : ∀ x ∈ avail.erase e, x ∈ eps := fun x hx => hsub x (List.mem_of_mem_erase hx)
        simp only
        cases ha : outcome e with
        | ok r =>
          simp only
          refine Or.inr ⟨e, r, r.body, hmem, Or.inl ⟨ha, rfl, rfl⟩, ?_, ?_, ?_⟩
          · simp [List.append_assoc, clientStatus_skip tr _ h, attemptEvents, clientStatus]
          · simp [clientBody_append, clientBody_none tr h, attemptEvents, clientBody]
          · simp [writeEvents_append, writeEvents_none tr h, attemptEvents, writeEvents]
        | skip =>
          simp only
          exact ih (avail.erase e) _ (by simp [writers_append, h, attemptEvents, writers]) hsub'
        | failBefore re =>
          cases re with
          | true =>
            simp only
            exact ih (avail.erase e) _ (by simp [writers_append, h, attemptEvents, writers]) hsub'
          | false =>
            simp only
            exact shape_nothing outcome eps _ _ (by simp [writers_append, h, attemptEvents, writers]) (by simp)
        | failAfter r k re =>
          cases re with
          | true =>
            simp only
            refine Or.inr ⟨e, r, r.body.take k, hmem, Or.inr ⟨k, true, ha, rfl, rfl⟩, ?_, ?_, ?_⟩
            · simp [List.append_assoc, clientStatus_skip tr _ h, attemptEvents, clientStatus]
            · simp [clientBody_append, clientBody_none tr h, attemptEvents, clientBody]
            · simp [writeEvents_append, writeEvents_none tr h, attemptEvents, writeEvents]
          | false =>
            simp only
            refine Or.inr ⟨e, r, r.body.take k, hmem, Or.inr ⟨k, false, ha, rfl, rfl⟩, ?_, ?_, ?_⟩
            · simp [List.append_assoc, clientStatus_skip tr _ h, attemptEvents, clientStatus]
            · simp [clientBody_append, clientBody_none tr h, attemptEvents, clientBody]
            · simp [writeEvents_append, writeEvents_none tr h, attemptEvents, writeEvents]

private theorem execute_shape (select : List Nat → Option Nat) (outcome : Nat → Attempt) (eps : List Nat)
    (hsel : SelectContract select) : Shape outcome eps (execute select outcome eps) := by
  unfold execute
  by_cases h : eps = []
  · simp only [h, ↓reduceIte]; exact shape_nothing outcome [] [] _ rfl (by simp)
  · simp only [h, ↓reduceIte]
    exact loop_shape select outcome eps hsel eps.length eps [] rfl (fun x hx => hx)

/-- With no backend response the proxy call fails and nothing reaches the writer. -/
private theorem execute_silent (select : List Nat → Option Nat) (outcome : Nat → Attempt) (eps : List Nat)
    (hsel : SelectContract select) (hno : NoBackendResponse outcome eps) :
    viewOf (execute select outcome eps) = ⟨true, none⟩ ∧ writeEvents (execute select outcome eps).1 = [] := by
  rcases execute_shape select outcome eps hsel with ⟨h1, _, h3, h4⟩ | ⟨e, r, body, hmem, hcase, _⟩
  · refine ⟨?_, h3⟩
    simp only [viewOf, h1, Option.map_none]   -- the match on the result is decided by h4
  · have := hno e hmem
    rcases hcase with ⟨ha, _, _⟩ | ⟨k, re, ha, _, _⟩ <;> simp [ha, Attempt.started] at this

/-! ### The streaming hand-off -/

/-- The two shapes of the proxy goroutine's activity on the recorder. -/
private theorem proxyEvents_shape (select : List Nat → Option Nat) (outcome : Nat → Attempt) (eps : List Nat)
    (hsel : SelectContract select) :
    proxyEvents (execute select outcome eps).1 = [.finish] ∨
    ∃ s b, proxyEvents (execute select outcome eps).1 = [.writeHeader s, .write b, .finish] := by
  rcases execute_shape select outcome eps hsel with ⟨_, _, h3, _⟩ | ⟨e, r, body, _, _, _, _, h⟩
  · exact Or.inl (by simp [proxyEvents, h3])
  · exact Or.inr ⟨r.status, body, by simp [proxyEvents, h]⟩

/-- **The hand-off does not depend on which goroutine is faster**: whenever the handler goroutine gets
    past `<-headersReady` — right after the proxy's first write, after the proxy finished, or anywhere
    in between — it reads the same status and the same "a header was written" flag. -/
theorem C05_handoff_order_independent (select : List Nat → Option Nat) (outcome : Nat → Attempt) (eps : List Nat)
    (hsel : SelectContract select) (k₁ k₂ : Nat) (r₁ r₂ : Rec)
    (h₁ : observe (proxyEvents (execute select outcome eps).1) k₁ = some r₁)
    (h₂ : observe (proxyEvents (execute select outcome eps).1) k₂ = some r₂) :
    r₁ = r₂ := by
  rcases proxyEvents_shape select outcome eps hsel with h | ⟨s, b, h⟩
  · rw [h] at h₁ h₂
    match k₁, k₂ with
    | 0, _ => simp [observe, Rec.run, Rec.init] at h₁
    | _ + 1, 0 => simp [observe, Rec.run, Rec.init] at h₂
    | a + 1, c + 1 =>
      simp [observe, Rec.run, Rec.init, Rec.step] at h₁ h₂
      rw [← h₁, ← h₂]
  · rw [h] at h₁ h₂
    match k₁, k₂ with
    | 0, _ => simp [observe, Rec.run, Rec.init] at h₁
    | _ + 1, 0 => simp [observe, Rec.run, Rec.init] at h₂
    | 1, 1 | 1, 2 | 2, 1 | 2, 2 =>
      simp [observe, Rec.run, Rec.init, Rec.step] at h₁ h₂; rw [← h₁, ← h₂]
    | 1, c + 3 | 2, c + 3 =>
      simp [observe, Rec.run, Rec.init, Rec.step] at h₁ h₂; rw [← h₁, ← h₂]
    | a + 3, 1 | a + 3, 2 =>
      simp [observe, Rec.run, Rec.init, Rec.step] at h₁ h₂; rw [← h₁, ← h₂]
    | a + 3, c + 3 =>
      simp [observe, Rec.run, Rec.init, Rec.step] at h₁ h₂; rw [← h₁, ← h₂]

/-- **The handler goroutine never waits for ever**: once the proxy goroutine has finished, the
    channel is closed whatever happened (this is what `ensureHeadersReady` is for). -/
theorem C05_handoff_live (tr : List Ev) : (observe (proxyEvents tr) (proxyEvents tr).length).isSome = true := by
  have : ∀ (l : List PEv) (r : Rec), (List.foldl Rec.step r (l ++ [PEv.finish])).headersReady = true := by
    intro l r; simp [List.foldl_append, Rec.step]
  simp only [observe, Rec.run, List.take_length]
  simp only [proxyEvents, this, ↓reduceIte, Option.isSome_some]

/-- Consequently the answer of the streaming translation path is the same for every schedule. -/
theorem C05_stream_answer_schedule_free (vs : Variants) (kind : List UInt8 → BodyKind)
    (select : List Nat → Option Nat) (outcome : Nat → Attempt) (eps : List Nat) (hsel : SelectContract select) (k₁ k₂ : Nat) :
    translateStream vs kind (execute select outcome eps).1 k₁ = translateStream vs kind (execute select outcome eps).1 k₂ := by
  have key : ∀ k, translateStream vs kind (execute select outcome eps).1 k =
      streamMain vs kind (Rec.run (proxyEvents (execute select outcome eps).1)) (pipeBytes (proxyEvents (execute select outcome eps).1)) := by
    intro k
    unfold translateStream
    simp only
    cases hk : observe (proxyEvents (execute select outcome eps).1) k with
    | none => rfl
    | some r =>
      have hl := C05_handoff_live (execute select outcome eps).1
      cases hlast : observe (proxyEvents (execute select outcome eps).1) (proxyEvents (execute select outcome eps).1).length with
      | none => simp [hlast] at hl
      | some r' =>
        have := C05_handoff_order_independent select outcome eps hsel _ _ r r' hk hlast
        subst this
        simp only [observe, List.take_length] at hlast
        split at hlast
        · injection hlast with hlast; rw [hlast]
        · cases hlast
  rw [key k₁, key k₂]

/-! ### Clause 1 — no backend response ⇒ a failure, reported as a failure -/

/-- Every answer a handler gives before it proxies is an explicit error with a non-2xx status. -/
private theorem broken_anthropicError (vs : Variants) (err : Bool) (s : Nat) :
    brokenStreamAnswer vs err (anthropicError s) = anthropicError s := by
  unfold brokenStreamAnswer anthropicError
  cases vs.brokenStream <;> simp

private theorem broken_noerr (vs : Variants) (base : Seen) : brokenStreamAnswer vs false base = base := by
  unfold brokenStreamAnswer
  cases vs.brokenStream <;> simp

private theorem beforeProxy_is_failure (vs : Variants) (rq : Req) (eps : List Nat) (a : Seen)
    (hrej : ∀ st, rq.rejected = some st → is2xx st = false)
    (h : beforeProxy vs rq eps = .inl a) : failureReported a = true := by
  unfold beforeProxy at h
  have rejOk : ∀ st, rq.rejected = some st → failureReported (textError st) = true := by
    intro st hst; simp [failureReported, textError, isErrorBody, hrej st hst]
  cases hroute : rq.route <;> simp only [hroute] at h
  · -- proxy
    split at h
    · injection h with h; subst h; decide
    · split at h
      · rename_i st hv hr; injection h with h; subst h; exact rejOk st hr
      · cases h
  · -- provider
    split at h
    · injection h with h; subst h; decide
    · split at h
      · rename_i st hv hr; injection h with h; subst h; exact rejOk st hr
      · split at h
        · injection h with h; subst h; decide
        · cases h
  · -- anthropic
    split at h
    · injection h with h; subst h; decide
    · injection h with h; subst h; decide
    · injection h with h; subst h; decide
    · split at h
      · injection h with h; subst h; decide
      · split at h
        · injection h with h; subst h; decide
        · split at h
          · injection h with h; subst h; decide
          · split at h <;> cases h

/-- **No false success** (all variants, the pinned defect excluded by an explicit hypothesis):
    if no backend produced a response — whatever the reason: no endpoint, request rejected by routing
    or by Olla itself, or every attempt on the list the handler proxies to (`beforeProxy … = .inr targets`:
    the filtered endpoints, or the capable subset in passthrough mode) refused / reset / closed / was
    skipped — the client gets a non-2xx
    status and an explicit error body; never a 2xx, never an empty or fabricated completion.
    Excluded on the pinned tree: the streaming translation hand-off (`C05_stream_witness`). -/
theorem C05_no_false_success_partial (vs : Variants) (rq : Req) (kind : List UInt8 → BodyKind) (k : Nat)
    (select : List Nat → Option Nat) (outcome : Nat → Attempt) (eps : List Nat)
    (hsel : SelectContract select)
    (hrej : ∀ st, rq.rejected = some st → is2xx st = false)
    (hno : ∀ targets, beforeProxy vs rq eps = .inr targets → NoBackendResponse outcome targets)
    (hx : vs.streamHandoff = .fixed ∨ ¬ StreamHandoffCase rq eps) :
    failureReported (serve vs rq kind k select outcome eps) = true := by
  unfold serve handle
  cases hb : beforeProxy vs rq eps with
  | inl a => exact beforeProxy_is_failure vs rq eps a hrej hb
  | inr targets =>
    simp only
    obtain ⟨hview, hwe⟩ := execute_silent select outcome targets hsel (hno targets hb)
    unfold afterProxy
    cases hroute : rq.route with
    | proxy => simp only [hview, direct]; decide
    | provider => simp only [hview, direct]; decide
    | anthropic =>
      simp only
      cases hmode : rq.mode with
      | passthrough sub => simp only [hview, direct]; decide
      | translate =>
        simp only
        cases hstream : rq.stream with
        | false => simp [hview, translateBuffered]; decide
        | true =>
          simp only [↓reduceIte]
          -- the proxy goroutine wrote nothing: the recorder is ready only through ensureHeadersReady
          have hevs : proxyEvents (execute select outcome targets).1 = [.finish] := by simp [proxyEvents, hwe]
          have hfixed : vs.streamHandoff = .fixed := by
            rcases hx with h | h
            · exact h
            · exfalso; apply h
              -- the handler got as far as proxying on the translation path
              unfold beforeProxy at hb
              simp only [hroute, hmode] at hb
              refine ⟨hroute, hmode, hstream, ?_, ?_, ?_⟩
              · cases hp : rq.problem with
                | none => rfl
                | some p => cases p <;> simp [hp] at hb <;> (repeat' split at hb) <;> simp_all
              · cases he : rq.endpointsErr with
                | false => rfl
                | true => cases hp : rq.problem with
                  | none => simp [hp, he] at hb
                  | some p => cases p <;> simp [hp, he] at hb
              · intro hnil
                cases hp : rq.problem with
                | none => cases he : rq.endpointsErr <;> simp [hp, he, hnil] at hb
                | some p => cases p <;> cases he : rq.endpointsErr <;> simp [hp, he, hnil] at hb
          unfold translateStream
          simp only [hevs]
          cases k with
          | zero => simp [observe, Rec.run, Rec.init, Rec.step, streamMain, hfixed, broken_anthropicError]; decide
          | succ k => simp [observe, Rec.run, Rec.init, Rec.step, streamMain, hfixed, broken_anthropicError]; decide

/-- **No false success — full strength**, for the tree with `fixes/C05-stream-handoff.patch` applied
    (whatever the state of the other two defect classes). -/
theorem C05_no_false_success_fixed (vs : Variants) (hfix : vs.streamHandoff = .fixed)
    (rq : Req) (kind : List UInt8 → BodyKind) (k : Nat)
    (select : List Nat → Option Nat) (outcome : Nat → Attempt) (eps : List Nat)
    (hsel : SelectContract select)
    (hrej : ∀ st, rq.rejected = some st → is2xx st = false)
    (hno : ∀ targets, beforeProxy vs rq eps = .inr targets → NoBackendResponse outcome targets) :
    failureReported (serve vs rq kind k select outcome eps) = true :=
  C05_no_false_success_partial vs rq kind k select outcome eps hsel hrej hno (Or.inl hfix)

/-- The pinned tree does violate the full statement (DESIGN §4 #5): streaming translation, one
    endpoint, the backend resets the connection before any response byte ⇒
    `200 text/event-stream` with an empty message_start … message_stop. -/
theorem C05_stream_witness :
    serve allPinned { route := .anthropic, stream := true } (fun _ => .malformed) 1
      (fun l => l.head?) (fun _ => .failBefore true) [0] = ⟨200, .eventStream, .sse false⟩ ∧
    failureReported (serve allPinned { route := .anthropic, stream := true } (fun _ => .malformed) 1
      (fun l => l.head?) (fun _ => .failBefore true) [0]) = false := by decide

/-! ### Clause 2 — Olla's own errors on the Anthropic route are Anthropic error objects -/

private theorem direct_dialect (pv : ProxyView) : dialectOk true (direct (anthropicError 502) pv) = true := by
  unfold direct
  split
  · split <;> decide
  · rename_i s hasCT b _
    by_cases he : pv.err <;> cases hasCT <;> simp [he, dialectOk, fromBackend]

private theorem streamMain_dialect (vs : Variants) (kind : List UInt8 → BodyKind) (r : Rec) (pipe : List UInt8) :
    dialectOk true (streamMain vs kind r pipe) = true := by
  have h2 : ∀ s, dialectOk true (anthropicError s) = true := by intro s; simp [dialectOk, anthropicError]
  have h3 : dialectOk true (transformStream vs kind pipe) = true := by
    unfold transformStream
    cases vs.emptyStream
    · simp [dialectOk, is2xx]
    · simp only []
      split
      · simp [dialectOk, is2xx]
      · exact h2 502
  unfold streamMain
  split
  · exact h2 502
  · split
    · exact h2 _
    · exact h3

/-- **No fabricated completion on the translated streaming path** (repaired translator): whatever
    the backends did and whichever goroutine is faster, the client never gets a 2xx answer that is an
    empty body or an event stream without a single content block. With the pinned translator a
    backend 200 whose body is not a completion stream is answered exactly that way (witness). -/
theorem C05_stream_never_fabricates_fixed (vs : Variants) (h : vs.emptyStream = .fixed)
    (kind : List UInt8 → BodyKind) (tr : List Ev) (k : Nat) :
    noEmptySuccess (translateStream vs kind tr k) = true := by
  have hs : ∀ r pipe, noEmptySuccess (streamMain vs kind r pipe) = true := by
    intro r pipe
    unfold streamMain transformStream
    rw [h]
    split
    · simp [noEmptySuccess, anthropicError]
    · split
      · simp [noEmptySuccess, anthropicError]
      · simp only []
        split <;> simp [noEmptySuccess, anthropicError]
  unfold translateStream
  simp only []
  split <;> exact hs _ _

/-- The same for what the handler finally answers on that path (the proxy's own error included). -/
theorem C05_translated_stream_answer_never_fabricates_fixed (vs : Variants) (h : vs.emptyStream = .fixed)
    (kind : List UInt8 → BodyKind) (tr : List Ev) (k : Nat) (err : Bool) :
    noEmptySuccess (brokenStreamAnswer vs err (translateStream vs kind tr k)) = true := by
  have hb := C05_stream_never_fabricates_fixed vs h kind tr k
  unfold brokenStreamAnswer
  cases vs.brokenStream
  · exact hb
  · simp only []
    split
    · split <;> simp [noEmptySuccess, anthropicError]
    · exact hb

/-- **A stream that broke is not passed off as a complete message** (repaired hand-off): when the
    proxy call failed after the event stream had begun, the client's stream ends in an `error` event
    without message_stop; when nothing had been written, the answer is a 502 Anthropic error. The
    pinned hand-off finished such a stream as a complete message (second conjunct). -/
theorem C05_broken_stream_not_finished :
    (∀ vs : Variants, vs.brokenStream = .fixed →
      (brokenStreamAnswer vs true ⟨200, .eventStream, .sse true⟩).body = .sseBroken ∧
      brokenStreamAnswer vs true ⟨200, .eventStream, .sse false⟩ = anthropicError 502) ∧
    brokenStreamAnswer allPinned true ⟨200, .eventStream, .sse true⟩ = ⟨200, .eventStream, .sse true⟩ := by
  refine ⟨fun vs h => ?_, by decide⟩
  unfold brokenStreamAnswer
  rw [h]
  exact ⟨by decide, by decide⟩

theorem C05_stream_fabricates_witness :
    noEmptySuccess (translateStream allPinned (fun _ => .jsonObject)
      [.selected 0, .inc 0, .contacted 0, .wroteHeader 0 200 [], .wrote 0 [123, 125], .recSuccess 0, .dec 0] 7) = false ∧
    noEmptySuccess (translateStream allFixed (fun _ => .jsonObject)
      [.selected 0, .inc 0, .contacted 0, .wroteHeader 0 200 [], .wrote 0 [123, 125], .recSuccess 0, .dec 0] 7) = true := by
  decide

/-- **Anthropic dialect** (all variants, no exclusion): on the Anthropic route — passthrough or
    translation, streaming or not, whatever the backends do and whichever goroutine is faster — every
    non-2xx answer that is not the backend's own bytes is an Anthropic error object served as
    `application/json`. -/
theorem C05_anthropic_dialect (vs : Variants) (rq : Req) (kind : List UInt8 → BodyKind) (k : Nat)
    (select : List Nat → Option Nat) (outcome : Nat → Attempt) (eps : List Nat)
    (hroute : rq.route = .anthropic) :
    dialectOk true (serve vs rq kind k select outcome eps) = true := by
  have h2 : ∀ s, dialectOk true (anthropicError s) = true := by intro s; simp [dialectOk, anthropicError]
  unfold serve handle
  cases hb : beforeProxy vs rq eps with
  | inl a =>
    simp only
    unfold beforeProxy at hb
    simp only [hroute] at hb
    (repeat' split at hb) <;> first | (injection hb with hb; subst hb; exact h2 _) | cases hb
  | inr targets =>
    simp only
    unfold afterProxy
    simp only [hroute]
    cases hmode : rq.mode with
    | passthrough sub => exact direct_dialect _
    | translate =>
      simp only
      cases hstream : rq.stream with
      | true =>
        simp only [↓reduceIte]
        have hbroken : ∀ (e : Bool) (base : Seen), dialectOk true base = true → dialectOk true (brokenStreamAnswer vs e base) = true := by
          intro e base hbase
          unfold brokenStreamAnswer
          cases vs.brokenStream
          · exact hbase
          · simp only []
            split
            · split
              · simp [dialectOk, is2xx]
              · exact h2 502
            · exact hbase
        apply hbroken
        unfold translateStream
        simp only
        split <;> exact streamMain_dialect vs kind _ _
      | false =>
        simp only [Bool.false_eq_true, ↓reduceIte]
        have hparse : ∀ (s : Nat) (b : List UInt8), dialectOk true (parseAnswer kind s b) = true := by
          intro s b
          unfold parseAnswer
          split
          · exact h2 502
          · split
            · exact h2 s
            · split
              · simp [dialectOk, is2xx]
              · exact h2 502
        unfold translateBuffered
        split
        · exact h2 502
        · split
          · exact hparse _ _
          · split
            · exact h2 _
            · exact hparse _ _

/-! ### Clause 3 — a backend's own 4xx / 5xx keeps its status -/

/-- The inputs on which the pinned tree rewrites a backend error status: non-streaming translation
    of a backend answer whose body is not a JSON object. -/
def ErrorStatusCase (rq : Req) (kind : List UInt8 → BodyKind) (body : List UInt8) : Prop :=
  rq.route = .anthropic ∧ rq.mode = .translate ∧ rq.stream = false ∧ kind body = .malformed

/-- **Status passthrough** (all variants, the pinned defect excluded by an explicit hypothesis): if the
    handler proxies and a backend answers with a complete response of status ≥ 400, the client's status is
    that status — relayed as it is on the proxy, provider and passthrough paths, carried by an
    Anthropic error object on the translation paths, for every hand-off schedule. -/
theorem C05_status_passthrough_partial (vs : Variants) (rq : Req) (kind : List UInt8 → BodyKind) (k : Nat)
    (select : List Nat → Option Nat) (outcome : Nat → Attempt) (eps targets : List Nat)
    (hsel : SelectContract select)
    (hb : beforeProxy vs rq eps = .inr targets)
    (e : Nat) (r : Resp)
    (hserved : (execute select outcome targets).2 = .served e) (hr : outcome e = .ok r) (h4 : 400 ≤ r.status)
    (hx : vs.errorStatus = .fixed ∨ ¬ ErrorStatusCase rq kind r.body) :
    statusKept (some r.status) (serve vs rq kind k select outcome eps) = true := by
  -- the shape of the proxy call: e's header and whole body
  have hshape := execute_shape select outcome targets hsel
  rcases hshape with ⟨_, _, _, hn⟩ | ⟨e', r', body, _, hcase, hst, hbody, hwe⟩
  · exact absurd hserved (hn e)
  · rcases hcase with ⟨ha, hbd, hres⟩ | ⟨_, _, _, _, hres⟩
    · rw [hres] at hserved; injection hserved with hserved; subst hserved
      rw [hr] at ha; injection ha with ha; subst ha
      have hview : viewOf (execute select outcome targets) = ⟨false, some (r.status, hasContentType r.headers, r.body)⟩ := by
        simp [viewOf, hres, hst, hbody, hbd]
      have hkept : ∀ o : Seen, o.status = r.status → statusKept (some r.status) o = true := by
        intro o ho; simp [statusKept, h4, ho]
      unfold serve handle
      simp only [hb]
      unfold afterProxy
      cases hroute : rq.route with
      | proxy => simp only [hview, direct]; exact hkept _ (by simp)
      | provider => simp only [hview, direct]; exact hkept _ (by simp)
      | anthropic =>
        simp only
        cases hmode : rq.mode with
        | passthrough sub => simp only [hview, direct]; exact hkept _ (by simp)
        | translate =>
          simp only
          cases hstream : rq.stream with
          | true =>
            simp only [↓reduceIte, hview, broken_noerr]
            rw [C05_stream_answer_schedule_free vs kind select outcome targets hsel k (proxyEvents (execute select outcome targets).1).length]
            unfold translateStream
            have hevs : proxyEvents (execute select outcome targets).1 = [.writeHeader r.status, .write r.body, .finish] := by
              simp [proxyEvents, hwe, hbd]
            simp only [hevs]
            simp only [observe, Rec.run, Rec.init, Rec.step, List.length, List.take, List.foldl, streamMain]
            simp only [↓reduceIte]
            apply hkept
            cases vs.streamHandoff <;> simp [h4, anthropicError]
          | false =>
            simp only [Bool.false_eq_true, ↓reduceIte, hview, translateBuffered, recorded]
            apply hkept
            cases hv : vs.errorStatus with
            | fixed => simp [h4, anthropicError]
            | pinned =>
              have hk : kind r.body ≠ .malformed := by
                rcases hx with h | h
                · rw [hv] at h; cases h
                · intro hm; exact h ⟨hroute, hmode, hstream, hm⟩
              simp [parseAnswer, hk, h4, anthropicError]
    · rw [hres] at hserved; cases hserved

/-- **Status passthrough — full strength**, for the tree with
    `fixes/C05-nonstream-backend-error-status.patch` applied. -/
theorem C05_status_passthrough_fixed (vs : Variants) (hfix : vs.errorStatus = .fixed)
    (rq : Req) (kind : List UInt8 → BodyKind) (k : Nat)
    (select : List Nat → Option Nat) (outcome : Nat → Attempt) (eps targets : List Nat)
    (hsel : SelectContract select)
    (hb : beforeProxy vs rq eps = .inr targets)
    (e : Nat) (r : Resp)
    (hserved : (execute select outcome targets).2 = .served e) (hr : outcome e = .ok r) (h4 : 400 ≤ r.status) :
    statusKept (some r.status) (serve vs rq kind k select outcome eps) = true :=
  C05_status_passthrough_partial vs rq kind k select outcome eps targets hsel hb e r hserved hr h4 (Or.inl hfix)

/-- The pinned tree does violate the full statement: non-streaming translation, the backend answers
    `503` with a plain-text body ⇒ the client sees `502`. -/
theorem C05_error_status_witness :
    serve allPinned { route := .anthropic, stream := false } (fun _ => .malformed) 0
      (fun l => l.head?) (fun _ => .ok ⟨503, [("Content-Type", "text/plain")], [111, 111, 112, 115]⟩) [0]
      = ⟨502, .json, .anthropicError⟩ ∧
    statusKept (some 503) (serve allPinned { route := .anthropic, stream := false } (fun _ => .malformed) 0
      (fun l => l.head?) (fun _ => .ok ⟨503, [("Content-Type", "text/plain")], [111, 111, 112, 115]⟩) [0]) = false := by decide

/-! ### Side conditions on the regenerated fault table -/

/-- The fault kinds the harness uses for "every attempt failed" are reported by net/http before any
    response header: such an attempt writes nothing (`started = false`). -/
theorem gen_no_response_kinds :
    ∀ ch, lookupFault "refuse" ch = some ("pre", true) ∧ lookupFault "reset0" ch = some ("pre", true) ∧
          lookupFault "close0" ch = some ("pre", false) ∧ lookupFault "garbage" ch = some ("pre", false) := by decide

/-- Hence the attempts the driver builds for these kinds (and for an open breaker) never start a response. -/
theorem no_response_kinds_unstarted (r : Resp) (k : Nat) (ch : Bool) (kind : String)
    (h : kind ∈ ["refuse", "reset0", "close0", "garbage", "open"]) : (attemptOf kind ch r k).started = false := by
  have g := gen_no_response_kinds ch
  simp only [List.mem_cons, List.mem_nil_iff, or_false] at h
  rcases h with h | h | h | h | h <;> subst h <;> simp [attemptOf, g, Attempt.started]

/-! ### Non-vacuity -/

example : SelectContract (fun l => l.head?) := by intro l e h; cases l <;> simp_all
example : NoBackendResponse (fun _ => .failBefore true) [0, 1] := by intro e _; rfl
-- the fixed tree on the witness input: 502 Anthropic error object
example : serve allFixed { route := .anthropic, stream := true } (fun _ => .malformed) 1
    (fun l => l.head?) (fun _ => .failBefore true) [0] = ⟨502, .json, .anthropicError⟩ := by decide
example : serve allFixed { route := .anthropic, stream := false } (fun _ => .malformed) 0
    (fun l => l.head?) (fun _ => .ok ⟨503, [], [1]⟩) [0] = ⟨503, .json, .anthropicError⟩ := by decide
-- the proxy route: all endpoints refuse ⇒ 502 text; no endpoints ⇒ 502 text; provider ⇒ 404 text
example : serve allPinned { route := .proxy, stream := false } (fun _ => .malformed) 0
    (fun l => l.head?) (fun _ => .failBefore true) [0, 1] = ⟨502, .textPlain, .ollaText⟩ := by decide
example : serve allPinned { route := .provider, stream := false } (fun _ => .malformed) 0
    (fun l => l.head?) (fun _ => .failBefore true) [] = ⟨404, .textPlain, .ollaText⟩ := by decide
-- a streaming translation of a real answer
example : serve allPinned { route := .anthropic, stream := true } (fun _ => .completion) 1
    (fun l => l.head?) (fun _ => .ok ⟨200, [], [1]⟩) [0] = ⟨200, .eventStream, .sse true⟩ := by decide

end Olla.Props.C05
