/-
C13 — Translated responses and streams are well-formed Anthropic and lose nothing.

Model: `Olla.Model.AnthropicStream` (parametric in the defect switches `Cfg`); predicates:
`Olla.Spec.C13`; finish_reason table: regenerated `Olla.Gen.Translator`.

Every theorem quantifies over ALL line lists (all completions, all ways of cutting them into
SSE lines, all injected ignorable lines).  How bytes are cut into reads below the line level is
not in the model (bufio.Scanner reassembles lines; sampled by the harness with byte-at-a-time
readers).

Pinned-tree defects are handled parametrically: each theorem that one of them falsifies is
proved for every `cfg` under the hypothesis `cfg.<switch> = .fixed ∨ <excluding condition>`,
and instantiated twice — `…_fixed` (full strength, for the patched tree) and `…_partial`
(the pinned tree, excluding hypothesis explicit) — next to a `…_witness` refuting the
full-strength statement for the pinned variant on a concrete input.
-/
import Olla.Model.AnthropicStream
import Olla.Spec.C13
import Olla.Spec.State

namespace Olla.Props.C13
open Olla.Model.AnthropicStream Olla.Spec.C13

/-! ### Side conditions on the regenerated tables -/

/-- The three documented mappings hold in the compiled table: stop→end_turn,
    length→max_tokens, tool_calls→tool_use. -/
theorem gen_stop_documented : ∀ r ∈ stopDemanded, stopOf r.1 = r.2 := by decide

/-- Every finish_reason probed maps to an acceptable stop_reason. -/
theorem gen_stop_ok : ∀ r ∈ Olla.Gen.Translator.stopTable, stopOk r.1 r.2 = true := by decide

/-- The streaming path and the buffered path of the compiled translator map every probed
    finish_reason identically ("mapped consistently"). -/
theorem gen_stop_stream_eq_buffered :
    Olla.Gen.Translator.stopTableStream = Olla.Gen.Translator.stopTable := by decide

/-- A missing or null finish_reason is treated like the empty string. -/
theorem gen_stop_absent :
    Olla.Gen.Translator.stopAbsent = stopOf "" ∧ Olla.Gen.Translator.stopNull = stopOf "" := by decide

/-! ### Small list facts about the readers -/

private def isBlockEv : OutEv → Bool
  | .blockStart _ _ => true
  | .delta _ _ => true
  | .blockStop _ => true
  | _ => false

private theorem contentStep_block (b : Blk) (s : String) : ∀ e ∈ (contentStep b s).2, isBlockEv e = true := by
  unfold contentStep; cases b.cur <;> simp [isBlockEv]

private theorem fragStep_block (cfg : Cfg) (b : Blk) (f : Frag) :
    ∀ e ∈ (fragStep cfg b f).2, isBlockEv e = true := by
  unfold fragStep initTool
  cases b.cur <;> cases cfg.toolClose <;> by_cases h1 : f.isStart <;> by_cases h2 : (f.args != "") <;>
    simp [h1, h2, isBlockEv]

private theorem actsOut_block (cfg : Cfg) : ∀ (acts : List Act) (b : Blk), ∀ e ∈ actsOut cfg b acts, isBlockEv e = true
  | [], _ => by simp [actsOut]
  | a :: r, b => by
    intro e he
    simp only [actsOut, List.mem_append] at he
    rcases he with he | he
    · cases a with
      | text s => exact contentStep_block b s e he
      | frag f => exact fragStep_block cfg b f e he
    · exact actsOut_block cfg r _ e he

private theorem actsOut_append (cfg : Cfg) : ∀ (a c : List Act) (b : Blk),
    actsOut cfg b (a ++ c) = actsOut cfg b a ++ actsOut cfg (actsEnd cfg b a) c
  | [], _, _ => by simp [actsOut, actsEnd]
  | x :: a, c, b => by simp [actsOut, actsEnd, actsOut_append cfg a c, List.append_assoc]

private theorem actsEnd_append (cfg : Cfg) : ∀ (a c : List Act) (b : Blk),
    actsEnd cfg b (a ++ c) = actsEnd cfg (actsEnd cfg b a) c
  | [], _, _ => by simp [actsEnd]
  | x :: a, c, b => by simp [actsEnd, actsEnd_append cfg a c]

/-- What a chunk makes the translator do is what the backend put in it, unless the pinned
    `mixedDelta` behaviour meets a delta with both content and tool calls. -/
private theorem chunkActs_eq (cfg : Cfg) (c : Chunk) (h : cfg.mixedDelta = .fixed ∨ chunkMixed c = false) :
    (chunkActs cfg c).2 = lineActs (.chunk c) := by
  unfold chunkActs lineActs chunkMixed at *
  by_cases hcd : (c.choice && c.delta) = true
  · simp only [hcd, Bool.not_true, Bool.false_eq_true, if_false, if_true]
    simp only [hcd, Bool.true_and] at h
    cases hc : c.content with
    | none => cases ht : c.tools <;> simp
    | some s =>
      by_cases hs : (s != "") = true
      · simp only [hs, if_true]
        rcases h with h | h
        · simp only [h, if_true]; cases ht : c.tools <;> simp
        · simp only [hc, hs, Bool.true_and] at h
          cases ht : c.tools with
          | none => simp
          | some fs =>
            simp only [ht] at h
            have : fs = [] := by cases fs <;> simp_all
            subst this; cases cfg.mixedDelta <;> simp
      · simp only [hs, Bool.false_eq_true, if_false]; cases ht : c.tools <;> simp
  · simp [hcd]

private theorem chunkActs_untouched (cfg : Cfg) (c : Chunk) (h : (chunkActs cfg c).1 = false) :
    (chunkActs cfg c).2 = [] := by
  unfold chunkActs at *
  by_cases hcd : (c.choice && c.delta) = true
  · simp only [hcd, Bool.not_true, Bool.false_eq_true, if_false] at h ⊢
    cases hc : c.content with
    | none => simp only [hc] at h ⊢; cases ht : c.tools <;> simp_all
    | some s =>
      simp only [hc] at h ⊢
      by_cases hs : (s != "") = true
      · simp [hs] at h
      · simp only [hs, Bool.false_eq_true, if_false] at h ⊢; cases ht : c.tools <;> simp_all
  · simp [hcd]

/-! ### Totality and framing: any input whatsoever -/

private theorem updMeta_started (cfg : Cfg) (st : St) (c : Chunk) : (updMeta cfg st c).started = st.started := by
  unfold updMeta
  repeat' split
  all_goals rfl

private theorem updMeta_blk (cfg : Cfg) (st : St) (c : Chunk) : (updMeta cfg st c).blk = st.blk := by
  unfold updMeta
  repeat' split
  all_goals rfl

/-- Shape of every run: an optional message_start, block events only, then message_delta and
    message_stop. -/
private theorem runFrom_shape (cfg : Cfg) : ∀ (lines : List Line) (st : St),
    ∃ m t body s p q, runFrom cfg st lines =
      (if st.started then [] else [OutEv.msgStart m t]) ++ body ++ [OutEv.msgDelta s p q, OutEv.msgStop]
      ∧ ∀ e ∈ body, isBlockEv e = true
  | [], st => by
    refine ⟨st.model, st.inTok, closeOpen st.blk, stopOf st.finish, st.inTok, st.outTok, ?_, ?_⟩
    · simp only [runFrom, finish]
    · unfold closeOpen; cases st.blk.cur <;> simp [isBlockEv]
  | l :: ls, st => by
    cases l with
    | ignored =>
      obtain ⟨m, t, body, s, p, q, h, hb⟩ := runFrom_shape cfg ls st
      exact ⟨m, t, body, s, p, q, by simp [runFrom, stepLine, h], hb⟩
    | chunk c =>
      by_cases ht : (chunkActs cfg c).1 = true
      · by_cases hs : (updMeta cfg st c).started = true
        · obtain ⟨m, t, body, s, p, q, h, hb⟩ := runFrom_shape cfg ls
            { (updMeta cfg st c) with blk := actsEnd cfg (updMeta cfg st c).blk (chunkActs cfg c).2 }
          have hs' : st.started = true := by rw [← updMeta_started cfg st c]; exact hs
          refine ⟨m, t, actsOut cfg (updMeta cfg st c).blk (chunkActs cfg c).2 ++ body, s, p, q, ?_, ?_⟩
          · simp only [runFrom, stepLine, ht, if_true, ensureStart, hs, hs'] at h ⊢
            rw [h]; simp [List.append_assoc]
          · intro e he
            rcases List.mem_append.mp he with he | he
            · exact actsOut_block cfg _ _ e he
            · exact hb e he
        · have hs0 : (updMeta cfg st c).started = false := by simpa using hs
          obtain ⟨m, t, body, s, p, q, h, hb⟩ := runFrom_shape cfg ls
            { (updMeta cfg st c) with started := true, blk := actsEnd cfg (updMeta cfg st c).blk (chunkActs cfg c).2 }
          have hs' : st.started = false := by rw [← updMeta_started cfg st c]; exact hs0
          refine ⟨(updMeta cfg st c).model, (updMeta cfg st c).inTok,
            actsOut cfg (updMeta cfg st c).blk (chunkActs cfg c).2 ++ body, s, p, q, ?_, ?_⟩
          · simp only [runFrom, stepLine, ht, if_true, ensureStart, hs0, hs', Bool.false_eq_true, if_false] at h ⊢
            rw [h]; simp [List.append_assoc]
          · intro e he
            rcases List.mem_append.mp he with he | he
            · exact actsOut_block cfg _ _ e he
            · exact hb e he
      · have ht0 : (chunkActs cfg c).1 = false := by simpa using ht
        obtain ⟨m, t, body, s, p, q, h, hb⟩ := runFrom_shape cfg ls (updMeta cfg st c)
        refine ⟨m, t, body, s, p, q, ?_, hb⟩
        simp only [runFrom, stepLine, ht0, Bool.false_eq_true, if_false, List.nil_append]
        rw [h, updMeta_started]

private theorem filter_block_nil (p : OutEv → Bool) (hp : ∀ e, isBlockEv e = true → p e = false)
    (body : List OutEv) (hb : ∀ e ∈ body, isBlockEv e = true) : body.filter p = [] := by
  rw [List.filter_eq_nil_iff]
  intro e he
  simp [hp e (hb e he)]

/-- **Never crashes, never hangs, always closes the message** — for every configuration of the
    defect switches and EVERY list of input lines (arbitrary interleavings of tool fragments,
    malformed and ignorable lines anywhere): the output starts with message_start, ends with
    message_stop, and contains exactly one message_start, one message_delta and one
    message_stop.  (`run` is a total structurally-recursive function.) -/
theorem C13_total (cfg : Cfg) (lines : List Line) : framed (run cfg lines) = true := by
  obtain ⟨m, t, body, s, p, q, h, hb⟩ := runFrom_shape cfg lines {}
  unfold run
  rw [h]
  have h1 := filter_block_nil isMsgStart (by intro e; cases e <;> simp [isBlockEv, isMsgStart]) body hb
  have h2 := filter_block_nil isMsgDelta (by intro e; cases e <;> simp [isBlockEv, isMsgDelta]) body hb
  have h3 := filter_block_nil isMsgStop (by intro e; cases e <;> simp [isBlockEv, isMsgStop]) body hb
  simp [framed, count, List.filter_append, h1, h2, h3, isMsgStart, isMsgDelta, isMsgStop, List.getLast?_append,
    List.getLast?_cons, List.filter_cons]

/-- The last event is message_stop, stated directly. -/
theorem C13_total_stop_last (cfg : Cfg) (lines : List Line) : ∃ pre, run cfg lines = pre ++ [OutEv.msgStop] := by
  obtain ⟨m, t, body, s, p, q, h, _⟩ := runFrom_shape cfg lines {}
  exact ⟨[OutEv.msgStart m t] ++ body ++ [OutEv.msgDelta s p q], by unfold run; rw [h]; simp⟩

/-! ### Grammar -/

private theorem gfold_append : ∀ (a b : List OutEv) (g : G),
    gfold g (a ++ b) = (match gfold g a with | some g' => gfold g' b | none => none)
  | [], _, _ => by simp [gfold]
  | e :: a, b, g => by
    simp only [List.cons_append, gfold]
    cases gstep g e with
    | none => rfl
    | some g' => exact gfold_append a b g'

/-- Recogniser state that corresponds to a block state of the translator. -/
private def gB (b : Blk) : G :=
  match b.cur with
  | .none => .idle b.nblocks
  | .text => .opened b.idx false
  | .tool => .opened b.idx true

/-- `currentIndex` is the last block whenever a block is open. -/
private def BInv (b : Blk) : Prop := b.cur = .none ∨ b.nblocks = b.idx + 1

private theorem actStep_ok (cfg : Cfg) (strict : Bool) (hs : strict = true ∨ cfg.toolClose = .fixed)
    (b : Blk) (hb : BInv b) (a : Act) (p' : Bool)
    (h : actsOk strict (b.cur == .tool) [a] = some p') :
    gfold (gB b) (actStep cfg b a).2 = some (gB (actStep cfg b a).1) ∧ BInv (actStep cfg b a).1 ∧
      p' = ((actStep cfg b a).1.cur == .tool) := by
  cases a with
  | text s =>
    simp only [actsOk] at h
    have hp : p' = false := by simpa using h.symm
    subst hp
    unfold actStep contentStep BInv gB at *
    rcases hcur : b.cur with _ | _ | _
    · simp [gfold, gstep, kindIsTool, payloadIsJson]
    · simp only [hcur] at hb
      simp at hb
      simp [gfold, gstep, payloadIsJson, hcur, hb]
    · simp only [hcur] at hb
      rcases hb with hb | hb
      · simp at hb
      · simp [gfold, gstep, kindIsTool, payloadIsJson, hb]
  | frag f =>
    simp only [actsOk] at h
    unfold actStep fragStep initTool BInv gB at *
    by_cases hst : f.isStart = true
    · simp only [hst, if_true] at h ⊢
      by_cases ha : (f.args != "") = true
      · rcases hcur : b.cur with _ | _ | _
        · simp only [hcur] at h
          simp at h; subst h
          simp [gfold, gstep, kindIsTool, payloadIsJson, ha]
        · simp only [hcur] at h hb
          simp at h; subst h
          rcases hb with hb | hb
          · simp at hb
          · simp [gfold, gstep, kindIsTool, payloadIsJson, ha, hb]
        · simp only [hcur] at h hb
          rcases hb with hb | hb
          · simp at hb
          · rcases hs with hs | hs
            · subst hs; simp at h
            · have hp : p' = true := by
                cases strict <;> simp at h <;> simp [h]
              subst hp
              simp [gfold, gstep, kindIsTool, payloadIsJson, ha, hb, hs]
      · rcases hcur : b.cur with _ | _ | _
        · simp only [hcur] at h
          simp at h; subst h
          simp [gfold, gstep, kindIsTool, ha]
        · simp only [hcur] at h hb
          simp at h; subst h
          rcases hb with hb | hb
          · simp at hb
          · simp [gfold, gstep, kindIsTool, ha, hb]
        · simp only [hcur] at h hb
          rcases hb with hb | hb
          · simp at hb
          · rcases hs with hs | hs
            · subst hs; simp at h
            · have hp : p' = true := by
                cases strict <;> simp at h <;> simp [h]
              subst hp
              simp [gfold, gstep, kindIsTool, ha, hb, hs]
    · have hst0 : f.isStart = false := by simpa using hst
      simp only [hst0, Bool.false_eq_true, if_false] at h ⊢
      by_cases ha : (f.args != "") = true
      · have ha' : (f.args == "") = false := by simpa [bne] using ha
        simp only [ha', Bool.false_or] at h
        rcases hcur : b.cur with _ | _ | _
        · simp [hcur] at h
        · simp [hcur] at h
        · simp only [hcur] at h hb
          simp at h hb; subst h
          simp [gfold, gstep, payloadIsJson, ha, hb]
      · have ha' : (f.args == "") = true := by simpa [bne] using ha
        simp only [ha', Bool.true_or, if_true] at h
        simp at h; subst h
        refine ⟨?_, ?_, ?_⟩
        · simp [gfold, ha]
        · simpa using hb
        · simp

private theorem actsOk_cons (strict : Bool) (p : Bool) (a : Act) (r : List Act) :
    actsOk strict p (a :: r) = (match actsOk strict p [a] with | some p' => actsOk strict p' r | none => none) := by
  cases a with
  | text s => simp [actsOk]
  | frag f =>
    simp only [actsOk]
    by_cases hst : f.isStart = true
    · simp only [hst, if_true]
      by_cases hps : (p && strict) = true
      · simp [hps]
      · simp [hps]
    · simp only [hst, Bool.false_eq_true, if_false]
      by_cases ha : (f.args == "" || p) = true
      · simp [ha]
      · simp [ha]

private theorem acts_ok (cfg : Cfg) (strict : Bool) (hs : strict = true ∨ cfg.toolClose = .fixed) :
    ∀ (acts : List Act) (b : Blk), BInv b → ∀ p', actsOk strict (b.cur == .tool) acts = some p' →
      gfold (gB b) (actsOut cfg b acts) = some (gB (actsEnd cfg b acts)) ∧ BInv (actsEnd cfg b acts) ∧
        p' = ((actsEnd cfg b acts).cur == .tool)
  | [], b, hb, p', h => by
    simp only [actsOk] at h
    simp only [actsOut, actsEnd, gfold]
    refine ⟨trivial, hb, ?_⟩
    simpa using h.symm
  | a :: r, b, hb, p', h => by
    rw [actsOk_cons] at h
    cases h1 : actsOk strict (b.cur == .tool) [a] with
    | none => simp [h1] at h
    | some p1 =>
      simp only [h1] at h
      obtain ⟨g1, i1, e1⟩ := actStep_ok cfg strict hs b hb a p1 h1
      subst e1
      obtain ⟨g2, i2, e2⟩ := acts_ok cfg strict hs r (actStep cfg b a).1 i1 p' h
      simp only [actsOut, actsEnd, gfold_append, g1]
      exact ⟨g2, i2, e2⟩

/-- Recogniser state corresponding to a translator state. -/
private def gOf (st : St) : G := if st.started then gB st.blk else .init

private def SInv (st : St) : Prop := BInv st.blk ∧ (st.started = false → st.blk = {})

private theorem runFrom_wellFormed (cfg : Cfg) (strict : Bool) (hs : strict = true ∨ cfg.toolClose = .fixed) :
    ∀ (lines : List Line) (st : St), SInv st →
      (cfg.mixedDelta = .fixed ∨ noMixed lines = true) →
      orderlyFrom strict (st.blk.cur == .tool) lines = true →
      gfold (gOf st) (runFrom cfg st lines) = some .done
  | [], st, hi, _, _ => by
    obtain ⟨hb, h0⟩ := hi
    simp only [runFrom, finish, closeOpen, gOf]
    by_cases hst : st.started = true
    · simp only [hst, if_true, List.nil_append]
      unfold gB BInv at *
      rcases hcur : st.blk.cur with _ | _ | _ <;> simp [gfold, gstep]
    · have hst0 : st.started = false := by simpa using hst
      have := h0 hst0
      simp [hst0, this, gfold, gstep]
  | l :: ls, st, hi, hm, ho => by
    have hm' : cfg.mixedDelta = .fixed ∨ noMixed ls = true := by
      rcases hm with hm | hm
      · exact Or.inl hm
      · right; unfold noMixed at *; simp only [List.all_cons, Bool.and_eq_true] at hm; exact hm.2
    simp only [orderlyFrom] at ho
    cases l with
    | ignored =>
      simp only [lineActs, actsOk] at ho
      simp only [runFrom, stepLine, List.nil_append]
      exact runFrom_wellFormed cfg strict hs ls st hi hm' ho
    | chunk c =>
      have hmc : cfg.mixedDelta = .fixed ∨ chunkMixed c = false := by
        rcases hm with hm | hm
        · exact Or.inl hm
        · right; unfold noMixed at hm; simp only [List.all_cons, Bool.and_eq_true] at hm; simpa using hm.1
      have hacts := chunkActs_eq cfg c hmc
      cases hok : actsOk strict (st.blk.cur == .tool) (lineActs (.chunk c)) with
      | none => simp [hok] at ho
      | some p1 =>
        simp only [hok] at ho
        obtain ⟨hb, h0⟩ := hi
        have hbm : (updMeta cfg st c).blk = st.blk := updMeta_blk cfg st c
        have hsm : (updMeta cfg st c).started = st.started := updMeta_started cfg st c
        by_cases ht : (chunkActs cfg c).1 = true
        · obtain ⟨g1, i1, e1⟩ := acts_ok cfg strict hs (lineActs (.chunk c)) st.blk hb p1 hok
          subst e1
          by_cases hst : st.started = true
          · have ih := runFrom_wellFormed cfg strict hs ls
              { (updMeta cfg st c) with blk := actsEnd cfg st.blk (lineActs (.chunk c)) }
              ⟨i1, by simp [hsm, hst]⟩ hm' ho
            simp only [runFrom, stepLine, ht, if_true, ensureStart, hsm, hst, hacts, hbm, List.nil_append,
              gfold_append]
            simp only [gOf, hst, if_true, g1]
            simpa [gOf, hsm, hst] using ih
          · have hst0 : st.started = false := by simpa using hst
            have hblk := h0 hst0
            have ih := runFrom_wellFormed cfg strict hs ls
              { (updMeta cfg st c) with started := true, blk := actsEnd cfg st.blk (lineActs (.chunk c)) }
              ⟨i1, by simp⟩ hm' ho
            simp only [runFrom, stepLine, ht, if_true, ensureStart, hsm, hst0, hacts, hbm, Bool.false_eq_true,
              if_false, List.cons_append, List.nil_append]
            simp only [gOf, hst0, Bool.false_eq_true, if_false, gfold, gstep]
            have hg0 : G.idle 0 = gB st.blk := by rw [hblk]; rfl
            rw [hg0, gfold_append, g1]
            simpa [gOf] using ih
        · have ht0 : (chunkActs cfg c).1 = false := by simpa using ht
          have hnil := chunkActs_untouched cfg c ht0
          rw [hacts] at hnil
          rw [hnil] at hok
          simp only [actsOk] at hok
          have hp : p1 = (st.blk.cur == .tool) := by simpa using hok.symm
          subst hp
          have ih := runFrom_wellFormed cfg strict hs ls (updMeta cfg st c)
            ⟨by rw [hbm]; exact hb, by rw [hsm, hbm]; exact h0⟩ hm' (by rw [hbm]; exact ho)
          simp only [runFrom, stepLine, ht0, Bool.false_eq_true, if_false, List.nil_append]
          simpa [gOf, hsm, hbm] using ih

/-- **Grammar**, parametric in the defect switches: for every list of lines whose tool
    fragments are contiguous (`orderly`), the output is a well-formed Anthropic stream —
    one message_start first; blocks 0,1,2… each opened once, deltas (of the block's own kind)
    only to the open block, closed before the next opens; one message_delta; message_stop last.
    Where a switch is still `.pinned` the corresponding excluding condition is required. -/
theorem C13_grammar (cfg : Cfg) (lines : List Line)
    (hm : cfg.mixedDelta = .fixed ∨ noMixed lines = true)
    (ho : orderly (cfg.toolClose != .fixed) lines = true) :
    wellFormed (run cfg lines) = true := by
  have hs : (cfg.toolClose != .fixed) = true ∨ cfg.toolClose = .fixed := by
    cases cfg.toolClose <;> simp
  have := runFrom_wellFormed cfg (cfg.toolClose != .fixed) hs lines {} ⟨Or.inl rfl, fun _ => rfl⟩ hm
    (by
      have h2 : ((({} : St).blk.cur) == Cur.tool) = false := rfl
      rw [h2]; exact ho)
  simp only [wellFormed, run]
  simpa [gOf] using this

/-- Full strength (patched tree): contiguity of the fragments is the only hypothesis. -/
theorem C13_grammar_fixed (lines : List Line) (ho : orderly false lines = true) :
    wellFormed (run fixed lines) = true :=
  C13_grammar fixed lines (Or.inl rfl) (by
    have h2 : (fixed.toolClose != Variant.fixed) = false := rfl
    rw [h2]; exact ho)

/-- Pinned tree: additionally no delta mixes content with tool calls, and two tool calls are
    always separated by text (`orderly true`). -/
theorem C13_grammar_partial (lines : List Line) (hm : noMixed lines = true) (ho : orderly true lines = true) :
    wellFormed (run pinned lines) = true :=
  C13_grammar pinned lines (Or.inr hm) (by
    have h2 : (pinned.toolClose != Variant.fixed) = true := rfl
    rw [h2]; exact ho)

/-- The input of DESIGN §4 row 16: two consecutive tool calls, each complete in one fragment. -/
def twoToolsWitness : List Line :=
  [.chunk { model := some "m", tools := some [⟨0, "call_a", "f", "{}"⟩] },
   .chunk { tools := some [⟨1, "call_b", "g", "{}"⟩] },
   .chunk { finish := some "tool_calls" }]

/-- The full-strength grammar statement is FALSE for the pinned tree: the input is contiguous,
    has no mixed delta, and block 0 never receives content_block_stop. -/
theorem C13_two_tools_witness :
    orderly false twoToolsWitness = true ∧ noMixed twoToolsWitness = true ∧
      wellFormed (run pinned twoToolsWitness) = false ∧ wellFormed (run fixed twoToolsWitness) = true := by
  decide

/-! ### Text is delivered losslessly -/

private theorem textPieces_append : ∀ (a b : List OutEv), textPieces (a ++ b) = textPieces a ++ textPieces b
  | [], _ => by simp [textPieces]
  | e :: a, b => by
    cases e with
    | delta i p => cases p <;> simp [textPieces, textPieces_append a b]
    | _ => simp [textPieces, textPieces_append a b]

private theorem actTexts_append : ∀ (a b : List Act), actTexts (a ++ b) = actTexts a ++ actTexts b
  | [], _ => by simp [actTexts]
  | x :: a, b => by cases x <;> simp [actTexts, actTexts_append a b]

private theorem actTexts_frags (fs : List Frag) : actTexts (fs.map Act.frag) = [] := by
  induction fs with
  | nil => rfl
  | cons f r ih => simp [actTexts, ih]

private theorem textPieces_actsOut (cfg : Cfg) : ∀ (acts : List Act) (b : Blk),
    textPieces (actsOut cfg b acts) = actTexts acts
  | [], _ => by simp [actsOut, textPieces, actTexts]
  | a :: r, b => by
    simp only [actsOut, textPieces_append, textPieces_actsOut cfg r]
    cases a with
    | text s =>
      simp only [actStep, contentStep, actTexts]
      cases b.cur <;> simp [textPieces]
    | frag f =>
      simp only [actStep, fragStep, initTool, actTexts]
      cases b.cur <;> cases cfg.toolClose <;> by_cases h1 : f.isStart = true <;>
        by_cases h2 : (f.args != "") = true <;> simp [h1, h2, textPieces]

/-- Whatever the switches, the texts a chunk makes the translator emit are the chunk's text. -/
private theorem chunkActs_texts (cfg : Cfg) (c : Chunk) :
    actTexts (chunkActs cfg c).2 = actTexts (lineActs (.chunk c)) := by
  unfold chunkActs lineActs
  by_cases hcd : (c.choice && c.delta) = true
  · simp only [hcd, Bool.not_true, Bool.false_eq_true, if_false, if_true]
    cases hc : c.content with
    | none => cases ht : c.tools <;> simp [actTexts]
    | some s =>
      by_cases hs : (s != "") = true
      · simp only [hs, if_true]
        cases ht : c.tools <;> cases cfg.mixedDelta <;> simp [actTexts, actTexts_frags]
      · simp only [hs, Bool.false_eq_true, if_false]; cases ht : c.tools <;> simp [actTexts]
  · simp [hcd, actTexts]

private theorem textPieces_runFrom (cfg : Cfg) : ∀ (lines : List Line) (st : St),
    textPieces (runFrom cfg st lines) = actTexts (allActs lines)
  | [], st => by
    simp only [runFrom, finish, closeOpen, allActs, List.flatMap_nil, actTexts]
    cases st.started <;> cases st.blk.cur <;> simp [textPieces]
  | l :: ls, st => by
    simp only [runFrom, textPieces_append, textPieces_runFrom cfg ls, allActs, List.flatMap_cons, actTexts_append]
    congr 1
    cases l with
    | ignored => simp [stepLine, lineActs, textPieces, actTexts]
    | chunk c =>
      rw [← chunkActs_texts cfg c]
      by_cases ht : (chunkActs cfg c).1 = true
      · simp only [stepLine, ht, if_true, ensureStart, textPieces_append, textPieces_actsOut]
        cases (updMeta cfg st c).started <;> simp [textPieces]
      · have ht0 : (chunkActs cfg c).1 = false := by simpa using ht
        simp [stepLine, ht0, chunkActs_untouched cfg c ht0, textPieces, actTexts]

/-- **Text lossless** — for every configuration and EVERY list of lines (no hypothesis at all):
    concatenating the text deltas the client receives reproduces the backend's text. -/
theorem C13_text_lossless (cfg : Cfg) (lines : List Line) : textOf (run cfg lines) = inText lines := by
  simp [textOf, inText, run, textPieces_runFrom]

/-! ### Tool calls are delivered losslessly -/

private theorem collect_append : ∀ (a b : List OutEv) (es : List Entry),
    collect es (a ++ b) = collect (collect es a) b
  | [], _, _ => by simp [collect]
  | e :: a, b, es => by
    cases e with
    | blockStart i k => cases k <;> simp [collect, collect_append a b]
    | delta i p => cases p <;> simp [collect, collect_append a b]
    | _ => simp [collect, collect_append a b]

/-- The translator's view of the whole input: the actions it performs, in order. -/
private def cacts (cfg : Cfg) (lines : List Line) : List Act :=
  lines.flatMap (fun l => match l with | .ignored => [] | .chunk c => (chunkActs cfg c).2)

private theorem cacts_eq (cfg : Cfg) : ∀ (lines : List Line),
    (cfg.mixedDelta = .fixed ∨ noMixed lines = true) → cacts cfg lines = allActs lines
  | [], _ => rfl
  | l :: ls, hm => by
    have hm' : cfg.mixedDelta = .fixed ∨ noMixed ls = true := by
      rcases hm with hm | hm
      · exact Or.inl hm
      · right; unfold noMixed at *; simp only [List.all_cons, Bool.and_eq_true] at hm; exact hm.2
    have ih := cacts_eq cfg ls hm'
    unfold cacts allActs at *
    simp only [List.flatMap_cons, ih]
    congr 1
    cases l with
    | ignored => rfl
    | chunk c =>
      apply chunkActs_eq
      rcases hm with hm | hm
      · exact Or.inl hm
      · right; unfold noMixed at hm; simp only [List.all_cons, Bool.and_eq_true] at hm; simpa using hm.1

private theorem collect_finish (es : List Entry) (st : St) : collect es (finish st) = es := by
  simp only [finish, closeOpen]
  cases st.started <;> cases st.blk.cur <;> simp [collect]

/-- The tool calls a client assembles depend only on the block events. -/
private theorem collect_runFrom (cfg : Cfg) : ∀ (lines : List Line) (st : St) (es : List Entry),
    collect es (runFrom cfg st lines) = collect es (actsOut cfg st.blk (cacts cfg lines))
  | [], st, es => by simp [runFrom, cacts, actsOut, collect, collect_finish]
  | l :: ls, st, es => by
    cases l with
    | ignored =>
      simp only [runFrom, stepLine, List.nil_append, collect_runFrom cfg ls st es]
      simp [cacts]
    | chunk c =>
      have hc : cacts cfg (.chunk c :: ls) = (chunkActs cfg c).2 ++ cacts cfg ls := by simp [cacts]
      rw [hc, actsOut_append, collect_append]
      by_cases ht : (chunkActs cfg c).1 = true
      · simp only [runFrom, stepLine, ht, if_true, ensureStart, collect_append, updMeta_blk]
        rw [collect_runFrom cfg ls]
        cases (updMeta cfg st c).started <;> simp [collect, updMeta_blk]
      · have ht0 : (chunkActs cfg c).1 = false := by simpa using ht
        simp only [runFrom, stepLine, ht0, Bool.false_eq_true, if_false, List.nil_append,
          chunkActs_untouched cfg c ht0, actsOut, actsEnd, collect]
        rw [collect_runFrom cfg ls, updMeta_blk]

private def proj (e : Entry) : String × String × String := (e.id, e.name, e.args)

private theorem cat_append : ∀ (a b : List String), cat (a ++ b) = cat a ++ cat b
  | [], _ => by simp [cat]
  | s :: a, b => by simp [cat, cat_append a b, String.append_assoc]

private def argFrag (idx : Nat) (a : String) : Act := Act.frag ⟨idx, "", "", a⟩

/-- Argument-only fragments while tool block `n` is the open, last block: the pieces are
    appended to the last entry and to nothing else; the block state does not move. -/
private theorem collect_argFrags (cfg : Cfg) (idx n : Nat) : ∀ (ps : List String) (es0 : List Entry) (e : Entry),
    (∀ x ∈ es0, x.i < n) → e.i = n →
    collect (es0 ++ [e]) (actsOut cfg ⟨.tool, n, n + 1⟩ (ps.map (argFrag idx))) =
        es0 ++ [{ e with args := e.args ++ cat ps }] ∧
      actsEnd cfg ⟨.tool, n, n + 1⟩ (ps.map (argFrag idx)) = ⟨.tool, n, n + 1⟩
  | [], es0, e, _, _ => by simp [actsOut, actsEnd, collect, cat]
  | a :: ps, es0, e, h0, he => by
    have hstep : actStep cfg ⟨.tool, n, n + 1⟩ (argFrag idx a) =
        (⟨.tool, n, n + 1⟩, if (a != "") = true then [OutEv.delta n (.json a)] else []) := by
      simp [actStep, argFrag, fragStep, Frag.isStart]
    simp only [List.map_cons, actsOut, actsEnd, hstep, collect_append]
    by_cases ha : (a != "") = true
    · simp only [ha, if_true, collect]
      have hmap : (es0 ++ [e]).map (fun x => if x.i = n then { x with args := x.args ++ a } else x) =
          es0 ++ [{ e with args := e.args ++ a }] := by
        rw [List.map_append]
        congr 1
        · conv => rhs; rw [← List.map_id es0]
          apply List.map_congr_left
          intro x hx
          have := h0 x hx
          simp [Nat.ne_of_lt this]
        · simp [he]
      rw [hmap]
      obtain ⟨h1, h2⟩ := collect_argFrags cfg idx n ps es0 { e with args := e.args ++ a } h0 he
      refine ⟨?_, h2⟩
      rw [h1]; simp [cat, String.append_assoc]
    · have ha0 : a = "" := by simpa [bne] using ha
      subst ha0
      simp only [bne_self_eq_false, Bool.false_eq_true, if_false, collect]
      obtain ⟨h1, h2⟩ := collect_argFrags cfg idx n ps es0 e h0 he
      refine ⟨?_, h2⟩
      rw [h1]; simp [cat]

/-- Text actions never touch the tool entries and never lower the block counter. -/
private theorem collect_texts (cfg : Cfg) : ∀ (ts : List String) (b : Blk) (es : List Entry),
    collect es (actsOut cfg b (ts.map Act.text)) = es ∧
      b.nblocks ≤ (actsEnd cfg b (ts.map Act.text)).nblocks
  | [], b, es => by simp [actsOut, actsEnd, collect]
  | t :: ts, b, es => by
    simp only [List.map_cons, actsOut, actsEnd, collect_append]
    have hs : collect es (actStep cfg b (Act.text t)).2 = es ∧
        b.nblocks ≤ (actStep cfg b (Act.text t)).1.nblocks := by
      simp only [actStep, contentStep]
      cases b.cur <;> simp [collect]
    obtain ⟨h1, h2⟩ := collect_texts cfg ts (actStep cfg b (Act.text t)).1 es
    rw [hs.1]
    exact ⟨h1, Nat.le_trans hs.2 h2⟩

private theorem collect_segs (cfg : Cfg) : ∀ (segs : List Seg) (b : Blk) (es : List Entry),
    (∀ x ∈ es, x.i < b.nblocks) → segCallsOk segs = true →
    (collect es (actsOut cfg b (segs.flatMap segActs))).map proj = es.map proj ++ segCalls segs
  | [], b, es, _, _ => by simp [actsOut, collect, segCalls]
  | .text ps :: r, b, es, h0, hc => by
    simp only [List.flatMap_cons, segActs, actsOut_append, collect_append, segCalls]
    obtain ⟨h1, h2⟩ := collect_texts cfg (ps.filter (· != "")) b es
    rw [h1]
    exact collect_segs cfg r _ es (fun x hx => Nat.lt_of_lt_of_le (h0 x hx) h2)
      (by simpa [segCallsOk] using hc)
  | .call idx id name first ps :: r, b, es, h0, hc => by
    simp only [segCallsOk, Bool.and_eq_true] at hc
    obtain ⟨⟨hid, hname⟩, hcr⟩ := hc
    have hstart : (⟨idx, id, name, first⟩ : Frag).isStart = true := by simp [Frag.isStart, hid, hname]
    simp only [List.flatMap_cons, segActs, List.cons_append, actsOut, actsOut_append, collect_append,
      segCalls]
    -- the opening fragment
    have hopen : (actStep cfg b (Act.frag ⟨idx, id, name, first⟩)).1 = ⟨.tool, b.nblocks, b.nblocks + 1⟩ ∧
        collect es (actStep cfg b (Act.frag ⟨idx, id, name, first⟩)).2 = es ++ [⟨b.nblocks, id, name, first⟩] := by
      simp only [actStep, fragStep, hstart, if_true, initTool]
      refine ⟨trivial, ?_⟩
      have hmap : ∀ s : String, (es ++ [(⟨b.nblocks, id, name, ""⟩ : Entry)]).map
          (fun x => if x.i = b.nblocks then { x with args := x.args ++ s } else x) =
          es ++ [⟨b.nblocks, id, name, s⟩] := by
        intro s
        rw [List.map_append]
        congr 1
        · conv => rhs; rw [← List.map_id es]
          apply List.map_congr_left
          intro x hx
          have := h0 x hx
          simp [Nat.ne_of_lt this]
        · simp
      by_cases hf : (first != "") = true
      · cases b.cur <;> cases cfg.toolClose <;> simp [collect, hf, hmap]
      · have hf0 : first = "" := by simpa [bne] using hf
        subst hf0
        cases b.cur <;> cases cfg.toolClose <;> simp [collect]
    rw [hopen.1, hopen.2]
    obtain ⟨h1, h2⟩ := collect_argFrags cfg idx b.nblocks ps es ⟨b.nblocks, id, name, first⟩ h0 rfl
    have hmapf : ps.map (fun a => Act.frag ⟨idx, "", "", a⟩) = ps.map (argFrag idx) := rfl
    rw [hmapf, h1, h2]
    have ih := collect_segs cfg r ⟨.tool, b.nblocks, b.nblocks + 1⟩
      (es ++ [⟨b.nblocks, id, name, first ++ cat ps⟩])
      (by
        intro x hx
        rcases List.mem_append.mp hx with hx | hx
        · exact Nat.lt_succ_of_lt (h0 x hx)
        · simp at hx; subst hx; exact Nat.lt_succ_self _) hcr
    rw [ih]
    simp [proj]

/-- **Tool calls lossless**: for every completion `segs` (any mix of text runs and tool calls,
    calls with non-empty id and name) and EVERY rendering of it into lines, the client
    reassembles exactly the completion's calls — id, name and the concatenated arguments, in
    order.  (Holds for the pinned `toolClose` behaviour too: the unclosed block still gets its
    own index.)  The pinned `mixedDelta` behaviour needs the excluding condition. -/
theorem C13_tool_lossless (cfg : Cfg) (lines : List Line) (segs : List Seg)
    (hm : cfg.mixedDelta = .fixed ∨ noMixed lines = true)
    (hr : renders lines segs = true) (hc : segCallsOk segs = true) :
    toolsOf (run cfg lines) = segCalls segs := by
  have hr' : allActs lines = segs.flatMap segActs := by simpa [renders] using hr
  have := collect_segs cfg segs {} [] (by simp) hc
  simp only [toolsOf, run, collect_runFrom, cacts_eq cfg lines hm, hr']
  simp only [List.map_nil, List.nil_append] at this
  exact this

theorem C13_tool_lossless_fixed (lines : List Line) (segs : List Seg)
    (hr : renders lines segs = true) (hc : segCallsOk segs = true) :
    toolsOf (run fixed lines) = segCalls segs :=
  C13_tool_lossless fixed lines segs (Or.inl rfl) hr hc

theorem C13_tool_lossless_partial (lines : List Line) (segs : List Seg) (hm : noMixed lines = true)
    (hr : renders lines segs = true) (hc : segCallsOk segs = true) :
    toolsOf (run pinned lines) = segCalls segs :=
  C13_tool_lossless pinned lines segs (Or.inr hm) hr hc

/-- A delta that carries text and a complete tool call. -/
def mixedWitness : List Line :=
  [.chunk { model := some "m", content := some "hi", tools := some [⟨0, "call_a", "f", "{}"⟩] },
   .chunk { finish := some "tool_calls" }]

/-- Without the excluding condition the statement is FALSE for the pinned tree: the call in a
    delta that also carries text is dropped. -/
theorem C13_mixed_delta_witness :
    renders mixedWitness [.text ["hi"], .call 0 "call_a" "f" "{}" []] = true ∧
      toolsOf (run pinned mixedWitness) = [] ∧
      toolsOf (run fixed mixedWitness) = [("call_a", "f", "{}")] := by
  decide

/-! ### Stop reason and usage -/

private theorem msgDeltas_append : ∀ (a b : List OutEv), msgDeltas (a ++ b) = msgDeltas a ++ msgDeltas b
  | [], _ => by simp [msgDeltas]
  | e :: a, b => by cases e <;> simp [msgDeltas, msgDeltas_append a b]

private theorem msgDeltas_block : ∀ (l : List OutEv), (∀ e ∈ l, isBlockEv e = true) → msgDeltas l = []
  | [], _ => rfl
  | e :: l, h => by
    have he := h e (by simp)
    have ih := msgDeltas_block l (fun x hx => h x (by simp [hx]))
    cases e <;> simp_all [msgDeltas, isBlockEv]

private theorem msgDeltas_step (cfg : Cfg) (st : St) (l : Line) : msgDeltas (stepLine cfg st l).2 = [] := by
  cases l with
  | ignored => simp [stepLine, msgDeltas]
  | chunk c =>
    by_cases ht : (chunkActs cfg c).1 = true
    · simp only [stepLine, ht, if_true, ensureStart, msgDeltas_append,
        msgDeltas_block _ (actsOut_block cfg _ _)]
      cases (updMeta cfg st c).started <;> simp [msgDeltas]
    · have ht0 : (chunkActs cfg c).1 = false := by simpa using ht
      simp [stepLine, ht0, msgDeltas]

private theorem step_meta (cfg : Cfg) (st : St) (c : Chunk) :
    (stepLine cfg st (.chunk c)).1.finish = (updMeta cfg st c).finish ∧
    (stepLine cfg st (.chunk c)).1.inTok = (updMeta cfg st c).inTok ∧
    (stepLine cfg st (.chunk c)).1.outTok = (updMeta cfg st c).outTok := by
  by_cases ht : (chunkActs cfg c).1 = true
  · simp only [stepLine, ht, if_true, ensureStart]
    cases (updMeta cfg st c).started <;> simp
  · have ht0 : (chunkActs cfg c).1 = false := by simpa using ht
    simp [stepLine, ht0]

private theorem updMeta_finish (cfg : Cfg) (st : St) (c : Chunk) :
    (updMeta cfg st c).finish =
      (if c.choice then (match c.finish with | some f => if f != "" then f else st.finish | none => st.finish)
       else st.finish) := by
  unfold updMeta
  cases c.choice <;> cases c.finish <;> cases c.usage <;> cases cfg.usageChunk <;> simp <;>
    (repeat' split) <;> simp_all

private theorem updMeta_usage (cfg : Cfg) (st : St) (c : Chunk)
    (h : cfg.usageChunk = .fixed ∨ c.choice = true ∨ c.usage = none) :
    ((updMeta cfg st c).inTok, (updMeta cfg st c).outTok) =
      (match c.usage with | some (p, q) => (p.getD st.inTok, q.getD st.outTok) | none => (st.inTok, st.outTok)) := by
  unfold updMeta
  rcases h with h | h | h
  · simp only [h, decide_true, Bool.or_true, if_true]
    cases c.usage with
    | none => (repeat' split) <;> simp_all
    | some pq => obtain ⟨p, q⟩ := pq; (repeat' split) <;> simp_all
  · simp only [h, Bool.true_or, if_true]
    cases c.usage with
    | none => (repeat' split) <;> simp_all
    | some pq => obtain ⟨p, q⟩ := pq; (repeat' split) <;> simp_all
  · simp only [h]
    (repeat' split) <;> simp_all

private theorem msgDeltas_runFrom (cfg : Cfg) : ∀ (lines : List Line) (st : St),
    (cfg.usageChunk = .fixed ∨ usageOnlyWithChoice lines = true) →
    msgDeltas (runFrom cfg st lines) =
      [(stopOf (lastFinish st.finish lines), (lastUsage (st.inTok, st.outTok) lines).1,
        (lastUsage (st.inTok, st.outTok) lines).2)]
  | [], st, _ => by
    simp only [runFrom, finish, closeOpen, lastFinish, lastUsage]
    cases st.started <;> cases st.blk.cur <;> simp [msgDeltas]
  | l :: ls, st, hu => by
    have hu' : cfg.usageChunk = .fixed ∨ usageOnlyWithChoice ls = true := by
      rcases hu with hu | hu
      · exact Or.inl hu
      · right; unfold usageOnlyWithChoice at *; simp only [List.all_cons, Bool.and_eq_true] at hu; exact hu.2
    simp only [runFrom, msgDeltas_append, msgDeltas_step, List.nil_append, msgDeltas_runFrom cfg ls _ hu']
    cases l with
    | ignored => simp [stepLine, lastFinish, lastUsage]
    | chunk c =>
      have hc : cfg.usageChunk = .fixed ∨ c.choice = true ∨ c.usage = none := by
        rcases hu with hu | hu
        · exact Or.inl hu
        · right; unfold usageOnlyWithChoice at hu; simp only [List.all_cons, Bool.and_eq_true] at hu
          have := hu.1
          cases hch : c.choice <;> simp_all
      obtain ⟨h1, h2, h3⟩ := step_meta cfg st c
      have hU := updMeta_usage cfg st c hc
      have hF := updMeta_finish cfg st c
      simp only [lastFinish, lastUsage]
      rw [h1, h2, h3, hF]
      have h2' : (updMeta cfg st c).inTok = (match c.usage with | some (p, q) => (p.getD st.inTok, q.getD st.outTok) | none => (st.inTok, st.outTok)).1 := by
        rw [← hU]
      have h3' : (updMeta cfg st c).outTok = (match c.usage with | some (p, q) => (p.getD st.inTok, q.getD st.outTok) | none => (st.inTok, st.outTok)).2 := by
        rw [← hU]
      rw [h2', h3']
      rfl

/-- **Stop reason and usage**: the stream carries exactly one message_delta; its stop_reason is
    the compiled table's translation of the LAST non-empty finish_reason the backend sent and
    its usage is the last prompt/completion token counts the backend sent.  The pinned
    `usageChunk` behaviour needs the excluding condition (usage only on chunks that carry a
    choice). -/
theorem C13_stop_usage (cfg : Cfg) (lines : List Line)
    (hu : cfg.usageChunk = .fixed ∨ usageOnlyWithChoice lines = true) :
    msgDeltas (run cfg lines) =
      [(stopOf (lastFinish "" lines), (lastUsage (0, 0) lines).1, (lastUsage (0, 0) lines).2)] := by
  simpa [run] using msgDeltas_runFrom cfg lines {} hu

theorem C13_stop_usage_fixed (lines : List Line) :
    msgDeltas (run fixed lines) =
      [(stopOf (lastFinish "" lines), (lastUsage (0, 0) lines).1, (lastUsage (0, 0) lines).2)] :=
  C13_stop_usage fixed lines (Or.inl rfl)

theorem C13_stop_usage_partial (lines : List Line) (hu : usageOnlyWithChoice lines = true) :
    msgDeltas (run pinned lines) =
      [(stopOf (lastFinish "" lines), (lastUsage (0, 0) lines).1, (lastUsage (0, 0) lines).2)] :=
  C13_stop_usage pinned lines (Or.inr hu)

/-- The documented finish reasons are translated as documented, in the stream as in the table. -/
theorem C13_stop_documented (cfg : Cfg) (lines : List Line)
    (hu : cfg.usageChunk = .fixed ∨ usageOnlyWithChoice lines = true) :
    ∀ d ∈ msgDeltas (run cfg lines), stopOk (lastFinish "" lines) d.1 = true := by
  intro d hd
  rw [C13_stop_usage cfg lines hu] at hd
  simp at hd
  subst hd
  show stopOk (lastFinish "" lines) (stopOf (lastFinish "" lines)) = true
  unfold stopOk
  cases hf : stopDemanded.find? (fun r => r.1 == lastFinish "" lines) with
  | none => rfl
  | some r =>
    have hm := List.mem_of_find?_eq_some hf
    have hk : r.1 = lastFinish "" lines := by simpa using List.find?_some hf
    have := gen_stop_documented r hm
    simp [← hk, this]

/-- The standard OpenAI stream with `stream_options.include_usage`: usage arrives in a final
    chunk whose `choices` array is empty. -/
def usageWitness : List Line :=
  [.chunk { model := some "m", content := some "hi" },
   .chunk { finish := some "stop" },
   .chunk { choice := false, delta := false, usage := some (some 7, some 9) }]

/-- Without the excluding condition the statement is FALSE for the pinned tree: the usage of a
    chunk without choices is ignored and the client is told 0/0. -/
theorem C13_usage_chunk_witness :
    lastUsage (0, 0) usageWitness = (7, 9) ∧
      msgDeltas (run pinned usageWitness) = [("end_turn", 0, 0)] ∧
      msgDeltas (run fixed usageWitness) = [("end_turn", 7, 9)] := by
  decide

/-! ### Streamed = buffered -/

private theorem cat_filter : ∀ (ps : List String), cat (ps.filter (· != "")) = cat ps
  | [] => rfl
  | p :: ps => by
    by_cases hp : (p != "") = true
    · simp [hp, cat, cat_filter ps]
    · have : p = "" := by simpa [bne] using hp
      subst this
      simp [cat, cat_filter ps]

private theorem actTexts_texts (ts : List String) : actTexts (ts.map Act.text) = ts := by
  induction ts with
  | nil => rfl
  | cons t r ih => simp [actTexts, ih]

private theorem segText_eq : ∀ (segs : List Seg), cat (actTexts (segs.flatMap segActs)) = segText segs
  | [] => rfl
  | .text ps :: r => by
    simp [List.flatMap_cons, segActs, actTexts_append, actTexts_texts, cat_append, cat_filter, segText, segText_eq r]
  | .call idx id name first ps :: r => by
    have : (ps.map (fun a => Act.frag ⟨idx, "", "", a⟩)) = (ps.map (fun a => (⟨idx, "", "", a⟩ : Frag))).map Act.frag := by
      simp
    simp only [List.flatMap_cons, segActs, List.cons_append, actTexts, actTexts_append, this, actTexts_frags,
      List.nil_append, segText, segText_eq r]

private def toB (c : String × String × String) : BBlock := .tool c.1 c.2.1 c.2.2

private theorem bblocks_tools : ∀ (cs : List (String × String × String)),
    bblockTools (cs.map toB) = cs ∧ bblockTexts (cs.map toB) = []
  | [] => ⟨rfl, rfl⟩
  | c :: r => by
    obtain ⟨h1, h2⟩ := bblocks_tools r
    simp only [List.map_cons, toB, bblockTools, bblockTexts]
    exact ⟨by rw [h1], h2⟩

/-- **Streamed = buffered**: take any completion `segs` (valid calls), any rendering of it as a
    stream whose last finish_reason is `fin` and last usage is `(p, q)`, and the buffered OpenAI
    response carrying the same completion (all text in `message.content`, the calls in
    `message.tool_calls`, the same finish_reason and usage).  Then what the client ends up with
    — text, tool calls (id, name, arguments, in order), stop reason, usage — is the same
    whichever way it was delivered.  (Empty text blocks do not matter: the summary
    concatenates.  The relative position of text and tool blocks is not part of the summary;
    the buffered form always puts the text first.) -/
theorem C13_stream_eq_buffered (cfg : Cfg) (lines : List Line) (segs : List Seg) (fin : String) (p q : Int)
    (hm : cfg.mixedDelta = .fixed ∨ noMixed lines = true)
    (hu : cfg.usageChunk = .fixed ∨ usageOnlyWithChoice lines = true)
    (hr : renders lines segs = true) (hc : segCallsOk segs = true)
    (hf : lastFinish "" lines = fin) (hq : lastUsage (0, 0) lines = (p, q)) :
    ofStream (run cfg lines) =
      some (ofMessage (convertResponse (bufferedOf segs (some fin) (some (some p, some q))))) := by
  have hr' : allActs lines = segs.flatMap segActs := by simpa [renders] using hr
  have htext : textOf (run cfg lines) = segText segs := by
    rw [C13_text_lossless, inText, hr', segText_eq]
  have htools := C13_tool_lossless cfg lines segs hm hr hc
  have hd := C13_stop_usage cfg lines hu
  rw [hf, hq] at hd
  simp only [ofStream, hd, htext, htools]
  obtain ⟨hbt, hbx⟩ := bblocks_tools (segCalls segs)
  have hmm : ((segCalls segs).map (fun c => (⟨c.1, c.2.1, c.2.2⟩ : BCall))).map
      (fun c => BBlock.tool c.id c.name c.args) = (segCalls segs).map toB := by
    rw [List.map_map]; rfl
  simp only [ofMessage, convertResponse, bufferedOf, convertContent, Option.getD_some, hmm]
  by_cases hs : (segText segs != "") = true
  · simp only [hs, if_true]
    simp [bblockTexts, bblockTools, hbt, hbx, cat]
  · have hs0 : segText segs = "" := by simpa [bne] using hs
    simp only [hs0, bne_self_eq_false, Bool.false_eq_true, if_false, List.nil_append]
    cases hcalls : segCalls segs with
    | nil => simp [bblockTexts, bblockTools, cat]
    | cons c r =>
      rw [hcalls] at hbt hbx
      simp only [List.map_cons, List.isEmpty_cons, Bool.false_eq_true, if_false] at hbt hbx ⊢
      simp [hbt, hbx, cat]

/-! ### Non-vacuity -/

/-- A stream with text, two tool calls whose arguments arrive in pieces, usage in the finish
    chunk, and junk lines in between. -/
def sample : List Line :=
  [.ignored,
   .chunk { model := some "m", content := some "" },
   .chunk { content := some "Hel" }, .chunk { content := some "lo" }, .ignored,
   .chunk { tools := some [⟨0, "call_a", "f", ""⟩] },
   .chunk { tools := some [⟨0, "", "", "{\"a\""⟩] }, .chunk { tools := some [⟨0, "", "", ":1}"⟩] },
   .chunk { content := some "and" },
   .chunk { tools := some [⟨1, "call_b", "g", "{}"⟩] },
   .chunk { finish := some "tool_calls", usage := some (some 11, some 5) }]

def sampleSegs : List Seg :=
  [.text ["Hel", "lo"], .call 0 "call_a" "f" "" ["{\"a\"", ":1}"], .text ["and"], .call 1 "call_b" "g" "{}" []]

example : orderly true sample = true ∧ noMixed sample = true ∧ usageOnlyWithChoice sample = true ∧
    renders sample sampleSegs = true ∧ segCallsOk sampleSegs = true := by decide
example : wellFormed (run pinned sample) = true := by decide
example : run pinned sample = run fixed sample := by decide
example : textOf (run pinned sample) = "Helloand" := by decide
example : toolsOf (run pinned sample) = [("call_a", "f", "{\"a\":1}"), ("call_b", "g", "{}")] := by decide
example : msgDeltas (run pinned sample) = [("tool_use", 11, 5)] := by decide
/-- The recogniser rejects: a missing stop, a delta to a closed block, a skipped index, a
    second message_start, a text delta into a tool block. -/
example : wellFormed [.msgStart "m" 0, .blockStart 0 .text, .msgDelta "end_turn" 0 0, .msgStop] = false := by decide
example : wellFormed [.msgStart "m" 0, .blockStart 0 .text, .blockStop 0, .delta 0 (.text "x"), .msgDelta "end_turn" 0 0, .msgStop] = false := by decide
example : wellFormed [.msgStart "m" 0, .blockStart 1 .text, .blockStop 1, .msgDelta "end_turn" 0 0, .msgStop] = false := by decide
example : wellFormed [.msgStart "m" 0, .msgStart "m" 0, .msgDelta "end_turn" 0 0, .msgStop] = false := by decide
example : wellFormed [.msgStart "m" 0, .blockStart 0 (.tool "a" "f"), .delta 0 (.text "x"), .blockStop 0, .msgDelta "end_turn" 0 0, .msgStop] = false := by decide
example : wellFormed [.msgStart "m" 0, .msgDelta "end_turn" 0 0, .msgStop] = true := by decide
/-- Fragments of two calls interleaved: only the frame is promised (C13_total), and indeed the
    grammar fails. -/
example : orderly false [.chunk { tools := some [⟨0, "", "", "{}"⟩] }] = false ∧
    framed (run fixed [.chunk { tools := some [⟨0, "", "", "{}"⟩] }]) = true ∧
    wellFormed (run fixed [.chunk { tools := some [⟨0, "", "", "{}"⟩] }]) = false := by decide

/-! ### Refusing bodies that are no completion stream

The repaired translator refuses (error, nothing written) exactly the bodies without a chunk and
without `[DONE]`; every completion stream is translated, and by `run`, so every theorem above
applies to whatever it emits. -/

theorem C13_transform_is_run (v : Variant) (cfg : Cfg) (d : Bool) (lines : List Line) (evs : List OutEv)
    (h : transform v cfg d lines = some evs) : evs = run cfg lines := by
  unfold transform at h
  split at h
  · cases h
  · exact (Option.some.inj h).symm

theorem C13_completions_never_refused (v : Variant) (cfg : Cfg) (d : Bool) (lines : List Line)
    (h : isStream d lines = true) : transform v cfg d lines = some (run cfg lines) := by
  unfold transform
  simp [h]

theorem C13_refused_iff_not_a_stream (cfg : Cfg) (d : Bool) (lines : List Line) :
    transform .fixed cfg d lines = none ↔ isStream d lines = false := by
  unfold transform
  cases isStream d lines <;> simp

/-! ### tie: no process-wide state on the modelled path

The theorems above are about single calls (or the history of one object). They cover every
request of a running process only if a call reaches no state that outlives it besides that
object. `Olla.Gen.State` is re-read from the source on every run: the package-level variables
reachable from each function inside its package that the package changes after initialisation. -/
theorem C13_tie_no_process_wide_state :
    Olla.Spec.State.reachesOnly "anthropic.TransformResponse" [] = true ∧
    Olla.Spec.State.reachesOnly "anthropic.TransformStreamingResponse" [] = true := by decide

end Olla.Props.C13
