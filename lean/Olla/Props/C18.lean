/-
C18 — Streams flow live, stalled backends are cut off, and cancellations propagate.
Theorems about the timed loop models of `Olla.Model.Streaming`, for every backend schedule (any
number of chunks, any sizes, any pauses), either streaming mode, and every client-abort time.
-/
import Olla.Model.Streaming
import Olla.Spec.C18

namespace Olla.Props.C18
open Olla.Model.Streaming Olla.Spec.C18

/-- A run of chunks each arriving after a pause strictly shorter than the read timeout. -/
def Short {α : Type} (T : Int) (pre : Sched α) : Prop := ∀ e ∈ pre, e.1 < T ∧ ∃ b, e.2 = Ev.chunk b

/-! ### Small facts -/

private theorem giveUp_out {α : Type} (c : Cancel) (T : Int) (ab : Option Abort) (now : Int) :
    (giveUp (α := α) c T ab now).out = [] := by
  unfold giveUp; cases ab with
  | none => rfl
  | some a => simp only; split <;> rfl

private theorem blocked_out {α : Type} (ab : Option Abort) (now : Int) : (blocked (α := α) ab now).out = [] := by
  unfold blocked; cases ab with
  | none => rfl
  | some a => simp only; split <;> rfl

private theorem push_out {α : Type} (pre : Trace α) (r : Result α) : (r.push pre).out = pre ++ r.out := rfl
private theorem push_outcome {α : Type} (pre : Trace α) (r : Result α) : (r.push pre).outcome = r.outcome := rfl
private theorem push_endT {α : Type} (pre : Trace α) (r : Result α) : (r.push pre).endT = r.endT := rfl

private theorem flushed_emit {α : Type} (t : Int) (b : List α) (tr : Trace α) :
    flushedEach (outs (emitChunk true t b ++ tr)) = flushedEach (outs tr) := by
  simp [emitChunk, outs, flushedEach]

private theorem noFlush_emit {α : Type} (t : Int) (b : List α) (tr : Trace α) :
    noFlush (outs (emitChunk false t b ++ tr)) = noFlush (outs tr) := by
  simp [emitChunk, outs, noFlush]

/-! ### Flush after every chunk -/

private theorem watch_flushed {α : Type} (c : Cancel) (T : Int) (ab : Option Abort) :
    ∀ (s : Sched α) (now : Int), flushedEach (outs (watchLoop c T true ab now s).out) = true
  | [], now => by simp [watchLoop, giveUp_out, outs, flushedEach]
  | (g, ev) :: rest, now => by
    unfold watchLoop
    split
    · cases ev with
      | chunk b => simp only [push_out, flushed_emit]; exact watch_flushed c T ab rest (now + g)
      | last b => simp [emitChunk, outs, flushedEach]
      | eof => simp [outs, flushedEach]
      | err => simp [outs, flushedEach]
      | stallForever => simp [giveUp_out, outs, flushedEach]
    · simp [giveUp_out, outs, flushedEach]

private theorem poll_flushed {α : Type} (T : Int) (ab : Option Abort) :
    ∀ (s : Sched α) (late : Bool) (now : Int), flushedEach (outs (pollLoop T true ab late now s).out) = true
  | s, true, now => by cases s <;> simp [pollLoop, outs, flushedEach]
  | [], false, now => by simp [pollLoop, blocked_out, outs, flushedEach]
  | (g, ev) :: rest, false, now => by
    unfold pollLoop
    split
    · simp [blocked_out, outs, flushedEach]
    · cases ev with
      | chunk b => simp only [push_out, flushed_emit]; exact poll_flushed T ab rest _ (now + g)
      | last b => simp [emitChunk, outs, flushedEach]
      | eof => simp [outs, flushedEach]
      | err => simp [outs, flushedEach]
      | stallForever => simp [blocked_out, outs, flushedEach]

/-- **Streaming mode on ⇒ every chunk write is followed by a flush before the next read** — sherpa,
    for every schedule, timeout, abort. -/
theorem flush_per_chunk_sherpa {α : Type} (T grace : Int) (ab : Option Abort) (now : Int) (s : Sched α) :
    flushedEach (outs (sherpaLoop T grace true ab now s).out) = true :=
  watch_flushed _ T ab s now

/-- … and olla, pinned or fixed. -/
theorem flush_per_chunk_olla {α : Type} (v : Variant) (T : Int) (ab : Option Abort) (now : Int) (s : Sched α) :
    flushedEach (outs (ollaLoop v T true ab now s).out) = true := by
  cases v
  · exact poll_flushed T ab s false now
  · exact watch_flushed _ T ab s now

private theorem watch_noflush {α : Type} (c : Cancel) (T : Int) (ab : Option Abort) :
    ∀ (s : Sched α) (now : Int), noFlush (outs (watchLoop c T false ab now s).out) = true
  | [], now => by simp [watchLoop, giveUp_out, outs, noFlush]
  | (g, ev) :: rest, now => by
    unfold watchLoop
    split
    · cases ev with
      | chunk b => simp only [push_out, noFlush_emit]; exact watch_noflush c T ab rest (now + g)
      | last b => simp [emitChunk, outs, noFlush]
      | eof => simp [outs, noFlush]
      | err => simp [outs, noFlush]
      | stallForever => simp [giveUp_out, outs, noFlush]
    · simp [giveUp_out, outs, noFlush]

private theorem poll_noflush {α : Type} (T : Int) (ab : Option Abort) :
    ∀ (s : Sched α) (late : Bool) (now : Int), noFlush (outs (pollLoop T false ab late now s).out) = true
  | s, true, now => by cases s <;> simp [pollLoop, outs, noFlush]
  | [], false, now => by simp [pollLoop, blocked_out, outs, noFlush]
  | (g, ev) :: rest, false, now => by
    unfold pollLoop
    split
    · simp [blocked_out, outs, noFlush]
    · cases ev with
      | chunk b => simp only [push_out, noFlush_emit]; exact poll_noflush T ab rest _ (now + g)
      | last b => simp [emitChunk, outs, noFlush]
      | eof => simp [outs, noFlush]
      | err => simp [outs, noFlush]
      | stallForever => simp [blocked_out, outs, noFlush]

/-- **Streaming mode off ⇒ the loops never flush** (profile `standard`, buffered content). -/
theorem no_flush_when_buffered {α : Type} (v : Variant) (T grace : Int) (ab : Option Abort) (now : Int) (s : Sched α) :
    noFlush (outs (sherpaLoop T grace false ab now s).out) = true ∧
    noFlush (outs (ollaLoop v T false ab now s).out) = true := by
  refine ⟨watch_noflush _ T ab s now, ?_⟩
  cases v
  · exact poll_noflush T ab s false now
  · exact watch_noflush _ T ab s now

/-! ### A pause shorter than the timeout never cuts the stream; a completed stream is delivered whole -/

private theorem short_cons {α : Type} {T : Int} {g : Int} {ev : Ev α} {pre : Sched α} (h : Short T ((g, ev) :: pre)) :
    g < T ∧ (∃ b, ev = Ev.chunk b) ∧ Short T pre :=
  ⟨(h _ (List.mem_cons_self)).1, (h _ (List.mem_cons_self)).2, fun e he => h e (List.mem_cons_of_mem _ he)⟩

private theorem watch_prefix {α : Type} (c : Cancel) (T : Int) (st : Bool) :
    ∀ (pre rest : Sched α) (now : Int), Short T pre →
      watchLoop c T st none now (pre ++ rest) = (watchLoop c T st none (now + total pre) rest).push (liveTrace st now pre)
  | [], rest, now, _ => by simp [total, liveTrace, Result.push]
  | (g, ev) :: pre, rest, now, h => by
    obtain ⟨hg, ⟨b, hb⟩, hs⟩ := short_cons h
    subst hb
    have ih := watch_prefix c T st pre rest (now + g) hs
    simp only [List.cons_append, watchLoop, abortedBefore, hg, and_self, if_true, ih, total, liveTrace, Result.push,
      List.append_assoc, Int.add_assoc]

private theorem poll_prefix {α : Type} (T : Int) (st : Bool) :
    ∀ (pre rest : Sched α) (now : Int), Short T pre →
      pollLoop T st none false now (pre ++ rest) = (pollLoop T st none false (now + total pre) rest).push (liveTrace st now pre)
  | [], rest, now, _ => by simp [total, liveTrace, Result.push]
  | (g, ev) :: pre, rest, now, h => by
    obtain ⟨hg, ⟨b, hb⟩, hs⟩ := short_cons h
    subst hb
    have ih := poll_prefix T st pre rest (now + g) hs
    have hl : decide (T ≤ g) = false := by simp; omega
    simp only [List.cons_append, pollLoop, abortedBefore, hl, ih, total, liveTrace, Result.push,
      List.append_assoc, Int.add_assoc]
    simp

private theorem written_live {α : Type} (st : Bool) : ∀ (pre : Sched α) (now : Int), (∀ e ∈ pre, ∃ b, e.2 = Ev.chunk b) →
    written (outs (liveTrace st now pre)) = payload pre
  | [], _, _ => rfl
  | (g, ev) :: pre, now, hs => by
    obtain ⟨b, hb⟩ := hs _ (List.mem_cons_self)
    subst hb
    have ih := written_live st pre (now + g) (fun e he => hs e (List.mem_cons_of_mem _ he))
    cases st <;> simp [liveTrace, emitChunk, outs, written, payload] at ih ⊢ <;> exact ih

/-- **A pause shorter than the read timeout never cuts the stream** (sherpa): however the schedule goes on,
    the chunks of a run of short pauses are all written, at the times they arrived, and the loop carries on
    from there exactly as if it had started at that moment. -/
theorem pause_not_cut_sherpa {α : Type} (T grace : Int) (st : Bool) (pre rest : Sched α) (now : Int) (h : Short T pre) :
    sherpaLoop T grace st none now (pre ++ rest)
      = (sherpaLoop T grace st none (now + total pre) rest).push (liveTrace st now pre) :=
  watch_prefix _ T st pre rest now h

/-- … and olla, pinned or fixed. -/
theorem pause_not_cut_olla {α : Type} (v : Variant) (T : Int) (st : Bool) (pre rest : Sched α) (now : Int) (h : Short T pre) :
    ollaLoop v T st none now (pre ++ rest)
      = (ollaLoop v T st none (now + total pre) rest).push (liveTrace st now pre) := by
  cases v
  · exact poll_prefix T st pre rest now h
  · exact watch_prefix _ T st pre rest now h

/-- **A schedule of short pauses that ends in EOF is delivered whole and in order**: the loop reports
    completion at the moment EOF arrives and the concatenated writes are the concatenated chunks. -/
theorem complete_delivery_sherpa {α : Type} [DecidableEq α] (T grace : Int) (st : Bool) (chunks : Sched α) (ge now : Int)
    (h : Short T chunks) (hge : ge < T) :
    let r := sherpaLoop T grace st none now (chunks ++ [(ge, Ev.eof)])
    r.outcome = some Outcome.complete ∧ r.endT = now + total chunks + ge ∧
    deliveredWhole (payload chunks) (written (outs r.out)) = true := by
  intro r
  have e : r = _ := pause_not_cut_sherpa T grace st chunks [(ge, Ev.eof)] now h
  have hw := written_live st chunks now (fun e he => (h e he).2)
  simp only [sherpaLoop, watchLoop, abortedBefore, hge, and_self, if_true] at e
  simp [e, Result.push, deliveredWhole, hw]

theorem complete_delivery_olla {α : Type} [DecidableEq α] (v : Variant) (T : Int) (st : Bool) (chunks : Sched α) (ge now : Int)
    (h : Short T chunks) (hge : ge < T) :
    let r := ollaLoop v T st none now (chunks ++ [(ge, Ev.eof)])
    r.outcome = some Outcome.complete ∧ r.endT = now + total chunks + ge ∧
    deliveredWhole (payload chunks) (written (outs r.out)) = true := by
  intro r
  have e : r = _ := pause_not_cut_olla v T st chunks [(ge, Ev.eof)] now h
  have hw := written_live st chunks now (fun e he => (h e he).2)
  cases v
  · simp only [ollaLoop, pollLoop, abortedBefore] at e
    simp at e
    simp [e, Result.push, deliveredWhole, hw]
  · simp only [ollaLoop, watchLoop, abortedBefore, hge, and_self, if_true] at e
    simp [e, Result.push, deliveredWhole, hw]

private theorem written_append {α : Type} (a b : Trace α) : written (outs (a ++ b)) = written (outs a) ++ written (outs b) := by
  induction a with
  | nil => simp [outs, written]
  | cons e tl ih =>
    obtain ⟨t, o⟩ := e
    cases o <;> simp [outs, written] at ih ⊢ <;> exact ih

private theorem written_emit {α : Type} (st : Bool) (t : Int) (b : List α) : written (outs (emitChunk st t b)) = b := by
  cases st <;> simp [emitChunk, outs, written]

/-- The same for a Content-Length body, whose final bytes arrive together with EOF (`Ev.last`). -/
theorem complete_delivery_content_length {α : Type} [DecidableEq α] (v : Variant) (T grace : Int) (st : Bool) (chunks : Sched α)
    (b : List α) (ge now : Int) (h : Short T chunks) (hge : ge < T) :
    let rs := sherpaLoop T grace st none now (chunks ++ [(ge, Ev.last b)])
    let ro := ollaLoop v T st none now (chunks ++ [(ge, Ev.last b)])
    (rs.outcome = some Outcome.complete ∧ deliveredWhole (payload chunks ++ b) (written (outs rs.out)) = true) ∧
    (ro.outcome = some Outcome.complete ∧ deliveredWhole (payload chunks ++ b) (written (outs ro.out)) = true) := by
  intro rs ro
  have es : rs = _ := pause_not_cut_sherpa T grace st chunks [(ge, Ev.last b)] now h
  have eo : ro = _ := pause_not_cut_olla v T st chunks [(ge, Ev.last b)] now h
  have hw := written_live st chunks now (fun e he => (h e he).2)
  constructor
  · simp only [sherpaLoop, watchLoop, abortedBefore, hge, and_self, if_true] at es
    simp [es, Result.push, deliveredWhole, written_append, written_emit, hw]
  · cases v
    · simp only [ollaLoop, pollLoop, abortedBefore] at eo
      simp at eo
      simp [eo, Result.push, deliveredWhole, written_append, written_emit, hw]
    · simp only [ollaLoop, watchLoop, abortedBefore, hge, and_self, if_true] at eo
      simp [eo, Result.push, deliveredWhole, written_append, written_emit, hw]

/-! ### A stall ends the request by lastProgress + readTimeout -/

private theorem times_emit {α : Type} (st : Bool) (t : Int) (b : List α) (tr : Trace α) :
    times (emitChunk st t b ++ tr) = (if st then [t, t] else [t]) ++ times tr := by
  cases st <;> simp [emitChunk, times]

private theorem bounded_emit {α : Type} (T : Int) (hT : 0 ≤ T) (st : Bool) (now t : Int) (b : List α) (tr : Trace α) (fin : Int)
    (h1 : t - now ≤ T) (h2 : silenceBounded T t (times tr) fin = true) :
    silenceBounded T now (times (emitChunk st t b ++ tr)) fin = true := by
  rw [times_emit]
  cases st
  · simp [silenceBounded, h1, h2]
  · simp [silenceBounded, h1, h2, hT]

private theorem watch_bounded {α : Type} (c : Cancel) (T : Int) (hT : 0 ≤ T) (st : Bool) :
    ∀ (s : Sched α) (now : Int), ∃ o, (watchLoop c T st none now s).outcome = some o ∧
      silenceBounded T now (times (watchLoop c T st none now s).out) (watchLoop c T st none now s).endT = true
  | [], now => by
    refine ⟨.readTimeout, by simp [watchLoop, giveUp], ?_⟩
    simp [watchLoop, giveUp, times, silenceBounded]; omega
  | (g, ev) :: rest, now => by
    unfold watchLoop
    split
    · rename_i hc
      cases ev with
      | chunk b =>
        obtain ⟨o, ho, hb⟩ := watch_bounded c T hT st rest (now + g)
        refine ⟨o, by simpa [push_outcome] using ho, ?_⟩
        simp only [push_out, push_endT]
        exact bounded_emit T hT st now (now + g) b _ _ (by omega) hb
      | last b =>
        refine ⟨.complete, rfl, ?_⟩
        have := bounded_emit T hT st now (now + g) b [] (now + g) (by omega) (by simp [times, silenceBounded, hT])
        simpa using this
      | eof => exact ⟨.complete, rfl, by simp [times, silenceBounded]; omega⟩
      | err => exact ⟨.upstreamError, rfl, by simp [times, silenceBounded]; omega⟩
      | stallForever => exact ⟨.readTimeout, by simp [giveUp], by simp [giveUp, times, silenceBounded]; omega⟩
    · exact ⟨.readTimeout, by simp [giveUp], by simp [giveUp, times, silenceBounded]; omega⟩

/-- **Stalls are cut (sherpa)**: for EVERY schedule — any chunks, any pauses, stalls anywhere — the loop
    returns, and from its start over every write to its end no silence is longer than the read timeout.
    In particular a backend that stops sending ends the request by lastProgress + readTimeout. -/
theorem stall_bounded_sherpa {α : Type} (T grace : Int) (hT : 0 ≤ T) (st : Bool) (s : Sched α) (now : Int) :
    ∃ o, (sherpaLoop T grace st none now s).outcome = some o ∧
      silenceBounded T now (times (sherpaLoop T grace st none now s).out) (sherpaLoop T grace st none now s).endT = true :=
  watch_bounded _ T hT st s now

/-- **Stalls are cut (olla with the watchdog of fixes/C18-olla-stall.patch)** — same statement. -/
theorem stall_bounded_olla_fixed {α : Type} (T : Int) (hT : 0 ≤ T) (st : Bool) (s : Sched α) (now : Int) :
    ∃ o, (ollaLoop .fixed T st none now s).outcome = some o ∧
      silenceBounded T now (times (ollaLoop .fixed T st none now s).out) (ollaLoop .fixed T st none now s).endT = true :=
  watch_bounded _ T hT st s now

/-- The same for whatever variant is active — non-vacuous exactly when the switch says the fix is in. -/
theorem stall_bounded_olla_active {α : Type} (hfix : active = .fixed) (T : Int) (hT : 0 ≤ T) (st : Bool) (s : Sched α) (now : Int) :
    ∃ o, (ollaLoop active T st none now s).outcome = some o ∧
      silenceBounded T now (times (ollaLoop active T st none now s).out) (ollaLoop active T st none now s).endT = true := by
  rw [hfix]; exact stall_bounded_olla_fixed T hT st s now

/-- The cut happens exactly one read timeout after the last progress: after a run of short pauses, a
    pause of at least the timeout (or a stall) ends the request with `readTimeout` at lastProgress + T,
    and what follows in the schedule is never read. -/
theorem stall_cut_at_sherpa {α : Type} (T grace : Int) (st : Bool) (pre rest : Sched α) (g : Int) (ev : Ev α) (now : Int)
    (h : Short T pre) (hstall : T ≤ g ∨ ev = Ev.stallForever) :
    let r := sherpaLoop T grace st none now (pre ++ (g, ev) :: rest)
    r.outcome = some Outcome.readTimeout ∧ r.endT = now + total pre + T ∧ r.out = liveTrace st now pre := by
  intro r
  have e : r = _ := pause_not_cut_sherpa T grace st pre ((g, ev) :: rest) now h
  rcases hstall with hg | hev
  · have : ¬ g < T := by omega
    simp [sherpaLoop, watchLoop, this, giveUp] at e
    simp [e, Result.push]
  · subst hev
    simp only [sherpaLoop, watchLoop, giveUp] at e
    simp [e, Result.push]

theorem stall_cut_at_olla_fixed {α : Type} (T : Int) (st : Bool) (pre rest : Sched α) (g : Int) (ev : Ev α) (now : Int)
    (h : Short T pre) (hstall : T ≤ g ∨ ev = Ev.stallForever) :
    let r := ollaLoop .fixed T st none now (pre ++ (g, ev) :: rest)
    r.outcome = some Outcome.readTimeout ∧ r.endT = now + total pre + T ∧ r.out = liveTrace st now pre := by
  intro r
  have e : r = _ := pause_not_cut_olla .fixed T st pre ((g, ev) :: rest) now h
  rcases hstall with hg | hev
  · have : ¬ g < T := by omega
    simp [ollaLoop, watchLoop, this, giveUp] at e
    simp [e, Result.push]
  · subst hev
    simp only [ollaLoop, watchLoop, giveUp] at e
    simp [e, Result.push]

/-! ### The pinned olla engine: a stall is never noticed (DESIGN §4 #20)

Full-strength statement that FAILS for `.pinned`:
  ∀ s, ∃ o, (ollaLoop .pinned T st none now s).outcome = some o ∧ silenceBounded T now (times ….out) ….endT
-/

/-- `[chunk, stallForever]` never produces an end: the loop is parked in `resp.Body.Read` and the armed
    timer is never looked at — whatever the (positive) timeout. -/
theorem olla_stall_witness {α : Type} (T : Int) (hT : 0 < T) (st : Bool) (b : List α) (g : Int) :
    (ollaLoop .pinned T st none 0 [(0, Ev.chunk b), (g, Ev.stallForever)]).outcome = none := by
  have hl : decide (T ≤ 0) = false := by simp; omega
  simp [ollaLoop, pollLoop, abortedBefore, blocked, Result.push, hl]

/-- A pause longer than the timeout is not cut either: the late chunk is still relayed (the silence of 400
    exceeds the limit of 150), and only then does the polled timer end the request. -/
theorem olla_late_chunk_witness :
    let r := ollaLoop (α := Nat) .pinned 150 true none 0 [(10, Ev.chunk [1]), (400, Ev.chunk [2]), (10, Ev.chunk [3])]
    r.outcome = some Outcome.readTimeout ∧ written (outs r.out) = [1, 2] ∧ r.endT = 410 ∧
    silenceBounded 150 0 (times r.out) r.endT = false := by decide

theorem olla_pinned_not_stall_bounded :
    ¬ (∀ (s : Sched Nat), ∃ o, (ollaLoop .pinned 150 true none 0 s).outcome = some o ∧
        silenceBounded 150 0 (times (ollaLoop .pinned 150 true none 0 s).out) (ollaLoop .pinned 150 true none 0 s).endT = true) := by
  intro h
  obtain ⟨o, ho, _⟩ := h [(0, Ev.chunk [1]), (0, Ev.stallForever)]
  rw [olla_stall_witness 150 (by decide)] at ho
  cases ho

/-- A backend that keeps every pause below the timeout and does end its response (EOF or error). -/
def LiveAndEnding {α : Type} (T : Int) : Sched α → Prop
  | [] => False
  | (g, .chunk _) :: rest => g < T ∧ LiveAndEnding T rest
  | (g, .last _) :: _ => g < T
  | (g, .eof) :: _ => g < T
  | (g, .err) :: _ => g < T
  | (_, .stallForever) :: _ => False

private theorem poll_bounded_partial {α : Type} (T : Int) (hT : 0 ≤ T) (st : Bool) :
    ∀ (s : Sched α) (now : Int), LiveAndEnding T s → ∃ o, (pollLoop T st none false now s).outcome = some o ∧
      silenceBounded T now (times (pollLoop T st none false now s).out) (pollLoop T st none false now s).endT = true
  | [], _, h => by simp [LiveAndEnding] at h
  | (g, .chunk b) :: rest, now, h => by
    simp only [LiveAndEnding] at h
    obtain ⟨o, ho, hb⟩ := poll_bounded_partial T hT st rest (now + g) h.2
    have hl : decide (T ≤ g) = false := by simp; omega
    simp only [pollLoop, abortedBefore, hl]
    simp only [Bool.false_eq_true, if_false]
    refine ⟨o, by simpa [push_outcome] using ho, ?_⟩
    simp only [push_out, push_endT]
    exact bounded_emit T hT st now (now + g) b _ _ (by omega) hb
  | (g, .last b) :: _, now, h => by
    simp only [LiveAndEnding] at h
    refine ⟨.complete, by simp [pollLoop, abortedBefore], ?_⟩
    have := bounded_emit T hT st now (now + g) b [] (now + g) (by omega) (by simp [times, silenceBounded, hT])
    simpa [pollLoop, abortedBefore] using this
  | (g, .eof) :: _, now, h => by
    simp only [LiveAndEnding] at h
    exact ⟨.complete, by simp [pollLoop, abortedBefore], by simp [pollLoop, abortedBefore, times, silenceBounded]; omega⟩
  | (g, .err) :: _, now, h => by
    simp only [LiveAndEnding] at h
    exact ⟨.upstreamError, by simp [pollLoop, abortedBefore], by simp [pollLoop, abortedBefore, times, silenceBounded]; omega⟩
  | (_, .stallForever) :: _, _, h => by simp [LiveAndEnding] at h

/-- What does hold for the pinned olla engine: **provided the backend never stalls** (every pause below the
    timeout, and it ends its response) the request ends and no silence exceeds the timeout. The excluded
    case — a backend that stops sending — is the finding `olla-stall-unnoticed`. -/
theorem stall_bounded_olla_pinned_partial {α : Type} (T : Int) (hT : 0 ≤ T) (st : Bool) (s : Sched α) (now : Int)
    (hlive : LiveAndEnding T s) :
    ∃ o, (ollaLoop .pinned T st none now s).outcome = some o ∧
      silenceBounded T now (times (ollaLoop .pinned T st none now s).out) (ollaLoop .pinned T st none now s).endT = true :=
  poll_bounded_partial T hT st s now hlive

/-! ### Client abort: nothing more is written, and the loop ends within the engine's bound -/

private theorem nothingAfter_append {α : Type} (t : Int) (a b : Trace α) :
    nothingAfter t (a ++ b) = (nothingAfter t a && nothingAfter t b) := by simp [nothingAfter]

private theorem nothingAfter_emit {α : Type} (st : Bool) (t u : Int) (b : List α) (h : u ≤ t) :
    nothingAfter t (emitChunk st u b) = true := by
  cases st <;> simp [nothingAfter, emitChunk, h]

private theorem maxT_of_le {a b : Int} (h : a ≤ b) : maxT a b = b := by simp [maxT, h]

private theorem not_aborted_le {a : Abort} {t : Int} (h : abortedBefore (some a) t = false) : t ≤ a.t := by
  simp [abortedBefore] at h; exact h

private theorem giveUp_sherpa_end {α : Type} (T grace : Int) (hgr : 0 ≤ grace) (a : Abort) (now : Int) (hnow : now ≤ a.t) :
    ∃ o, (giveUp (α := α) (sherpaCancel grace) T (some a) now).outcome = some o ∧
      (giveUp (α := α) (sherpaCancel grace) T (some a) now).endT ≤ a.t + grace := by
  unfold giveUp
  simp only
  split
  · refine ⟨.clientGone, rfl, ?_⟩
    simp only [sherpaCancel, maxT_of_le hnow]
    cases a.readFails with
    | none => simp
    | some d => simp only [minT]; split <;> omega
  · exact ⟨.readTimeout, rfl, by simp only; omega⟩

private theorem watch_abort_sherpa {α : Type} (T grace : Int) (hgr : 0 ≤ grace) (st : Bool) (a : Abort) :
    ∀ (s : Sched α) (now : Int), now ≤ a.t →
      nothingAfter a.t (watchLoop (sherpaCancel grace) T st (some a) now s).out = true ∧
      ∃ o, (watchLoop (sherpaCancel grace) T st (some a) now s).outcome = some o ∧
        (watchLoop (sherpaCancel grace) T st (some a) now s).endT ≤ a.t + grace
  | [], now, hnow => by
    simp only [watchLoop, giveUp_out]
    exact ⟨by simp [nothingAfter], giveUp_sherpa_end T grace hgr a now hnow⟩
  | (g, ev) :: rest, now, hnow => by
    unfold watchLoop
    split
    · rename_i hc
      have hle := not_aborted_le hc.2
      cases ev with
      | chunk b =>
        obtain ⟨h1, o, ho, he⟩ := watch_abort_sherpa T grace hgr st a rest (now + g) hle
        refine ⟨?_, o, by simpa [push_outcome] using ho, by simpa [push_endT] using he⟩
        simp only [push_out, nothingAfter_append, nothingAfter_emit st a.t (now + g) b hle, h1, Bool.and_self]
      | last b => exact ⟨nothingAfter_emit st a.t (now + g) b hle, .complete, rfl, by simp only; omega⟩
      | eof => exact ⟨by simp [nothingAfter], .complete, rfl, by simp only; omega⟩
      | err => exact ⟨by simp [nothingAfter], .upstreamError, rfl, by simp only; omega⟩
      | stallForever =>
        simp only [giveUp_out]
        exact ⟨by simp [nothingAfter], giveUp_sherpa_end T grace hgr a now hnow⟩
    · simp only [giveUp_out]
      exact ⟨by simp [nothingAfter], giveUp_sherpa_end T grace hgr a now hnow⟩

/-- **Client abort propagates (sherpa)**: once the client is gone (at `a.t`, not before the loop started)
    nothing further is written, and the loop returns no later than `a.t + grace` — for every schedule and
    whatever the transport does with the cancelled read (`a.readFails` arbitrary, even "stays blocked").
    Oracle assumption built into the model: the cancelled upstream read never returns DATA again. -/
theorem abort_propagates_sherpa {α : Type} (T grace : Int) (hgr : 0 ≤ grace) (st : Bool) (a : Abort) (s : Sched α) (now : Int)
    (hnow : now ≤ a.t) :
    nothingAfter a.t (sherpaLoop T grace st (some a) now s).out = true ∧
    ∃ o, (sherpaLoop T grace st (some a) now s).outcome = some o ∧ (sherpaLoop T grace st (some a) now s).endT ≤ a.t + grace :=
  watch_abort_sherpa T grace hgr st a s now hnow

private theorem giveUp_olla_end {α : Type} (T : Int) (a : Abort) (d : Int) (hd : a.readFails = some d) (hd0 : 0 ≤ d) (now : Int) (hnow : now ≤ a.t) :
    ∃ o, (giveUp (α := α) (ollaFixedCancel T) T (some a) now).outcome = some o ∧
      (giveUp (α := α) (ollaFixedCancel T) T (some a) now).endT ≤ a.t + d := by
  unfold giveUp
  simp only
  split
  · simp only [ollaFixedCancel, hd, maxT_of_le hnow]
    split
    · exact ⟨.clientGone, rfl, by simp⟩
    · exact ⟨.readTimeout, rfl, by simp only; omega⟩
  · exact ⟨.readTimeout, rfl, by simp only; omega⟩

private theorem watch_abort_olla {α : Type} (T : Int) (st : Bool) (a : Abort) (d : Int) (hd : a.readFails = some d) (hd0 : 0 ≤ d) :
    ∀ (s : Sched α) (now : Int), now ≤ a.t →
      nothingAfter a.t (watchLoop (ollaFixedCancel T) T st (some a) now s).out = true ∧
      ∃ o, (watchLoop (ollaFixedCancel T) T st (some a) now s).outcome = some o ∧
        (watchLoop (ollaFixedCancel T) T st (some a) now s).endT ≤ a.t + d
  | [], now, hnow => by
    simp only [watchLoop, giveUp_out]
    exact ⟨by simp [nothingAfter], giveUp_olla_end T a d hd hd0 now hnow⟩
  | (g, ev) :: rest, now, hnow => by
    unfold watchLoop
    split
    · rename_i hc
      have hle := not_aborted_le hc.2
      cases ev with
      | chunk b =>
        obtain ⟨h1, o, ho, he⟩ := watch_abort_olla T st a d hd hd0 rest (now + g) hle
        refine ⟨?_, o, by simpa [push_outcome] using ho, by simpa [push_endT] using he⟩
        simp only [push_out, nothingAfter_append, nothingAfter_emit st a.t (now + g) b hle, h1, Bool.and_self]
      | last b => exact ⟨nothingAfter_emit st a.t (now + g) b hle, .complete, rfl, by simp only; omega⟩
      | eof => exact ⟨by simp [nothingAfter], .complete, rfl, by simp only; omega⟩
      | err => exact ⟨by simp [nothingAfter], .upstreamError, rfl, by simp only; omega⟩
      | stallForever =>
        simp only [giveUp_out]
        exact ⟨by simp [nothingAfter], giveUp_olla_end T a d hd hd0 now hnow⟩
    · simp only [giveUp_out]
      exact ⟨by simp [nothingAfter], giveUp_olla_end T a d hd hd0 now hnow⟩

private theorem blocked_end {α : Type} (a : Abort) (d : Int) (hd : a.readFails = some d) (now : Int) (hnow : now ≤ a.t) :
    (blocked (α := α) (some a) now).outcome = some .clientGone ∧ (blocked (α := α) (some a) now).endT = a.t + d := by
  simp [blocked, hd, maxT_of_le hnow]

private theorem poll_abort {α : Type} (T : Int) (st : Bool) (a : Abort) (d : Int) (hd : a.readFails = some d) (hd0 : 0 ≤ d) :
    ∀ (s : Sched α) (late : Bool) (now : Int), now ≤ a.t →
      nothingAfter a.t (pollLoop T st (some a) late now s).out = true ∧
      ∃ o, (pollLoop T st (some a) late now s).outcome = some o ∧ (pollLoop T st (some a) late now s).endT ≤ a.t + d
  | s, true, now, hnow => by
    cases s <;> exact ⟨by simp [pollLoop, nothingAfter], .readTimeout, by simp [pollLoop], by simp [pollLoop]; omega⟩
  | [], false, now, hnow => by
    obtain ⟨h1, h2⟩ := blocked_end (α := α) a d hd now hnow
    simp only [pollLoop, blocked_out]
    exact ⟨by simp [nothingAfter], .clientGone, h1, by omega⟩
  | (g, ev) :: rest, false, now, hnow => by
    obtain ⟨hb1, hb2⟩ := blocked_end (α := α) a d hd now hnow
    unfold pollLoop
    split
    · simp only [blocked_out]
      exact ⟨by simp [nothingAfter], .clientGone, hb1, by omega⟩
    · rename_i hc
      have hle : now + g ≤ a.t := not_aborted_le (by simpa using hc)
      cases ev with
      | chunk b =>
        obtain ⟨h1, o, ho, he⟩ := poll_abort T st a d hd hd0 rest (decide (T ≤ g)) (now + g) hle
        refine ⟨?_, o, by simpa [push_outcome] using ho, by simpa [push_endT] using he⟩
        simp only [push_out, nothingAfter_append, nothingAfter_emit st a.t (now + g) b hle, h1, Bool.and_self]
      | last b => exact ⟨nothingAfter_emit st a.t (now + g) b hle, .complete, rfl, by simp only; omega⟩
      | eof => exact ⟨by simp [nothingAfter], .complete, rfl, by simp only; omega⟩
      | err => exact ⟨by simp [nothingAfter], .upstreamError, rfl, by simp only; omega⟩
      | stallForever =>
        simp only [blocked_out]
        exact ⟨by simp [nothingAfter], .clientGone, hb1, by omega⟩

/-- **Client abort propagates (olla, pinned or fixed)** — UNDER THE ORACLE ASSUMPTION that the cancelled
    context makes the pending `Body.Read` fail `d ≥ 0` after the abort (net/http's transport does that; it
    is not modelled): nothing further is written and the loop returns by `a.t + d`. -/
theorem abort_propagates_olla {α : Type} (v : Variant) (T : Int) (st : Bool) (a : Abort) (d : Int)
    (horacle : a.readFails = some d) (hd0 : 0 ≤ d) (s : Sched α) (now : Int) (hnow : now ≤ a.t) :
    nothingAfter a.t (ollaLoop v T st (some a) now s).out = true ∧
    ∃ o, (ollaLoop v T st (some a) now s).outcome = some o ∧ (ollaLoop v T st (some a) now s).endT ≤ a.t + d := by
  cases v
  · exact poll_abort T st a d horacle hd0 s false now hnow
  · exact watch_abort_olla T st a d horacle hd0 s now hnow

/-- Why the oracle is needed for the pinned olla loop: if the transport did NOT fail the read, a client
    abort during a stall would never be noticed (the contexts are only polled between reads). -/
theorem olla_abort_needs_transport_witness {α : Type} (T : Int) (st : Bool) (at_ g : Int) :
    (ollaLoop (α := α) .pinned T st (some ⟨at_, none⟩) 0 [(g, Ev.stallForever)]).outcome = none := by
  simp [ollaLoop, pollLoop, blocked]

/-! ### Side conditions on the regenerated tables (core.AutoDetectStreamingMode run over its whole domain) -/

set_option maxRecDepth 200000 in
open Olla.Gen.Streaming in
/-- Under profiles `auto` and `streaming`, `text/event-stream` and `application/x-ndjson` responses (any
    spelling: charset parameter, upper case) are streamed — whatever the client asked for. -/
theorem gen_sse_ndjson_streamed :
    streamDecision.all (fun r => !((r.1 == "auto" || r.1 == "streaming") && (r.2.1 == "EventStream" || r.2.1 == "NDJSON")) || r.2.2.2.2.2) = true := by
  decide

set_option maxRecDepth 200000 in
open Olla.Gen.Streaming in
/-- Profile `standard` never streams (so, by `no_flush_when_buffered`, never flushes). -/
theorem gen_standard_never_streams :
    streamDecision.all (fun r => !(r.1 == "standard") || !r.2.2.2.2.2) = true := by decide

set_option maxRecDepth 200000 in
open Olla.Gen.Streaming in
/-- Profile `streaming` always streams. -/
theorem gen_streaming_always_streams :
    streamDecision.all (fun r => !(r.1 == "streaming") || r.2.2.2.2.2) = true := by decide

/-- The content types the property calls binary. -/
def binaryNames : List String :=
  ["PDF", "ZIP", "GZIP", "TAR", "RAR", "7Z", "OctetStream", "Excel", "WordDOCX", "OfficeDocument", "WordDOC", "PowerPoint",
   "ImagePNG", "ImageJPEG", "ImageWebP", "ImageSVG", "VideoMP4", "VideoWebM",
   "PrefixImage", "PrefixVideo", "PrefixAudio", "PrefixFont", "PrefixModel"]

set_option maxRecDepth 200000 in
open Olla.Gen.Streaming in
/-- Under `auto`, binary types are buffered unless the client asked for a stream: the decision IS the
    client's stream flag. -/
theorem gen_binary_buffered_unless_asked :
    streamDecision.all (fun r => !(r.1 == "auto" && binaryNames.contains r.2.1) || (r.2.2.2.2.2 == r.2.2.2.2.1)) = true := by
  decide

set_option maxRecDepth 200000 in
open Olla.Gen.Streaming in
/-- Under `auto` everything that is not binary (text, JSON, the streaming formats, no or an unknown
    content type) is streamed. -/
theorem gen_auto_nonbinary_streams :
    streamDecision.all (fun r => !(r.1 == "auto" && !binaryNames.contains r.2.1) || r.2.2.2.2.2) = true := by decide

set_option maxRecDepth 200000 in
open Olla.Gen.Streaming in
/-- The table covers every declared `constants.ContentType*` under every profile and both client flags. -/
theorem gen_table_covers_domain :
    profiles.all (fun p => contentTypeNames.all (fun n => [false, true].all (fun cs =>
      streamDecision.any (fun r => r.1 == p && r.2.1 == n && r.2.2.2.2.1 == cs)))) = true := by decide

set_option maxRecDepth 200000 in
/-- The four content types the timing harness uses are tabulated (the driver's lookups cannot miss). -/
theorem gen_harness_types_tabulated :
    ["auto", "streaming", "standard"].all (fun p =>
      ["text/event-stream", "application/x-ndjson", "application/json", "application/octet-stream"].all (fun ct =>
        (streams p ct false).isSome)) = true := by decide

open Olla.Gen.Streaming in
/-- Read-timeout defaults are positive, a configured value is passed through unchanged, an unknown
    profile behaves like `auto`, and the two engines agree on the client-disconnect thresholds. -/
theorem gen_timeouts_and_thresholds :
    0 < defaultReadTimeoutNs ∧ 0 < baseGetReadTimeoutZeroNs ∧ 0 < ollaGetReadTimeoutZeroNs ∧ 0 < configDefaultReadTimeoutNs ∧
    sherpaGetReadTimeout150Ns = 150000000 ∧ ollaGetReadTimeout150Ns = 150000000 ∧ unknownProfileIsAuto = true ∧
    0 < sherpaDisconnectBytes ∧ 0 < sherpaDisconnectNs ∧
    sherpaDisconnectBytes = ollaDisconnectBytes ∧ sherpaDisconnectNs = ollaDisconnectNs := by decide

/-! ### The parametric theorems at the regenerated values -/

/-- Nanoseconds: sherpa's 1 s grace (a literal inside performTimedRead — hand-copied, compared by the
    timing harness with slack). -/
def sherpaGraceNs : Int := 1000000000

/-- With the timeout the production wiring passes by default (and with each engine's own fallback) a
    stalled backend ends a sherpa request within that timeout of the last progress. -/
theorem stall_bounded_sherpa_gen {α : Type} (st : Bool) (s : Sched α) (now : Int) :
    ∀ T ∈ [Olla.Gen.Streaming.configDefaultReadTimeoutNs, Olla.Gen.Streaming.defaultReadTimeoutNs, Olla.Gen.Streaming.baseGetReadTimeoutZeroNs],
      ∃ o, (sherpaLoop T sherpaGraceNs st none now s).outcome = some o ∧
        silenceBounded T now (times (sherpaLoop T sherpaGraceNs st none now s).out) (sherpaLoop T sherpaGraceNs st none now s).endT = true := by
  intro T hT
  have : 0 ≤ T := by
    simp only [List.mem_cons, List.not_mem_nil, or_false] at hT
    rcases hT with h | h | h <;> subst h <;> decide
  exact stall_bounded_sherpa T sherpaGraceNs this st s now

theorem stall_bounded_olla_fixed_gen {α : Type} (st : Bool) (s : Sched α) (now : Int) :
    ∀ T ∈ [Olla.Gen.Streaming.configDefaultReadTimeoutNs, Olla.Gen.Streaming.defaultReadTimeoutNs, Olla.Gen.Streaming.ollaGetReadTimeoutZeroNs],
      ∃ o, (ollaLoop .fixed T st none now s).outcome = some o ∧
        silenceBounded T now (times (ollaLoop .fixed T st none now s).out) (ollaLoop .fixed T st none now s).endT = true := by
  intro T hT
  have : 0 ≤ T := by
    simp only [List.mem_cons, List.not_mem_nil, or_false] at hT
    rcases hT with h | h | h <;> subst h <;> decide
  exact stall_bounded_olla_fixed T this st s now

/-- The pinned olla loop hangs at the shipped default timeout just the same. -/
theorem olla_stall_witness_gen :
    (ollaLoop (α := Nat) .pinned Olla.Gen.Streaming.configDefaultReadTimeoutNs true none 0 [(0, Ev.chunk [1]), (0, Ev.stallForever)]).outcome = none :=
  olla_stall_witness _ (by decide) true [1] 0

/-! ### Non-vacuity: concrete runs -/

-- a live SSE stream: every chunk written and flushed at its arrival time, completion at EOF
example : sherpaLoop (α := Nat) 150 1000 true none 0 [(20, .chunk [1]), (60, .chunk [2, 3]), (20, .eof)]
    = ⟨[(20, .write [1]), (20, .flush), (80, .write [2, 3]), (80, .flush)], some .complete, 100⟩ := by decide
-- the hypotheses of complete_delivery / pause_not_cut are satisfiable
example : Short (α := Nat) 150 [(20, .chunk [1]), (149, .chunk [2, 3])] := by
  intro e he; simp at he; rcases he with rfl | rfl <;> simp
-- buffered: no flush
example : (ollaLoop (α := Nat) .pinned 150 false none 0 [(20, .chunk [1]), (60, .chunk [2]), (20, .eof)]).out
    = [(20, .write [1]), (80, .write [2])] := by decide
-- a mid-body stall: sherpa and the fixed olla cut at lastProgress + T = 80 + 150; the pinned olla never returns
example : (sherpaLoop (α := Nat) 150 1000 true none 0 [(20, .chunk [1]), (60, .chunk [2]), (0, .stallForever)]).endT = 230 := by decide
example : (ollaLoop (α := Nat) .fixed 150 true none 0 [(20, .chunk [1]), (60, .chunk [2]), (0, .stallForever)])
    = ⟨[(20, .write [1]), (20, .flush), (80, .write [2]), (80, .flush)], some .readTimeout, 230⟩ := by decide
example : (ollaLoop (α := Nat) .pinned 150 true none 0 [(20, .chunk [1]), (60, .chunk [2]), (0, .stallForever)]).outcome = none := by decide
-- a pause above the timeout: sherpa cuts at 20 + 150 and never relays the late chunk
example : sherpaLoop (α := Nat) 150 1000 true none 0 [(20, .chunk [1]), (400, .chunk [2]), (20, .eof)]
    = ⟨[(20, .write [1]), (20, .flush)], some .readTimeout, 170⟩ := by decide
-- client abort at 50 during a pause: sherpa ends within the grace, olla when the transport fails the read (3 later)
example : sherpaLoop (α := Nat) 150 1000 true (some ⟨50, some 3⟩) 0 [(20, .chunk [1]), (60, .chunk [2]), (20, .eof)]
    = ⟨[(20, .write [1]), (20, .flush)], some .clientGone, 53⟩ := by decide
example : sherpaLoop (α := Nat) 150 1000 true (some ⟨50, none⟩) 0 [(20, .chunk [1]), (60, .chunk [2]), (20, .eof)]
    = ⟨[(20, .write [1]), (20, .flush)], some .clientGone, 1050⟩ := by decide
example : ollaLoop (α := Nat) .pinned 150 true (some ⟨50, some 3⟩) 0 [(20, .chunk [1]), (60, .chunk [2]), (20, .eof)]
    = ⟨[(20, .write [1]), (20, .flush)], some .clientGone, 53⟩ := by decide
-- decision table lookups
example : streams "auto" "text/event-stream" false = some true := by decide
example : streams "standard" "text/event-stream" true = some false := by decide
example : streams "auto" "application/octet-stream" false = some false := by decide
example : streams "auto" "application/octet-stream" true = some true := by decide
example : LiveAndEnding (α := Nat) 150 [(20, .chunk [1]), (60, .chunk [2]), (20, .eof)] := by simp [LiveAndEnding]

/-- The glue between the configuration and the engines: for every proxy section probed through what
    `services.ProxyServiceWrapper` builds (response_timeout 0 / 1 s / 10 min x read_timeout 150 ms … 20 min x the
    three profiles), the engines are handed exactly the configured read timeout and the configured profile. (A
    finite table, regenerated on every run: a tie, not a theorem about all configurations.) -/
theorem gen_wiring_hands_timeouts_through :
    Olla.Gen.Streaming.wiredProxySettings.all (fun r => r.2.2.2.1 == r.2.1 && r.2.2.2.2 == r.2.2.1) = true := by decide

end Olla.Props.C18
