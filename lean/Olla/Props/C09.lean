/-
C09 — Model-aware routing never sends a model where it is not served.
Theorems about `Olla.Model.Routing` stated with the predicates of `Olla.Spec.C09`; the name / status
facts they need about the compiled code are side conditions on the regenerated `Olla.Gen.Routing`.

Defect classes of the pinned tree are `Variant` parameters of the model. Every theorem quantifies over
the variants `vs`; where the pinned behaviour breaks the property the hypothesis says
`vs.<class> = .fixed ∨ <inputs outside the defect>`, the full-strength statement is the instance
`vs.<class> = .fixed` (`…_fixed`), and `…_pinned_witness` is a concrete counterexample of the pinned code.
-/
import Olla.Model.Routing
import Olla.Spec.C09
import Olla.Spec.State

namespace Olla.Props.C09
open Olla.Gen.Routing Olla.Model.Routing Olla.Spec.C09

/-! ### Side conditions on the regenerated tables -/

/-- `decisionStatus` is `ports.NewRoutingDecision`'s status for every action × reason the code defines
    (and one unknown value of each); the decision echoes its inputs. -/
theorem gen_status_table : ∀ r ∈ statusTable, decisionStatus r.1 r.2.1 = r.2.2 := by decide

/-- Only `model_not_found` maps a rejection to 404; every other reason constant maps it to 503,
    and every non-rejection is 200. -/
theorem gen_status_shape :
    (∀ r ∈ reasons, decisionStatus actionRejected r = if r = reasonModelNotFound then 404 else 503) ∧
    (∀ r ∈ reasons, decisionStatus actionRouted r = 200 ∧ decisionStatus actionFallback r = 200) := by decide

/-- `factoryName` is what `routing.Factory.Create` builds for every probed type name. -/
theorem gen_factory_table : ∀ r ∈ factoryTable, factoryName r.1 = r.2 := by decide

/-- The name constants the model branches on are pairwise distinct (and the fallbacks non-empty). -/
theorem gen_names_distinct :
    strategyStrict ≠ strategyOptimistic ∧ strategyStrict ≠ strategyDiscovery ∧ strategyOptimistic ≠ strategyDiscovery ∧
    fallbackNone ≠ fallbackCompatibleOnly ∧ fallbackNone ≠ fallbackAll ∧ fallbackCompatibleOnly ≠ fallbackAll ∧
    fallbackNone ≠ "" ∧ fallbackCompatibleOnly ≠ "" ∧ fallbackAll ≠ "" ∧
    actionRouted ≠ actionFallback ∧ actionRouted ≠ actionRejected ∧ actionFallback ≠ actionRejected := by decide

/-- The reasons the strategies attach to "only unhealthy listers" rejections are not `model_not_found`. -/
theorem gen_unavailable_reasons_not_404 :
    ∀ r ∈ [reasonModelUnavailable, reasonModelUnavailableNoFallback, reasonModelUnavailableCompatibleOnly,
           reasonModelUnavailableNoRefresh, reasonModelUnavailableAfterDiscovery, reasonNoHealthyAfterDiscovery,
           reasonDiscoveryFailedNoFallback, reasonDiscoveryFailedCompatibleOnly, reasonDiscoveryError],
      r ≠ reasonModelNotFound := by decide

/-- The three response headers have distinct names. -/
theorem gen_headers_distinct :
    headerStrategy ≠ headerDecision ∧ headerStrategy ≠ headerReason ∧ headerDecision ≠ headerReason := by decide

/-! ### Helpers -/

private theorem factoryName_cases (typ : String) :
    factoryName typ = strategyStrict ∨ factoryName typ = strategyOptimistic ∨ factoryName typ = strategyDiscovery := by
  unfold factoryName
  split
  · exact Or.inl rfl
  · split
    · exact Or.inr (Or.inl rfl)
    · split
      · exact Or.inr (Or.inr rfl)
      · exact Or.inl rfl

private theorem mem_routable {h m : List Ep} {e : Ep} : e ∈ routable h m ↔ e ∈ h ∧ e ∈ m := by
  simp [routable, List.mem_filter]

private theorem servedOnly_iff {h m r : List Ep} : servedOnly h m r = true ↔ ∀ e ∈ r, e ∈ h ∧ e ∈ m := by
  simp [servedOnly, List.all_eq_true]

private theorem servedOnly_routable (h m : List Ep) : servedOnly h m (routable h m) = true :=
  servedOnly_iff.mpr (fun _ he => mem_routable.mp he)

private theorem servedOnly_nil (h m : List Ep) : servedOnly h m [] = true := by simp [servedOnly]

private theorem served_eq_routable (h m : List Ep) : served h m = routable h m := rfl

private theorem routable_nil_of_listers_nil (h : List Ep) : routable h [] = [] := by
  simp [routable]

private theorem isEmpty_iff {α} (l : List α) : l.isEmpty = true ↔ l = [] := List.isEmpty_iff

/-- The three results a strategy can produce, as facts about the observation.
    `snd`  : the configuration is one the soundness clause speaks about (and outside the pinned defect);
             then no fallback happens.
    `stok` : the rejection statuses are as the property wants them (always, except pinned discovery). -/
private inductive Shape (h m : List Ep) (cur : List Ep) (snd stok : Bool) : Obs → Prop
  | routed (s r : String) (hne : routable h m ≠ []) :
      Shape h m cur snd stok ⟨routable h m, s, actionRouted, r, 200⟩
  | fallback (s r : String) (l : List Ep) (hl : l = h ∨ l = cur) (hnone : routable h m = []) (hns : snd = false) :
      Shape h m cur snd stok ⟨l, s, actionFallback, r, 200⟩
  | rejected (s r : String) (st : Nat) (hnone : routable h m = []) (hst : stok = true → st = rejectStatus m) :
      Shape h m cur snd stok ⟨[], s, actionRejected, r, st⟩

private theorem status_routed (r : String) : decisionStatus actionRouted r = 200 := by
  simp [decisionStatus, actionRouted, actionRejected]
private theorem status_fallback (r : String) : decisionStatus actionFallback r = 200 := by
  simp [decisionStatus, actionFallback, actionRejected]
private theorem st404 : decisionStatus actionRejected reasonModelNotFound = 404 := by simp [decisionStatus]
private theorem st503 (r : String) (hr : r ≠ reasonModelNotFound) : decisionStatus actionRejected r = 503 := by
  simp [decisionStatus, hr]

private theorem sh_routed {h m cur : List Ep} {snd stok : Bool} (s r : String) (b : Bool)
    (hne : (routable h m).isEmpty ≠ true) :
    Shape h m cur snd stok (Obs.ofRouted ⟨routable h m, mkDecision s actionRouted r, b⟩) := by
  simp only [Obs.ofRouted, mkDecision, status_routed]
  exact Shape.routed _ _ (fun hh => hne ((isEmpty_iff _).mpr hh))

private theorem sh_fallback {h m cur : List Ep} {snd stok : Bool} (s r : String) (b : Bool) (l : List Ep)
    (hl : l = h ∨ l = cur) (hnone : routable h m = []) (hns : snd = false) :
    Shape h m cur snd stok (Obs.ofRouted ⟨l, mkDecision s actionFallback r, b⟩) := by
  simp only [Obs.ofRouted, mkDecision, status_fallback]
  exact Shape.fallback _ _ _ hl hnone hns

private theorem sh_rejected {h m cur : List Ep} {snd stok : Bool} (s r : String) (b : Bool)
    (hnone : routable h m = []) (hst : stok = true → decisionStatus actionRejected r = rejectStatus m) :
    Shape h m cur snd stok (Obs.ofRouted ⟨[], mkDecision s actionRejected r, b⟩) := by
  simp only [Obs.ofRouted, mkDecision]
  exact Shape.rejected _ _ _ hnone hst

private theorem rs_nil : rejectStatus [] = 404 := rfl
private theorem rs_ne {m : List Ep} (h : ¬ m.isEmpty = true) : rejectStatus m = 503 := by
  simp [rejectStatus, h]

private theorem unav (r : String)
    (hr : r ∈ [reasonModelUnavailable, reasonModelUnavailableNoFallback, reasonModelUnavailableCompatibleOnly,
           reasonModelUnavailableNoRefresh, reasonModelUnavailableAfterDiscovery, reasonNoHealthyAfterDiscovery,
           reasonDiscoveryFailedNoFallback, reasonDiscoveryFailedCompatibleOnly, reasonDiscoveryError]) :
    r ≠ reasonModelNotFound := gen_unavailable_reasons_not_404 r hr

private theorem shape_strict (h m cur : List Ep) (snd stok : Bool) :
    Shape h m cur snd stok (Obs.ofRouted (strict h m)) := by
  unfold strict
  split
  · rename_i hm
    have : m = [] := (isEmpty_iff m).mp hm
    subst this
    exact sh_rejected _ _ _ (routable_nil_of_listers_nil h) (fun _ => by rw [st404, rs_nil])
  · rename_i hm
    simp only
    split
    · rename_i hr
      exact sh_rejected _ _ _ ((isEmpty_iff _).mp hr)
        (fun _ => by rw [st503 _ (unav reasonModelUnavailable (by simp)), rs_ne hm])
    · rename_i hr
      exact sh_routed _ _ _ hr

private theorem shape_optimistic (fb : String) (h m cur : List Ep) (snd stok : Bool)
    (hsnd : snd = true → fb = fallbackNone ∨ fb = fallbackCompatibleOnly) :
    Shape h m cur snd stok (Obs.ofRouted (optimistic fb h m)) := by
  have hns : ¬ (fb == fallbackNone) = true → ¬ (fb == fallbackCompatibleOnly) = true → snd = false := by
    intro h1 h2
    cases hs : snd with
    | false => rfl
    | true => rcases hsnd hs with h | h <;> simp [h] at h1 h2
  unfold optimistic
  split
  · rename_i hm
    have : m = [] := (isEmpty_iff m).mp hm
    subst this
    have hn := routable_nil_of_listers_nil h
    split
    · exact sh_rejected _ _ _ hn (fun _ => by rw [st404, rs_nil])
    · rename_i h1
      split
      · exact sh_rejected _ _ _ hn (fun _ => by rw [st404, rs_nil])
      · rename_i h2
        exact sh_fallback _ _ _ _ (Or.inl rfl) hn (hns h1 h2)
  · rename_i hm
    simp only
    split
    · rename_i hr
      have hn := (isEmpty_iff _).mp hr
      split
      · exact sh_rejected _ _ _ hn
          (fun _ => by rw [st503 _ (unav reasonModelUnavailableNoFallback (by simp)), rs_ne hm])
      · rename_i h1
        split
        · exact sh_rejected _ _ _ hn
            (fun _ => by rw [st503 _ (unav reasonModelUnavailableCompatibleOnly (by simp)), rs_ne hm])
        · rename_i h2
          exact sh_fallback _ _ _ _ (Or.inl rfl) hn (hns h1 h2)
    · rename_i hr
      exact sh_routed _ _ _ hr

/-- status of a discovery rejection once the reason fix is in -/
private theorem disc_status (vs : Variants) (stok : Bool) (hstok : stok = true → vs.discoveryReasons = .fixed)
    (m : List Ep) (r : String) (hr : r ≠ reasonModelNotFound) :
    stok = true → decisionStatus actionRejected (discoveryRejectReason vs.discoveryReasons m r) = rejectStatus m := by
  intro hs
  rw [hstok hs]
  unfold discoveryRejectReason rejectStatus
  simp only
  split
  · exact st404
  · exact st503 _ hr

private theorem shape_discovery (vs : Variants) (fb : String) (rom : Bool) (oc : Refresh) (h m : List Ep)
    (snd stok : Bool)
    (hsnd : snd = true → (fb = fallbackNone ∨ fb = fallbackCompatibleOnly) ∧
        (vs.discoveryErrorFallback = .fixed ∨ oc ≠ .getHealthyFailed))
    (hstok : stok = true → vs.discoveryReasons = .fixed) :
    Shape h m (currentHealthy oc h) snd stok (Obs.ofRouted (discovery vs fb rom oc h m)) := by
  have hns : ¬ (fb == fallbackNone) = true → ¬ (fb == fallbackCompatibleOnly) = true → snd = false := by
    intro h1 h2
    cases hs : snd with
    | false => rfl
    | true => rcases (hsnd hs).1 with h | h <;> simp [h] at h1 h2
  have hns' : ¬ (fb == fallbackNone || fb == fallbackCompatibleOnly) = true → snd = false := by
    intro h1
    cases hs : snd with
    | false => rfl
    | true => rcases (hsnd hs).1 with h | h <;> simp [h] at h1
  have ds := disc_status vs stok hstok m
  unfold discovery
  simp only
  split
  · rename_i hr
    exact sh_routed _ _ _ (by simpa using hr)
  · rename_i hr
    have hn : routable h m = [] := by
      cases hrm : routable h m with
      | nil => rfl
      | cons a l => simp [hrm] at hr
    split
    · exact sh_rejected _ _ _ hn (ds _ (unav reasonModelUnavailableNoRefresh (by simp)))
    · cases oc with
      | refreshFailed =>
        simp only
        split
        · exact sh_rejected _ _ _ hn (ds _ (unav reasonDiscoveryFailedNoFallback (by simp)))
        · rename_i h1
          split
          · exact sh_rejected _ _ _ hn (ds _ (unav reasonDiscoveryFailedCompatibleOnly (by simp)))
          · rename_i h2
            exact sh_fallback _ _ _ _ (Or.inl rfl) hn (hns h1 h2)
      | getHealthyFailed =>
        simp only
        split
        · rename_i hp
          refine sh_fallback _ _ _ _ (Or.inl rfl) hn ?_
          cases hs : snd with
          | false => rfl
          | true =>
            rcases (hsnd hs).2 with h | h
            · rw [hp] at h; cases h
            · exact absurd rfl h
        · split
          · exact sh_rejected _ _ _ hn (ds _ (unav reasonDiscoveryError (by simp)))
          · rename_i h1
            exact sh_fallback _ _ _ _ (Or.inl rfl) hn (hns' h1)
      | ok u =>
        simp only
        split
        · exact sh_rejected _ _ _ hn (ds _ (unav reasonNoHealthyAfterDiscovery (by simp)))
        · split
          · exact sh_rejected _ _ _ hn (ds _ (unav reasonModelUnavailableAfterDiscovery (by simp)))
          · rename_i h1
            exact sh_fallback _ _ _ _ (Or.inr rfl) hn (hns' h1)

private theorem ne_of_beq_false {a b : String} (h : a ≠ b) : (a == b) = false := by simp [h]

/-- sound + optimistic ⇒ the constructor-normalised fallback is none or compatible_only -/
private theorem sound_optimistic {typ fb : String} (hn : factoryName typ = strategyOptimistic)
    (hsc : soundConfig typ fb = true) :
    optimisticFallback fb = fallbackNone ∨ optimisticFallback fb = fallbackCompatibleOnly := by
  have hd := gen_names_distinct
  unfold soundConfig at hsc
  simp only [hn, ne_of_beq_false (Ne.symm hd.1), ne_of_beq_false hd.2.2.1, beq_self_eq_true,
    Bool.false_or, Bool.true_or, Bool.true_and, Bool.or_eq_true, beq_iff_eq] at hsc
  unfold optimisticFallback
  rcases hsc with (h | h) | h
  · right; simp [h, hd.2.2.2.2.2.2.2.1]
  · left; simp [h, hd.2.2.2.2.2.2.1]
  · right; simp [h]

private theorem sound_discovery {typ fb : String} (hn : factoryName typ = strategyDiscovery)
    (hsc : soundConfig typ fb = true) : fb = fallbackNone ∨ fb = fallbackCompatibleOnly := by
  have hd := gen_names_distinct
  unfold soundConfig at hsc
  simp only [hn, ne_of_beq_false (Ne.symm hd.2.1), ne_of_beq_false (Ne.symm hd.2.2.1), beq_self_eq_true,
    Bool.false_or, Bool.or_true, Bool.false_and, Bool.or_false, Bool.true_and, Bool.or_eq_true, beq_iff_eq] at hsc
  exact hsc.symm

/-- Every strategy, for every configuration, produces one of the three shapes. -/
private theorem shape_route (vs : Variants) (typ fb : String) (rom : Bool) (oc : Refresh) (h m : List Ep)
    (snd stok : Bool)
    (hsnd : snd = true → soundConfig typ fb = true ∧
        (vs.discoveryErrorFallback = .fixed ∨ ¬ (factoryName typ = strategyDiscovery ∧ oc = .getHealthyFailed)))
    (hstok : stok = true → vs.discoveryReasons = .fixed ∨ factoryName typ ≠ strategyDiscovery) :
    Shape h m (currentHealthy oc h) snd stok (Obs.ofRouted (route vs typ fb rom oc h m)) := by
  have hd := gen_names_distinct
  unfold route
  simp only
  split
  · rename_i hn
    have hn : factoryName typ = strategyOptimistic := by simpa using hn
    exact shape_optimistic _ _ _ _ _ _ (fun hs => sound_optimistic hn (hsnd hs).1)
  · split
    · rename_i hn
      have hn : factoryName typ = strategyDiscovery := by simpa using hn
      refine shape_discovery _ _ _ _ _ _ _ _ (fun hs => ⟨sound_discovery hn (hsnd hs).1, ?_⟩) (fun hs => ?_)
      · rcases (hsnd hs).2 with h | h
        · exact Or.inl h
        · exact Or.inr (fun ho => h ⟨hn, ho⟩)
      · rcases hstok hs with h | h
        · exact h
        · exact absurd hn h
    · exact shape_strict _ _ _ _ _

private theorem routable_isEmpty_false {h m : List Ep} (hne : routable h m ≠ []) : (routable h m).isEmpty = false := by
  cases hr : routable h m with
  | nil => exact absurd hr hne
  | cons a l => rfl

/-! ### The property, clause by clause, for ALL configurations and endpoint sets -/

/-- **Clause 2** — whenever some healthy endpoint lists the model, the request is routed, and only to
    healthy endpoints that list it (every strategy, every fallback, every refresh outcome). -/
theorem C09_served_is_routed (vs : Variants) (typ fb : String) (rom : Bool) (oc : Refresh) (healthy listers : List Ep) :
    clauseServed healthy listers (Obs.ofRouted (route vs typ fb rom oc healthy listers)) = true := by
  have hs := shape_route vs typ fb rom oc healthy listers false false (by simp) (by simp)
  generalize Obs.ofRouted (route vs typ fb rom oc healthy listers) = O at hs ⊢
  unfold clauseServed
  rw [served_eq_routable]
  cases hs with
  | routed s r hne => simp [routable_isEmpty_false hne, servedOnly_routable]
  | fallback s r l hl hnone => simp [hnone]
  | rejected s r st hnone => simp [hnone]

/-- **Clause 5 / headers** — the decision the strategy reports (which is what `SetResponseHeaders`
    copies into `X-Olla-Routing-*`) agrees with the endpoints it returned: `routed` ⇒ non-empty and only
    healthy listers, `fallback` ⇒ exactly the (refreshed) healthy set, `rejected` ⇒ nothing; a
    non-rejection carries status 200. -/
theorem C09_decision_agrees (vs : Variants) (typ fb : String) (rom : Bool) (oc : Refresh) (healthy listers : List Ep) :
    clauseDecisionAgrees oc healthy listers (Obs.ofRouted (route vs typ fb rom oc healthy listers)) = true := by
  have hs := shape_route vs typ fb rom oc healthy listers false false (by simp) (by simp)
  generalize Obs.ofRouted (route vs typ fb rom oc healthy listers) = O at hs ⊢
  have hd := gen_names_distinct
  unfold clauseDecisionAgrees
  cases hs with
  | routed s r hne => simp [routable_isEmpty_false hne, servedOnly_routable]
  | fallback s r l hl hnone =>
    have h1 : (actionFallback == actionRouted) = false := ne_of_beq_false (Ne.symm hd.2.2.2.2.2.2.2.2.2.1)
    rcases hl with rfl | rfl <;> simp [h1]
  | rejected s r st hnone =>
    have h1 : (actionRejected == actionRouted) = false := ne_of_beq_false (Ne.symm hd.2.2.2.2.2.2.2.2.2.2.1)
    have h2 : (actionRejected == actionFallback) = false := ne_of_beq_false (Ne.symm hd.2.2.2.2.2.2.2.2.2.2.2)
    simp [h1, h2]

/-- **Clause 1** — under strict, and under optimistic/discovery with fallback compatible_only or none,
    every returned endpoint is healthy and lists the model. Pinned tree: false for the discovery
    strategy when `GetHealthyEndpoints` fails after the refresh (see the witness below). -/
theorem C09_sound (vs : Variants) (typ fb : String) (rom : Bool) (oc : Refresh) (healthy listers : List Ep)
    (hv : vs.discoveryErrorFallback = .fixed ∨ ¬ (factoryName typ = strategyDiscovery ∧ oc = .getHealthyFailed)) :
    clauseSound typ fb healthy listers (Obs.ofRouted (route vs typ fb rom oc healthy listers)) = true := by
  unfold clauseSound
  cases hsc : soundConfig typ fb with
  | false => simp
  | true =>
    have hs := shape_route vs typ fb rom oc healthy listers true false (fun _ => ⟨hsc, hv⟩) (by simp)
    generalize Obs.ofRouted (route vs typ fb rom oc healthy listers) = O at hs ⊢
    cases hs with
    | routed s r hne => simp [servedOnly_routable]
    | fallback s r l hl hnone hns => cases hns
    | rejected s r st hnone => simp [servedOnly_nil]

/-- Full strength once `fixes/C09-discovery-error-fallback.patch` is applied. -/
theorem C09_sound_fixed (vs : Variants) (hvs : vs.discoveryErrorFallback = .fixed) (typ fb : String) (rom : Bool)
    (oc : Refresh) (healthy listers : List Ep) :
    clauseSound typ fb healthy listers (Obs.ofRouted (route vs typ fb rom oc healthy listers)) = true :=
  C09_sound vs typ fb rom oc healthy listers (Or.inl hvs)

/-- Pinned tree: discovery strategy, fallback none, refresh allowed, `GetHealthyEndpoints` fails:
    the one healthy endpoint is returned although it does not list the model. -/
theorem C09_sound_pinned_witness :
    clauseSound strategyDiscovery fallbackNone [0] []
      (Obs.ofRouted (route allPinned strategyDiscovery fallbackNone true .getHealthyFailed [0] [])) = false := by decide

/-- **Clause 3a** — under a sound configuration a model no healthy endpoint lists is rejected. -/
theorem C09_unserved_is_rejected (vs : Variants) (typ fb : String) (rom : Bool) (oc : Refresh) (healthy listers : List Ep)
    (hv : vs.discoveryErrorFallback = .fixed ∨ ¬ (factoryName typ = strategyDiscovery ∧ oc = .getHealthyFailed)) :
    clauseMustReject typ fb healthy listers (Obs.ofRouted (route vs typ fb rom oc healthy listers)) = true := by
  unfold clauseMustReject
  cases hsc : soundConfig typ fb with
  | false => simp
  | true =>
    have hs := shape_route vs typ fb rom oc healthy listers true false (fun _ => ⟨hsc, hv⟩) (by simp)
    generalize Obs.ofRouted (route vs typ fb rom oc healthy listers) = O at hs ⊢
    rw [served_eq_routable]
    cases hs with
    | routed s r hne => simp [routable_isEmpty_false hne]
    | fallback s r l hl hnone hns => cases hns
    | rejected s r st hnone => simp

/-- **Clause 3b** — a rejection returns no endpoint and carries 404 when no endpoint lists the model,
    503 when only unhealthy endpoints do. Pinned tree: false for the discovery strategy (witness below). -/
theorem C09_reject_status (vs : Variants) (typ fb : String) (rom : Bool) (oc : Refresh) (healthy listers : List Ep)
    (hv : vs.discoveryReasons = .fixed ∨ factoryName typ ≠ strategyDiscovery) :
    clauseRejectStatus listers (Obs.ofRouted (route vs typ fb rom oc healthy listers)) = true := by
  have hd := gen_names_distinct
  have hs := shape_route vs typ fb rom oc healthy listers false true (by simp) (fun _ => hv)
  generalize Obs.ofRouted (route vs typ fb rom oc healthy listers) = O at hs ⊢
  unfold clauseRejectStatus
  cases hs with
  | routed s r hne => simp [ne_of_beq_false hd.2.2.2.2.2.2.2.2.2.2.1]
  | fallback s r l hl hnone hns => simp [ne_of_beq_false hd.2.2.2.2.2.2.2.2.2.2.2]
  | rejected s r st hnone hst => simp [hst rfl]

/-- Full strength once `fixes/C09-discovery-404.patch` is applied. -/
theorem C09_reject_status_fixed (vs : Variants) (hvs : vs.discoveryReasons = .fixed) (typ fb : String) (rom : Bool)
    (oc : Refresh) (healthy listers : List Ep) :
    clauseRejectStatus listers (Obs.ofRouted (route vs typ fb rom oc healthy listers)) = true :=
  C09_reject_status vs typ fb rom oc healthy listers (Or.inl hvs)

/-- Pinned tree (DESIGN §4 #9): discovery strategy, refresh disabled, one healthy endpoint, NO endpoint
    lists the model: rejected with `model_unavailable_no_refresh` = 503 instead of 404. -/
theorem C09_reject_status_pinned_witness :
    clauseRejectStatus [] (Obs.ofRouted (route allPinned strategyDiscovery fallbackCompatibleOnly false (.ok [0]) [0] [])) = false := by
  decide

/-- **Clause 4** — with fallback `all` a model no healthy endpoint lists goes to the healthy set
    (optimistic: always; discovery: when it may refresh and the refreshed healthy set is non-empty). -/
theorem C09_fallback_all (vs : Variants) (typ fb : String) (rom : Bool) (oc : Refresh) (healthy listers : List Ep) :
    clauseFallbackAll typ fb rom oc healthy listers (Obs.ofRouted (route vs typ fb rom oc healthy listers)) = true := by
  have hd := gen_names_distinct
  unfold clauseFallbackAll
  cases happ : fallbackAllApplies typ fb rom oc healthy with
  | false => simp
  | true =>
    cases hse : (served healthy listers).isEmpty with
    | false => simp
    | true =>
      simp only [Bool.and_self, Bool.not_true, Bool.false_or]
      have hnone : routable healthy listers = [] := (isEmpty_iff _).mp hse
      unfold fallbackAllApplies at happ
      simp only [Bool.and_eq_true, beq_iff_eq, Bool.or_eq_true] at happ
      obtain ⟨hfb, hcase⟩ := happ
      subst hfb
      have hfn : (fallbackAll == fallbackNone) = false := ne_of_beq_false (Ne.symm hd.2.2.2.2.1)
      have hfc : (fallbackAll == fallbackCompatibleOnly) = false := ne_of_beq_false (Ne.symm hd.2.2.2.2.2.1)
      have hfe : (fallbackAll == "") = false := ne_of_beq_false hd.2.2.2.2.2.2.2.2.1
      unfold route
      simp only
      rcases hcase with hn | ⟨⟨hn, hrom⟩, hcur⟩
      · rw [hn]
        simp only [beq_self_eq_true, if_true, ne_of_beq_false hd.2.2.1, Bool.false_eq_true, if_false]
        unfold optimistic optimisticFallback
        simp only [hfe, Bool.false_eq_true, if_false, hfn, hfc, hnone, List.isEmpty_nil, if_true]
        split <;> simp [Obs.ofRouted, mkDecision]
      · rw [hn]
        simp only [ne_of_beq_false (Ne.symm hd.2.2.1), Bool.false_eq_true, if_false, beq_self_eq_true, if_true]
        unfold discovery
        simp only [hnone, List.isEmpty_nil, Bool.not_true, Bool.false_eq_true, if_false, hrom, hfn, hfc, Bool.or_self]
        cases oc with
        | refreshFailed => simp [Obs.ofRouted, mkDecision, currentHealthy]
        | getHealthyFailed =>
          cases vs.discoveryErrorFallback <;> simp [Obs.ofRouted, mkDecision, currentHealthy]
        | ok u =>
          simp only [currentHealthy] at hcur ⊢
          simp only [Bool.not_eq_true'] at hcur
          simp [hcur, Obs.ofRouted, mkDecision]

/-- All clauses at once for a tree with both discovery fixes applied: no violation for any configuration. -/
theorem C09_route_fixed (vs : Variants) (h1 : vs.discoveryReasons = .fixed) (h2 : vs.discoveryErrorFallback = .fixed)
    (typ fb : String) (rom : Bool) (oc : Refresh) (healthy listers : List Ep) :
    routeViolation typ fb rom oc healthy listers (Obs.ofRouted (route vs typ fb rom oc healthy listers)) = none := by
  unfold routeViolation
  simp [C09_sound vs typ fb rom oc healthy listers (Or.inl h2), C09_served_is_routed,
    C09_unserved_is_rejected vs typ fb rom oc healthy listers (Or.inl h2),
    C09_reject_status vs typ fb rom oc healthy listers (Or.inl h1), C09_fallback_all, C09_decision_agrees]

/-- The pinned tree: no violation for the strict and optimistic strategies (the defects are in discovery). -/
theorem C09_route_partial (vs : Variants) (typ fb : String) (hn : factoryName typ ≠ strategyDiscovery)
    (rom : Bool) (oc : Refresh) (healthy listers : List Ep) :
    routeViolation typ fb rom oc healthy listers (Obs.ofRouted (route vs typ fb rom oc healthy listers)) = none := by
  have h2 : ¬ (factoryName typ = strategyDiscovery ∧ oc = .getHealthyFailed) := fun h => hn h.1
  unfold routeViolation
  simp [C09_sound vs typ fb rom oc healthy listers (Or.inr h2), C09_served_is_routed,
    C09_unserved_is_rejected vs typ fb rom oc healthy listers (Or.inr h2),
    C09_reject_status vs typ fb rom oc healthy listers (Or.inr hn), C09_fallback_all, C09_decision_agrees]

/-! ### The candidate constraint (round 4): the refreshed fallback never leaves the caller's candidates

`routeC` is `route` behind `restrictToCandidates`.  The caller's list is what the route allows (the provider handler hands
in that provider's endpoints only — C11), so "returned ⊆ candidates" is the strategy's share of C11. -/

private theorem filter_contains_self (h : List Ep) : h.filter (fun e => h.contains e) = h := by
  apply List.filter_eq_self.mpr
  intro a ha
  simpa using ha

/-- the production discovery service hands back the list it was asked about: the restriction is the identity there -/
theorem routeC_ok_self (vs : Variants) (typ fb : String) (rom : Bool) (h m : List Ep) :
    routeC vs typ fb rom (.ok h) h m = route vs typ fb rom (.ok h) h m := by
  unfold routeC
  cases vs.discoveryCandidates with
  | pinned => rfl
  | fixed =>
    show route vs typ fb rom (.ok (h.filter (fun e => h.contains e))) h m = _
    rw [filter_contains_self]

private theorem route_indep_of_outcome (vs : Variants) (typ fb : String) (hn : factoryName typ ≠ strategyDiscovery)
    (rom : Bool) (oc oc' : Refresh) (h m : List Ep) :
    route vs typ fb rom oc h m = route vs typ fb rom oc' h m := by
  unfold route
  simp [hn]

private theorem within_of_shape {h m cur : List Ep} {snd stok : Bool} {O : Obs} (hs : Shape h m cur snd stok O)
    (hcur : ∀ e ∈ cur, e ∈ h) : clauseWithinCandidates h O = true := by
  unfold clauseWithinCandidates
  cases hs with
  | routed s r hne =>
    simp only [List.all_eq_true]
    intro e he
    simpa using (mem_routable.mp he).1
  | fallback s r l hl hnone hns =>
    simp only [List.all_eq_true]
    intro e he
    rcases hl with rfl | rfl
    · simpa using he
    · simpa using hcur e he
  | rejected s r st hnone hst => simp

private theorem cur_within (oc : Refresh) (h : List Ep) : ∀ e ∈ currentHealthy (effOutcome .fixed oc h) h, e ∈ h := by
  intro e he
  cases oc with
  | ok u =>
    simp only [effOutcome, currentHealthy, List.mem_filter] at he
    simpa using he.2
  | refreshFailed => simpa [effOutcome, currentHealthy] using he
  | getHealthyFailed => simpa [effOutcome, currentHealthy] using he

/-- **Clause 0** — with the candidates fix, whatever any strategy returns, under any configuration and after any
    refresh outcome (whatever list the discovery service hands back), was offered by the caller as a candidate. -/
theorem C09_within_candidates (vs : Variants) (hv : vs.discoveryCandidates = .fixed) (typ fb : String) (rom : Bool)
    (oc : Refresh) (healthy listers : List Ep) :
    clauseWithinCandidates healthy (Obs.ofRouted (routeC vs typ fb rom oc healthy listers)) = true := by
  unfold routeC
  rw [hv]
  exact within_of_shape
    (shape_route vs typ fb rom (effOutcome .fixed oc healthy) healthy listers false false (by simp) (by simp))
    (cur_within oc healthy)

/-- Pinned tree: candidates [0] (the provider's endpoint), nobody lists the model, the refresh reports endpoints 0 and 1
    healthy, fallback all: endpoint 1 — never offered — is returned. -/
theorem C09_within_candidates_pinned_witness :
    clauseWithinCandidates [0]
      (Obs.ofRouted (routeC allPinned strategyDiscovery fallbackAll true (.ok [0, 1]) [0] [])) = false := by decide

/-- Strict and optimistic never look at the refreshed list: inside the candidates on every tree. -/
theorem C09_within_candidates_partial (vs : Variants) (typ fb : String) (hn : factoryName typ ≠ strategyDiscovery)
    (rom : Bool) (oc : Refresh) (healthy listers : List Ep) :
    clauseWithinCandidates healthy (Obs.ofRouted (routeC vs typ fb rom oc healthy listers)) = true := by
  unfold routeC
  rw [route_indep_of_outcome vs typ fb hn rom _ .refreshFailed]
  exact within_of_shape
    (shape_route vs typ fb rom .refreshFailed healthy listers false false (by simp) (by simp))
    (fun e he => by simpa [currentHealthy] using he)

/-- All clauses, candidate constraint included, for the tree as it is now (all three discovery fixes). -/
theorem C09_routeC_fixed (vs : Variants) (h1 : vs.discoveryReasons = .fixed) (h2 : vs.discoveryErrorFallback = .fixed)
    (h3 : vs.discoveryCandidates = .fixed) (typ fb : String) (rom : Bool) (oc : Refresh) (healthy listers : List Ep) :
    routeViolationC typ fb rom oc healthy listers (Obs.ofRouted (routeC vs typ fb rom oc healthy listers)) = none := by
  unfold routeViolationC
  rw [C09_within_candidates vs h3]
  simp only [Bool.not_true, Bool.false_eq_true, if_false]
  unfold routeC
  rw [h3]
  exact C09_route_fixed vs h1 h2 typ fb rom _ healthy listers

example : routeViolationC strategyDiscovery fallbackAll true (.ok [0, 1, 2]) [0, 2] []
    (Obs.ofRouted (routeC active strategyDiscovery fallbackAll true (.ok [0, 1, 2]) [0, 2] [])) = none ∧
    (routeC active strategyDiscovery fallbackAll true (.ok [0, 1, 2]) [0, 2] []).eps = [0, 2] := by decide

/-! ### Handlers: client status and headers -/

/-- What a client observes when the balancer picks `pick` out of the endpoints the handler forwards to
    (`none` iff there are none) and the backend answers 200. -/
def httpObs (o : HttpOut) (pick : Option Ep) : HttpObs :=
  { status := if o.forwardTo.isEmpty then o.status else 200,
    backend := pick,
    hStrategy := (o.headers.find? (fun p => p.1 == headerStrategy)).map (·.2),
    hDecision := (o.headers.find? (fun p => p.1 == headerDecision)).map (·.2),
    hReason := (o.headers.find? (fun p => p.1 == headerReason)).map (·.2) }

/-- a pick is legal iff it is a member of a non-empty forward list, or `none` for an empty one -/
def legalPick (o : HttpOut) (pick : Option Ep) : Prop :=
  match pick with
  | some e => e ∈ o.forwardTo
  | none => o.forwardTo = []

private theorem handle_cases (vs : Variants) (h : Handler) (typ fb : String) (rom : Bool) (healthy listers : List Ep) :
    ((effectiveRoute vs typ fb rom healthy listers).eps ≠ [] ∧
      handle vs h typ fb rom healthy listers =
        ⟨(effectiveRoute vs typ fb rom healthy listers).eps, 0,
          decisionHeaders (effectiveRoute vs typ fb rom healthy listers).decision⟩) ∨
    ((effectiveRoute vs typ fb rom healthy listers).eps = [] ∧
      ∃ st, handle vs h typ fb rom healthy listers = ⟨[], st, []⟩ ∧
        (vs.handlerStatus = .fixed → (effectiveRoute vs typ fb rom healthy listers).decision.action = actionRejected →
          st = (effectiveRoute vs typ fb rom healthy listers).decision.status)) := by
  unfold handle
  simp only
  cases he : (effectiveRoute vs typ fb rom healthy listers).eps with
  | cons a l => left; simp
  | nil =>
    right
    simp only [List.isEmpty_nil, Bool.not_true, Bool.false_eq_true, if_false, true_and]
    cases hv : vs.handlerStatus with
    | pinned => cases h <;> simp
    | fixed =>
      by_cases ha : (effectiveRoute vs typ fb rom healthy listers).decision.action = actionRejected
      · simp [ha]
      · cases h <;> simp [ha]

private theorem find_strategy (d : Decision) :
    ((decisionHeaders d).find? (fun p => p.1 == headerStrategy)).map (·.2) = some d.strategy := by
  simp [decisionHeaders]

private theorem find_decision (d : Decision) :
    ((decisionHeaders d).find? (fun p => p.1 == headerDecision)).map (·.2) = some d.action := by
  have hh := gen_headers_distinct
  simp [decisionHeaders, List.find?, hh.1]

/-- **Headers are the decision**: a forwarded response goes to the endpoints the registry returned and
    carries exactly the strategy and action of the decision it made (`SetResponseHeaders`); an answer
    Olla makes itself (nothing forwarded) carries no routing headers. -/
theorem C09_headers_are_decision (vs : Variants) (h : Handler) (typ fb : String) (rom : Bool) (healthy listers : List Ep) (pick : Option Ep) :
    ((handle vs h typ fb rom healthy listers).forwardTo ≠ [] →
        (handle vs h typ fb rom healthy listers).forwardTo = (effectiveRoute vs typ fb rom healthy listers).eps ∧
        (httpObs (handle vs h typ fb rom healthy listers) pick).hStrategy = some (effectiveRoute vs typ fb rom healthy listers).decision.strategy ∧
        (httpObs (handle vs h typ fb rom healthy listers) pick).hDecision = some (effectiveRoute vs typ fb rom healthy listers).decision.action) ∧
    ((handle vs h typ fb rom healthy listers).forwardTo = [] →
        (httpObs (handle vs h typ fb rom healthy listers) pick).hDecision = none ∧
        (httpObs (handle vs h typ fb rom healthy listers) pick).hStrategy = none) := by
  rcases handle_cases vs h typ fb rom healthy listers with ⟨hne, ho⟩ | ⟨he, st, ho, _⟩
  · rw [ho]
    refine ⟨fun _ => ⟨rfl, ?_, ?_⟩, fun hnil => absurd hnil hne⟩
    · simp only [httpObs]; exact find_strategy _
    · simp only [httpObs]; exact find_decision _
  · rw [ho]
    refine ⟨fun hne => absurd rfl hne, fun _ => ?_⟩
    simp [httpObs]

/-- shape of what reaches the handler, whichever wiring variant -/
private theorem effectiveRoute_shape (vs : Variants) (typ fb : String) (rom : Bool) (healthy listers : List Ep)
    (snd stok : Bool)
    (hsnd : snd = true → soundConfig typ fb = true ∨ vs.wiring = .pinned)
    (hstok : stok = true → vs.wiring = .pinned ∨ vs.discoveryReasons = .fixed ∨ factoryName typ ≠ strategyDiscovery) :
    Shape healthy listers healthy snd stok (Obs.ofRouted (effectiveRoute vs typ fb rom healthy listers)) := by
  unfold effectiveRoute
  rw [routeC_ok_self]
  cases hw : vs.wiring with
  | pinned =>
    simp only
    -- strict never falls back: obtain the shape with snd = true and weaken
    have hs := shape_strict healthy listers healthy true true
    generalize Obs.ofRouted (strict healthy listers) = O at hs ⊢
    cases hs with
    | routed s r hne => exact Shape.routed _ _ hne
    | fallback s r l hl hnone hns => cases hns
    | rejected s r st hnone hst => exact Shape.rejected _ _ _ hnone (fun _ => hst rfl)
  | fixed =>
    simp only
    have := shape_route vs typ fb rom (.ok healthy) healthy listers snd stok
      (fun hs => by
        rcases hsnd hs with h | h
        · exact ⟨h, Or.inr (fun hx => Refresh.noConfusion hx.2)⟩
        · rw [hw] at h; cases h)
      (fun hs => by
        rcases hstok hs with h | h | h
        · rw [hw] at h; cases h
        · exact Or.inl h
        · exact Or.inr h)
    simpa [currentHealthy] using this

/-- **Soundness at the handler, for every variant of the tree**: whatever strategy is configured and
    whichever of the defects are present, a request is only ever forwarded to healthy endpoints, and
    under a sound configuration only to healthy endpoints that list the model. (The production
    discovery service never fails `GetHealthyEndpoints`, so the error-fallback defect is not reachable here.) -/
theorem C09_http_forward_sound (vs : Variants) (h : Handler) (typ fb : String) (rom : Bool) (healthy listers : List Ep)
    (e : Ep) (he : e ∈ (handle vs h typ fb rom healthy listers).forwardTo) :
    e ∈ healthy ∧ (soundConfig typ fb = true → e ∈ listers) := by
  rcases handle_cases vs h typ fb rom healthy listers with ⟨_, ho⟩ | ⟨_, st, ho, _⟩
  rotate_left
  · rw [ho] at he; simp at he
  rw [ho] at he
  have hs := effectiveRoute_shape vs typ fb rom healthy listers (soundConfig typ fb) false (fun hh => Or.inl hh) (by simp)
  have hmem : e ∈ (Obs.ofRouted (effectiveRoute vs typ fb rom healthy listers)).eps := he
  generalize Obs.ofRouted (effectiveRoute vs typ fb rom healthy listers) = O at hs hmem
  cases hs with
  | routed s r hne => have := mem_routable.mp hmem; exact ⟨this.1, fun _ => this.2⟩
  | fallback s r l hl hnone hns =>
    refine ⟨?_, fun hsc => ?_⟩
    · rcases hl with rfl | rfl <;> exact hmem
    · rw [hsc] at hns; cases hns
  | rejected s r st hnone => simp at hmem

/-- **Client status, full strength** (handler fix + wiring fix + discovery-reason fix applied): for every
    configured strategy, fallback, healthy set, lister set and balancer pick, the observed response has
    no violation of the property: rejections arrive as 404 / 503, fallback `all` reaches the healthy set,
    served models are served by healthy listers, headers agree. -/
theorem C09_http_fixed (vs : Variants) (h1 : vs.handlerStatus = .fixed) (h2 : vs.wiring = .fixed)
    (h3 : vs.discoveryReasons = .fixed)
    (h : Handler) (typ fb : String) (rom : Bool) (healthy listers : List Ep) (pick : Option Ep)
    (hp : legalPick (handle vs h typ fb rom healthy listers) pick) :
    httpViolation typ fb rom healthy listers (httpObs (handle vs h typ fb rom healthy listers) pick) = none := by
  have hd := gen_names_distinct
  have hs := effectiveRoute_shape vs typ fb rom healthy listers (soundConfig typ fb) true (fun hh => Or.inl hh)
    (fun _ => Or.inr (Or.inl h3))
  have c5 := C09_fallback_all vs typ fb rom (.ok healthy) healthy listers
  have hroute : effectiveRoute vs typ fb rom healthy listers = route vs typ fb rom (.ok healthy) healthy listers := by
    unfold effectiveRoute; simp [h2, routeC_ok_self]
  rw [← hroute] at c5
  have hc := handle_cases vs h typ fb rom healthy listers
  generalize effectiveRoute vs typ fb rom healthy listers = R at hs c5 hc
  obtain ⟨eps, ⟨ds, da, dr, dst⟩, err⟩ := R
  simp only [Obs.ofRouted] at hs c5
  unfold httpViolation httpViolation2
  rw [served_eq_routable]
  cases hs with
  | routed s r hne =>
    rcases hc with ⟨_, ho⟩ | ⟨he, _⟩
    rotate_left
    · exact absurd he hne
    rw [ho] at hp ⊢
    have hne' := routable_isEmpty_false hne
    cases pick with
    | none => simp [legalPick] at hp; exact absurd hp hne
    | some e =>
      simp only [legalPick] at hp
      have hm := mem_routable.mp hp
      simp [httpObs, find_decision, hm.1, hm.2, hne', hp]
  | fallback s r l hl hnone hns =>
    have hl' : eps = healthy := by rcases hl with h | h <;> exact h
    subst hl'
    rcases hc with ⟨hne, ho⟩ | ⟨he, st, ho, _⟩
    · rw [ho] at hp ⊢
      simp only at hne
      have hEf : eps.isEmpty = false := by
        cases heps : eps with
        | nil => exact absurd heps hne
        | cons a t => rfl
      cases pick with
      | none => simp [legalPick] at hp; exact absurd hp hne
      | some e =>
        simp only [legalPick] at hp
        simp [httpObs, find_decision, hns, hnone, hEf, ne_of_beq_false (Ne.symm hd.2.2.2.2.2.2.2.2.2.1), hp]
    · simp only at he
      subst he
      rw [ho] at hp ⊢
      cases pick with
      | some e => simp [legalPick] at hp
      | none => simp [httpObs, hns, hnone]
  | rejected s r st hnone hst =>
    rcases hc with ⟨hne, _⟩ | ⟨_, st', ho, hst'⟩
    · exact absurd rfl hne
    have hst2 : st' = rejectStatus listers := by rw [hst' h1 rfl]; exact hst rfl
    subst hst2
    rw [ho] at hp ⊢
    cases pick with
    | some e => simp [legalPick] at hp
    | none =>
      -- fallback all cannot have been rejected with a non-empty healthy set
      have hfa : (httpFallbackAll typ fb rom healthy && !healthy.isEmpty) = false := by
        cases hfa : httpFallbackAll typ fb rom healthy with
        | false => simp
        | true =>
          cases hhe : healthy.isEmpty with
          | true => simp
          | false =>
            exfalso
            unfold httpFallbackAll at hfa
            unfold clauseFallbackAll at c5
            rw [served_eq_routable] at c5
            simp only [hfa, hnone, List.isEmpty_nil, Bool.and_self, Bool.not_true, Bool.false_or, Bool.and_eq_true, beq_iff_eq] at c5
            exact hd.2.2.2.2.2.2.2.2.2.2.2 c5.1.symm
      have hfa' : httpFallbackAll typ fb rom healthy = true → healthy = [] := by
        intro hx
        simp only [hx, Bool.true_and, Bool.not_eq_false'] at hfa
        exact (isEmpty_iff _).mp hfa
      simp [httpObs, hnone]
      exact hfa'

/-- Pinned tree (#8): strict, one healthy endpoint, nobody lists the model. The registry computes
    404, `proxyHandler` answers 502. -/
theorem C09_http_pinned_handler_witness :
    httpViolation strategyStrict fallbackCompatibleOnly false [0] []
      (httpObs (handle allPinned .proxy strategyStrict fallbackCompatibleOnly false [0] []) none)
      = some "reject-status-wrong" := by decide

/-- Pinned tree (#8, provider routes): only an unhealthy endpoint lists the model; 404 instead of 503. -/
theorem C09_http_pinned_provider_witness :
    httpViolation strategyStrict fallbackCompatibleOnly false [0] [1]
      (httpObs (handle allPinned .provider strategyStrict fallbackCompatibleOnly false [0] [1]) none)
      = some "reject-status-wrong" := by decide

/-- Pinned tree (#22): optimistic + fallback all configured, the registry runs strict: an unlisted
    model is rejected instead of going to the healthy endpoint. -/
theorem C09_http_pinned_wiring_witness :
    httpViolation strategyOptimistic fallbackAll false [0] []
      (httpObs (handle allPinned .proxy strategyOptimistic fallbackAll false [0] []) none)
      = some "fallback-all-not-healthy-set" := by decide

/-! ### Non-vacuity -/

example : (route allPinned strategyStrict "" false (.ok []) [0, 1, 2] [1, 2, 3]).eps = [1, 2] := by decide
example : (route allPinned strategyOptimistic fallbackAll false (.ok []) [0, 1] [3]).eps = [0, 1] := by decide
example : (route allPinned strategyOptimistic fallbackNone false (.ok []) [0, 1] [3]).decision.status = 503 := by decide
example : (route allPinned strategyDiscovery fallbackAll true (.ok [2]) [0] [3]).eps = [2] := by decide
example : (route allFixed strategyDiscovery fallbackNone true .getHealthyFailed [0] []).decision.status = 404 := by decide
example : soundConfig strategyDiscovery fallbackNone = true ∧ soundConfig strategyOptimistic fallbackAll = false := by decide
example : (handle allFixed .proxy strategyStrict "" false [0] [1]).status = 503 := by decide
example : (handle allFixed .provider strategyOptimistic fallbackAll false [0, 2] [1]).forwardTo = [0, 2] := by decide

/-! ### tie: no process-wide state on the modelled path

The theorems above are about single calls (or the history of one object). They cover every
request of a running process only if a call reaches no state that outlives it besides that
object. `Olla.Gen.State` is re-read from the source on every run: the package-level variables
reachable from each function inside its package that the package changes after initialisation. -/
theorem C09_tie_no_process_wide_state :
    Olla.Spec.State.reachesOnly "health.Check" [] = true := by decide

/-! ### Long request documents (known finding `long-document-bypasses-model-routing`)

The theorems above are about `handle`, which is given the endpoints that list the model the request names.  The code
gets that name from the body inspector, which reads documents of at most `peekMax` bytes.  For those, `handleDoc` IS
`handle` (`_partial`); for a longer document the routing stage never runs and the witness below — strict strategy,
endpoints 0 and 2 healthy, only 2 lists the model — shows the request offered to endpoint 0.  Replayed on the tree by
c09's documents of 1 MiB + 4 KiB and 3 MiB. -/

theorem C09_long_document_partial (vs : Variants) (h : Handler) (typ fb : String) (rom : Bool)
    (healthy listers : List Ep) (docLen : Nat) (hv : docLen ≤ peekMax) :
    handleDoc vs h typ fb rom healthy listers docLen = handle vs h typ fb rom healthy listers := by
  simp [handleDoc, modelVisible, hv]

theorem C09_long_document_witness :
    (handleDoc active .proxy strategyStrict fallbackCompatibleOnly false [0, 2] [2] (peekMax + 1)).forwardTo = [0, 2]
    ∧ (handle active .proxy strategyStrict fallbackCompatibleOnly false [0, 2] [2]).forwardTo = [2] := by decide

/-- the boundary is exactly `peekMax`: a document of that length is still routed by its model -/
example : handleDoc active .proxy strategyStrict fallbackCompatibleOnly false [0, 2] [2] peekMax
    = handle active .proxy strategyStrict fallbackCompatibleOnly false [0, 2] [2] := by decide

end Olla.Props.C09
