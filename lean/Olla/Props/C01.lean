/-
C01 — Requests reach the backend exactly as the client sent them.
-/
import Olla.Model.Body
import Olla.Spec.C01
import Olla.Spec.State

namespace Olla.Props.C01
open Olla.Model.Body

/-! ### Path: the route prefix is removed, nothing else -/

private theorem isPrefixOf_append (a b : List Char) : a.isPrefixOf (a ++ b) = true := by
  induction a with
  | nil => simp
  | cons x xs ih => simp [ih]

/-- For a path under a registered route prefix, what goes upstream is exactly the remainder, rooted at `/`. -/
theorem strip_registered (pre rest : List Char) :
    stripPrefix (pre ++ rest) pre =
      match rest with
      | [] => ['/']
      | c :: _ => if c = '/' then rest else '/' :: rest := by
  unfold stripPrefix
  simp only [isPrefixOf_append, ↓reduceIte, List.drop_left']
  rfl

/-- A path that is not under the prefix is passed through unchanged. -/
theorem strip_other (path pre : List Char) (h : pre.isPrefixOf path = false) : stripPrefix path pre = path := by
  unfold stripPrefix; simp [h]

/-! ### Body: one request, any size -/

/-- **A body that is byte-for-byte the body the client sent, of any size**: peeking at most `n` bytes
    (1 MiB in the code) and restoring leaves the byte sequence unchanged — also for bodies longer than
    the peek window — and every retry attempt is handed the same bytes. -/
theorem pipeline_identity (n : Nat) (body : List UInt8) (k : Nat) :
    attemptBody (restoreAndReadAll (peek n body)) k = body := by
  simp [attemptBody, restoreAndReadAll, peek]

/-! ### Isolation: N requests, any interleaving, any pool behaviour -/

private theorem take_overwrite (old : List UInt8) (n : Nat) (body : List UInt8) :
    (overwrite old (body.take n)).take (min n body.length) = body.take n := by
  have : (body.take n).length = min n body.length := List.length_take
  rw [← this]; simp [overwrite]

private structure CopyInv (n : Nat) (bodies : Nat → List UInt8) (s : St) : Prop where
  own : ∀ i b, (s.pc i = .got b ∨ s.pc i = .filled b ∨ s.pc i = .restored b) → s.owner b = some i
  fill : ∀ i b, s.pc i = .filled b → (s.heap b).take (min n (bodies i).length) = (bodies i).take n
  peek : ∀ i p, s.peeked i = some p → p = .bytes ((bodies i).take n)
  has : ∀ i, (s.pc i = .released ∨ ∃ b, s.pc i = .restored b) → s.peeked i = some (.bytes ((bodies i).take n))
  seen : ∀ i y, s.seen i = some y → y = (bodies i).take n
  sent : ∀ i x, s.sent i = some x → x = bodies i

private theorem inv_init (n : Nat) (bodies : Nat → List UInt8) : CopyInv n bodies init := by
  constructor <;> simp [init]

private theorem inv_step (n : Nat) (bodies : Nat → List UInt8) (s : St) (i c : Nat)
    (h : CopyInv n bodies s) : CopyInv n bodies (step .copy n bodies s i c) := by
  unfold step
  cases hpc : s.pc i with
  | start =>
    simp only
    by_cases hfree : s.owner c = none
    · simp only [hfree, ↓reduceIte]
      constructor
      · intro j b hj
        simp only [upd] at hj ⊢
        by_cases hji : j = i
        · subst hji; simp at hj; subst hj; simp
        · simp only [hji, ↓reduceIte] at hj
          have := h.own j b hj
          by_cases hbc : b = c
          · subst hbc; rw [hfree] at this; cases this
          · simp [hbc, this]
      · intro j b hj
        simp only [upd] at hj
        by_cases hji : j = i
        · subst hji; simp at hj
        · simp only [hji, ↓reduceIte] at hj; exact h.fill j b hj
      · exact h.peek
      · intro j hj
        simp only [upd] at hj
        by_cases hji : j = i
        · subst hji; simp at hj
        · simp only [hji, ↓reduceIte] at hj; exact h.has j hj
      · exact h.seen
      · exact h.sent
    · simp only [hfree, ↓reduceIte]; exact h
  | got b0 =>
    simp only
    have hown := h.own i b0 (Or.inl hpc)
    constructor
    · intro j b hj
      simp only [upd] at hj ⊢
      by_cases hji : j = i
      · subst hji; simp at hj; subst hj; exact hown
      · simp only [hji, ↓reduceIte] at hj; exact h.own j b hj
    · intro j b hj
      simp only [upd] at hj ⊢
      by_cases hji : j = i
      · subst hji; simp at hj; subst hj; simpa using take_overwrite (s.heap b0) n (bodies j)
      · simp only [hji, ↓reduceIte] at hj
        have hne : b ≠ b0 := by
          intro hb; subst hb
          have := h.own j b (Or.inr (Or.inl hj)); rw [hown] at this; injection this with this; exact hji this.symm
        simp only [hne, ↓reduceIte]; exact h.fill j b hj
    · exact h.peek
    · intro j hj
      simp only [upd] at hj
      by_cases hji : j = i
      · subst hji; simp at hj
      · simp only [hji, ↓reduceIte] at hj; exact h.has j hj
    · exact h.seen
    · exact h.sent
  | filled b0 =>
    simp only
    have hown := h.own i b0 (Or.inr (Or.inl hpc))
    have hfill := h.fill i b0 hpc
    constructor
    · intro j b hj
      simp only [upd] at hj ⊢
      by_cases hji : j = i
      · subst hji; simp at hj; subst hj; exact hown
      · simp only [hji, ↓reduceIte] at hj; exact h.own j b hj
    · intro j b hj
      simp only [upd] at hj
      by_cases hji : j = i
      · subst hji; simp at hj
      · simp only [hji, ↓reduceIte] at hj; exact h.fill j b hj
    · intro j p hj
      simp only [upd] at hj
      by_cases hji : j = i
      · subst hji; simp at hj; rw [← hj]; simp [hfill]
      · simp only [hji, ↓reduceIte] at hj; exact h.peek j p hj
    · intro j hj
      simp only [upd] at hj ⊢
      by_cases hji : j = i
      · subst hji; simp [hfill]
      · simp only [hji, ↓reduceIte] at hj ⊢; exact h.has j hj
    · intro j y hj
      simp only [upd] at hj
      by_cases hji : j = i
      · subst hji; simp at hj; rw [← hj]; simp [hfill]
      · simp only [hji, ↓reduceIte] at hj; exact h.seen j y hj
    · exact h.sent
  | restored b0 =>
    simp only
    have hown := h.own i b0 (Or.inr (Or.inr hpc))
    have hhas := h.has i (Or.inr ⟨b0, hpc⟩)
    constructor
    · intro j b hj
      simp only [upd] at hj ⊢
      by_cases hji : j = i
      · subst hji; simp at hj
      · simp only [hji, ↓reduceIte] at hj
        have hne : b ≠ b0 := by
          intro hb; subst hb
          have := h.own j b hj; rw [hown] at this; injection this with this; exact hji this.symm
        simp only [hne, ↓reduceIte]; exact h.own j b hj
    · intro j b hj
      simp only [upd] at hj
      by_cases hji : j = i
      · subst hji; simp at hj
      · simp only [hji, ↓reduceIte] at hj; exact h.fill j b hj
    · exact h.peek
    · intro j hj
      simp only [upd] at hj
      by_cases hji : j = i
      · subst hji; exact hhas
      · simp only [hji, ↓reduceIte] at hj; exact h.has j hj
    · exact h.seen
    · exact h.sent
  | released =>
    simp only
    have hhas := h.has i (Or.inl hpc)
    constructor
    · intro j b hj
      simp only [upd] at hj
      by_cases hji : j = i
      · subst hji; simp at hj
      · simp only [hji, ↓reduceIte] at hj; exact h.own j b hj
    · intro j b hj
      simp only [upd] at hj
      by_cases hji : j = i
      · subst hji; simp at hj
      · simp only [hji, ↓reduceIte] at hj; exact h.fill j b hj
    · exact h.peek
    · intro j hj
      simp only [upd] at hj
      by_cases hji : j = i
      · subst hji; simp at hj
      · simp only [hji, ↓reduceIte] at hj; exact h.has j hj
    · exact h.seen
    · intro j x hj
      simp only [upd] at hj
      by_cases hji : j = i
      · subst hji; simp [hhas] at hj; rw [← hj]
      · simp only [hji, ↓reduceIte] at hj; exact h.sent j x hj
  | done => simp only; exact h

private theorem inv_run (n : Nat) (bodies : Nat → List UInt8) (sched : List (Nat × Nat)) :
    CopyInv n bodies (run .copy n bodies sched) := by
  unfold run
  suffices ∀ s, CopyInv n bodies s → CopyInv n bodies (sched.foldl (fun s x => step .copy n bodies s x.1 x.2) s) from
    this init (inv_init n bodies)
  induction sched with
  | nil => intro s h; exact h
  | cons x xs ih => intro s h; exact ih _ (inv_step n bodies s x.1 x.2 h)

/-- **One client's body never appears in, truncates, or alters another client's upstream request**, for
    any number of requests, any bodies, any interleaving of their atomic steps and any behaviour of the
    buffer pool: whatever was sent upstream for request `i` is exactly `bodies i`. -/
theorem isolation_copy (n : Nat) (bodies : Nat → List UInt8) (sched : List (Nat × Nat)) (i : Nat) (x : List UInt8)
    (h : (run .copy n bodies sched).sent i = some x) : x = bodies i :=
  (inv_run n bodies sched).sent i x h

/-- **…nor one client's model name**: the bytes the model-name extractor looks at for request `i` are a
    prefix of request `i`'s own body, whatever else is in flight. -/
theorem modelname_isolation (n : Nat) (bodies : Nat → List UInt8) (sched : List (Nat × Nat)) (i : Nat) (y : List UInt8)
    (h : (run .copy n bodies sched).seen i = some y) : y = (bodies i).take n :=
  (inv_run n bodies sched).seen i y h

/-! ### The pre-fix behaviour violates it (kept as a proved counterexample) -/

private def exBodies : Nat → List UInt8
  | 0 => [65, 65, 65]
  | _ => [66, 66, 66]

/-- inspect A; inspect B (the pool hands B the buffer A just returned); A's body is read afterwards. -/
private def exSched : List (Nat × Nat) :=
  [(0, 0), (0, 0), (0, 0), (0, 0), (1, 0), (1, 0), (1, 0), (1, 0), (0, 0), (1, 0)]

theorem isolation_alias_witness : (run .alias 8 exBodies exSched).sent 0 = some [66, 66, 66] := by decide

example : (run .copy 8 exBodies exSched).sent 0 = some [65, 65, 65] := by decide
example : (run .copy 8 exBodies exSched).sent 1 = some [66, 66, 66] := by decide

/-! ### tie: no process-wide state on the modelled path

The theorems above are about single calls (or the history of one object). They cover every
request of a running process only if a call reaches no state that outlives it besides that
object. `Olla.Gen.State` is re-read from the source on every run: the package-level variables
reachable from each function inside its package that the package changes after initialisation. -/
theorem C01_tie_no_process_wide_state :
    Olla.Spec.State.reachesOnly "core.ExecuteWithRetry" [] = true ∧
    Olla.Spec.State.reachesOnly "sherpa.ProxyRequestToEndpoints" [] = true ∧
    Olla.Spec.State.reachesOnly "olla.ProxyRequestToEndpoints" [] = true := by decide

end Olla.Props.C01
