/-
C02 — A response is the work of exactly one backend attempt.
Theorems about `Olla.Model.Retry.execute` for every endpoint list, every selector satisfying the
C06 contract and every assignment of attempt outcomes (any fault at any point of any attempt).
-/
import Olla.Model.Retry
import Olla.Model.Pool
import Olla.Spec.C02

namespace Olla.Props.C02
open Olla.Model.Retry Olla.Spec.C02

/-- The only thing assumed of the balancer (proved for all three in `Olla.Props.C06.selectors_member`). -/
def SelectContract (select : List Nat → Option Nat) : Prop := ∀ l e, select l = some e → e ∈ l

/-- What attempt `e` puts on the wire towards the proxy, if it gets that far. -/
def saidBy (outcome : Nat → Attempt) (e : Nat) : Option Said :=
  match outcome e with
  | .ok r => some ⟨e, r.status, r.headers, r.body⟩
  | .failAfter r _ _ => some ⟨e, r.status, r.headers, r.body⟩
  | _ => none

def saidOf (outcome : Nat → Attempt) (eps : List Nat) : List Said := eps.filterMap (saidBy outcome)

/-- The client's transcript as net/http assembles it from the trace (first WriteHeader wins, writes append). -/
def gotOf (tr : List Ev) : Option Got := (clientStatus tr).map (fun x => ⟨x.2.1, x.2.2, clientBody tr⟩)

/-! ### Helper facts about the trace readers -/

private theorem writers_append (a b : List Ev) : writers (a ++ b) = writers a ++ writers b := by
  induction a with
  | nil => rfl
  | cons x xs ih => cases x <;> simp [writers, ih]

private theorem selected_append (a b : List Ev) : selectedList (a ++ b) = selectedList a ++ selectedList b := by
  induction a with
  | nil => rfl
  | cons x xs ih => cases x <;> simp [selectedList, ih]

private theorem clientBody_append (a b : List Ev) : clientBody (a ++ b) = clientBody a ++ clientBody b := by
  induction a with
  | nil => rfl
  | cons x xs ih => cases x <;> simp [clientBody, ih]

private theorem clientStatus_skip (a b : List Ev) (h : writers a = []) : clientStatus (a ++ b) = clientStatus b := by
  induction a with
  | nil => rfl
  | cons x xs ih => cases x <;> simp_all [writers, clientStatus]

private theorem clientStatus_none (a : List Ev) (h : writers a = []) : clientStatus a = none := by
  induction a with
  | nil => rfl
  | cons x xs ih => cases x <;> simp_all [writers, clientStatus]

private theorem clientBody_none (a : List Ev) (h : writers a = []) : clientBody a = [] := by
  induction a with
  | nil => rfl
  | cons x xs ih => cases x <;> simp_all [writers, clientBody]

private theorem redispatch_skip (a b : List Ev) (h : writers a = []) :
    redispatchAfterWrite (a ++ b) false = redispatchAfterWrite b false := by
  induction a with
  | nil => rfl
  | cons x xs ih => cases x <;> simp_all [writers, redispatchAfterWrite]

/-- State of the client connection at the end of `ExecuteWithRetry`. -/
private def Outcome (outcome : Nat → Attempt) (eps : List Nat) (out : List Ev × Result) : Prop :=
  (writers out.1 = [] ∧ (∀ e, out.2 ≠ .served e)) ∨
  ∃ e r body, e ∈ eps ∧
    ((outcome e = .ok r ∧ body = r.body ∧ out.2 = .served e) ∨
     (∃ k re, outcome e = .failAfter r k re ∧ body = r.body.take k ∧ out.2 = .failed e)) ∧
    clientStatus out.1 = some (e, r.status, r.headers) ∧ clientBody out.1 = body ∧
    (selectedList out.1).getLast? = some e ∧ (∀ w ∈ writers out.1, w = e)

private theorem loop_inv (select : List Nat → Option Nat) (outcome : Nat → Attempt) (eps : List Nat)
    (hsel : SelectContract select) :
    ∀ (fuel : Nat) (avail : List Nat) (tr : List Ev), writers tr = [] → (∀ x ∈ avail, x ∈ eps) →
      Outcome outcome eps (loop select outcome fuel avail tr) ∧
      redispatchAfterWrite (loop select outcome fuel avail tr).1 false = redispatchAfterWrite tr false := by
  intro fuel
  induction fuel with
  | zero => intro avail tr h _; exact ⟨Or.inl ⟨by simpa [loop] using h, by simp [loop]⟩, by simp [loop]⟩
  | succ n ih =>
    intro avail tr h hsub
    have hrd : redispatchAfterWrite tr false = false := by
      have := redispatch_skip tr [] h; simpa [redispatchAfterWrite] using this
    unfold loop
    by_cases hav : avail = []
    · simp only [hav, ↓reduceIte]; exact ⟨Or.inl ⟨h, by simp⟩, by simp⟩
    · simp only [hav, ↓reduceIte]
      cases hs : select avail with
      | none => exact ⟨Or.inl ⟨h, by simp⟩, by simp⟩
      | some e =>
        have hmem : e ∈ eps := hsub e (hsel avail e hs)
        have hsub' : ∀ x ∈ avail.erase e, x ∈ eps := fun x hx => hsub x (List.mem_of_mem_erase hx)
        simp only
        cases ha : outcome e with
        | ok r =>
          simp only
          refine ⟨Or.inr ⟨e, r, r.body, hmem, Or.inl ⟨ha, rfl, rfl⟩, ?_, ?_, ?_, ?_⟩, ?_⟩
          · simp [List.append_assoc, clientStatus_skip tr _ h, attemptEvents, clientStatus]
          · simp [clientBody_append, clientBody_none tr h, attemptEvents, clientBody]
          · simp [selected_append, attemptEvents, selectedList]
          · simp [writers_append, h, attemptEvents, writers]
          · simp [List.append_assoc, redispatch_skip tr _ h, hrd, attemptEvents, redispatchAfterWrite]
        | skip =>
          simp only
          have hw : writers (tr ++ [Ev.selected e, Ev.inc e] ++ attemptEvents e Attempt.skip ++ [Ev.dec e] ++ [Ev.removed e]) = [] := by
            simp [writers_append, h, attemptEvents, writers]
          obtain ⟨h1, h2⟩ := ih (avail.erase e) _ hw hsub'
          refine ⟨h1, ?_⟩
          rw [h2, hrd]
          have := redispatch_skip _ [] hw; simpa [redispatchAfterWrite] using this
        | failBefore re =>
          cases re with
          | true =>
            simp only
            have hw : writers (tr ++ [Ev.selected e, Ev.inc e] ++ attemptEvents e (Attempt.failBefore true) ++ [Ev.dec e] ++ [Ev.markOffline e, Ev.removed e]) = [] := by
              simp [writers_append, h, attemptEvents, writers]
            obtain ⟨h1, h2⟩ := ih (avail.erase e) _ hw hsub'
            refine ⟨h1, ?_⟩
            rw [h2, hrd]
            have := redispatch_skip _ [] hw; simpa [redispatchAfterWrite] using this
          | false =>
            simp only
            have hw : writers (tr ++ [Ev.selected e, Ev.inc e] ++ attemptEvents e (Attempt.failBefore false) ++ [Ev.dec e]) = [] := by
              simp [writers_append, h, attemptEvents, writers]
            refine ⟨Or.inl ⟨hw, by simp⟩, ?_⟩
            rw [hrd]; have := redispatch_skip _ [] hw; simpa [redispatchAfterWrite] using this
        | failAfter r k re =>
          cases re with
          | true =>
            simp only
            refine ⟨Or.inr ⟨e, r, r.body.take k, hmem, Or.inr ⟨k, true, ha, rfl, rfl⟩, ?_, ?_, ?_, ?_⟩, ?_⟩
            · simp [List.append_assoc, clientStatus_skip tr _ h, attemptEvents, clientStatus]
            · simp [clientBody_append, clientBody_none tr h, attemptEvents, clientBody]
            · simp [selected_append, attemptEvents, selectedList]
            · simp [writers_append, h, attemptEvents, writers]
            · simp [List.append_assoc, redispatch_skip tr _ h, hrd, attemptEvents, redispatchAfterWrite]
          | false =>
            simp only
            refine ⟨Or.inr ⟨e, r, r.body.take k, hmem, Or.inr ⟨k, false, ha, rfl, rfl⟩, ?_, ?_, ?_, ?_⟩, ?_⟩
            · simp [List.append_assoc, clientStatus_skip tr _ h, attemptEvents, clientStatus]
            · simp [clientBody_append, clientBody_none tr h, attemptEvents, clientBody]
            · simp [selected_append, attemptEvents, selectedList]
            · simp [writers_append, h, attemptEvents, writers]
            · simp [List.append_assoc, redispatch_skip tr _ h, hrd, attemptEvents, redispatchAfterWrite]

private theorem execute_inv (select : List Nat → Option Nat) (outcome : Nat → Attempt) (eps : List Nat)
    (hsel : SelectContract select) :
    Outcome outcome eps (execute select outcome eps) ∧
    redispatchAfterWrite (execute select outcome eps).1 false = false := by
  unfold execute
  by_cases h : eps = []
  · simp only [h, ↓reduceIte]; exact ⟨Or.inl ⟨rfl, by simp⟩, rfl⟩
  · simp only [h, ↓reduceIte]
    have := loop_inv select outcome eps hsel eps.length eps [] rfl (fun x hx => hx)
    exact ⟨this.1, by rw [this.2]; rfl⟩

/-- **Bytes from two different attempts are never combined in one response**: everything written to
    the client during one request (status line, headers, body bytes) comes from one and the same
    attempt, which is the last one dispatched. -/
theorem C02_single_writer (select : List Nat → Option Nat) (outcome : Nat → Attempt) (eps : List Nat)
    (hsel : SelectContract select) :
    writers (execute select outcome eps).1 = [] ∨
    ∃ e, (∀ w ∈ writers (execute select outcome eps).1, w = e) ∧
         (selectedList (execute select outcome eps).1).getLast? = some e := by
  rcases (execute_inv select outcome eps hsel).1 with ⟨h, _⟩ | ⟨e, _, _, _, _, _, _, hl, hw⟩
  · exact Or.inl h
  · exact Or.inr ⟨e, hw, hl⟩

/-- **A request is re-dispatched to another endpoint only if nothing from an earlier attempt has been
    delivered to the client**: in no trace does a dispatch follow a write. -/
theorem C02_redispatch_only_if_unstarted (select : List Nat → Option Nat) (outcome : Nat → Attempt)
    (eps : List Nat) (hsel : SelectContract select) :
    redispatchAfterWrite (execute select outcome eps).1 false = false :=
  (execute_inv select outcome eps hsel).2

/-- **The status line, end-to-end headers and body bytes a client receives are exactly those produced
    by one single backend attempt, in order and unmodified** — the property predicate itself, on the
    model's trace: the transcript is explained by one attempt and that attempt is the last dispatched. -/
theorem C02_single_attempt (select : List Nat → Option Nat) (outcome : Nat → Attempt) (eps : List Nat)
    (hsel : SelectContract select) :
    singleAttempt (saidOf outcome eps) (selectedList (execute select outcome eps).1)
      (gotOf (execute select outcome eps).1) = true := by
  rcases (execute_inv select outcome eps hsel).1 with ⟨h, _⟩ | ⟨e, r, body, hmem, hcase, hst, hbody, hl, _⟩
  · simp [gotOf, clientStatus_none _ h, singleAttempt]
  · simp only [gotOf, hst, Option.map_some, singleAttempt, List.any_eq_true, Bool.and_eq_true, beq_iff_eq]
    refine ⟨⟨e, r.status, r.headers, r.body⟩, ?_, ?_, ?_⟩
    · unfold saidOf
      rw [List.mem_filterMap]
      refine ⟨e, hmem, ?_⟩
      rcases hcase with ⟨ha, _, _⟩ | ⟨k, re, ha, _, _⟩ <;> simp [saidBy, ha]
    · simp only [explainedBy, Bool.and_eq_true, beq_iff_eq, true_and]
      rw [hbody]
      rcases hcase with ⟨_, hb, _⟩ | ⟨k, re, _, hb, _⟩
      · simp [hb]
      · rw [hb]; exact List.isPrefixOf_iff_prefix.mpr (List.take_prefix k r.body)
    · exact hl

/-- A served request delivers the serving attempt's body in full. -/
theorem C02_served_complete (select : List Nat → Option Nat) (outcome : Nat → Attempt) (eps : List Nat)
    (hsel : SelectContract select) (e : Nat) (h : (execute select outcome eps).2 = .served e) :
    ∃ r, outcome e = .ok r ∧ clientStatus (execute select outcome eps).1 = some (e, r.status, r.headers) ∧
      clientBody (execute select outcome eps).1 = r.body := by
  rcases (execute_inv select outcome eps hsel).1 with ⟨_, hn⟩ | ⟨e', r, body, _, hcase, hst, hbody, _, _⟩
  · exact absurd h (hn e)
  · rcases hcase with ⟨ha, hb, hres⟩ | ⟨k, re, _, _, hres⟩
    · rw [hres] at h; injection h with h; subst h
      exact ⟨r, ha, hst, by rw [hbody, hb]⟩
    · rw [hres] at h; cases h

/-- The clause the history cases add for a client that stays to the end of an answer that was produced completely
    (`Spec.C02.wholeWhenCompleted`), on the model's trace: a served request's transcript carries the whole body of the
    last attempt dispatched. -/
theorem C02_served_whole (select : List Nat → Option Nat) (outcome : Nat → Attempt) (eps : List Nat)
    (hsel : SelectContract select) (e : Nat) (h : (execute select outcome eps).2 = .served e) :
    wholeWhenCompleted (saidOf outcome eps) (selectedList (execute select outcome eps).1) true true
      (gotOf (execute select outcome eps).1) = true := by
  rcases (execute_inv select outcome eps hsel).1 with ⟨_, hn⟩ | ⟨e', r, body, hmem, hcase, hst, hbody, hl, _⟩
  · exact absurd h (hn e)
  · rcases hcase with ⟨ha, hb, _⟩ | ⟨k, re, _, _, hres⟩
    · simp only [gotOf, hst, Option.map_some, wholeWhenCompleted, Bool.and_self, Bool.not_true, Bool.false_or,
        List.any_eq_true, Bool.and_eq_true, beq_iff_eq]
      refine ⟨⟨e', r.status, r.headers, r.body⟩, ?_, ?_, ?_⟩
      · unfold saidOf
        rw [List.mem_filterMap]
        exact ⟨e', hmem, by simp [saidBy, ha]⟩
      · exact hl
      · rw [hbody, hb]
    · rw [hres] at h; cases h

/-! ### Side conditions on the regenerated fault table -/

/-- The breaker-skip sentinel is not itself classified as a connection failure of the endpoint. -/
theorem gen_skip_not_connection_error : Olla.Gen.Retry.circuitOpenIsConnectionError = false := by decide

/-! ### Non-vacuity -/

private def exOutcome : Nat → Attempt
  | 0 => .failBefore true
  | 1 => .failAfter ⟨200, [("Content-Type", "application/json")], [65, 66, 67, 68]⟩ 2 true
  | _ => .ok ⟨200, [], [90]⟩

example : (execute (fun l => l.head?) exOutcome [0, 1, 2]).2 = .failed 1 := by decide
example : clientBody (execute (fun l => l.head?) exOutcome [0, 1, 2]).1 = [65, 66] := by decide
example : SelectContract (fun l => l.head?) := by
  intro l e h; cases l <;> simp_all

/-- The pre-fix behaviour (retry after the response had started) does violate the predicate:
    A sends 2 of 4 bytes then resets, B answers — the spliced transcript is explained by no single attempt. -/
theorem C02_unguarded_witness :
    singleAttempt [⟨0, 200, [], [65, 66, 67, 68]⟩, ⟨1, 200, [], [90]⟩] [0, 1] (some ⟨200, [], [65, 66, 90]⟩) = false := by decide

/-! ### Pooled scratch objects have one holder at a time — as long as nobody releases what it does not hold

"All bytes … come from one attempt" and its siblings (C01 body, C12/C13 translation, C15 headers, C16 target) are about
one request; under load several requests run at once and the engines give them read buffers, event buffers and scratch
structs out of pools.  The invariant below is what makes one request's model enough: every object is either in the pool
once or checked out once.  It holds for every history of the pool that respects the callers' discipline, whatever the pool
itself does (reuse, allocate, drop); a single release of an object that is not checked out breaks it (witness). -/

section Pool
open Olla.Model.Pool

/-- every object exists once: in the pool or with one holder; and all objects were allocated -/
def PoolInv (s : St) : Prop := (s.free ++ s.held).Nodup ∧ ∀ o ∈ s.free ++ s.held, o < s.fresh

private theorem pool_inv_step (s s' : St) (op : Op) (hi : PoolInv s)
    (hd : match op with | .put o => o ∈ s.held | _ => True) (hs : step s op = some s') : PoolInv s' := by
  obtain ⟨hn, hb⟩ := hi
  cases op with
  | getFree o =>
    simp only [step] at hs
    split at hs
    · rename_i ho
      cases hs
      have hperm : (s.free.erase o ++ o :: s.held).Perm (s.free ++ s.held) := by
        have h1 : s.free.Perm (o :: s.free.erase o) := List.perm_cons_erase ho
        calc (s.free.erase o ++ o :: s.held).Perm (o :: (s.free.erase o ++ s.held)) := List.perm_middle
          _ |>.Perm ((o :: s.free.erase o) ++ s.held) := by simp
          _ |>.Perm (s.free ++ s.held) := (h1.symm).append_right _
      exact ⟨hperm.nodup_iff.mpr hn, fun x hx => hb x (hperm.mem_iff.mp hx)⟩
    · cases hs
  | getNew =>
    simp only [step] at hs
    cases hs
    have hfresh : s.fresh ∉ s.free ++ s.held := fun h => Nat.lt_irrefl _ (hb _ h)
    have hperm : (s.free ++ s.fresh :: s.held).Perm (s.fresh :: (s.free ++ s.held)) := List.perm_middle
    refine ⟨hperm.nodup_iff.mpr (List.nodup_cons.mpr ⟨hfresh, hn⟩), ?_⟩
    intro x hx
    have := hperm.mem_iff.mp hx
    simp only [List.mem_cons] at this
    rcases this with rfl | h
    · exact Nat.lt_succ_self _
    · exact Nat.lt_succ_of_lt (hb x h)
  | put o =>
    simp only [step] at hs
    cases hs
    have ho : o ∈ s.held := hd
    have hperm : (o :: s.free ++ s.held.erase o).Perm (s.free ++ s.held) := by
      have h1 : s.held.Perm (o :: s.held.erase o) := List.perm_cons_erase ho
      have h2 : (s.free ++ s.held).Perm (s.free ++ o :: s.held.erase o) := h1.append_left _
      have h3 : (s.free ++ o :: s.held.erase o).Perm (o :: (s.free ++ s.held.erase o)) := List.perm_middle
      simpa using (h2.trans h3).symm
    exact ⟨hperm.nodup_iff.mpr hn, fun x hx => hb x (hperm.mem_iff.mp hx)⟩
  | drop o =>
    simp only [step] at hs
    split at hs
    · cases hs
      have hsub : (s.free.erase o ++ s.held).Sublist (s.free ++ s.held) := (List.erase_sublist).append_right _
      exact ⟨hn.sublist hsub, fun x hx => hb x (hsub.subset hx)⟩
    · cases hs

/-- **Exclusive ownership for every disciplined history**: whatever the pool does — reuse in any order, allocate, drop —
    as long as every release is of an object that is checked out, no object is ever in the pool twice or with two holders. -/
theorem pool_exclusive_of_discipline (ops : List Op) (s s' : St) (hi : PoolInv s) (hd : Disciplined s ops)
    (hr : run s ops = some s') : PoolInv s' := by
  induction ops generalizing s with
  | nil => simp only [run] at hr; cases hr; exact hi
  | cons op rest ih =>
    simp only [run] at hr
    cases hst : step s op with
    | none => rw [hst] at hr; cases hr
    | some s1 =>
      rw [hst] at hr
      simp only [Option.bind] at hr
      have hd' := hd
      simp only [Disciplined, hst] at hd'
      exact ih s1 (pool_inv_step s s1 op hi hd'.1 hst) hd'.2 hr

theorem pool_inv_init : PoolInv init := by
  simp [PoolInv, init]

/-- from a fresh pool: checked-out objects are pairwise distinct (one holder each) -/
theorem pool_one_holder (ops : List Op) (s' : St) (hd : Disciplined init ops) (hr : run init ops = some s') :
    s'.held.Nodup :=
  ((pool_exclusive_of_discipline ops init s' pool_inv_init hd hr).1.sublist (List.sublist_append_right _ _))

/-- **One release too many**: a holder gets an object, puts it back twice; the next two holders are given the same object. -/
theorem pool_double_release_witness :
    (run init [.getNew, .put 0, .put 0, .getFree 0, .getFree 0]).map (·.held) = some [0, 0] ∧
    ¬ Disciplined init [.getNew, .put 0, .put 0, .getFree 0, .getFree 0] := by
  refine ⟨by decide, ?_⟩
  simp [Disciplined, step, init]

example : Disciplined init [.getNew, .getNew, .put 1, .getFree 1, .put 0, .drop 0, .put 1] ∧
    (run init [.getNew, .getNew, .put 1, .getFree 1, .put 0, .drop 0, .put 1]).isSome := by
  refine ⟨by simp [Disciplined, step, init], by decide⟩

end Pool

end Olla.Props.C02
