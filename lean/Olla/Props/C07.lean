/-
C07 — Health checking follows its state machine, back-off schedule and recovery promise.

Model: `Olla.Model.Health` (scheduling record × health breaker × clock, one endpoint).  The clauses of the
property are the executable monitors of `Olla.Spec.C07` — the same terms the driver evaluates on what the
real `HTTPHealthChecker` / repository / `RetryHandler` did.  Each theorem says: for EVERY history of
`check o` / `sched o` / `proxyFail` / `tick d` operations the observable trace of the model satisfies the
clause.  Proof: a simulation invariant `CInv` between the monitor's bookkeeping and the model state
(failure counts agree, `BackoffMultiplier = 1,2,4,8,12,12,…`, the breaker's probe slot is free between
checks, an open breaker was opened by ≥ threshold real failures at the recorded time), preserved by every
operation; induction over the history.  The literal schedule and the 60 s cap of the specification are
tied to the compiled code by the `gen_*` side conditions (decided on the regenerated tables).

`next_delay_le_cap` of the design is `failure_delay_capped` + `first_failure_delay_capped(_partial)`; `reset_on_success` is the success
half of `backoff_schedule` (and of `recovers_on_first_success`).
-/
import Olla.Model.Health
import Olla.Spec.C07

set_option linter.unusedSimpArgs false
set_option linter.unnecessarySimpa false

namespace Olla.Props.C07
open Olla.Model.Health Olla.Spec.C07
open Olla.Model.Breaker (Variant HealthCB HCfg genHCfg activeHealth)


/-- BackoffMultiplier after f consecutive failures: 1 (none), 2, 4, 8, 12, 12, … -/
def multLit : Nat → Nat
  | 0 => 1 | 1 => 2 | 2 => 4 | 3 => 8 | _ => 12

/-- What the model reports after one operation, in the vocabulary of the specification. -/
def obsOf (r : St × Out) : Obs :=
  { ran := r.2.ran, reached := r.2.reached, status := r.1.ep.status, delay := r.1.delay, fired := if r.2.fired then 1 else 0 }

/-- Observable trace of the model on a history. -/
def trace (v vb : Variant) (c : Cfg) : St → List Op → List (Op × Obs)
  | _, [] => []
  | s, op :: ops => (op, obsOf (step v vb c s op)) :: trace v vb c (step v vb c s op).1 ops

structure CInv (c : Cfg) (g : Ghost) (s : St) : Prop where
  now : g.now = s.cb.now
  status : g.status = s.ep.status
  fails : g.fails = s.ep.failures
  mult : s.ep.mult = multLit s.ep.failures
  la : s.cb.lastAttempt = none
  rf : g.realFails = s.cb.failures
  opn : s.cb.isOpen = true → c.breaker.threshold ≤ s.cb.failures ∧ g.lastRealFailAt = some s.cb.lastFailure ∧ s.cb.lastFailure = s.lastReal
  lr : g.lastRealAt = s.lastReal

private theorem multLit_succ (f : Nat) : (if multLit f ≤ 1 then 2 else min (multLit f * 2) 12) = multLit (f + 1) := by
  match f with
  | 0 | 1 | 2 | 3 => decide
  | n + 4 => simp [multLit]

private theorem multLit_gt (f : Nat) : multLit f ≤ 1 ↔ f = 0 := by
  match f with
  | 0 => decide
  | 1 | 2 | 3 => decide
  | n + 4 => simp [multLit]

private theorem classify_cases (o : Outcome) : classify o = .healthy ∨ classify o = .busy ∨ classify o = .offline ∨ classify o = .unhealthy := by
  cases o <;> simp [classify, statusOfHttp, statusOfErr] <;> (repeat' split) <;> simp

private theorem cinv_step (v vb : Variant) (c : Cfg) (hM : c.maxMult = 12) (g : Ghost) (s : St) (op : Op) (h : CInv c g s) :
    CInv c (g.step op (obsOf (step v vb c s op))) (step v vb c s op).1 := by
  obtain ⟨h1, h2, h3, h4, h5, h6, h7, h8⟩ := h
  obtain ⟨⟨st, f, m, lc, nc⟩, ⟨cf, clf, cla, cio, now⟩, cbs, lr⟩ := s
  simp only at h1 h2 h3 h4 h5 h6 h7 h8
  subst h5
  cases op with
  | tick d => constructor <;> simp_all [Ghost.step, obsOf, step]
  | proxyFail =>
    constructor <;> simp_all [Ghost.step, obsOf, step, doProxyFail]
    exact multLit_succ f
  | check o =>
    rcases classify_cases o with hc | hc | hc | hc <;> cases cio <;>
      (first
        | (by_cases hto : clf + c.breaker.timeout < now <;>
            constructor <;> simp_all [Ghost.step, obsOf, step, doCheck, calcBackoff, HealthCB.isOpenCall, HealthCB.recordFailure, HealthCB.recordSuccess, statusOfErr, St.delay, -Int.not_lt, -Int.not_le])
        )
    all_goals first
      | rfl
      | omega
      | (have hs := multLit_succ f
         by_cases hm : multLit f ≤ 1
         · rw [if_pos hm] at hs ⊢; cases vb <;> simp [hs]
         · rw [if_neg hm] at hs ⊢; simp [hs])
  | sched o =>
    by_cases hdue : now < nc
    · constructor <;> simp_all [Ghost.step, obsOf, step]
    · simp only [step, if_neg hdue]
      rcases classify_cases o with hc | hc | hc | hc <;> cases cio <;>
        (first
          | (by_cases hto : clf + c.breaker.timeout < now <;>
              constructor <;> simp_all [Ghost.step, obsOf, step, doCheck, calcBackoff, HealthCB.isOpenCall, HealthCB.recordFailure, HealthCB.recordSuccess, statusOfErr, St.delay, -Int.not_lt, -Int.not_le])
          )
      all_goals first
        | rfl
        | omega
        | (have hs := multLit_succ f
           by_cases hm : multLit f ≤ 1
           · rw [if_pos hm] at hs ⊢; cases vb <;> simp [hs]
           · rw [if_neg hm] at hs ⊢; simp [hs])

def paramsOf (c : Cfg) (ideal : Bool) : Params :=
  { interval := c.interval, breakerTimeout := c.breaker.timeout, threshold := c.breaker.threshold, ideal := ideal }

private theorem seqLit_succ (f : Nat) (hf : 1 ≤ f) : seqLit (f + 1) = (multLit f : Int) := by
  match f with
  | 1 | 2 | 3 => decide
  | n + 4 => simp [seqLit, multLit]

macro "unfold_all" : tactic => `(tactic| simp_all [clauseOk, obsOf, step, doCheck, doProxyFail, calcBackoff, outcomeOf, paramsOf,
  HealthCB.isOpenCall, HealthCB.recordFailure, HealthCB.recordSuccess, statusOfErr, St.delay, -Int.not_lt, -Int.not_le])

/-- The regenerated healthy range is the literal 2xx range of the property. -/
theorem gen_healthy_range_is_2xx :
    Olla.Gen.Health.healthyRangeStart = 200 ∧ Olla.Gen.Health.healthyRangeEnd = 300 := by decide

private theorem classify_healthy_iff (o : Outcome) : (classify o == Status.healthy) = is2xxFast o := by
  cases o with
  | http code slow =>
    simp only [classify, statusOfHttp, is2xxFast, gen_healthy_range_is_2xx.1, gen_healthy_range_is_2xx.2]
    by_cases h : 200 ≤ code ∧ code < 300 <;> cases slow <;> simp [h]
  | _ => simp [classify, statusOfErr, is2xxFast]

private theorem classify_healthy_iff' (o : Outcome) : classify o = Status.healthy ↔ is2xxFast o = true := by
  rw [← classify_healthy_iff]; simp

private theorem clause_healthyIff (v vb : Variant) (c : Cfg) (ideal : Bool) (g : Ghost) (s : St) (op : Op) (h : CInv c g s) :
    clauseOk (paramsOf c ideal) .healthyIff g op (obsOf (step v vb c s op)) = true := by
  obtain ⟨h1, h2, h3, h4, h5, h6, h7, h8⟩ := h
  obtain ⟨⟨st, f, m, lc, nc⟩, ⟨cf, clf, cla, cio, now⟩, cbs, lr⟩ := s
  simp only at h1 h2 h3 h4 h5 h6 h7 h8
  subst h5
  cases op with
  | tick d => simp [clauseOk, outcomeOf]
  | proxyFail => simp [clauseOk, outcomeOf]
  | check o =>
    cases cio <;> (try by_cases hto : clf + c.breaker.timeout < now) <;> unfold_all <;> simp [classify_healthy_iff]
  | sched o =>
    by_cases hdue : now < nc
    · simp [clauseOk, outcomeOf, obsOf, step, hdue]
    · cases cio <;> (try by_cases hto : clf + c.breaker.timeout < now) <;> unfold_all <;> simp [classify_healthy_iff]

private theorem clause_classification (v vb : Variant) (c : Cfg) (ideal : Bool) (g : Ghost) (s : St) (op : Op) (h : CInv c g s) :
    clauseOk (paramsOf c ideal) .classification g op (obsOf (step v vb c s op)) = true := by
  obtain ⟨h1, h2, h3, h4, h5, h6, h7, h8⟩ := h
  obtain ⟨⟨st, f, m, lc, nc⟩, ⟨cf, clf, cla, cio, now⟩, cbs, lr⟩ := s
  simp only at h1 h2 h3 h4 h5 h6 h7 h8
  subst h5
  have hcl : ∀ o : Outcome, (match o with
      | .netErr | .timeout => classify o == Status.offline
      | .otherErr => classify o == Status.unhealthy
      | .http code slow => if !slow && !(decide (200 ≤ code ∧ code < 300)) then classify o == Status.unhealthy else true) = true := by
    intro o
    cases o with
    | http code slow =>
      simp only [classify, statusOfHttp, gen_healthy_range_is_2xx.1, gen_healthy_range_is_2xx.2]
      by_cases h : 200 ≤ code ∧ code < 300 <;> cases slow <;> simp [h]
    | _ => simp [classify, statusOfErr]
  cases op with
  | tick d => simp [clauseOk, outcomeOf]
  | proxyFail => simp [clauseOk, outcomeOf]
  | check o =>
    cases cio <;> (try by_cases hto : clf + c.breaker.timeout < now) <;> unfold_all
    all_goals exact hcl o
  | sched o =>
    by_cases hdue : now < nc
    · simp [clauseOk, outcomeOf, obsOf, step, hdue]
    · cases cio <;> (try by_cases hto : clf + c.breaker.timeout < now) <;> unfold_all
      all_goals exact hcl o

private theorem clause_callback (v vb : Variant) (c : Cfg) (ideal : Bool) (g : Ghost) (s : St) (op : Op) (h : CInv c g s) :
    clauseOk (paramsOf c ideal) .callback g op (obsOf (step v vb c s op)) = true := by
  obtain ⟨h1, h2, h3, h4, h5, h6, h7, h8⟩ := h
  obtain ⟨⟨st, f, m, lc, nc⟩, ⟨cf, clf, cla, cio, now⟩, cbs, lr⟩ := s
  simp only at h1 h2 h3 h4 h5 h6 h7 h8
  subst h5
  cases op with
  | tick d => simp [clauseOk, obsOf, step]
  | proxyFail => simp [clauseOk, obsOf, step, doProxyFail]
  | check o =>
    rcases classify_cases o with hc | hc | hc | hc <;> cases cio <;> (try by_cases hto : clf + c.breaker.timeout < now) <;> cases st <;> unfold_all
  | sched o =>
    by_cases hdue : now < nc
    · simp [clauseOk, obsOf, step, hdue]
    · rcases classify_cases o with hc | hc | hc | hc <;> cases cio <;> (try by_cases hto : clf + c.breaker.timeout < now) <;> cases st <;> unfold_all

private theorem clause_proxyFail (v vb : Variant) (c : Cfg) (ideal : Bool) (g : Ghost) (s : St) (op : Op) :
    clauseOk (paramsOf c ideal) .proxyFail g op (obsOf (step v vb c s op)) = true := by
  cases op <;> simp [clauseOk, obsOf, step, doProxyFail]

private theorem clause_realProbe (v vb : Variant) (c : Cfg) (ideal : Bool) (g : Ghost) (s : St) (op : Op) (h : CInv c g s) :
    clauseOk (paramsOf c ideal) .realProbe g op (obsOf (step v vb c s op)) = true := by
  obtain ⟨h1, h2, h3, h4, h5, h6, h7, h8⟩ := h
  obtain ⟨⟨st, f, m, lc, nc⟩, ⟨cf, clf, cla, cio, now⟩, cbs, lr⟩ := s
  simp only at h1 h2 h3 h4 h5 h6 h7 h8
  subst h5
  cases op with
  | tick d => simp [clauseOk, outcomeOf]
  | proxyFail => simp [clauseOk, outcomeOf]
  | check o =>
    cases cio <;> (try by_cases hto : clf + c.breaker.timeout < now) <;> unfold_all
    all_goals omega
  | sched o =>
    by_cases hdue : now < nc
    · simp [clauseOk, outcomeOf, obsOf, step, hdue]
    · cases cio <;> (try by_cases hto : clf + c.breaker.timeout < now) <;> unfold_all
      all_goals omega

/-- Delay after a failed check, in the literal terms of the property. -/
private theorem calc_fail (vb : Variant) (c : Cfg) (hcap : c.cap = capLit) (f : Nat) :
    (c.interval * seqLit (f + 1) ≤ capLit → (calcBackoff vb c (multLit f) false).1 = c.interval * seqLit (f + 1)) ∧
    ((vb = .fixed ∨ c.interval ≤ c.cap ∨ 1 ≤ f) → (calcBackoff vb c (multLit f) false).1 ≤ capLit ∧
      (c.interval * seqLit (f + 1) > capLit → (calcBackoff vb c (multLit f) false).1 = capLit)) := by
  match f with
  | 0 =>
    cases vb <;> simp [calcBackoff, multLit, seqLit, hcap] <;> omega
  | n + 1 =>
    have h1 : ¬ multLit (n + 1) ≤ 1 := by rw [multLit_gt]; omega
    have h2 := seqLit_succ (n + 1) (by omega)
    simp only [calcBackoff, if_neg h1, h2]
    generalize c.interval * (multLit (n + 1) : Int) = x
    simp [hcap]; omega

private theorem proxy_delay (c : Cfg) (hcap : c.cap = capLit) (f : Nat) :
    let d := min (if multLit f ≤ 1 then c.interval else c.interval * (multLit f : Int)) c.cap
    (c.interval * seqLit (f + 1) ≤ capLit → d = c.interval * seqLit (f + 1)) ∧ d ≤ capLit ∧
      (c.interval * seqLit (f + 1) > capLit → d = capLit) := by
  match f with
  | 0 => simp [multLit, seqLit, hcap]; omega
  | n + 1 =>
    have h1 : ¬ multLit (n + 1) ≤ 1 := by rw [multLit_gt]; omega
    have h2 := seqLit_succ (n + 1) (by omega)
    simp only [if_neg h1, h2]
    generalize c.interval * (multLit (n + 1) : Int) = x
    simp [hcap]; omega

private theorem calc_succ (vb : Variant) (c : Cfg) (m : Nat) : (calcBackoff vb c m true).1 = c.interval := by simp [calcBackoff]

private theorem clause_schedule (v vb : Variant) (c : Cfg) (hcap : c.cap = capLit) (ideal : Bool) (g : Ghost) (s : St) (op : Op) (h : CInv c g s) :
    clauseOk (paramsOf c ideal) .schedule g op (obsOf (step v vb c s op)) = true := by
  obtain ⟨h1, h2, h3, h4, h5, h6, h7, h8⟩ := h
  obtain ⟨⟨st, f, m, lc, nc⟩, ⟨cf, clf, cla, cio, now⟩, cbs, lr⟩ := s
  simp only at h1 h2 h3 h4 h5 h6 h7 h8
  subst h5 h4
  have hf := (calc_fail vb c hcap f).1
  have hp := (proxy_delay c hcap f).1
  cases op with
  | tick d => simp [clauseOk, obsOf, step]
  | proxyFail =>
    simp [clauseOk, obsOf, step, doProxyFail, St.delay, paramsOf, h3]
    (first
        | omega
        | (by_cases hle : c.interval * seqLit (f + 1) ≤ capLit
           · right; first | (have := hp hle; omega) | (have := hf hle; omega)
           · left; omega))
  | check o =>
    rcases classify_cases o with hc | hc | hc | hc <;> cases cio <;> (try by_cases hto : clf + c.breaker.timeout < now) <;>
      simp [clauseOk, obsOf, step, doCheck, paramsOf, HealthCB.isOpenCall, statusOfErr, St.delay, hc, h3, hto, calc_succ] <;>
      (first
        | omega
        | (by_cases hle : c.interval * seqLit (f + 1) ≤ capLit
           · right; first | (have := hp hle; omega) | (have := hf hle; omega)
           · left; omega))
  | sched o =>
    by_cases hdue : now < nc
    · simp [clauseOk, obsOf, step, hdue]
    · simp only [step, if_neg hdue]
      rcases classify_cases o with hc | hc | hc | hc <;> cases cio <;> (try by_cases hto : clf + c.breaker.timeout < now) <;>
        simp [clauseOk, obsOf, doCheck, paramsOf, HealthCB.isOpenCall, statusOfErr, St.delay, hc, h3, hto, calc_succ] <;>
        (first
        | omega
        | (by_cases hle : c.interval * seqLit (f + 1) ≤ capLit
           · right; first | (have := hp hle; omega) | (have := hf hle; omega)
           · left; omega))

private theorem clause_capped (v vb : Variant) (c : Cfg) (hcap : c.cap = capLit) (ideal : Bool)
    (g : Ghost) (s : St) (op : Op) (h : CInv c g s) :
    clauseOk (paramsOf c ideal) .capped g op (obsOf (step v vb c s op)) = true := by
  obtain ⟨h1, h2, h3, h4, h5, h6, h7, h8⟩ := h
  obtain ⟨⟨st, f, m, lc, nc⟩, ⟨cf, clf, cla, cio, now⟩, cbs, lr⟩ := s
  simp only at h1 h2 h3 h4 h5 h6 h7 h8
  subst h5 h4
  by_cases hf1 : 1 ≤ f
  case neg =>
    have hf0 : f = 0 := by omega
    subst hf0
    cases op <;> simp [clauseOk, h3]
  have hf := (calc_fail vb c hcap f).2 (.inr (.inr hf1))
  have hp := (proxy_delay c hcap f).2
  cases op with
  | tick d => simp [clauseOk, obsOf, step]
  | proxyFail =>
    simp [clauseOk, obsOf, step, doProxyFail, St.delay, paramsOf, h3]
    (first
        | omega
        | (have ⟨hq1, hq2⟩ := hf; constructor
           · omega
           · intro hgt; have := hq2 hgt; omega)
        | (have ⟨hq1, hq2⟩ := hp; constructor
           · omega
           · intro hgt; have := hq2 hgt; omega))
  | check o =>
    rcases classify_cases o with hc | hc | hc | hc <;> cases cio <;> (try by_cases hto : clf + c.breaker.timeout < now) <;>
      simp [clauseOk, obsOf, step, doCheck, paramsOf, HealthCB.isOpenCall, statusOfErr, St.delay, hc, h3, hto, calc_succ] <;>
      (first
        | omega
        | (have ⟨hq1, hq2⟩ := hf; constructor
           · omega
           · intro hgt; have := hq2 hgt; omega)
        | (have ⟨hq1, hq2⟩ := hp; constructor
           · omega
           · intro hgt; have := hq2 hgt; omega))
  | sched o =>
    by_cases hdue : now < nc
    · simp [clauseOk, obsOf, step, hdue]
    · simp only [step, if_neg hdue]
      rcases classify_cases o with hc | hc | hc | hc <;> cases cio <;> (try by_cases hto : clf + c.breaker.timeout < now) <;>
        simp [clauseOk, obsOf, doCheck, paramsOf, HealthCB.isOpenCall, statusOfErr, St.delay, hc, h3, hto, calc_succ] <;>
        (first
        | omega
        | (have ⟨hq1, hq2⟩ := hf; constructor
           · omega
           · intro hgt; have := hq2 hgt; omega)
        | (have ⟨hq1, hq2⟩ := hp; constructor
           · omega
           · intro hgt; have := hq2 hgt; omega))

private theorem clause_cappedFirst (v vb : Variant) (c : Cfg) (hcap : c.cap = capLit) (hok : vb = .fixed ∨ c.interval ≤ c.cap) (ideal : Bool)
    (g : Ghost) (s : St) (op : Op) (h : CInv c g s) :
    clauseOk (paramsOf c ideal) .cappedFirst g op (obsOf (step v vb c s op)) = true := by
  obtain ⟨h1, h2, h3, h4, h5, h6, h7, h8⟩ := h
  obtain ⟨⟨st, f, m, lc, nc⟩, ⟨cf, clf, cla, cio, now⟩, cbs, lr⟩ := s
  simp only at h1 h2 h3 h4 h5 h6 h7 h8
  subst h5 h4
  have hf := (calc_fail vb c hcap f).2 (by rcases hok with h | h; exact .inl h; exact .inr (.inl h))
  have hp := (proxy_delay c hcap f).2
  cases op with
  | tick d => simp [clauseOk, obsOf, step]
  | proxyFail =>
    simp [clauseOk, obsOf, step, doProxyFail, St.delay, paramsOf, h3]
    (first
        | omega
        | (have ⟨hq1, hq2⟩ := hf; constructor
           · omega
           · intro hgt; have := hq2 hgt; omega)
        | (have ⟨hq1, hq2⟩ := hp; constructor
           · omega
           · intro hgt; have := hq2 hgt; omega))
  | check o =>
    rcases classify_cases o with hc | hc | hc | hc <;> cases cio <;> (try by_cases hto : clf + c.breaker.timeout < now) <;>
      simp [clauseOk, obsOf, step, doCheck, paramsOf, HealthCB.isOpenCall, statusOfErr, St.delay, hc, h3, hto, calc_succ] <;>
      (first
        | omega
        | (have ⟨hq1, hq2⟩ := hf; constructor
           · omega
           · intro hgt; have := hq2 hgt; omega)
        | (have ⟨hq1, hq2⟩ := hp; constructor
           · omega
           · intro hgt; have := hq2 hgt; omega))
  | sched o =>
    by_cases hdue : now < nc
    · simp [clauseOk, obsOf, step, hdue]
    · simp only [step, if_neg hdue]
      rcases classify_cases o with hc | hc | hc | hc <;> cases cio <;> (try by_cases hto : clf + c.breaker.timeout < now) <;>
        simp [clauseOk, obsOf, doCheck, paramsOf, HealthCB.isOpenCall, statusOfErr, St.delay, hc, h3, hto, calc_succ] <;>
        (first
        | omega
        | (have ⟨hq1, hq2⟩ := hf; constructor
           · omega
           · intro hgt; have := hq2 hgt; omega)
        | (have ⟨hq1, hq2⟩ := hp; constructor
           · omega
           · intro hgt; have := hq2 hgt; omega))

private theorem calc_bounds (vb : Variant) (c : Cfg) (h0 : 0 ≤ c.interval) (hle : c.interval ≤ c.cap) (m : Nat) (b : Bool) :
    0 ≤ (calcBackoff vb c m b).1 ∧ (calcBackoff vb c m b).1 ≤ c.cap := by
  have hm : 0 ≤ c.interval * (m : Int) := Int.mul_nonneg h0 (Int.natCast_nonneg m)
  cases b <;> cases vb <;> simp only [calcBackoff] <;> (repeat' split) <;> simp <;> omega

structure IInv (c : Cfg) (s : St) : Prop where
  gap : s.ep.nextCheck - s.lastReal ≤ c.cap + c.breaker.timeout
  due : s.cb.now ≤ s.ep.nextCheck

private theorem ideal_step (v vb : Variant) (c : Cfg) (h0 : 0 ≤ c.interval) (hle : c.interval ≤ c.cap) (hT : 0 ≤ c.breaker.timeout)
    (g : Ghost) (s : St) (o : Outcome) (h : CInv c g s) (hi : IInv c s) :
    let d := (s.ep.nextCheck - s.cb.now).toNat
    let s1 := (step v vb c s (.tick d)).1
    let g1 := g.step (.tick d) (obsOf (step v vb c s (.tick d)))
    clauseOk (paramsOf c true) .gapBound g (.tick d) (obsOf (step v vb c s (.tick d))) = true ∧
    (c.cap = capLit → clauseOk (paramsOf c true) .gapBound g1 (.check o) (obsOf (step v vb c s1 (.check o))) = true) ∧
    IInv c (step v vb c s1 (.check o)).1 := by
  obtain ⟨h1, h2, h3, h4, h5, h6, h7, h8⟩ := h
  obtain ⟨hg, hd⟩ := hi
  obtain ⟨⟨st, f, m, lc, nc⟩, ⟨cf, clf, cla, cio, now⟩, cbs, lr⟩ := s
  simp only at h1 h2 h3 h4 h5 h6 h7 h8 hg hd
  subst h5
  have hb := calc_bounds vb c h0 hle m
  have hnow : now + ((nc - now).toNat : Int) = nc := by omega
  have hmax : now + max (nc - now) 0 = nc := by omega
  refine ⟨by simp [clauseOk, obsOf, step], ?_, ?_⟩
  · intro hcap
    simp only [clauseOk, obsOf, step, doCheck, paramsOf, Ghost.step, hnow, h8, h1]
    simp
    right; omega
  · cases cio
    · constructor <;> simp [step, doCheck, HealthCB.isOpenCall, HealthCB.recordSuccess, HealthCB.recordFailure, hnow, hmax] <;>
        (try split) <;> (try dsimp only) <;> (have := hb (decide (classify o = Status.healthy)); omega)
    · have ⟨_, _, hl⟩ := h7 rfl
      by_cases hto : clf + c.breaker.timeout < nc
      · constructor <;> simp [step, doCheck, HealthCB.isOpenCall, HealthCB.recordSuccess, HealthCB.recordFailure, hnow, hmax, hto] <;>
          (try split) <;> (try dsimp only) <;> (have := hb (decide (classify o = Status.healthy)); omega)
      · constructor <;> simp [step, doCheck, HealthCB.isOpenCall, hnow, hmax, hto, statusOfErr] <;> (have := hb false; omega)

private theorem holdsFrom_of_inv (v vb : Variant) (c : Cfg) (P : Params) (k : Clause) (R : Ghost → St → Prop)
    (hstep : ∀ g s op, R g s → clauseOk P k g op (obsOf (step v vb c s op)) = true ∧
      R (g.step op (obsOf (step v vb c s op))) (step v vb c s op).1) :
    ∀ ops g s, R g s → holdsFrom P k g (trace v vb c s ops) = true := by
  intro ops
  induction ops with
  | nil => intro g s _; simp [trace, holdsFrom]
  | cons op ops ih =>
    intro g s h
    have := hstep g s op h
    simp only [trace, holdsFrom, Bool.and_eq_true]
    exact ⟨this.1, ih _ _ this.2⟩

/-! # Side conditions on the regenerated tables -/

/-- A freshly loaded endpoint: status unknown, no failures, multiplier 1. -/
theorem gen_initial_record :
    Status.ofName Olla.Gen.Health.initialStatus = .unknown ∧ Olla.Gen.Health.initialFailures = 0 ∧
    Olla.Gen.Health.initialMultiplier = 1 := by decide

/-- The constants `calculateBackoff` uses are the literal 12 and 60 s of the property, and the aliases in
    package health agree with the shared constants `markEndpointUnhealthy` uses. -/
theorem gen_backoff_constants :
    Olla.Gen.Health.healthMaxMultiplierAlias = 12 ∧ Olla.Gen.Health.healthCapAlias = capLit ∧
    Olla.Gen.Health.backoffMaxMultiplier = Olla.Gen.Health.healthMaxMultiplierAlias ∧
    Olla.Gen.Health.backoffCap = Olla.Gen.Health.healthCapAlias := by decide

/-- The model's `calcBackoff` reproduces the compiled `calculateBackoff` on its whole tabulated domain
    (intervals 1 s, 7 s, 90 s × multipliers 0..16 × success/failure). -/
theorem gen_backoffTable_matches_model :
    ∀ r ∈ Olla.Gen.Health.backoffTable,
      calcBackoff activeBackoff (genCfg r.1) r.2.1 r.2.2.1 = (r.2.2.2.1, r.2.2.2.2) := by decide

/-- `determineStatus` of the compiled code, run-length encoded over status codes 0..999, is the model's. -/
theorem gen_statusRanges_match_model :
    ∀ r ∈ Olla.Gen.Health.statusRanges, ∀ code, r.1 ≤ code → code ≤ r.2.1 → (statusOfHttp code r.2.2.1).name = r.2.2.2 := by
  intro r hr code h1 h2
  simp only [Olla.Gen.Health.statusRanges, List.mem_cons, List.mem_nil_iff, or_false] at hr
  rcases hr with rfl | rfl | rfl | rfl <;>
    simp only [statusOfHttp, gen_healthy_range_is_2xx.1, gen_healthy_range_is_2xx.2] at * <;>
    (repeat' split) <;> first | rfl | omega | simp_all

/-- `contiguous lo l`: the inclusive ranges of `l` follow each other without gap starting at `lo`; returns the end. -/
def contiguousFrom : Nat → List (Nat × Nat) → Option Nat
  | lo, [] => some lo
  | lo, (a, b) :: rest => if a = lo ∧ a ≤ b then contiguousFrom (b + 1) rest else none

/-- The tabulated ranges cover 0..999 for fast and for slow answers without gaps. -/
theorem gen_statusRanges_cover :
    ∀ slow : Bool, contiguousFrom 0 ((Olla.Gen.Health.statusRanges.filter (fun r => r.2.2.1 == slow)).map (fun r => (r.1, r.2.1))) = some 1000 := by
  decide

def errClassOfName (s : String) : ErrClass :=
  if s = "network" then .network else if s = "timeout" then .timeout else if s = "circuit_open" then .circuitOpen else .httpError

/-- `classifyError`/`determineStatus` on real net/url/context errors agree with the model's error classes. -/
theorem gen_errorTable_matches_model :
    ∀ r ∈ Olla.Gen.Health.errorTable, (statusOfErr (errClassOfName r.2.2.1)).name = r.2.1 := by decide

/-- A slow answer (status `busy`) cannot occur with the production HTTP client: its timeout is shorter. -/
theorem gen_slow_unreachable : Olla.Gen.Health.clientTimeout < Olla.Gen.Health.slowThreshold := by decide

/-- `healthy` is routable; `offline`, `unhealthy`, `unknown` are not. -/
theorem gen_routable :
    ("healthy", true) ∈ Olla.Gen.Health.statusRoutable ∧ ("offline", false) ∈ Olla.Gen.Health.statusRoutable ∧
    ("unhealthy", false) ∈ Olla.Gen.Health.statusRoutable ∧ ("unknown", false) ∈ Olla.Gen.Health.statusRoutable := by decide

/-- The glue in front of the checker: every configured endpoint arrives in the repository with the type, priority,
    check interval, check timeout and preserve_path it was configured with (a finite table, regenerated on every run). -/
theorem gen_endpoint_conversion_faithful :
    Olla.Gen.Health.endpointConversion.all (fun r => r.1 == r.2) = true := by decide

/-- Validation accepts check intervals above the 60 s cap (so they are inside the property's quantifier). -/
theorem gen_interval_above_cap_accepted :
    ∃ r ∈ Olla.Gen.Health.acceptedTimings, r.1 > capLit ∧ r.2.2 = true := by decide

private theorem genCfg_facts (interval : Int) : (genCfg interval).maxMult = 12 ∧ (genCfg interval).cap = capLit ∧ (genCfg interval).interval = interval :=
  ⟨gen_backoff_constants.1, gen_backoff_constants.2.1, rfl⟩

private theorem cinv_init (c : Cfg) (t0 : Int) : CInv c (Ghost.init t0) (St.init t0) := by
  have ⟨h1, h2, h3⟩ := gen_initial_record
  constructor <;> simp [Ghost.init, St.init, HealthCB.init, h1, h2, h3, multLit]

/-! # The property theorems (all histories of check / sched / proxyFail / tick operations) -/

/-- Every clause except `capped` and `gapBound`, for every configuration whose multiplier cap is 12 and
    whose delay cap is 60 s. -/
theorem all_clauses (v vb : Variant) (c : Cfg) (hM : c.maxMult = 12) (hcap : c.cap = capLit) (ideal : Bool) (k : Clause)
    (hk : k = .healthyIff ∨ k = .classification ∨ k = .schedule ∨ k = .realProbe ∨ k = .callback ∨ k = .proxyFail ∨
          k = .capped ∨ (k = .cappedFirst ∧ (vb = .fixed ∨ c.interval ≤ c.cap)) ∨ (k = .gapBound ∧ ideal = false))
    (t0 : Int) (ops : List Op) :
    holds (paramsOf c ideal) k t0 (trace v vb c (St.init t0) ops) = true := by
  apply holdsFrom_of_inv v vb c (paramsOf c ideal) k (CInv c) _ ops _ _ (cinv_init c t0)
  intro g s op h
  refine ⟨?_, cinv_step v vb c hM g s op h⟩
  rcases hk with rfl | rfl | rfl | rfl | rfl | rfl | rfl | ⟨rfl, hok⟩ | ⟨rfl, rfl⟩
  · exact clause_healthyIff v vb c ideal g s op h
  · exact clause_classification v vb c ideal g s op h
  · exact clause_schedule v vb c hcap ideal g s op h
  · exact clause_realProbe v vb c ideal g s op h
  · exact clause_callback v vb c ideal g s op h
  · exact clause_proxyFail v vb c ideal g s op
  · exact clause_capped v vb c hcap ideal g s op h
  · exact clause_cappedFirst v vb c hcap hok ideal g s op h
  · simp [clauseOk, paramsOf]

/-- **Healthy ⇔ the latest check reached the endpoint and got a (fast) 2xx answer.** -/
theorem healthy_iff (v vb : Variant) (c : Cfg) (hM : c.maxMult = 12) (hcap : c.cap = capLit) (ideal : Bool) (t0 : Int) (ops : List Op) :
    holds (paramsOf c ideal) .healthyIff t0 (trace v vb c (St.init t0) ops) = true :=
  all_clauses v vb c hM hcap ideal _ (.inl rfl) t0 ops

/-- **Connection error / timeout ⇒ offline, error status / other error ⇒ unhealthy, short-circuited ⇒ not healthy.** -/
theorem classification (v vb : Variant) (c : Cfg) (hM : c.maxMult = 12) (hcap : c.cap = capLit) (ideal : Bool) (t0 : Int) (ops : List Op) :
    holds (paramsOf c ideal) .classification t0 (trace v vb c (St.init t0) ops) = true :=
  all_clauses v vb c hM hcap ideal _ (.inr (.inl rfl)) t0 ops

/-- **Back-off schedule, literally:** after the f-th consecutive failure (failed check, short-circuited check or
    proxy-detected failure) the delay is `check_interval × 1,2,4,8,12,12,…` whenever that is ≤ 60 s, and it is
    `check_interval` again after the first success. -/
theorem backoff_schedule (v vb : Variant) (c : Cfg) (hM : c.maxMult = 12) (hcap : c.cap = capLit) (ideal : Bool) (t0 : Int) (ops : List Op) :
    holds (paramsOf c ideal) .schedule t0 (trace v vb c (St.init t0) ops) = true :=
  all_clauses v vb c hM hcap ideal _ (.inr (.inr (.inl rfl))) t0 ops

/-- **… capped at 60 s**, from the second consecutive failure on: holds for the pinned tree and every interval. -/
theorem failure_delay_capped (v vb : Variant) (c : Cfg) (hM : c.maxMult = 12) (hcap : c.cap = capLit) (ideal : Bool) (t0 : Int) (ops : List Op) :
    holds (paramsOf c ideal) .capped t0 (trace v vb c (St.init t0) ops) = true :=
  all_clauses v vb c hM hcap ideal _ (.inr (.inr (.inr (.inr (.inr (.inr (.inl rfl))))))) t0 ops

/-- **… capped at 60 s after the FIRST failure too** — full strength for the repaired `calculateBackoff`
    (fixes/C07-first-failure-cap.patch). -/
theorem first_failure_delay_capped (v : Variant) (c : Cfg) (hM : c.maxMult = 12) (hcap : c.cap = capLit) (ideal : Bool) (t0 : Int) (ops : List Op) :
    holds (paramsOf c ideal) .cappedFirst t0 (trace v .fixed c (St.init t0) ops) = true :=
  all_clauses v .fixed c hM hcap ideal _ (.inr (.inr (.inr (.inr (.inr (.inr (.inr (.inl ⟨rfl, .inl rfl⟩)))))))) t0 ops

/-- Pinned tree: the first-failure cap holds for every endpoint whose `check_interval` does not itself exceed 60 s. -/
theorem first_failure_delay_capped_partial (v vb : Variant) (c : Cfg) (hM : c.maxMult = 12) (hcap : c.cap = capLit)
    (hiv : c.interval ≤ c.cap) (ideal : Bool) (t0 : Int) (ops : List Op) :
    holds (paramsOf c ideal) .cappedFirst t0 (trace v vb c (St.init t0) ops) = true :=
  all_clauses v vb c hM hcap ideal _ (.inr (.inr (.inr (.inr (.inr (.inr (.inr (.inl ⟨rfl, .inr hiv⟩)))))))) t0 ops

/-- **Pinned tree: with `check_interval` = 120 s (accepted by validation) the first failed check schedules the
    next one 120 s later — not capped at 60 s.** -/
theorem first_failure_delay_capped_witness :
    ¬ holds (paramsOf (genCfg 120000000000) false) .cappedFirst 0
        (trace .pinned .pinned (genCfg 120000000000) (St.init 0) [.check .netErr]) = true := by
  decide

/-- **A check is short-circuited by the breaker only after ≥ threshold real failures in a row and only within
    `breakerTimeout` of the last real failure** — i.e. once the breaker timeout has passed, the check is real. -/
theorem real_probe_when_due (v vb : Variant) (c : Cfg) (hM : c.maxMult = 12) (hcap : c.cap = capLit) (ideal : Bool) (t0 : Int) (ops : List Op) :
    holds (paramsOf c ideal) .realProbe t0 (trace v vb c (St.init t0) ops) = true :=
  all_clauses v vb c hM hcap ideal _ (.inr (.inr (.inr (.inl rfl)))) t0 ops

/-- **One recovery callback per not-healthy (≠ unknown) → healthy transition and none otherwise**, step by step. -/
theorem callback_per_transition (v vb : Variant) (c : Cfg) (hM : c.maxMult = 12) (hcap : c.cap = capLit) (ideal : Bool) (t0 : Int) (ops : List Op) :
    holds (paramsOf c ideal) .callback t0 (trace v vb c (St.init t0) ops) = true :=
  all_clauses v vb c hM hcap ideal _ (.inr (.inr (.inr (.inr (.inl rfl))))) t0 ops

/-- A proxy-detected failure rewrites the record as offline without probing. -/
theorem proxy_failure_marks_offline (v vb : Variant) (c : Cfg) (hM : c.maxMult = 12) (hcap : c.cap = capLit) (ideal : Bool) (t0 : Int) (ops : List Op) :
    holds (paramsOf c ideal) .proxyFail t0 (trace v vb c (St.init t0) ops) = true :=
  all_clauses v vb c hM hcap ideal _ (.inr (.inr (.inr (.inr (.inr (.inl rfl)))))) t0 ops

private theorem callbacks_step (v vb : Variant) (c : Cfg) (s : St) (op : Op) :
    (step v vb c s op).1.callbacks = s.callbacks +
      (if s.ep.status ≠ .healthy ∧ s.ep.status ≠ .unknown ∧ (step v vb c s op).1.ep.status = .healthy then 1 else 0) := by
  obtain ⟨⟨st, f, m, lc, nc⟩, ⟨cf, clf, cla, cio, now⟩, cbs, lr⟩ := s
  cases op with
  | tick d => cases st <;> simp [step]
  | proxyFail => simp [step, doProxyFail]
  | check o =>
    simp only [step, doCheck]
    generalize (if (HealthCB.isOpenCall v c.breaker _).2 = true then statusOfErr ErrClass.circuitOpen else classify o) = ns
    cases st <;> cases ns <;> simp
  | sched o =>
    simp only [step]
    split
    · cases st <;> simp
    · simp only [doCheck]
      generalize (if (HealthCB.isOpenCall v c.breaker _).2 = true then statusOfErr ErrClass.circuitOpen else classify o) = ns
      cases st <;> cases ns <;> simp

/-- **Recovery callback count = number of not-healthy → healthy transitions** over the whole history
    (the initial unknown → healthy is not one: start-up discovery covers it). -/
theorem callback_count_eq_transitions (v vb : Variant) (c : Cfg) : ∀ (ops : List Op) (s : St),
    (run v vb c s ops).callbacks = s.callbacks + transitions s.ep.status ((trace v vb c s ops).map (·.2.status)) := by
  intro ops
  induction ops with
  | nil => intro s; simp [run, trace, transitions]
  | cons op ops ih =>
    intro s
    simp only [run, trace, List.map_cons, transitions, obsOf]
    rw [ih, callbacks_step]
    have : (if s.ep.status ≠ Status.healthy ∧ s.ep.status ≠ Status.unknown ∧ (step v vb c s op).1.ep.status = Status.healthy then 1 else 0)
         = (if s.ep.status ≠ Status.healthy ∧ s.ep.status ≠ Status.unknown ∧ (step v vb c s op).1.ep.status = Status.healthy then 1 else 0) := rfl
    omega

/-- **A proxy-detected failure does the same bookkeeping as a failed check** (status offline, failure count,
    multiplier, next-check delay) — for the repaired `calculateBackoff`, or whenever `check_interval ≤ 60 s`. -/
theorem markUnhealthy_eq_failedCheck (v vb : Variant) (c : Cfg) (s : St) (hok : vb = .fixed ∨ c.interval ≤ c.cap) :
    (doProxyFail c s).ep = (doCheck v vb c s .netErr).1.ep := by
  obtain ⟨⟨st, f, m, lc, nc⟩, cb, cbs, lr⟩ := s
  simp only [doProxyFail, doCheck, classify, statusOfErr, calcBackoff]
  have hs : (if (HealthCB.isOpenCall v c.breaker cb).2 = true then Status.offline else Status.offline) = Status.offline := by split <;> rfl
  simp only [hs]
  by_cases hm : m ≤ 1
  · rcases hok with rfl | hle
    · simp [hm]
    · cases vb <;> simp [hm] <;> omega
  · simp [hm]

/-- **Routable again on the first probe that succeeds:** in every reachable state, a check that is not
    short-circuited (breaker closed, or its timeout has passed) and gets a fast 2xx leaves the endpoint
    `healthy` (a routable status, `gen_routable`), with no failures, multiplier 1 and the normal interval. -/
theorem recovers_on_first_success (v vb : Variant) (c : Cfg) (g : Ghost) (s : St) (h : CInv c g s) (o : Outcome)
    (hdue : s.cb.isOpen = false ∨ s.cb.lastFailure + c.breaker.timeout < s.cb.now) (hok : is2xxFast o = true) :
    let s' := (doCheck v vb c s o).1
    s'.ep.status = .healthy ∧ s'.ep.failures = 0 ∧ s'.ep.mult = 1 ∧ s'.delay = c.interval ∧ s'.cb.isOpen = false := by
  have hc := (classify_healthy_iff' o).mpr hok
  obtain ⟨h1, h2, h3, h4, h5, h6, h7, h8⟩ := h
  obtain ⟨⟨st, f, m, lc, nc⟩, ⟨cf, clf, cla, cio, now⟩, cbs, lr⟩ := s
  simp only at h5 hdue
  subst h5
  cases cio
  · simp [doCheck, HealthCB.isOpenCall, HealthCB.recordSuccess, hc, calc_succ, St.delay]; omega
  · have hto : clf + c.breaker.timeout < now := by rcases hdue with h | h; cases h; exact h
    simp [doCheck, HealthCB.isOpenCall, HealthCB.recordSuccess, hc, hto, calc_succ, St.delay]; omega

/-- **Probe gap bound, ideal scheduler:** if every check runs exactly when it is due, two consecutive real probes
    are never more than `60 s + breakerTimeout` apart (the production ticker adds up to its 30 s period). -/
theorem probe_gap_bound (v vb : Variant) (c : Cfg) (hM : c.maxMult = 12) (hcap : c.cap = capLit) (h0 : 0 ≤ c.interval)
    (hle : c.interval ≤ c.cap) (hT : 0 ≤ c.breaker.timeout) (t0 : Int) (outcomes : List Outcome) :
    holds (paramsOf c true) .gapBound t0 (trace v vb c (St.init t0) (idealOps v vb c (St.init t0) outcomes)) = true := by
  have key : ∀ (os : List Outcome) (g : Ghost) (s : St), CInv c g s → IInv c s →
      holdsFrom (paramsOf c true) .gapBound g (trace v vb c s (idealOps v vb c s os)) = true := by
    intro os
    induction os with
    | nil => intro g s _ _; simp [idealOps, trace, holdsFrom]
    | cons o os ih =>
      intro g s hc hi
      have hs := ideal_step v vb c h0 hle hT g s o hc hi
      simp only at hs
      obtain ⟨ha, hb, hi'⟩ := hs
      have hc1 := cinv_step v vb c hM g s (.tick (s.ep.nextCheck - s.cb.now).toNat) hc
      have hc2 := cinv_step v vb c hM _ _ (.check o) hc1
      simp only [idealOps, trace, holdsFrom, Bool.and_eq_true]
      exact ⟨ha, hb hcap, ih _ _ hc2 hi'⟩
  apply key outcomes _ _ (cinv_init c t0)
  constructor <;> simp [St.init, HealthCB.init] <;> omega

/-! # The scheduler honours the recorded schedule -/

private structure DInv (g : DueGhost) (s : St) : Prop where
  now : g.now = s.cb.now
  due : g.due = s.ep.nextCheck

private theorem dinv_step (v vb : Variant) (c : Cfg) (g : DueGhost) (s : St) (op : Op) (h : DInv g s) :
    dueOk g op (obsOf (step v vb c s op)) = true ∧ DInv (g.step op (obsOf (step v vb c s op))) (step v vb c s op).1 := by
  obtain ⟨h1, h2⟩ := h
  obtain ⟨⟨st, f, m, lc, nc⟩, ⟨cf, clf, cla, cio, now⟩, cbs, lr⟩ := s
  simp only at h1 h2
  cases op with
  | tick d => exact ⟨rfl, by constructor <;> simp_all [DueGhost.step, obsOf, step]⟩
  | proxyFail =>
    refine ⟨rfl, ?_⟩
    constructor <;> simp_all [DueGhost.step, obsOf, step, doProxyFail, St.delay]
    omega
  | check o =>
    refine ⟨rfl, ?_⟩
    cases cio <;> by_cases hto : clf + c.breaker.timeout < now <;> constructor <;>
      simp_all [DueGhost.step, obsOf, step, doCheck, HealthCB.isOpenCall, HealthCB.recordFailure, HealthCB.recordSuccess, St.delay, -Int.not_lt, -Int.not_le]
    all_goals (try omega)
    all_goals (try ((repeat' split) <;> first | rfl | omega))
  | sched o =>
    by_cases hdue : now < nc
    · refine ⟨by simp_all [dueOk], ?_⟩
      constructor <;> simp_all [DueGhost.step, obsOf, step]
    · refine ⟨by simp [dueOk, obsOf, step, hdue, doCheck], ?_⟩
      simp only [step, if_neg hdue]
      cases cio <;> by_cases hto : clf + c.breaker.timeout < now <;> constructor <;>
        simp_all [DueGhost.step, obsOf, step, doCheck, HealthCB.isOpenCall, HealthCB.recordFailure, HealthCB.recordSuccess, St.delay, -Int.not_lt, -Int.not_le]
      all_goals (try omega)
      all_goals (try ((repeat' split) <;> first | rfl | omega))

/-- **The scheduler honours the schedule it records**: in every history, a firing of the scheduler at or after the
    time the record promised (`LastChecked` + the reported delay; immediately after loading) runs the check. -/
theorem due_probed (v vb : Variant) (c : Cfg) (t0 : Int) (ops : List Op) :
    dueProbed t0 (trace v vb c (St.init t0) ops) = true := by
  have key : ∀ (ops : List Op) (g : DueGhost) (s : St), DInv g s → dueProbedFrom g (trace v vb c s ops) = true := by
    intro ops
    induction ops with
    | nil => intro _ _ _; rfl
    | cons op rest ih =>
      intro g s h
      obtain ⟨h1, h2⟩ := dinv_step v vb c g s op h
      simp only [trace, dueProbedFrom, Bool.and_eq_true]
      exact ⟨h1, ih _ _ h2⟩
  exact key ops ⟨t0, t0⟩ (St.init t0) ⟨rfl, rfl⟩

/-! # Instances at the configuration regenerated from the compiled code -/

/-- Every clause the pinned tree satisfies, for EVERY `check_interval`, at the regenerated constants. -/
theorem gen_all_clauses (interval : Int) (ideal : Bool) (k : Clause)
    (hk : k = .healthyIff ∨ k = .classification ∨ k = .schedule ∨ k = .realProbe ∨ k = .callback ∨ k = .proxyFail ∨ k = .capped)
    (t0 : Int) (ops : List Op) :
    holds (paramsOf (genCfg interval) ideal) k t0 (trace activeHealth activeBackoff (genCfg interval) (St.init t0) ops) = true := by
  have ⟨hM, hcap, _⟩ := genCfg_facts interval
  apply all_clauses _ _ _ hM hcap ideal k _ t0 ops
  rcases hk with h | h | h | h | h | h | h <;> simp [h]

theorem gen_first_failure_delay_capped_partial (interval : Int) (hiv : interval ≤ capLit) (ideal : Bool) (t0 : Int) (ops : List Op) :
    holds (paramsOf (genCfg interval) ideal) .cappedFirst t0 (trace activeHealth activeBackoff (genCfg interval) (St.init t0) ops) = true := by
  have ⟨hM, hcap, hi⟩ := genCfg_facts interval
  exact first_failure_delay_capped_partial _ _ _ hM hcap (by rw [hcap, hi]; exact hiv) ideal t0 ops

theorem gen_probe_gap_bound (interval : Int) (h0 : 0 ≤ interval) (hiv : interval ≤ capLit) (t0 : Int) (outcomes : List Outcome) :
    holds (paramsOf (genCfg interval) true) .gapBound t0
      (trace activeHealth activeBackoff (genCfg interval) (St.init t0) (idealOps activeHealth activeBackoff (genCfg interval) (St.init t0) outcomes)) = true := by
  have ⟨hM, hcap, hi⟩ := genCfg_facts interval
  exact probe_gap_bound _ _ _ hM hcap (by rw [hi]; exact h0) (by rw [hcap, hi]; exact hiv) (show (0:Int) ≤ genHCfg.timeout by decide) t0 outcomes

/-! # Non-vacuity (breaker values taken from the regenerated configuration) -/

example : ((run .pinned .pinned (genCfg 5000000000) (St.init 0)
    [.check .netErr, .tick 5000000000, .check .netErr, .tick 10000000000, .check (.http 503 false)]).ep.status) = .unhealthy := by decide
example : ((run .pinned .pinned (genCfg 5000000000) (St.init 0)
    ((List.replicate genHCfg.threshold (.check .netErr)) ++ [.tick (genHCfg.timeout.toNat + 1000000000), .check (.http 200 false)])).callbacks) = 1 := by decide
example : ((step .pinned .pinned (genCfg 5000000000) (run .pinned .pinned (genCfg 5000000000) (St.init 0)
    (List.replicate genHCfg.threshold (.check .netErr))) (.check (.http 200 false))).2.reached) = false := by decide

/-- `next_delay_le_cap` of the design: both halves together, for the pinned tree with `check_interval ≤ 60 s`. -/
theorem next_delay_le_cap_partial (v vb : Variant) (c : Cfg) (hM : c.maxMult = 12) (hcap : c.cap = capLit)
    (hiv : c.interval ≤ c.cap) (ideal : Bool) (t0 : Int) (ops : List Op) :
    holds (paramsOf c ideal) .capped t0 (trace v vb c (St.init t0) ops) = true ∧
    holds (paramsOf c ideal) .cappedFirst t0 (trace v vb c (St.init t0) ops) = true :=
  ⟨failure_delay_capped v vb c hM hcap ideal t0 ops, first_failure_delay_capped_partial v vb c hM hcap hiv ideal t0 ops⟩

end Olla.Props.C07
