import Olla.Model.Health
import Olla.Spec.C07

namespace Olla.Props.C07
open Olla.Model.Health Olla.Spec.C07

theorem placeholder : True := trivial

end Olla.Props.C07
