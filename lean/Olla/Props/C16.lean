/-
C16 — Upstream URLs stay on the configured endpoint and under its base path.
Property theorems (plus `private` helper lemmas and non-vacuity examples). Model:
`Olla.Model.Url` (StripPrefix, BuildTargetURL with all three branches, ResolveURLPath, and ports
of strings.Split/Join, path.Clean/Join, url.PathUnescape, net/url resolvePath), predicates:
`Olla.Spec.C16`, production prefix / route prefixes / shipped default paths: regenerated
`Olla.Gen.Urls`.

Every theorem quantifies over ALL request paths (any bytes: dot segments, percent-encodings,
repeated slashes, ...), all queries, all endpoints (scheme, host, base path) and all prefixes.
-/
import Olla.Model.Url
import Olla.Spec.C16
import Olla.Gen.Urls
import Olla.Spec.State
import Olla.Gen.Security

namespace Olla.Props.C16
open Olla.Model.Url
open Olla.Spec.C16 (segs isDot noDotSegs underBase notAboveRoot plainBase rooted noDotDot plainRel hostFixed queryVerbatim plainPath placed)

/-! ### strings.Split / strings.Join on "/" -/

private theorem split_cons_slash (cs : Path) : split ('/' :: cs) = [] :: split cs := by
  simp [split, splitAux]

private theorem split_cons_ne (c : Char) (cs : Path) (h : c ≠ '/') :
    split (c :: cs) = (c :: (splitAux cs).1) :: (splitAux cs).2 := by
  simp [split, splitAux, h]

private theorem split_nil : split [] = [[]] := rfl

private theorem split_append_slash : ∀ (a b : Path), split (a ++ '/' :: b) = split a ++ split b
  | [], b => by simp [split_cons_slash, split_nil]
  | c :: a, b => by
    have ih := split_append_slash a b
    by_cases h : c = '/'
    · subst h
      simp only [List.cons_append, split_cons_slash, ih]
    · simp only [List.cons_append, split_cons_ne _ _ h]
      simp only [split] at ih
      have h1 := (List.cons.inj ih).1
      have h2 := (List.cons.inj ih).2
      rw [h1, h2]
      simp [split]

private theorem joinSlash_split : ∀ (p : Path), joinSlash (split p) = p
  | [] => rfl
  | c :: cs => by
    have ih := joinSlash_split cs
    by_cases h : c = '/'
    · subst h
      rw [split_cons_slash]
      simp only [split] at ih ⊢
      simp [joinSlash, ih]
    · rw [split_cons_ne _ _ h]
      simp only [split] at ih
      cases h2 : (splitAux cs).2 with
      | nil => rw [h2] at ih; simp [joinSlash] at ih ⊢; exact ih
      | cons y t => rw [h2] at ih; simp [joinSlash] at ih ⊢; exact ih

private theorem split_no_slash : ∀ (p : Path), ∀ s ∈ split p, '/' ∉ s
  | [], s, hs => by simp [split, splitAux] at hs; subst hs; simp
  | c :: cs, s, hs => by
    have ih := split_no_slash cs
    by_cases h : c = '/'
    · subst h
      rw [split_cons_slash] at hs
      rcases List.mem_cons.mp hs with h1 | h1
      · subst h1; simp
      · exact ih s h1
    · rw [split_cons_ne _ _ h] at hs
      rcases List.mem_cons.mp hs with h1 | h1
      · subst h1
        have := ih (splitAux cs).1 (by simp [split])
        intro hm
        rcases List.mem_cons.mp hm with h3 | h3
        · exact h h3.symm
        · exact this h3
      · exact ih s (by simp [split, h1])

private theorem split_of_no_slash : ∀ (x : Path), '/' ∉ x → split x = [x]
  | [], _ => rfl
  | c :: cs, h => by
    have hc : c ≠ '/' := fun e => h (by simp [e])
    have ih := split_of_no_slash cs (fun e => h (List.mem_cons_of_mem _ e))
    rw [split_cons_ne _ _ hc]
    simp only [split] at ih
    have h1 := (List.cons.inj ih).1
    have h2 := (List.cons.inj ih).2
    rw [h1, h2]

private theorem split_joinSlash : ∀ (l : List Path), l ≠ [] → (∀ s ∈ l, '/' ∉ s) → split (joinSlash l) = l
  | [], h, _ => absurd rfl h
  | [x], _, hs => by simp only [joinSlash]; exact split_of_no_slash x (hs x (by simp))
  | x :: y :: t, _, hs => by
    simp only [joinSlash]
    rw [split_append_slash, split_of_no_slash x (hs x (by simp)),
      split_joinSlash (y :: t) (by simp) (fun s h => hs s (List.mem_cons_of_mem _ h))]
    rfl

/-- a genuine path element -/
private def Real (s : Path) : Prop := s ≠ [] ∧ s ≠ dot ∧ s ≠ dotdot ∧ '/' ∉ s

private def kept (l : List Path) : List Path := l.filter (fun s => s != [] && s != dot)

private theorem cleanStep_real (st : List Path) (seg : Path) (hst : ∀ s ∈ st, Real s) (hseg : '/' ∉ seg) :
    ∀ s ∈ cleanStep true st seg, Real s := by
  unfold cleanStep
  split
  · exact hst
  · rename_i h1
    split
    · cases st with
      | nil => simp
      | cons t rest =>
        simp only []
        have ht := hst t (by simp)
        rw [if_neg ht.2.2.1]
        intro s hs; exact hst s (List.mem_cons_of_mem _ hs)
    · rename_i h2
      intro s hs
      rcases List.mem_cons.mp hs with h | h
      · subst h
        simp only [not_or] at h1
        exact ⟨h1.1, h1.2, h2, hseg⟩
      · exact hst s h

private theorem fold_real : ∀ (l : List Path) (st : List Path), (∀ s ∈ st, Real s) → (∀ s ∈ l, '/' ∉ s) →
    ∀ s ∈ l.foldl (cleanStep true) st, Real s
  | [], st, hst, _ => by simpa using hst
  | x :: l, st, hst, hl => by
    simp only [List.foldl_cons]
    exact fold_real l _ (cleanStep_real st x hst (hl x (by simp))) (fun s h => hl s (List.mem_cons_of_mem _ h))

private theorem fold_plain (r : Bool) : ∀ (l st : List Path), dotdot ∉ l → l.foldl (cleanStep r) st = (kept l).reverse ++ st
  | [], st, _ => by simp [kept]
  | x :: l, st, h => by
    have hx : x ≠ dotdot := fun e => h (by simp [e])
    have hl : dotdot ∉ l := fun e => h (List.mem_cons_of_mem _ e)
    simp only [List.foldl_cons]
    rw [fold_plain r l _ hl]
    unfold cleanStep kept
    by_cases h1 : x = [] ∨ x = dot
    · rw [if_pos h1]
      have : (x != [] && x != dot) = false := by
        rcases h1 with h1 | h1 <;> simp [h1]
      rw [List.filter_cons]; simp only [this, Bool.false_eq_true, if_false]
    · rw [if_neg h1, if_neg hx]
      have : (x != [] && x != dot) = true := by
        simp only [not_or] at h1; simp [h1.1, h1.2]
      rw [List.filter_cons]; simp only [this, if_true]
      simp

/-- cleaning a rooted path gives "/" followed by genuine elements -/
private theorem clean_rooted (p : Path) : ∃ xs : List Path, (∀ s ∈ xs, Real s) ∧ clean ('/' :: p) = '/' :: joinSlash xs := by
  refine ⟨((split ('/' :: p)).foldl (cleanStep true) []).reverse, ?_, ?_⟩
  · intro s hs
    rw [List.mem_reverse] at hs
    exact fold_real _ [] (by simp) (split_no_slash _) s hs
  · simp [clean]

private theorem split_rootedJoin (xs : List Path) (h : ∀ s ∈ xs, Real s) :
    split ('/' :: joinSlash xs) = [] :: (if xs = [] then [[]] else xs) := by
  rw [split_cons_slash]
  by_cases hx : xs = []
  · subst hx; simp [joinSlash, split, splitAux]
  · rw [if_neg hx, split_joinSlash xs hx (fun s hs => (h s hs).2.2.2)]

private theorem segs_rootedJoin (xs : List Path) (h : ∀ s ∈ xs, Real s) : segs ('/' :: joinSlash xs) = xs := by
  unfold segs
  rw [split_rootedJoin xs h]
  by_cases hx : xs = []
  · subst hx; simp
  · rw [if_neg hx]
    simp only [List.filter_cons]
    simp only [bne_self_eq_false, Bool.false_eq_true, if_false]
    rw [List.filter_eq_self]
    intro s hs
    simpa using (h s hs).1

private theorem kept_real (l : List Path) (hs : ∀ s ∈ l, '/' ∉ s) (hd : dotdot ∉ l) : ∀ s ∈ kept l, Real s := by
  intro s h
  unfold kept at h
  rw [List.mem_filter] at h
  obtain ⟨hm, hp⟩ := h
  simp only [Bool.and_eq_true, bne_iff_ne, ne_eq] at hp
  exact ⟨hp.1, hp.2, fun e => hd (e ▸ hm), hs s hm⟩

private theorem kept_eq_filter : ∀ (l : List Path), (∀ s ∈ l.filter (fun s => s != []), (!isDot s) = true) →
    kept l = l.filter (fun s => s != [])
  | [], _ => rfl
  | x :: t, h => by
    unfold kept
    simp only [List.filter_cons]
    by_cases hx : x = []
    · subst hx
      simp only [bne_self_eq_false, Bool.false_and, Bool.false_eq_true, if_false]
      apply kept_eq_filter t
      intro s hs; apply h
      simpa [List.filter_cons] using hs
    · have hne : (x != []) = true := by simpa using hx
      have hmem : x ∈ List.filter (fun s => s != []) (x :: t) := by simp [hne]
      have hd := h x hmem
      have hnd : (x != dot) = true := by
        unfold isDot at hd
        simp only [Bool.not_eq_true', Bool.or_eq_false_iff, beq_eq_false_iff_ne] at hd
        simpa [dot] using hd.1
      simp only [hne, hnd, Bool.and_self, if_true]
      congr 1
      apply kept_eq_filter t
      intro s hs; apply h
      simp only [List.filter_cons, hne, if_true]
      exact List.mem_cons_of_mem _ hs

private theorem kept_eq_segs (p : Path) (h : noDotSegs p = true) : kept (split p) = segs p := by
  unfold noDotSegs at h
  rw [List.all_eq_true] at h
  exact kept_eq_filter (split p) h

private theorem dotdot_not_mem_of_noDotSegs (p : Path) (h : noDotSegs p = true) : dotdot ∉ split p := by
  intro hm
  unfold noDotSegs at h
  rw [List.all_eq_true] at h
  have : dotdot ∈ segs p := by
    unfold segs; rw [List.mem_filter]; exact ⟨hm, by decide⟩
  have := h dotdot this
  revert this; decide

/-- joining a relative part without ".." under a rooted base path without dot segments -/
private theorem join_under (b' rel : Path) (hbd : noDotSegs ('/' :: b') = true) (hrel : dotdot ∉ split rel) :
    segs (join2 ('/' :: b') rel) = segs ('/' :: b') ++ kept (split rel) ∧
    ∀ s ∈ kept (split rel), Real s := by
  have hdb := dotdot_not_mem_of_noDotSegs _ hbd
  have hall : dotdot ∉ split ('/' :: b') ++ split rel := by
    intro h; rcases List.mem_append.mp h with h | h
    · exact hdb h
    · exact hrel h
  have hrealB := kept_real (split ('/' :: b')) (split_no_slash _) hdb
  have hrealR := kept_real (split rel) (split_no_slash _) hrel
  refine ⟨?_, hrealR⟩
  have hj : join2 ('/' :: b') rel = '/' :: joinSlash (kept (split ('/' :: b')) ++ kept (split rel)) := by
    unfold join2
    rw [if_neg (by simp), if_neg (by simp)]
    show clean ('/' :: (b' ++ '/' :: rel)) = _
    have hs : split ('/' :: (b' ++ '/' :: rel)) = split ('/' :: b') ++ split rel := by
      rw [← List.cons_append, split_append_slash]
    simp only [clean, beq_self_eq_true, if_true, hs]
    rw [fold_plain true _ [] hall]
    simp [kept, List.filter_append]
  rw [hj, segs_rootedJoin _ (by
    intro s hs; rcases List.mem_append.mp hs with h | h
    · exact hrealB s h
    · exact hrealR s h), kept_eq_segs _ hbd]

private theorem underBase_of_segs (base p : Path) (extra : List Path) (hb : noDotSegs base = true)
    (hseg : segs p = segs base ++ extra) (hex : ∀ s ∈ extra, Real s) : underBase base p = true := by
  unfold underBase
  rw [Bool.and_eq_true]
  constructor
  · unfold noDotSegs at hb ⊢
    rw [List.all_eq_true] at hb ⊢
    intro s hs
    rw [hseg] at hs
    rcases List.mem_append.mp hs with h | h
    · exact hb s h
    · have := hex s h
      unfold isDot
      simp only [Bool.not_eq_true', Bool.or_eq_false_iff, beq_eq_false_iff_ne]
      exact ⟨this.2.1, this.2.2.1⟩
  · rw [List.isPrefixOf_iff_prefix, hseg]
    exact List.prefix_append _ _

private theorem split_trimSlash_subset (tp : Path) : ∀ s ∈ split (trimSlash tp), s ∈ split tp := by
  intro s hs
  cases tp with
  | nil => exact hs
  | cons c r =>
    by_cases hc : c = '/'
    · subst hc
      simp only [trimSlash] at hs
      rw [split_cons_slash]
      exact List.mem_cons_of_mem _ hs
    · have : trimSlash (c :: r) = c :: r := by
        unfold trimSlash
        split
        · rename_i heq; exact absurd (List.cons.inj heq).1 hc
        · rfl
      rw [this] at hs; exact hs

private theorem dotdot_not_in_joinReal (xs : List Path) (h : ∀ s ∈ xs, Real s) : dotdot ∉ split (joinSlash xs) := by
  by_cases hx : xs = []
  · subst hx; simp [joinSlash, split, splitAux, dotdot]
  · rw [split_joinSlash xs hx (fun s hs => (h s hs).2.2.2)]
    intro hm; exact (h _ hm).2.2.1 rfl

private theorem preserveRel_noDotDot (var : Variant) (tp : Path) (hv : var = .fixed ∨ noDotDot tp = true) :
    dotdot ∉ split (preserveRel var tp) := by
  cases var with
  | pinned =>
    rcases hv with h | h
    · exact absurd h (by decide)
    · intro hm
      have := split_trimSlash_subset tp _ hm
      unfold noDotDot at h
      simp only [Bool.not_eq_true', ← Bool.not_eq_true, List.contains_iff_mem] at h
      exact h this
  | fixed =>
    obtain ⟨xs, hreal, hc⟩ := clean_rooted tp
    simp only [preserveRel, hc, trimSlash]
    exact dotdot_not_in_joinReal xs hreal

private theorem plainBase_rooted (b : Path) (hb : plainBase b = true) (hne : b ≠ []) : ∃ b', b = '/' :: b' ∧ noDotSegs b = true := by
  unfold plainBase at hb
  rw [Bool.and_eq_true, Bool.or_eq_true] at hb
  obtain ⟨h1, h2⟩ := hb
  rcases h1 with h1 | h1
  · exact absurd (by simpa using h1) hne
  · cases b with
    | nil => exact absurd rfl hne
    | cons c r =>
      simp only [List.head?_cons, beq_iff_eq, Option.some.injEq] at h1
      exact ⟨r, by rw [h1], h2⟩

private theorem usesPreserve_ne (ep : Endpoint) (h : usesPreserve ep = true) : ep.basePath ≠ [] := by
  unfold usesPreserve at h
  simp only [Bool.and_eq_true, bne_iff_ne, ne_eq] at h
  exact h.1.2

private theorem preserve_contained (var : Variant) (req : Path) (q : List Char) (ep : Endpoint) (pre : Path)
    (hp : usesPreserve ep = true) (hb : plainBase ep.basePath = true)
    (hv : var = .fixed ∨ noDotDot (targetPath req pre) = true) :
    underBase ep.basePath (buildTarget var req q ep pre).path = true := by
  obtain ⟨b', hb', hnd⟩ := plainBase_rooted _ hb (usesPreserve_ne ep hp)
  have hrel := preserveRel_noDotDot var (targetPath req pre) hv
  unfold buildTarget
  simp only [hp, if_true]
  rw [hb'] at hnd ⊢
  obtain ⟨hseg, hreal⟩ := join_under b' _ hnd hrel
  exact underBase_of_segs _ _ _ hnd hseg hreal

private theorem flatMap_slash : ∀ (l : List Path), l ≠ [] → l.flatMap (fun s => '/' :: s) = '/' :: joinSlash l
  | [], h => absurd rfl h
  | [x], _ => by simp [joinSlash]
  | x :: y :: t, _ => by
    rw [List.flatMap_cons, flatMap_slash (y :: t) (by simp)]
    simp [joinSlash]

private theorem fold_rstep_plain : ∀ (l : List Path) (d : Path), (∀ s ∈ l, s ≠ dot ∧ s ≠ dotdot) →
    l.foldl rstep { dst := d, first := false } = { dst := d ++ l.flatMap (fun s => '/' :: s), first := false }
  | [], d, _ => by simp
  | x :: l, d, h => by
    have hx := h x (by simp)
    simp only [List.foldl_cons]
    have : rstep { dst := d, first := false } x = { dst := d ++ '/' :: x, first := false } := by
      unfold rstep
      rw [if_neg hx.1, if_neg hx.2]
      simp
    rw [this, fold_rstep_plain l _ (fun s hs => h s (List.mem_cons_of_mem _ hs))]
    simp

private theorem removeDots_id (cs : Path) (hnd : ∀ s ∈ split ('/' :: cs), s ≠ dot ∧ s ≠ dotdot) :
    removeDots ('/' :: cs) = '/' :: cs := by
  have hs := split_cons_slash cs
  have hnd' : ∀ s ∈ split cs, s ≠ dot ∧ s ≠ dotdot := fun s h => hnd s (by rw [hs]; exact List.mem_cons_of_mem _ h)
  have hne : split cs ≠ [] := by simp [split]
  unfold removeDots
  rw [if_neg (by simp)]
  simp only [hs, List.foldl_cons]
  have h0 : rstep { dst := [], first := true } [] = { dst := [], first := false } := by
    unfold rstep; rw [if_neg (by decide), if_neg (by decide)]; simp
  rw [h0, fold_rstep_plain _ _ hnd', flatMap_slash _ hne, joinSlash_split]
  have hlast : ¬ (((([] : Path) :: split cs).getLast?.getD []) = dot ∨ ((([] : Path) :: split cs).getLast?.getD []) = dotdot) := by
    cases hl : (([] : Path) :: split cs).getLast? with
    | none => simp [dot, dotdot]
    | some x =>
      have hm := List.mem_of_getLast? hl
      have := hnd x (by rw [hs]; exact hm)
      simp only [Option.getD_some, not_or]
      exact this
  rw [if_neg hlast]
  simp

private theorem guarded_props (tp : Path) (hr : rooted tp = true) :
    (∃ cs, guarded tp = '/' :: cs) ∧ ∀ s ∈ split (guarded tp), s ≠ dot ∧ s ≠ dotdot := by
  unfold guarded
  by_cases hc : (containsDotDot tp || containsEncodedDotDot tp) = true
  · rw [if_pos hc]
    obtain ⟨xs, hreal, hcl⟩ := clean_rooted tp
    simp only [hcl]
    rw [if_neg (by simp)]
    refine ⟨⟨_, rfl⟩, ?_⟩
    intro s hs
    rw [split_rootedJoin xs hreal] at hs
    rcases List.mem_cons.mp hs with h | h
    · subst h; exact ⟨by decide, by decide⟩
    · by_cases hx : xs = []
      · rw [if_pos hx] at h; simp at h; subst h; exact ⟨by decide, by decide⟩
      · rw [if_neg hx] at h; exact ⟨(hreal s h).2.1, (hreal s h).2.2.1⟩
  · rw [if_neg hc]
    refine ⟨?_, ?_⟩
    · unfold rooted at hr
      cases tp with
      | nil => simp at hr
      | cons c r => simp only [List.head?_cons, beq_iff_eq, Option.some.injEq] at hr; exact ⟨r, by rw [hr]⟩
    · simp only [Bool.or_eq_true, not_or, Bool.not_eq_true] at hc
      have h1 := hc.1
      unfold containsDotDot at h1
      intro s hs
      have := List.any_eq_false.mp h1 s hs
      simp only [Bool.or_eq_true, beq_iff_eq, not_or] at this
      exact ⟨this.2, this.1⟩

private theorem rooted_targetPath (req pre : Path) (hr : rooted req = true) : rooted (targetPath req pre) = true := by
  unfold targetPath
  simp only []
  by_cases he : stripPrefix req pre = []
  · rw [if_pos he]; rfl
  · rw [if_neg he]
    unfold stripPrefix at he ⊢
    by_cases hp : pre.isPrefixOf req = true
    · simp only [hp, if_true] at he ⊢
      split
      · rename_i heq; rw [heq]; rfl
      · rfl
    · simp only [hp] at he ⊢
      exact hr

private theorem nonpreserve_path (var : Variant) (req : Path) (q : List Char) (ep : Endpoint) (pre : Path)
    (hp : usesPreserve ep = false) (hr : rooted req = true) :
    (buildTarget var req q ep pre).path = guarded (targetPath req pre) := by
  obtain ⟨⟨cs, hcs⟩, hnd⟩ := guarded_props _ (rooted_targetPath req pre hr)
  unfold buildTarget
  simp only [hp, Bool.false_eq_true, if_false]
  by_cases hb : ep.basePath = [] ∨ ep.basePath = ['/']
  · rw [if_pos hb]
  · rw [if_neg hb]
    simp only [resolveRef, hcs]
    rw [hcs] at hnd
    exact removeDots_id cs hnd

private theorem nonpreserve_rooted (var : Variant) (req : Path) (q : List Char) (ep : Endpoint) (pre : Path)
    (hp : usesPreserve ep = false) (hr : rooted req = true) :
    notAboveRoot (buildTarget var req q ep pre).path = true := by
  rw [nonpreserve_path var req q ep pre hp hr]
  obtain ⟨_, hnd⟩ := guarded_props _ (rooted_targetPath req pre hr)
  unfold notAboveRoot
  simp only [Bool.not_eq_true', ← Bool.not_eq_true, List.contains_iff_mem]
  intro hm
  exact (hnd _ hm).2 rfl

private theorem plainRel_props (p : Path) (h : plainRel p = true) : p ≠ [] ∧ (∀ s ∈ split p, s ≠ dot ∧ s ≠ dotdot) := by
  unfold plainRel at h
  rw [Bool.and_eq_true] at h
  refine ⟨by simpa using h.1, ?_⟩
  intro s hs
  have h2 := h.2
  simp only [Bool.not_eq_true'] at h2
  have := List.any_eq_false.mp h2 s hs
  unfold isDot at this
  simp only [Bool.or_eq_true, beq_iff_eq, not_or] at this
  exact ⟨this.1, this.2⟩

private theorem joinSlash_ne_nil (x : Path) (t : List Path) (hx : x ≠ []) : joinSlash (x :: t) ≠ [] := by
  cases t with
  | nil => simpa [joinSlash] using hx
  | cons y t' => simp [joinSlash, hx]

private theorem segs_join_real (xs : List Path) (hne : xs ≠ []) (h : ∀ s ∈ xs, Real s) : segs (joinSlash xs) = xs := by
  unfold segs
  rw [split_joinSlash xs hne (fun s hs => (h s hs).2.2.2), List.filter_eq_self]
  intro s hs
  simpa using (h s hs).1

private theorem config_under (base p : Path) (hb : plainBase base = true) (hp : plainRel p = true) :
    underBase base (resolveURLPath base p) = true := by
  obtain ⟨hpne, hpd⟩ := plainRel_props p hp
  have hdd : dotdot ∉ split p := fun hm => (hpd _ hm).2 rfl
  unfold resolveURLPath
  by_cases hbe : base = []
  · subst hbe
    have hk := kept_real (split p) (split_no_slash _) hdd
    have hj : join2 [] p = clean p := by unfold join2; rw [if_neg (by simp [hpne])]; simp
    rw [hj]
    cases p with
    | nil => exact absurd rfl hpne
    | cons c cs =>
      by_cases hc : c = '/'
      · subst hc
        have : clean ('/' :: cs) = '/' :: joinSlash (kept (split ('/' :: cs))) := by
          simp only [clean, beq_self_eq_true, if_true]
          rw [fold_plain true _ [] hdd]; simp
        rw [this]
        exact underBase_of_segs [] _ (kept (split ('/' :: cs))) (by decide) (by rw [segs_rootedJoin _ hk]; rfl) hk
      · have hsp : split (c :: cs) = (c :: (splitAux cs).1) :: (splitAux cs).2 := by simp [split, splitAux, hc]
        have hfirst := hpd (c :: (splitAux cs).1) (by rw [hsp]; simp)
        have hkne : kept (split (c :: cs)) = (c :: (splitAux cs).1) :: kept (splitAux cs).2 := by
          rw [hsp]; unfold kept
          rw [List.filter_cons]
          have : ((c :: (splitAux cs).1) != [] && (c :: (splitAux cs).1) != dot) = true := by
            simp only [Bool.and_eq_true, bne_iff_ne, ne_eq]; exact ⟨by simp, hfirst.1⟩
          simp only [this, if_true]
        have hbody : joinSlash (kept (split (c :: cs))) ≠ [] := by rw [hkne]; exact joinSlash_ne_nil _ _ (by simp)
        have : clean (c :: cs) = joinSlash (kept (split (c :: cs))) := by
          have hcf : (c == '/') = false := by simpa using hc
          simp only [clean, hcf, Bool.false_eq_true, if_false]
          rw [fold_plain false _ [] hdd]
          simp only [List.append_nil, List.reverse_reverse]
          rw [if_neg hbody]
        rw [this]
        exact underBase_of_segs [] _ (kept (split (c :: cs))) (by decide)
          (by rw [segs_join_real _ (by rw [hkne]; simp) hk]; rfl) hk
  · obtain ⟨b', hb', hnd⟩ := plainBase_rooted _ hb hbe
    rw [hb'] at hnd ⊢
    obtain ⟨hseg, hreal⟩ := join_under b' p hnd hdd
    exact underBase_of_segs _ _ _ hnd hseg hreal

private theorem host_fixed (var : Variant) (req : Path) (q : List Char) (ep : Endpoint) (pre : Path) :
    hostFixed ep (buildTarget var req q ep pre) = true := by
  unfold buildTarget hostFixed
  simp only []
  split
  · simp
  · split <;> simp

private theorem query_verbatim (var : Variant) (req : Path) (q : List Char) (ep : Endpoint) (pre : Path) :
    queryVerbatim q (buildTarget var req q ep pre) = true := by
  unfold buildTarget queryVerbatim
  simp only []
  split
  · simp
  · split <;> simp

private theorem takeWhile_all {α} (p : α → Bool) : ∀ (l : List α), (∀ x ∈ l, p x = true) → l.takeWhile p = l
  | [], _ => rfl
  | x :: t, h => by
    rw [List.takeWhile_cons, h x (by simp)]
    simp only [if_true]
    rw [takeWhile_all p t (fun y hy => h y (List.mem_cons_of_mem _ hy))]

private theorem wire_query (var : Variant) (q : List Char) (h : var = .fixed ∨ '#' ∉ q) : wireQuery var q = q := by
  cases var with
  | fixed => rfl
  | pinned =>
    rcases h with h | h
    · exact absurd h (by decide)
    · unfold wireQuery
      apply takeWhile_all
      intro x hx
      simp only [bne_iff_ne, ne_eq]
      intro e; exact h (e ▸ hx)


private theorem plainPath_shape (tp : Path) (h : plainPath tp = true) :
    ∃ r, tp = '/' :: r ∧ split r ≠ [] ∧ (∀ s ∈ split r, s ≠ [] ∧ s ≠ dot ∧ s ≠ dotdot) := by
  cases tp with
  | nil => simp [plainPath, split, splitAux] at h
  | cons c cs =>
    by_cases hc : c = '/'
    · subst hc
      refine ⟨cs, rfl, by simp [split], ?_⟩
      unfold plainPath at h
      rw [split_cons_slash] at h
      simp only [Bool.and_eq_true, List.all_eq_true] at h
      intro s hs
      have := h.2 s hs
      unfold isDot at this
      simp only [bne_iff_ne, ne_eq, Bool.not_eq_true', Bool.or_eq_false_iff, beq_eq_false_iff_ne] at this
      exact ⟨this.1, this.2.1, this.2.2⟩
    · have : split (c :: cs) = (c :: (splitAux cs).1) :: (splitAux cs).2 := by simp [split, splitAux, hc]
      unfold plainPath at h
      rw [this] at h
      simp at h

private theorem kept_id (l : List Path) (h : ∀ s ∈ l, s ≠ [] ∧ s ≠ dot ∧ s ≠ dotdot) : kept l = l := by
  unfold kept
  rw [List.filter_eq_self]
  intro s hs
  have := h s hs
  simp [this.1, this.2.1]

private theorem clean_plain (r : Path) (_hne : split r ≠ []) (h : ∀ s ∈ split r, s ≠ [] ∧ s ≠ dot ∧ s ≠ dotdot) :
    clean ('/' :: '/' :: r) = '/' :: r := by
  have hdd : dotdot ∉ split ('/' :: '/' :: r) := by
    rw [split_cons_slash, split_cons_slash]
    intro hm
    rcases List.mem_cons.mp hm with h1 | h1
    · exact absurd h1 (by decide)
    · rcases List.mem_cons.mp h1 with h2 | h2
      · exact absurd h2 (by decide)
      · exact (h _ h2).2.2 rfl
  simp only [clean, beq_self_eq_true, if_true]
  rw [fold_plain true _ [] hdd, split_cons_slash, split_cons_slash]
  have : kept ([] :: [] :: split r) = split r := by
    unfold kept
    simp only [List.filter_cons, bne_self_eq_false, Bool.false_and, Bool.false_eq_true, if_false]
    exact kept_id _ h
  rw [this]
  simp [joinSlash_split]

private theorem segs_rooted_plain (r : Path) (h : ∀ s ∈ split r, s ≠ [] ∧ s ≠ dot ∧ s ≠ dotdot) : segs ('/' :: r) = split r := by
  unfold segs
  rw [split_cons_slash, List.filter_cons]
  simp only [bne_self_eq_false, Bool.false_eq_true, if_false]
  rw [List.filter_eq_self]
  intro s hs; simpa using (h s hs).1

private theorem remaining_placed (var : Variant) (req : Path) (q : List Char) (ep : Endpoint) (pre : Path)
    (hplain : plainPath (targetPath req pre) = true)
    (hb : usesPreserve ep = true → plainBase ep.basePath = true) :
    placed (if usesPreserve ep then ep.basePath else []) (targetPath req pre) (buildTarget var req q ep pre).path = true := by
  obtain ⟨r, htp, hne, hr⟩ := plainPath_shape _ hplain
  have hsegtp : segs (targetPath req pre) = split r := by rw [htp]; exact segs_rooted_plain r hr
  unfold placed
  rw [beq_iff_eq]
  cases hp : usesPreserve ep with
  | true =>
    simp only [if_true]
    obtain ⟨b', hb', hnd⟩ := plainBase_rooted _ (hb hp) (usesPreserve_ne ep hp)
    have hrel : preserveRel var (targetPath req pre) = r := by
      cases var with
      | pinned => simp [preserveRel, htp, trimSlash]
      | fixed => simp only [preserveRel, htp]; rw [clean_plain r hne hr]; simp [trimSlash]
    unfold buildTarget
    simp only [hp, if_true, hrel]
    rw [hb'] at hnd ⊢
    have hdd : dotdot ∉ split r := fun hm => (hr _ hm).2.2 rfl
    rw [(join_under b' r hnd hdd).1, kept_id _ hr, hsegtp]
  | false =>
    simp only [Bool.false_eq_true, if_false]
    have hrooted : rooted (targetPath req pre) = true := by rw [htp]; rfl
    have hpath : (buildTarget var req q ep pre).path = guarded (targetPath req pre) := by
      obtain ⟨⟨cs, hcs⟩, hnd⟩ := guarded_props _ hrooted
      unfold buildTarget
      simp only [hp, Bool.false_eq_true, if_false]
      by_cases hbb : ep.basePath = [] ∨ ep.basePath = ['/']
      · rw [if_pos hbb]
      · rw [if_neg hbb]
        simp only [resolveRef, hcs]
        rw [hcs] at hnd
        exact removeDots_id cs hnd
    rw [hpath]
    have hg : guarded (targetPath req pre) = targetPath req pre := by
      unfold guarded
      split
      · rw [htp, clean_plain r hne hr]; simp
      · rfl
    rw [hg]
    simp [segs, split, splitAux]

/-! ### Side conditions on the regenerated tables -/

/-- The prefix both engines hand to BuildTargetURL in the production wiring does not start with
    '/', so BuildTargetURL's own StripPrefix never fires on an origin-form path: the route prefix
    is stripped exactly once, by the handlers. -/
theorem gen_proxy_prefix_inert :
    Olla.Gen.Urls.proxyPrefixProduction ≠ [] ∧ rooted Olla.Gen.Urls.proxyPrefixProduction = false := by decide

/-- Every provider route prefix derived from the shipped profiles is rooted at
    constants.DefaultOllaProxyPathPrefix and free of dot segments. -/
theorem gen_provider_prefixes_plain :
    ∀ p ∈ Olla.Gen.Urls.providerPrefixes,
      Olla.Gen.Urls.ollaPathPrefix.isPrefixOf p = true ∧ rooted p = true ∧ noDotSegs p = true := by decide

/-- Every default health-check / model-listing path of the shipped profiles satisfies the
    hypothesis of `C16_config_paths_under_base`: non-empty and without dot segments. -/
theorem gen_profile_paths_plain :
    ∀ r ∈ Olla.Gen.Urls.profilePaths, plainRel r.2.1 = true ∧ plainRel r.2.2 = true := by decide

/-! ### The property theorems -/

/-- **Scheme, host and port of the target are the endpoint's** — whatever the request path, query,
    prefix, base path, preserve_path setting or code variant. -/
theorem C16_host_fixed (var : Variant) (req : Path) (q : List Char) (ep : Endpoint) (pre : Path) :
    hostFixed ep (buildTarget var req q ep pre) = true := host_fixed var req q ep pre

/-- **The raw query of the target URL is the client's, verbatim.** -/
theorem C16_query_verbatim (var : Variant) (req : Path) (q : List Char) (ep : Endpoint) (pre : Path) :
    queryVerbatim q (buildTarget var req q ep pre) = true := query_verbatim var req q ep pre

/-- **With the fix (`fixes/C16-preserve-path-containment.patch`): with preserve_path the target path
    lies under the endpoint's base path for ALL request paths** — no dot segment survives and the
    base path's segments are a prefix of the result's. -/
theorem C16_preserve_contained_fixed (req : Path) (q : List Char) (ep : Endpoint) (pre : Path)
    (hp : usesPreserve ep = true) (hb : plainBase ep.basePath = true) :
    underBase ep.basePath (buildTarget .fixed req q ep pre).path = true :=
  preserve_contained .fixed req q ep pre hp hb (Or.inl rfl)

/-- **The code as pinned**: the same under the explicit hypothesis that the remaining request path
    has no ".." segment.

    FULL-STRENGTH STATEMENT, false for the pinned tree (see the witness below):
      `∀ req q ep pre, usesPreserve ep → plainBase ep.basePath →
         underBase ep.basePath (buildTarget .pinned req q ep pre).path` -/
theorem C16_preserve_contained_partial (req : Path) (q : List Char) (ep : Endpoint) (pre : Path)
    (hp : usesPreserve ep = true) (hb : plainBase ep.basePath = true)
    (hnd : noDotDot (targetPath req pre) = true) :
    underBase ep.basePath (buildTarget .pinned req q ep pre).path = true :=
  preserve_contained .pinned req q ep pre hp hb (Or.inr hnd)

private def witnessEp : Endpoint := { scheme := "http", host := "backend:8080", basePath := "/api/v1".toList, preserve := true }

/-- Counterexample on the pinned code: base path /api/v1, preserve_path, request path
    /../../admin/secret (what `POST /olla/proxy/%2e%2e/%2e%2e/admin/secret` becomes after the
    handler's prefix strip) ⇒ target path /admin/secret. -/
theorem C16_preserve_contained_pinned_witness :
    ¬ (∀ (req : Path) (q : List Char) (ep : Endpoint) (pre : Path), usesPreserve ep = true → plainBase ep.basePath = true →
        underBase ep.basePath (buildTarget .pinned req q ep pre).path = true) := by
  intro h
  have := h (stripPrefix "/olla/proxy/../../admin/secret".toList "/olla/proxy/".toList) "x=1".toList witnessEp
    Olla.Gen.Urls.proxyPrefixProduction (by decide) (by decide)
  revert this
  decide

/-- What holds of the tree under check, whichever variant is active: full strength exactly when
    `Olla.Model.Url.active = .fixed`. -/
theorem C16_preserve_contained_active (req : Path) (q : List Char) (ep : Endpoint) (pre : Path)
    (hp : usesPreserve ep = true) (hb : plainBase ep.basePath = true)
    (hyp : active = .fixed ∨ noDotDot (targetPath req pre) = true) :
    underBase ep.basePath (buildTarget active req q ep pre).path = true :=
  preserve_contained active req q ep pre hp hb hyp

/-- **Without preserve_path the target path never climbs above "/"**: for every origin-form request
    path the result has no ".." segment (it is the remaining path itself, or that path cleaned
    against "/" when it spells — or percent-encodes — a dot segment). -/
theorem C16_nonpreserve_rooted (var : Variant) (req : Path) (q : List Char) (ep : Endpoint) (pre : Path)
    (hp : usesPreserve ep = false) (hr : rooted req = true) :
    notAboveRoot (buildTarget var req q ep pre).path = true := nonpreserve_rooted var req q ep pre hp hr

/-- …and it is exactly the guarded remaining path, also when the endpoint has a base path
    (the `ResolveReference` branch replaces the base path and changes nothing else). -/
theorem C16_nonpreserve_path (var : Variant) (req : Path) (q : List Char) (ep : Endpoint) (pre : Path)
    (hp : usesPreserve ep = false) (hr : rooted req = true) :
    (buildTarget var req q ep pre).path = guarded (targetPath req pre) := nonpreserve_path var req q ep pre hp hr

/-- **"Its path is the request's remaining path, placed under the base path when preserve_path is
    set"**: for a plain remaining path (rooted, no empty or dot segments) the target's segments are
    the base path's (preserve) followed by exactly the remaining path's — both variants. -/
theorem C16_remaining_path_placed (var : Variant) (req : Path) (q : List Char) (ep : Endpoint) (pre : Path)
    (hplain : plainPath (targetPath req pre) = true)
    (hb : usesPreserve ep = true → plainBase ep.basePath = true) :
    placed (if usesPreserve ep then ep.basePath else []) (targetPath req pre) (buildTarget var req q ep pre).path = true :=
  remaining_placed var req q ep pre hplain hb

/-- In the production wiring the engines' own prefix strip is inert: for an origin-form path
    `targetPath` is the path the handler left in `r.URL.Path`. -/
theorem C16_production_prefix_inert (req : Path) (hr : rooted req = true) :
    targetPath req Olla.Gen.Urls.proxyPrefixProduction = req := by
  cases req with
  | nil => simp [rooted] at hr
  | cons c cs =>
    simp only [rooted, List.head?_cons, beq_iff_eq, Option.some.injEq] at hr
    subst hr
    have : Olla.Gen.Urls.proxyPrefixProduction.isPrefixOf ('/' :: cs) = false := by
      have h := gen_proxy_prefix_inert
      cases hpp : Olla.Gen.Urls.proxyPrefixProduction with
      | nil => exact absurd hpp h.1
      | cons d ds =>
        rw [hpp] at h
        simp only [rooted, List.head?_cons, beq_eq_false_iff_ne, ne_eq, Option.some.injEq] at h
        simp [List.isPrefixOf, h.2]
    simp [targetPath, stripPrefix, this]

/-- The handlers' strip of a route prefix always leaves an origin-form path. -/
theorem C16_strip_prefix_rooted (req pre : Path) (hr : rooted req = true) : rooted (targetPath req pre) = true :=
  rooted_targetPath req pre hr

/-- **Configured relative health-check / model-listing paths are resolved under the endpoint's base
    path** (hypotheses explicit: the base path is empty or rooted and has no dot segments; the
    configured path is non-empty and has no dot segments). -/
theorem C16_config_paths_under_base (base p : Path) (hb : plainBase base = true) (hp : plainRel p = true) :
    underBase base (resolveURLPath base p) = true := config_under base p hb hp

/-- Instantiated at the regenerated table: every default path the shipped profiles supply resolves
    under whatever (plain) base path an endpoint URL has. -/
theorem C16_shipped_default_paths_under_base (base : Path) (hb : plainBase base = true) :
    ∀ r ∈ Olla.Gen.Urls.profilePaths,
      underBase base (resolveURLPath base r.2.1) = true ∧ underBase base (resolveURLPath base r.2.2) = true := by
  intro r hr
  have := gen_profile_paths_plain r hr
  exact ⟨config_under base _ hb this.1, config_under base _ hb this.2⟩

/-- **The query on the wire** (what the engines send after re-parsing `targetURL.String()`):
    verbatim with the fix (`fixes/C16-query-fragment.patch`) … -/
theorem C16_wire_query_fixed (q : List Char) : wireQuery .fixed q = q := wire_query .fixed q (Or.inl rfl)

/-- … and for the pinned code whenever the query contains no raw '#'.
    FULL-STRENGTH STATEMENT, false for the pinned tree: `∀ q, wireQuery .pinned q = q`. -/
theorem C16_wire_query_partial (q : List Char) (h : '#' ∉ q) : wireQuery .pinned q = q := wire_query .pinned q (Or.inr h)

/-- Counterexample on the pinned code: `?x=1#frag` goes upstream as `?x=1`. -/
theorem C16_wire_query_pinned_witness : ¬ (∀ q : List Char, wireQuery .pinned q = q) := by
  intro h
  have := h "x=1#frag".toList
  revert this
  decide

theorem C16_wire_query_active (q : List Char) (h : activeQuery = .fixed ∨ '#' ∉ q) : wireQuery activeQuery q = q :=
  wire_query activeQuery q h

private theorem strip_written (written rest : Path) : stripPrefix (written ++ '/' :: rest) written = '/' :: rest := by
  unfold stripPrefix
  have h1 : written.isPrefixOf (written ++ '/' :: rest) = true := by
    rw [List.isPrefixOf_iff_prefix]; exact List.prefix_append _ _
  rw [if_pos h1]
  simp

/-- **The handlers hand the engines the request's remaining path** — with the fix
    (`fixes/C16-provider-alias-prefix.patch`) for every route: what follows the prefix as written. -/
theorem C16_route_strip_fixed (written normalised rest : Path) :
    stripPrefix (written ++ '/' :: rest) (handlerStripPrefix .fixed written normalised) = '/' :: rest :=
  strip_written written rest

/-- The code as pinned: only when the prefix as written is the normalised one.
    FULL-STRENGTH STATEMENT, false for the pinned tree:
      `∀ written normalised rest, stripPrefix (written ++ '/' :: rest) (handlerStripPrefix .pinned written normalised) = '/' :: rest` -/
theorem C16_route_strip_partial (written normalised rest : Path) (h : written = normalised) :
    stripPrefix (written ++ '/' :: rest) (handlerStripPrefix .pinned written normalised) = '/' :: rest := by
  subst h; exact strip_written written rest

/-- Counterexample on the pinned code: /olla/lmstudio/v1/models keeps its route prefix. -/
theorem C16_route_strip_pinned_witness :
    stripPrefix ("/olla/lmstudio".toList ++ '/' :: "v1/models".toList) (handlerStripPrefix .pinned "/olla/lmstudio".toList "/olla/lm-studio".toList)
      = "/olla/lmstudio/v1/models".toList := by decide

/-! ### Non-vacuity -/

example : (buildTarget .pinned "/v1/chat/completions".toList "a=1".toList witnessEp Olla.Gen.Urls.proxyPrefixProduction).path
    = "/api/v1/v1/chat/completions".toList := by decide
example : (buildTarget .pinned "/../../admin/secret".toList [] witnessEp Olla.Gen.Urls.proxyPrefixProduction).path = "/admin/secret".toList ∧
    (buildTarget .fixed "/../../admin/secret".toList [] witnessEp Olla.Gen.Urls.proxyPrefixProduction).path = "/api/v1/admin/secret".toList := by decide
example : (buildTarget .pinned "/a/%2e%2e/../b".toList [] { witnessEp with preserve := false } Olla.Gen.Urls.proxyPrefixProduction).path
    = "/a/b".toList := by decide
example : plainBase "/api/v1/".toList = true ∧ plainBase "/api/../v1".toList = false ∧ plainRel "/health".toList = true ∧
    plainPath "/v1/models".toList = true ∧ noDotDot "/a/../b".toList = false := by decide
example : resolveURLPath "/engines/llama.cpp/".toList "/v1/models".toList = "/engines/llama.cpp/v1/models".toList := by decide

/-! ### tie: no process-wide state on the modelled path

The theorems above are about single calls (or the history of one object). They cover every
request of a running process only if a call reaches no state that outlives it besides that
object. `Olla.Gen.State` is re-read from the source on every run: the package-level variables
reachable from each function inside its package that the package changes after initialisation. -/
theorem C16_tie_no_process_wide_state :
    Olla.Spec.State.reachesOnly "common.BuildTargetURL" [] = true ∧
    Olla.Spec.State.reachesOnly "util.ResolveURLPath" [] = true ∧
    Olla.Spec.State.reachesOnly "util.StripPrefix" [] = true := by decide

/-- The glue in front of the handlers: the middleware chain mounted on the proxy routes (rate limit, size limit,
    request and access logging) hands the request on as it came — every line of every client header, the path
    and the raw query (a probe through the real chain, regenerated on every run: a tie, not a theorem). -/
theorem C16_tie_middleware_leaves_request_alone : Olla.Gen.Security.chainRequestChanges = [] := by decide

end Olla.Props.C16
