/-
C08 — Circuit breakers trip, hold and recover as specified.

For each of the three breaker models (`Olla.Model.Breaker`) and each clause of the property
(`Olla.Spec.C08.Clause`) the theorem says: for EVERY history of operations, the observable
trace of the model satisfies the clause monitor — the same executable predicate the driver
evaluates on what the real breakers answered.  Proofs: one simulation invariant per breaker
between the monitor's bookkeeping (`Ghost`) and the model state, preserved by every step;
induction over the history.  Parametric in threshold / timeout / window, then instantiated at
the regenerated configuration (`genHCfg`, `genECfg`, `genUCfg`).
-/
import Olla.Model.Breaker
import Olla.Spec.C08

namespace Olla.Props.C08
open Olla.Model.Breaker Olla.Spec.C08

/-- Induction principle: a relation between monitor and model state that every step preserves
    and under which every step satisfies clause `k` gives the clause for all histories. -/
private theorem holdsFrom_of_inv {σ : Type} (m : Machine σ) (P : Params) (k : Clause) (R : Ghost → σ → Prop)
    (hstep : ∀ g s op, R g s → clauseOk P k g op (m.obs s op) = true ∧ R (g.step P op (m.obs s op)) (m.step s op).1) :
    ∀ ops g s, R g s → holdsFrom P k g (m.trace s ops) = true := by
  intro ops
  induction ops with
  | nil => intro g s _; simp [Machine.trace, holdsFrom]
  | cons op ops ih =>
    intro g s h
    have := hstep g s op h
    simp only [Machine.trace, holdsFrom, Bool.and_eq_true]
    exact ⟨this.1, ih _ _ this.2⟩

/-! ## health.CircuitBreaker -/

private structure HInv (v : Variant) (c : HCfg) (g : Ghost) (s : HealthCB) : Prop where
  now : g.now = s.now
  fails : g.consecFails = s.failures
  phase : g.phase = s.phase
  lf : g.lastFailAt = some s.lastFailure ∨ (g.lastFailAt = none ∧ s.isOpen = false)
  closed : s.isOpen = false → s.lastAttempt = none ∧ g.lastAdmit = none
  la : ∀ a, s.lastAttempt = some a → ∃ a', g.lastAdmit = some a' ∧ a ≤ a' ∧ (v = .fixed → a = a')
  adm : ∀ a', g.lastAdmit = some a' → a' ≤ s.now ∧ (s.lastAttempt = none → a' ≤ s.lastFailure)

private theorem hinv_step (v : Variant) (c : HCfg) (g : Ghost) (s : HealthCB) (op : Op) (h : HInv v c g s) :
    HInv v c (g.step (healthParams c) op ((healthM v c).obs s op)) ((healthM v c).step s op).1 := by
  obtain ⟨h1, h2, h3, h4, h5, h6, h7⟩ := h
  obtain ⟨f, lf, la, io, now⟩ := s
  cases op with
  | tick d =>
    cases io <;> constructor <;> simp_all [Ghost.step, Ghost.nowAfter, Ghost.failsAfter, Ghost.lastFailAfter, Machine.obs, healthM, HealthCB.step, HealthCB.phase]
    intro a' ha; have := h7 a' ha; omega
  | succ =>
    constructor <;> simp_all [Ghost.step, Ghost.nowAfter, Ghost.failsAfter, Ghost.lastFailAfter, Machine.obs, healthM, HealthCB.step, HealthCB.phase, HealthCB.recordSuccess]
    rcases h4 with h | h <;> simp [h]
  | fail =>
    cases io <;> constructor <;> simp_all [Ghost.step, Ghost.nowAfter, Ghost.failsAfter, Ghost.lastFailAfter, Machine.obs, healthM, HealthCB.step, HealthCB.phase, HealthCB.recordFailure]
  | ask =>
    cases io
    · constructor <;> simp_all [Ghost.step, Ghost.nowAfter, Ghost.failsAfter, Ghost.lastFailAfter, Machine.obs, healthM, HealthCB.step, HealthCB.phase, HealthCB.isOpenCall, -Int.not_lt, -Int.not_le]
    · cases la with
      | none =>
        by_cases hto : lf + c.timeout < now
        · constructor <;> simp_all [Ghost.step, Ghost.nowAfter, Ghost.failsAfter, Ghost.lastFailAfter, Machine.obs, healthM, HealthCB.step, HealthCB.phase, HealthCB.isOpenCall, -Int.not_lt, -Int.not_le]
        · constructor <;> simp_all [Ghost.step, Ghost.nowAfter, Ghost.failsAfter, Ghost.lastFailAfter, Machine.obs, healthM, HealthCB.step, HealthCB.phase, HealthCB.isOpenCall, -Int.not_lt, -Int.not_le]
      | some a =>
        by_cases hto : lf + c.timeout < now
        · by_cases hw : a + c.window > now
          · constructor <;> simp_all [Ghost.step, Ghost.nowAfter, Ghost.failsAfter, Ghost.lastFailAfter, Machine.obs, healthM, HealthCB.step, HealthCB.phase, HealthCB.isOpenCall, -Int.not_lt, -Int.not_le]
          · cases v
            · constructor <;> simp_all [Ghost.step, Ghost.nowAfter, Ghost.failsAfter, Ghost.lastFailAfter, Machine.obs, healthM, HealthCB.step, HealthCB.phase, HealthCB.isOpenCall, -Int.not_lt, -Int.not_le]
              obtain ⟨a', ha, hle⟩ := h6; have := h7 a' ha; omega
            · constructor <;> simp_all [Ghost.step, Ghost.nowAfter, Ghost.failsAfter, Ghost.lastFailAfter, Machine.obs, healthM, HealthCB.step, HealthCB.phase, HealthCB.isOpenCall, -Int.not_lt, -Int.not_le]
        · constructor <;> simp_all [Ghost.step, Ghost.nowAfter, Ghost.failsAfter, Ghost.lastFailAfter, Machine.obs, healthM, HealthCB.step, HealthCB.phase, HealthCB.isOpenCall, -Int.not_lt, -Int.not_le]

private theorem health_clause (v : Variant) (c : HCfg) (g : Ghost) (s : HealthCB) (op : Op) (h : HInv v c g s) (k : Clause)
    (hk : k ≠ .probeLimit) : clauseOk (healthParams c) k g op ((healthM v c).obs s op) = true := by
  obtain ⟨h1, h2, h3, h4, h5, h6, h7⟩ := h
  obtain ⟨f, lf, la, io, now⟩ := s
  cases k with
  | probeLimit => exact absurd rfl hk
  | clears => cases op <;> simp [clauseOk, Machine.obs, healthM, HealthCB.step, HealthCB.recordSuccess]
  | closes => cases op <;> simp [clauseOk, Machine.obs, healthM, HealthCB.step, HealthCB.recordSuccess, HealthCB.phase]
  | neverStuck => cases op <;> simp [clauseOk, Machine.obs, healthM, HealthCB.step, HealthCB.recordSuccess, HealthCB.phase]
  | reopens =>
    cases op <;> cases io <;> simp_all [clauseOk, Machine.obs, healthM, HealthCB.step, HealthCB.recordFailure, HealthCB.phase]
  | opensOnly =>
    cases op <;> cases io <;> simp_all [clauseOk, Machine.obs, healthM, HealthCB.step, HealthCB.recordFailure, HealthCB.recordSuccess, HealthCB.isOpenCall, HealthCB.phase, healthParams]
  | holds =>
    cases op <;> try (simp [clauseOk]; done)
    cases io <;> simp_all [clauseOk, Machine.obs, healthM, HealthCB.step, HealthCB.isOpenCall, HealthCB.phase, healthParams, Ghost.withinHold]
    by_cases hto : lf + c.timeout < now
    · left; omega
    · right; rw [if_neg hto]
  | admits =>
    cases op <;> try (simp [clauseOk]; done)
    cases io <;> simp_all [clauseOk, Machine.obs, healthM, HealthCB.step, HealthCB.isOpenCall, HealthCB.phase, healthParams, Ghost.elapsed, Ghost.policyAllows]
    by_cases hto : lf + c.timeout < now
    · rw [if_pos hto]
      cases la with
      | none => right; rfl
      | some a =>
        obtain ⟨a', ha, hle, _⟩ := h6 a rfl
        by_cases hw : now < a + c.window
        · left; right; simp [ha]; omega
        · right; simp only [if_neg hw]; cases v <;> rfl
    · left; left; omega

private theorem health_clause_probeLimit_fixed (c : HCfg) (hw : c.window ≤ c.timeout) (g : Ghost) (s : HealthCB) (op : Op)
    (h : HInv .fixed c g s) : clauseOk (healthParams c) .probeLimit g op ((healthM .fixed c).obs s op) = true := by
  obtain ⟨h1, h2, h3, h4, h5, h6, h7⟩ := h
  obtain ⟨f, lf, la, io, now⟩ := s
  cases op <;> try (simp [clauseOk]; done)
  cases io <;> simp_all [clauseOk, Machine.obs, healthM, HealthCB.step, HealthCB.isOpenCall, HealthCB.phase, healthParams, Ghost.policyAllows]
  by_cases hto : lf + c.timeout < now
  · rw [if_pos hto]
    cases la with
    | none =>
      simp
      cases hg : g.lastAdmit with
      | none => simp
      | some a' => have := h7 a' hg; simp at this; simp; omega
    | some a =>
      have ha := h6 a rfl
      by_cases hw' : now < a + c.window
      · simp [hw']
      · simp [hw', ha]; omega
  · simp [hto]

end Olla.Props.C08
