import Olla.Model.Breaker
import Olla.Spec.C08

namespace Olla.Props.C08
open Olla.Model.Breaker Olla.Spec.C08

theorem placeholder : True := trivial

end Olla.Props.C08
