/-
C08 — Circuit breakers trip, hold and recover as specified.

For each of the three breaker models (`Olla.Model.Breaker`) and each clause of the property
(`Olla.Spec.C08.Clause`) the theorem says: for EVERY history of operations, the observable
trace of the model satisfies the clause monitor — the same executable predicate the driver
evaluates on what the real breakers answered.  Proofs: one simulation invariant per breaker
between the monitor's bookkeeping (`Ghost`) and the model state, preserved by every step;
induction over the history.  Parametric in threshold / timeout / window, then instantiated at
the regenerated configuration (`genHCfg`, `genECfg`, `genUCfg`).
-/
import Olla.Model.Breaker
import Olla.Spec.C08

set_option linter.unusedSimpArgs false
set_option linter.unnecessarySimpa false

namespace Olla.Props.C08
open Olla.Model.Breaker Olla.Spec.C08

/-- Induction principle: a relation between monitor and model state that every step preserves
    and under which every step satisfies clause `k` gives the clause for all histories. -/
private theorem holdsFrom_of_inv {σ : Type} (m : Machine σ) (P : Params) (k : Clause) (R : Ghost → σ → Prop)
    (hstep : ∀ g s op, R g s → clauseOk P k g op (m.obs s op) = true ∧ R (g.step P op (m.obs s op)) (m.step s op).1) :
    ∀ ops g s, R g s → holdsFrom P k g (m.trace s ops) = true := by
  intro ops
  induction ops with
  | nil => intro g s _; simp [Machine.trace, holdsFrom]
  | cons op ops ih =>
    intro g s h
    have := hstep g s op h
    simp only [Machine.trace, holdsFrom, Bool.and_eq_true]
    exact ⟨this.1, ih _ _ this.2⟩

/-! ## health.CircuitBreaker -/

private structure HInv (v : Variant) (c : HCfg) (g : Ghost) (s : HealthCB) : Prop where
  now : g.now = s.now
  fails : g.consecFails = s.failures
  phase : g.phase = s.phase
  lf : g.lastFailAt = some s.lastFailure ∨ (g.lastFailAt = none ∧ s.isOpen = false)
  closed : s.isOpen = false → s.lastAttempt = none ∧ g.lastAdmit = none
  la : ∀ a, s.lastAttempt = some a → ∃ a', g.lastAdmit = some a' ∧ a ≤ a' ∧ (v = .fixed → a = a')
  adm : ∀ a', g.lastAdmit = some a' → a' ≤ s.now ∧ (s.lastAttempt = none → a' ≤ s.lastFailure)

private theorem hinv_init (v : Variant) (c : HCfg) (t0 : Int) : HInv v c (Ghost.init t0) (HealthCB.init t0) := by
  constructor <;> simp [Ghost.init, HealthCB.init, HealthCB.phase]

private theorem hinv_step (v : Variant) (c : HCfg) (g : Ghost) (s : HealthCB) (op : Op) (h : HInv v c g s) :
    HInv v c (g.step (healthParams c) op ((healthM v c).obs s op)) ((healthM v c).step s op).1 := by
  obtain ⟨h1, h2, h3, h4, h5, h6, h7⟩ := h
  obtain ⟨f, lf, la, io, now⟩ := s
  cases op with
  | tick d =>
    cases io <;> constructor <;> simp_all [Ghost.step, Ghost.nowAfter, Ghost.failsAfter, Ghost.lastFailAfter, Machine.obs, healthM, HealthCB.step, HealthCB.phase]
    intro a' ha; have := h7 a' ha; omega
  | succ =>
    constructor <;> simp_all [Ghost.step, Ghost.nowAfter, Ghost.failsAfter, Ghost.lastFailAfter, Machine.obs, healthM, HealthCB.step, HealthCB.phase, HealthCB.recordSuccess]
    rcases h4 with h | h <;> simp [h]
  | fail =>
    cases io <;> constructor <;> simp_all [Ghost.step, Ghost.nowAfter, Ghost.failsAfter, Ghost.lastFailAfter, Machine.obs, healthM, HealthCB.step, HealthCB.phase, HealthCB.recordFailure]
  | ask =>
    cases io
    · constructor <;> simp_all [Ghost.step, Ghost.nowAfter, Ghost.failsAfter, Ghost.lastFailAfter, Machine.obs, healthM, HealthCB.step, HealthCB.phase, HealthCB.isOpenCall, -Int.not_lt, -Int.not_le]
    · cases la with
      | none =>
        by_cases hto : lf + c.timeout < now
        · constructor <;> simp_all [Ghost.step, Ghost.nowAfter, Ghost.failsAfter, Ghost.lastFailAfter, Machine.obs, healthM, HealthCB.step, HealthCB.phase, HealthCB.isOpenCall, -Int.not_lt, -Int.not_le]
        · constructor <;> simp_all [Ghost.step, Ghost.nowAfter, Ghost.failsAfter, Ghost.lastFailAfter, Machine.obs, healthM, HealthCB.step, HealthCB.phase, HealthCB.isOpenCall, -Int.not_lt, -Int.not_le]
      | some a =>
        by_cases hto : lf + c.timeout < now
        · by_cases hw : a + c.window > now
          · constructor <;> simp_all [Ghost.step, Ghost.nowAfter, Ghost.failsAfter, Ghost.lastFailAfter, Machine.obs, healthM, HealthCB.step, HealthCB.phase, HealthCB.isOpenCall, -Int.not_lt, -Int.not_le]
          · cases v
            · constructor <;> simp_all [Ghost.step, Ghost.nowAfter, Ghost.failsAfter, Ghost.lastFailAfter, Machine.obs, healthM, HealthCB.step, HealthCB.phase, HealthCB.isOpenCall, -Int.not_lt, -Int.not_le]
              obtain ⟨a', ha, hle⟩ := h6; have := h7 a' ha; omega
            · constructor <;> simp_all [Ghost.step, Ghost.nowAfter, Ghost.failsAfter, Ghost.lastFailAfter, Machine.obs, healthM, HealthCB.step, HealthCB.phase, HealthCB.isOpenCall, -Int.not_lt, -Int.not_le]
        · constructor <;> simp_all [Ghost.step, Ghost.nowAfter, Ghost.failsAfter, Ghost.lastFailAfter, Machine.obs, healthM, HealthCB.step, HealthCB.phase, HealthCB.isOpenCall, -Int.not_lt, -Int.not_le]

private theorem health_clause (v : Variant) (c : HCfg) (g : Ghost) (s : HealthCB) (op : Op) (h : HInv v c g s) (k : Clause)
    (hk : k ≠ .probeLimit) : clauseOk (healthParams c) k g op ((healthM v c).obs s op) = true := by
  obtain ⟨h1, h2, h3, h4, h5, h6, h7⟩ := h
  obtain ⟨f, lf, la, io, now⟩ := s
  cases k with
  | probeLimit => exact absurd rfl hk
  | clears => cases op <;> simp [clauseOk, Machine.obs, healthM, HealthCB.step, HealthCB.recordSuccess]
  | closes => cases op <;> simp [clauseOk, Machine.obs, healthM, HealthCB.step, HealthCB.recordSuccess, HealthCB.phase]
  | neverStuck => cases op <;> simp [clauseOk, Machine.obs, healthM, HealthCB.step, HealthCB.recordSuccess, HealthCB.phase]
  | reopens =>
    cases op <;> cases io <;> simp_all [clauseOk, Machine.obs, healthM, HealthCB.step, HealthCB.recordFailure, HealthCB.phase]
  | opensOnly =>
    cases op <;> cases io <;> simp_all [clauseOk, Machine.obs, healthM, HealthCB.step, HealthCB.recordFailure, HealthCB.recordSuccess, HealthCB.isOpenCall, HealthCB.phase, healthParams]
  | holds =>
    cases op <;> try (simp [clauseOk]; done)
    cases io <;> simp_all [clauseOk, Machine.obs, healthM, HealthCB.step, HealthCB.isOpenCall, HealthCB.phase, healthParams, Ghost.withinHold]
    by_cases hto : lf + c.timeout < now
    · left; omega
    · right; rw [if_neg hto]
  | admits =>
    cases op <;> try (simp [clauseOk]; done)
    cases io <;> simp_all [clauseOk, Machine.obs, healthM, HealthCB.step, HealthCB.isOpenCall, HealthCB.phase, healthParams, Ghost.elapsed, Ghost.policyAllows]
    by_cases hto : lf + c.timeout < now
    · rw [if_pos hto]
      cases la with
      | none => right; rfl
      | some a =>
        obtain ⟨a', ha, hle, _⟩ := h6 a rfl
        by_cases hw : now < a + c.window
        · left; right; simp [ha]; omega
        · right; simp only [if_neg hw]; cases v <;> rfl
    · left; left; omega

private theorem health_clause_probeLimit_fixed (c : HCfg) (hw : c.window ≤ c.timeout) (g : Ghost) (s : HealthCB) (op : Op)
    (h : HInv .fixed c g s) : clauseOk (healthParams c) .probeLimit g op ((healthM .fixed c).obs s op) = true := by
  obtain ⟨h1, h2, h3, h4, h5, h6, h7⟩ := h
  obtain ⟨f, lf, la, io, now⟩ := s
  cases op <;> try (simp [clauseOk]; done)
  cases io <;> simp_all [clauseOk, Machine.obs, healthM, HealthCB.step, HealthCB.isOpenCall, HealthCB.phase, healthParams, Ghost.policyAllows]
  by_cases hto : lf + c.timeout < now
  · rw [if_pos hto]
    cases la with
    | none =>
      simp
      cases hg : g.lastAdmit with
      | none => simp
      | some a' => have := h7 a' hg; simp at this; simp; omega
    | some a =>
      have ha := h6 a rfl
      by_cases hw' : now < a + c.window
      · simp [hw']
      · simp [hw', ha]; omega
  · simp [hto]

/-! ## olla engine breaker -/

private structure EInv (c : ECfg) (g : Ghost) (s : EngineCB) : Prop where
  now : g.now = s.now
  fails : g.consecFails = s.failures
  phase : g.phase = s.state
  lf : g.lastFailAt = some s.lastFailure ∨ (g.lastFailAt = none ∧ s.state = .closed)
  thr : s.state ≠ .closed → c.threshold ≤ s.failures

private theorem einv_init (c : ECfg) (t0 : Int) : EInv c (Ghost.init t0) (EngineCB.init t0) := by
  constructor <;> simp [Ghost.init, EngineCB.init]

private theorem einv_step (c : ECfg) (g : Ghost) (s : EngineCB) (op : Op) (h : EInv c g s) :
    EInv c (g.step (engineParams c) op ((engineM c).obs s op)) ((engineM c).step s op).1 := by
  obtain ⟨h1, h2, h3, h4, h5⟩ := h
  obtain ⟨f, lf, st, now⟩ := s
  cases op with
  | tick d =>
    constructor <;> simp_all [Ghost.step, Ghost.nowAfter, Ghost.failsAfter, Ghost.lastFailAfter, Machine.obs, engineM, EngineCB.step]
  | succ =>
    constructor <;> simp_all [Ghost.step, Ghost.nowAfter, Ghost.failsAfter, Ghost.lastFailAfter, Machine.obs, engineM, EngineCB.step, EngineCB.recordSuccess]
    rcases h4 with h | h <;> simp [h]
  | fail =>
    by_cases ht : f + 1 ≥ c.threshold
    · constructor <;> simp_all [Ghost.step, Ghost.nowAfter, Ghost.failsAfter, Ghost.lastFailAfter, Machine.obs, engineM, EngineCB.step, EngineCB.recordFailure]
    · constructor <;> simp_all [Ghost.step, Ghost.nowAfter, Ghost.failsAfter, Ghost.lastFailAfter, Machine.obs, engineM, EngineCB.step, EngineCB.recordFailure, -Nat.not_le]
      all_goals (by_cases hc : st = Phase.closed; exact hc; have := h5 hc; omega)
  | ask =>
    cases st
    · constructor <;> simp_all [Ghost.step, Ghost.nowAfter, Ghost.failsAfter, Ghost.lastFailAfter, Machine.obs, engineM, EngineCB.step, EngineCB.isOpenCall]
    · by_cases hto : now - lf > c.timeout
      · constructor <;> simp_all [Ghost.step, Ghost.nowAfter, Ghost.failsAfter, Ghost.lastFailAfter, Machine.obs, engineM, EngineCB.step, EngineCB.isOpenCall, -Int.not_lt, -Int.not_le]
      · constructor <;> simp_all [Ghost.step, Ghost.nowAfter, Ghost.failsAfter, Ghost.lastFailAfter, Machine.obs, engineM, EngineCB.step, EngineCB.isOpenCall, -Int.not_lt, -Int.not_le]
    · constructor <;> simp_all [Ghost.step, Ghost.nowAfter, Ghost.failsAfter, Ghost.lastFailAfter, Machine.obs, engineM, EngineCB.step, EngineCB.isOpenCall]

private theorem engine_clause (c : ECfg) (g : Ghost) (s : EngineCB) (op : Op) (h : EInv c g s) (k : Clause) :
    clauseOk (engineParams c) k g op ((engineM c).obs s op) = true := by
  obtain ⟨h1, h2, h3, h4, h5⟩ := h
  obtain ⟨f, lf, st, now⟩ := s
  cases k with
  | probeLimit => cases op <;> simp [clauseOk, engineParams, Ghost.policyAllows]
  | clears => cases op <;> simp [clauseOk, Machine.obs, engineM, EngineCB.step, EngineCB.recordSuccess]
  | closes => cases op <;> simp [clauseOk, Machine.obs, engineM, EngineCB.step, EngineCB.recordSuccess]
  | neverStuck => cases op <;> simp [clauseOk, Machine.obs, engineM, EngineCB.step, EngineCB.recordSuccess]
  | reopens =>
    cases op <;> try (simp [clauseOk]; done)
    cases st <;> simp_all [clauseOk, Machine.obs, engineM, EngineCB.step, EngineCB.recordFailure]
    all_goals omega
  | opensOnly =>
    cases op <;> cases st <;> simp_all [clauseOk, Machine.obs, engineM, EngineCB.step, EngineCB.recordFailure, EngineCB.recordSuccess, EngineCB.isOpenCall, engineParams]
  | holds =>
    cases op <;> try (simp [clauseOk]; done)
    cases st <;> simp_all [clauseOk, Machine.obs, engineM, EngineCB.step, EngineCB.isOpenCall, engineParams, Ghost.withinHold]
    by_cases hto : c.timeout < now - lf
    · left; exact hto
    · right; rw [if_neg hto]
  | admits =>
    cases op <;> try (simp [clauseOk]; done)
    cases st <;> simp_all [clauseOk, Machine.obs, engineM, EngineCB.step, EngineCB.isOpenCall, engineParams, Ghost.elapsed, Ghost.policyAllows]
    done

/-! ## unifier.CircuitBreaker -/

private structure UInv (c : UCfg) (g : Ghost) (s : UnifierCB) : Prop where
  now : g.now = s.now
  phase : g.phase = s.state
  fails : s.state = .closed → g.consecFails = s.failures
  lf : g.lastFailAt = some s.lastFailure ∨ (g.lastFailAt = none ∧ s.state = .closed)
  lfnow : s.state ≠ .closed → s.lastFailure ≤ s.now
  opened : s.state = .opened → g.admitted = 0 ∧ s.halfOpen = 0 ∧ g.succs = 0
  half : s.state = .halfOpen → g.admitted = min s.halfOpen c.halfOpenRequests ∧ g.succs ≤ s.successes ∧ s.failures = 0
  rec1 : g.recov = 1 → s.state = .opened → s.now - s.lastFailure > c.openDuration
  rec2 : g.recov ≥ 2 → s.state ≠ .opened ∧ (s.state = .halfOpen → s.successes + 2 ≥ g.recov)

private theorem uinv_init (c : UCfg) (t0 : Int) : UInv c (Ghost.init t0) (UnifierCB.init t0) := by
  constructor <;> simp [Ghost.init, UnifierCB.init]

macro "fin" : tactic => `(tactic| first
  | omega
  | (intros; omega)
  | (split <;> first | omega | (intros; omega) | (split <;> first | omega | (intros; omega)))
  | (intros; split <;> first | omega | (split <;> omega)))

private theorem uinv_step (v : Variant) (c : UCfg) (g : Ghost) (s : UnifierCB) (op : Op) (h : UInv c g s) :
    UInv c (g.step (unifierParams c) op ((unifierM v c).obs s op)) ((unifierM v c).step s op).1 := by
  obtain ⟨h1, h2, h3, h4, h5, h6, h7, h8, h9⟩ := h
  obtain ⟨st, f, su, ho, lf, now⟩ := s
  cases op with
  | tick d =>
    cases st <;> constructor <;> simp_all [Ghost.step, Ghost.nowAfter, Ghost.failsAfter, Ghost.lastFailAfter, Ghost.admittedAfter, Ghost.succsAfter, Ghost.recovAfter, Machine.obs, unifierM, UnifierCB.step, unifierParams]
    all_goals fin
  | fail =>
    cases st
    · by_cases ht : f + 1 ≥ c.failureThreshold
      · constructor <;> simp_all [Ghost.step, Ghost.nowAfter, Ghost.failsAfter, Ghost.lastFailAfter, Ghost.admittedAfter, Ghost.succsAfter, Ghost.recovAfter, Machine.obs, unifierM, UnifierCB.step, UnifierCB.recordFailure, UnifierCB.toOpen, unifierParams]
      · constructor <;> simp_all [Ghost.step, Ghost.nowAfter, Ghost.failsAfter, Ghost.lastFailAfter, Ghost.admittedAfter, Ghost.succsAfter, Ghost.recovAfter, Machine.obs, unifierM, UnifierCB.step, UnifierCB.recordFailure, UnifierCB.toOpen, unifierParams, -Nat.not_le]
    · constructor <;> simp_all [Ghost.step, Ghost.nowAfter, Ghost.failsAfter, Ghost.lastFailAfter, Ghost.admittedAfter, Ghost.succsAfter, Ghost.recovAfter, Machine.obs, unifierM, UnifierCB.step, UnifierCB.recordFailure, UnifierCB.toOpen, unifierParams]
    · constructor <;> simp_all [Ghost.step, Ghost.nowAfter, Ghost.failsAfter, Ghost.lastFailAfter, Ghost.admittedAfter, Ghost.succsAfter, Ghost.recovAfter, Machine.obs, unifierM, UnifierCB.step, UnifierCB.recordFailure, UnifierCB.toOpen, unifierParams]
  | succ =>
    cases st
    · constructor <;> simp_all [Ghost.step, Ghost.nowAfter, Ghost.failsAfter, Ghost.lastFailAfter, Ghost.admittedAfter, Ghost.succsAfter, Ghost.recovAfter, Machine.obs, unifierM, UnifierCB.step, unifierParams, UnifierCB.recordSuccess]
      all_goals (try fin)
    · cases v <;> constructor <;> simp_all [Ghost.step, Ghost.nowAfter, Ghost.failsAfter, Ghost.lastFailAfter, Ghost.admittedAfter, Ghost.succsAfter, Ghost.recovAfter, Machine.obs, unifierM, UnifierCB.step, unifierParams, UnifierCB.recordSuccess]
      all_goals (try fin)
    · by_cases ht : su + 1 ≥ c.successThreshold
      · constructor <;> simp_all [Ghost.step, Ghost.nowAfter, Ghost.failsAfter, Ghost.lastFailAfter, Ghost.admittedAfter, Ghost.succsAfter, Ghost.recovAfter, Machine.obs, unifierM, UnifierCB.step, unifierParams, UnifierCB.recordSuccess, UnifierCB.toClosed]
        all_goals (try fin)
      · constructor <;> simp_all [Ghost.step, Ghost.nowAfter, Ghost.failsAfter, Ghost.lastFailAfter, Ghost.admittedAfter, Ghost.succsAfter, Ghost.recovAfter, Machine.obs, unifierM, UnifierCB.step, unifierParams, UnifierCB.recordSuccess, UnifierCB.toClosed, -Nat.not_le]
        all_goals (try fin)
  | ask =>
    cases st
    · constructor <;> simp_all [Ghost.step, Ghost.nowAfter, Ghost.failsAfter, Ghost.lastFailAfter, Ghost.admittedAfter, Ghost.succsAfter, Ghost.recovAfter, Machine.obs, unifierM, UnifierCB.step, unifierParams, UnifierCB.allow]
      all_goals (try fin)
    · by_cases hto : now - lf > c.openDuration
      · constructor <;> simp_all [Ghost.step, Ghost.nowAfter, Ghost.failsAfter, Ghost.lastFailAfter, Ghost.admittedAfter, Ghost.succsAfter, Ghost.recovAfter, Machine.obs, unifierM, UnifierCB.step, unifierParams, UnifierCB.allow, UnifierCB.allowHalfOpen, UnifierCB.toHalfOpen, -Int.not_lt, -Int.not_le]
        all_goals (try fin)
      · constructor <;> simp_all [Ghost.step, Ghost.nowAfter, Ghost.failsAfter, Ghost.lastFailAfter, Ghost.admittedAfter, Ghost.succsAfter, Ghost.recovAfter, Machine.obs, unifierM, UnifierCB.step, unifierParams, UnifierCB.allow, UnifierCB.allowHalfOpen, UnifierCB.toHalfOpen, -Int.not_lt, -Int.not_le]
        all_goals (try fin)
    · constructor <;> simp_all [Ghost.step, Ghost.nowAfter, Ghost.failsAfter, Ghost.lastFailAfter, Ghost.admittedAfter, Ghost.succsAfter, Ghost.recovAfter, Machine.obs, unifierM, UnifierCB.step, unifierParams, UnifierCB.allow, UnifierCB.allowHalfOpen]
      all_goals (try fin)

private theorem unifier_clause (v : Variant) (c : UCfg) (g : Ghost) (s : UnifierCB) (op : Op) (h : UInv c g s) (k : Clause)
    (hk : k ≠ .clears ∨ v = .fixed) : clauseOk (unifierParams c) k g op ((unifierM v c).obs s op) = true := by
  obtain ⟨h1, h2, h3, h4, h5, h6, h7, h8, h9⟩ := h
  obtain ⟨st, f, su, ho, lf, now⟩ := s
  cases k with
  | clears =>
    have hv : v = .fixed := by rcases hk with h | h; exact absurd rfl h; exact h
    subst hv
    cases op <;> try (simp [clauseOk]; done)
    cases st <;> simp_all [clauseOk, Machine.obs, unifierM, UnifierCB.step, UnifierCB.recordSuccess, UnifierCB.toClosed]
    all_goals (first | fin | (split <;> simp_all <;> omega) | (split <;> simp_all))
  | probeLimit =>
    cases op <;> try (simp [clauseOk]; done)
    cases st <;> simp_all [clauseOk, Machine.obs, unifierM, UnifierCB.step, UnifierCB.allow, UnifierCB.allowHalfOpen, UnifierCB.toHalfOpen, unifierParams, Ghost.policyAllows]
    all_goals (first | fin | (split <;> simp_all <;> omega) | (split <;> simp_all))
  | closes =>
    cases op <;> try (simp [clauseOk]; done)
    cases st <;> simp_all [clauseOk, Machine.obs, unifierM, UnifierCB.step, UnifierCB.recordSuccess, UnifierCB.toClosed, unifierParams]
    all_goals (first | fin | (split <;> simp_all <;> omega) | (split <;> simp_all))
  | neverStuck =>
    cases op <;> try (simp [clauseOk]; done)
    cases st <;> simp_all [clauseOk, Machine.obs, unifierM, UnifierCB.step, UnifierCB.recordSuccess, UnifierCB.toClosed, unifierParams]
    all_goals (first | fin | (split <;> simp_all <;> omega) | (split <;> simp_all))
  | reopens =>
    cases op <;> try (simp [clauseOk]; done)
    cases st <;> simp_all [clauseOk, Machine.obs, unifierM, UnifierCB.step, UnifierCB.recordFailure, UnifierCB.toOpen]
    all_goals (first | fin | (split <;> simp_all <;> omega) | (split <;> simp_all))
  | opensOnly =>
    cases op <;> cases st <;> simp_all [clauseOk, Machine.obs, unifierM, UnifierCB.step, UnifierCB.recordFailure, UnifierCB.recordSuccess, UnifierCB.allow, UnifierCB.allowHalfOpen, UnifierCB.toOpen, UnifierCB.toClosed, UnifierCB.toHalfOpen, unifierParams]
    all_goals (first | fin | (split <;> simp_all <;> omega) | (split <;> simp_all))
  | holds =>
    cases op <;> try (simp [clauseOk]; done)
    cases st <;> simp_all [clauseOk, Machine.obs, unifierM, UnifierCB.step, UnifierCB.allow, unifierParams, Ghost.withinHold]
    all_goals (first | fin | (split <;> simp_all <;> omega) | (split <;> simp_all))
  | admits =>
    cases op <;> try (simp [clauseOk]; done)
    cases st <;> simp_all [clauseOk, Machine.obs, unifierM, UnifierCB.step, UnifierCB.allow, UnifierCB.allowHalfOpen, UnifierCB.toHalfOpen, unifierParams, Ghost.elapsed, Ghost.policyAllows]
    all_goals (first | fin | (split <;> simp_all <;> omega) | (split <;> simp_all))

/-! ## half-open races (interleavings of atomic micro-steps) -/

/-! pinned unifier: shared-state-only invariant -/
private def UBoundInv (n : Nat) (sh : UShared) : Prop :=
  sh.admitted ≤ n * sh.resets + min sh.halfOpen n ∧ sh.state ≠ .closed

private theorem uMicro_pinned_bound (n i : Nat) (sh : UShared) (pc : UPc) (h : UBoundInv n sh) :
    UBoundInv n (uMicro .pinned n i sh pc).1 := by
  obtain ⟨st, ho, ow, rs, ad⟩ := sh
  obtain ⟨h, hc⟩ := h
  simp only at h hc
  cases pc <;> cases st <;> cases ow <;> simp_all [uMicro, UBoundInv, Nat.mul_succ] <;>
    (try (generalize n * rs = x at *; first | omega | (split <;> omega)))

private theorem uRace_pinned_bound (n : Nat) : ∀ (sched : List Nat) (sh : UShared) (ts : List UPc), UBoundInv n sh →
    UBoundInv n (uRace .pinned n (sh, ts) sched).1 := by
  intro sched
  induction sched with
  | nil => intro sh ts h; simpa [uRace] using h
  | cons i rest ih =>
    intro sh ts h
    simp only [uRace]
    cases hti : ts[i]? with
    | none => simpa using ih sh ts h
    | some pc => simpa using ih _ _ (uMicro_pinned_bound n i sh pc h)

/-- Pinned code, any number of callers, any interleaving: the callers let through are bounded only by
    `HalfOpenRequests × (1 + number of times the counter was reset)` — every caller that loaded
    `Open` resets the counter again. -/
theorem unifier_half_open_race_pinned_bound (n m : Nat) (sched : List Nat) :
    let r := uRace .pinned n (uRaceInit m) sched
    r.1.admitted ≤ n * (r.1.resets + 1) := by
  have h := uRace_pinned_bound n sched (uRaceInit m).1 (uRaceInit m).2 (by simp [UBoundInv, uRaceInit])
  simp only [UBoundInv] at h
  have h1 := h.1
  simp only [Nat.mul_succ]
  generalize n * (uRace .pinned n (uRaceInit m) sched).1.resets = x at *
  show _ ≤ x + n
  have : (uRace Variant.pinned n ((uRaceInit m).fst, (uRaceInit m).snd) sched) = (uRace Variant.pinned n (uRaceInit m) sched) := rfl
  rw [this] at h1
  omega

/-- the schedule: all `m` callers load `Open` first, then run to completion one after the other -/
def overAdmitSchedule (m : Nat) : List Nat :=
  List.range m ++ (List.range m).flatMap (fun i => List.replicate 6 i)

theorem unifier_half_open_race_witness :
    (uRace .pinned genUCfg.halfOpenRequests (uRaceInit (genUCfg.halfOpenRequests + 1))
      (overAdmitSchedule (genUCfg.halfOpenRequests + 1))).1.admitted = genUCfg.halfOpenRequests + 1 := by decide


private def Tp (sh : UShared) (i : Nat) : UPc → Prop
  | .recheck => sh.owner = some i
  | .stFailures | .stSuccesses | .stHalfOpen | .stState => sh.owner = some i ∧ sh.state = .opened
  | .unlock => sh.owner = some i ∧ sh.state = .halfOpen
  | .add => sh.state = .halfOpen
  | .sawOpen => False
  | _ => True

private structure FInv (n : Nat) (sh : UShared) (ts : List UPc) : Prop where
  notClosed : sh.state ≠ .closed
  opened : sh.state = .opened → sh.halfOpen = 0 ∧ sh.admitted = 0
  bound : sh.admitted ≤ min sh.halfOpen n
  threads : ∀ i pc, ts[i]? = some pc → Tp sh i pc

private theorem finv_step (n j : Nat) (sh : UShared) (ts : List UPc) (pcj : UPc) (hj : ts[j]? = some pcj) (h : FInv n sh ts) :
    FInv n (uMicro .fixed n j sh pcj).1 (ts.set j (uMicro .fixed n j sh pcj).2) := by
  obtain ⟨hA, hB, hC, hD⟩ := h
  have hTj := hD j pcj hj
  have hjl : j < ts.length := by
    rcases Nat.lt_or_ge j ts.length with h | h
    · exact h
    · simp [List.getElem?_eq_none h] at hj
  -- threads other than j keep their pc; what they need from the shared state
  have others : ∀ (sh' : UShared) (pc' : UPc), Tp sh' j pc' →
      (∀ i pc, i ≠ j → ts[i]? = some pc → Tp sh i pc → Tp sh' i pc) →
      ∀ i pc, (ts.set j pc')[i]? = some pc → Tp sh' i pc := by
    intro sh' pc' hnew hpres i pc hi
    by_cases hij : j = i
    · subst hij; simp [List.getElem?_set, hjl] at hi; subst hi; exact hnew
    · rw [List.getElem?_set_ne hij] at hi
      exact hpres i pc (fun h => hij h.symm) hi (hD i pc hi)
  obtain ⟨st, ho, ow, rs, ad⟩ := sh
  cases pcj with
  | start =>
    cases st
    · simp at hA
    · refine ⟨by simpa [uMicro] using hA, by simpa [uMicro] using hB, by simpa [uMicro] using hC, ?_⟩
      apply others
      · simp [uMicro, Tp]
      · intro i pc _ _ h; simpa [uMicro] using h
    · refine ⟨by simp [uMicro], by simp [uMicro], by simpa [uMicro] using hC, ?_⟩
      apply others
      · simp [uMicro, Tp]
      · intro i pc _ _ h; simpa [uMicro] using h
  | sawOpen => exact absurd hTj (by simp [Tp])
  | done b =>
    refine ⟨by simpa [uMicro] using hA, by simpa [uMicro] using hB, by simpa [uMicro] using hC, ?_⟩
    apply others
    · simp [uMicro, Tp]
    · intro i pc _ _ h; simpa [uMicro] using h
  | lock =>
    cases ow with
    | some o =>
      refine ⟨by simpa [uMicro] using hA, by simpa [uMicro] using hB, by simpa [uMicro] using hC, ?_⟩
      apply others
      · simp [uMicro, Tp]
      · intro i pc _ _ h; simpa [uMicro] using h
    | none =>
      refine ⟨by simpa [uMicro] using hA, by simpa [uMicro] using hB, by simpa [uMicro] using hC, ?_⟩
      apply others
      · simp [uMicro, Tp]
      · intro i pc hne _ h; clear others hD hj; cases pc <;> simp_all [uMicro, Tp]
  | recheck =>
    simp only [Tp] at hTj
    refine ⟨by simpa [uMicro] using hA, by simpa [uMicro] using hB, by simpa [uMicro] using hC, ?_⟩
    apply others
    · cases st <;> simp_all [uMicro, Tp]
    · intro i pc _ _ h; simpa [uMicro] using h
  | stFailures =>
    simp only [Tp] at hTj
    refine ⟨by simpa [uMicro] using hA, by simpa [uMicro] using hB, by simpa [uMicro] using hC, ?_⟩
    apply others
    · clear others hD hj; simp_all [uMicro, Tp]
    · intro i pc _ _ h; simpa [uMicro] using h
  | stSuccesses =>
    simp only [Tp] at hTj
    refine ⟨by simpa [uMicro] using hA, by simpa [uMicro] using hB, by simpa [uMicro] using hC, ?_⟩
    apply others
    · clear others hD hj; simp_all [uMicro, Tp]
    · intro i pc _ _ h; simpa [uMicro] using h
  | stHalfOpen =>
    simp only [Tp] at hTj
    have hb := hB hTj.2
    refine ⟨by simpa [uMicro] using hA, by simp_all [uMicro], by simp_all [uMicro], ?_⟩
    apply others
    · clear others hD hj; simp_all [uMicro, Tp]
    · intro i pc hne _ h; clear others hD hj; cases pc <;> simp_all [uMicro, Tp]
  | stState =>
    simp only [Tp] at hTj
    refine ⟨by simp [uMicro], by simp [uMicro], by simpa [uMicro] using hC, ?_⟩
    apply others
    · clear others hD hj; simp_all [uMicro, Tp]
    · intro i pc hne _ h; clear others hD hj; cases pc <;> simp_all [uMicro, Tp]
  | unlock =>
    simp only [Tp] at hTj
    refine ⟨by simpa [uMicro] using hA, by simpa [uMicro] using hB, by simpa [uMicro] using hC, ?_⟩
    apply others
    · clear others hD hj; simp_all [uMicro, Tp]
    · intro i pc hne _ h; clear others hD hj; cases pc <;> simp_all [uMicro, Tp]
  | add =>
    simp only [Tp] at hTj
    subst hTj
    refine ⟨by simp [uMicro], by simp [uMicro], ?_, ?_⟩
    · simp only [uMicro]; simp only at hC; split <;> omega
    · apply others
      · simp [uMicro, Tp]
      · intro i pc hne _ h; clear others hD hj; cases pc <;> simp_all [uMicro, Tp]

private theorem finv_race (n : Nat) : ∀ (sched : List Nat) (sh : UShared) (ts : List UPc), FInv n sh ts →
    FInv n (uRace .fixed n (sh, ts) sched).1 (uRace .fixed n (sh, ts) sched).2 := by
  intro sched
  induction sched with
  | nil => intro sh ts h; simpa [uRace] using h
  | cons i rest ih =>
    intro sh ts h
    simp only [uRace]
    cases hti : ts[i]? with
    | none => simpa using ih sh ts h
    | some pc => simpa using ih _ _ (finv_step n i sh ts pc hti h)

private theorem finv_init (n m : Nat) : FInv n (uRaceInit m).1 (uRaceInit m).2 := by
  refine ⟨by simp [uRaceInit], by simp [uRaceInit], by simp [uRaceInit], ?_⟩
  intro i pc h
  simp only [uRaceInit, List.getElem?_replicate] at h
  split at h
  · cases h; simp [Tp]
  · cases h

theorem unifier_half_open_race_fixed (n m : Nat) (sched : List Nat) :
    (uRace .fixed n (uRaceInit m) sched).1.admitted ≤ n := by
  have h := (finv_race n sched _ _ (finv_init n m)).bound
  have : (uRace .fixed n ((uRaceInit m).1, (uRaceInit m).2) sched) = uRace .fixed n (uRaceInit m) sched := rfl
  rw [this] at h
  omega

/-! health race -/
private def HTp (t0 w : Int) : HPc → Prop
  | .cas t | .load t => t0 ≤ t ∧ t < t0 + w
  | .done _ => True

private def isLoad : HPc → Bool
  | .load _ => true
  | _ => false

private structure HRInv (t0 w : Int) (sh : HShared) (ts : List HPc) : Prop where
  none : sh.lastAttempt = none → sh.admitted = 0 ∧ ∀ pc ∈ ts, isLoad pc = false
  some : ∀ a, sh.lastAttempt = some a → sh.admitted = 1 ∧ t0 ≤ a
  threads : ∀ pc ∈ ts, HTp t0 w pc

private theorem hrinv_step (t0 w : Int) (j : Nat) (sh : HShared) (ts : List HPc) (pc : HPc) (hj : ts[j]? = some pc)
    (h : HRInv t0 w sh ts) : HRInv t0 w (hMicro w sh pc).1 (ts.set j (hMicro w sh pc).2) := by
  obtain ⟨h1, h2, h3⟩ := h
  have hmem : pc ∈ ts := List.mem_of_getElem? hj
  have hpc : HTp t0 w pc := h3 pc hmem
  have thr : HTp t0 w (hMicro w sh pc).2 → ∀ x ∈ ts.set j (hMicro w sh pc).2, HTp t0 w x := by
    intro hn x hx
    rcases List.mem_or_eq_of_mem_set hx with h | h
    · exact h3 x h
    · subst h; exact hn
  obtain ⟨la, ad⟩ := sh
  cases pc with
  | done b =>
    refine ⟨?_, by simpa [hMicro] using h2, thr (by simp [hMicro, HTp])⟩
    intro hn; have := h1 (by simpa [hMicro] using hn)
    refine ⟨by simpa [hMicro] using this.1, ?_⟩
    intro x hx
    rcases List.mem_or_eq_of_mem_set hx with h | h
    · exact this.2 x h
    · subst h; simp [hMicro, isLoad]
  | cas t =>
    cases la with
    | none =>
      refine ⟨by simp [hMicro], ?_, thr (by simp [hMicro, HTp])⟩
      intro a ha; simp [hMicro] at ha; subst ha
      simp only [HTp] at hpc
      have := (h1 rfl).1
      simp_all [hMicro]
    | some a => exact ⟨by simp [hMicro], by simpa [hMicro] using h2, thr (by simpa [hMicro, HTp] using hpc)⟩
  | load t =>
    cases la with
    | none => have := (h1 rfl).2 _ hmem; simp [isLoad] at this
    | some a =>
      have := h2 a rfl
      simp only [HTp] at hpc
      have hb : a + w > t := by omega
      exact ⟨by simp [hMicro, hb], by simpa [hMicro, hb] using h2, thr (by simp [hMicro, hb, HTp])⟩

private theorem hrinv_race (t0 w : Int) : ∀ (sched : List Nat) (sh : HShared) (ts : List HPc), HRInv t0 w sh ts →
    HRInv t0 w (hRace w (sh, ts) sched).1 (hRace w (sh, ts) sched).2 := by
  intro sched
  induction sched with
  | nil => intro sh ts h; simpa [hRace] using h
  | cons i rest ih =>
    intro sh ts h
    simp only [hRace]
    cases hti : ts[i]? with
    | none => simpa using ih sh ts h
    | some pc => simpa using ih _ _ (hrinv_step t0 w i sh ts pc hti h)

/-- Any number of callers whose clock readings lie inside one probe window, any interleaving:
    at most one is let through (exactly the one whose CAS on `lastAttempt` succeeds). -/
theorem health_half_open_race (w t0 : Int) (clocks : List Int) (hc : ∀ t ∈ clocks, t0 ≤ t ∧ t < t0 + w) (sched : List Nat) :
    (hRace w ({ lastAttempt := none }, clocks.map HPc.cas) sched).1.admitted ≤ 1 := by
  have h0 : HRInv t0 w { lastAttempt := none } (clocks.map HPc.cas) := by
    refine ⟨fun _ => ⟨rfl, ?_⟩, by simp, ?_⟩
    · intro pc hpc; simp at hpc; obtain ⟨t, _, rfl⟩ := hpc; rfl
    · intro pc hpc; simp at hpc; obtain ⟨t, ht, rfl⟩ := hpc; exact hc t ht
  have h := hrinv_race t0 w sched _ _ h0
  cases hl : (hRace w ({ lastAttempt := none }, clocks.map HPc.cas) sched).1.lastAttempt with
  | none => have := (h.none hl).1; omega
  | some a => have := (h.some a hl).1; omega

/-! # The property theorems

`holds P k t0 h` is the monitor of clause `k` (see `Olla.Spec.C08`) run over an observed history
`h` — the term the driver evaluates on the real breakers' answers.  `(m.trace s ops)` is the
observable trace of a model.  All theorems quantify over every operation history `ops` and every
start time `t0`. -/

/-! ## Side conditions on the regenerated configuration -/

/-- Thresholds, timeouts and limits of the compiled code are positive. -/
theorem gen_config_positive :
    0 < genHCfg.threshold ∧ 0 < genHCfg.timeout ∧ 0 < genHCfg.window ∧
    0 < genECfg.threshold ∧ 0 < genECfg.timeout ∧
    0 < genUCfg.failureThreshold ∧ 0 < genUCfg.successThreshold ∧ 0 < genUCfg.openDuration ∧
    0 < genUCfg.halfOpenRequests ∧ Olla.Gen.Health.unifierEnabled = true := by decide

/-- The health breaker's probe window is not longer than its timeout (needed for one probe per window
    across a failed probe). -/
theorem gen_window_le_timeout : genHCfg.window ≤ genHCfg.timeout := by decide

/-- The unification breaker can close: it needs no more successful probes than it admits. -/
theorem gen_unifier_success_le_halfopen : genUCfg.successThreshold ≤ genUCfg.halfOpenRequests := by decide

/-- What the constructors install, the exported constants, and what the breakers do when probed
    with rewound clocks (failures until open; smallest rewind that re-admits, 10 ms grid) agree. -/
theorem gen_config_consistent :
    Olla.Gen.Health.healthThreshold = Olla.Gen.Health.healthThresholdConst ∧
    Olla.Gen.Health.healthThreshold = Olla.Gen.Health.healthThresholdObserved ∧
    Olla.Gen.Health.healthTimeout = Olla.Gen.Health.healthTimeoutConst ∧
    Olla.Gen.Health.healthTimeout = Olla.Gen.Health.healthTimeoutObserved ∧
    Olla.Gen.Health.engineTimeout = Olla.Gen.Health.healthTimeoutConst ∧
    Olla.Gen.Health.unifierOpenDuration = Olla.Gen.Health.unifierOpenDurationObserved := by decide

/-! ## health.CircuitBreaker -/

/-- All clauses except the probe limit, both variants, every configuration. -/
theorem health_clauses (v : Variant) (c : HCfg) (k : Clause) (hk : k ≠ .probeLimit) (t0 : Int) (ops : List Op) :
    holds (healthParams c) k t0 ((healthM v c).trace (HealthCB.init t0) ops) = true :=
  holdsFrom_of_inv (healthM v c) (healthParams c) k (HInv v c)
    (fun g s op h => ⟨health_clause v c g s op h k hk, hinv_step v c g s op h⟩) ops _ _ (hinv_init v c t0)

/-- Opens only after `threshold` consecutive failures with no success in between; closed ⇒ admits. -/
theorem health_opens_only_after_threshold (v : Variant) (c : HCfg) (t0 : Int) (ops : List Op) :
    holds (healthParams c) .opensOnly t0 ((healthM v c).trace (HealthCB.init t0) ops) = true :=
  health_clauses v c _ (by decide) t0 ops
/-- While open, nothing is let through until `timeout` has elapsed since the last failure. -/
theorem health_holds_while_open (v : Variant) (c : HCfg) (t0 : Int) (ops : List Op) :
    holds (healthParams c) .holds t0 ((healthM v c).trace (HealthCB.init t0) ops) = true :=
  health_clauses v c _ (by decide) t0 ops
/-- After the timeout a probe is admitted whenever none was admitted during the last window. -/
theorem health_admits_after_timeout (v : Variant) (c : HCfg) (t0 : Int) (ops : List Op) :
    holds (healthParams c) .admits t0 ((healthM v c).trace (HealthCB.init t0) ops) = true :=
  health_clauses v c _ (by decide) t0 ops
theorem health_closes_on_success (v : Variant) (c : HCfg) (t0 : Int) (ops : List Op) :
    holds (healthParams c) .closes t0 ((healthM v c).trace (HealthCB.init t0) ops) = true :=
  health_clauses v c _ (by decide) t0 ops
theorem health_reopens_on_failed_probe (v : Variant) (c : HCfg) (t0 : Int) (ops : List Op) :
    holds (healthParams c) .reopens t0 ((healthM v c).trace (HealthCB.init t0) ops) = true :=
  health_clauses v c _ (by decide) t0 ops
theorem health_success_clears (v : Variant) (c : HCfg) (t0 : Int) (ops : List Op) :
    holds (healthParams c) .clears t0 ((healthM v c).trace (HealthCB.init t0) ops) = true :=
  health_clauses v c _ (by decide) t0 ops
/-- From every reachable state: tick (> timeout); ask; succ ⇒ closed. -/
theorem health_never_stuck (v : Variant) (c : HCfg) (t0 : Int) (ops : List Op) :
    holds (healthParams c) .neverStuck t0 ((healthM v c).trace (HealthCB.init t0) ops) = true :=
  health_clauses v c _ (by decide) t0 ops

/-- **At most one probe per window** — full strength, for the repaired breaker
    (fixes/C08-health-probe-window.patch: the stale `lastAttempt` is advanced by CAS). -/
theorem health_one_probe_per_window (c : HCfg) (hw : c.window ≤ c.timeout) (t0 : Int) (ops : List Op) :
    holds (healthParams c) .probeLimit t0 ((healthM .fixed c).trace (HealthCB.init t0) ops) = true :=
  holdsFrom_of_inv (healthM .fixed c) (healthParams c) .probeLimit (HInv .fixed c)
    (fun g s op h => ⟨health_clause_probeLimit_fixed c hw g s op h, hinv_step .fixed c g s op h⟩) ops _ _ (hinv_init .fixed c t0)

/-- The state in which the pinned `IsOpen` answers "go ahead" without claiming the probe slot:
    open, timeout elapsed, and the recorded probe attempt is at least one window old. -/
def staleProbe (c : HCfg) (s : HealthCB) : Bool :=
  s.isOpen && decide (s.lastFailure + c.timeout < s.now) &&
    (match s.lastAttempt with | some a => !decide (a + c.window > s.now) | none => false)

/-- No `ask` of the history meets a stale probe (i.e. every admitted probe reported its outcome
    before the window ran out). -/
def noStaleAsk (c : HCfg) : HealthCB → List Op → Bool
  | _, [] => true
  | s, op :: ops => (!(op == .ask) || !staleProbe c s) && noStaleAsk c (HealthCB.step .pinned c s op).1 ops

private theorem health_step_eq_of_not_stale (c : HCfg) (s : HealthCB) (op : Op)
    (h : (!(op == .ask) || !staleProbe c s) = true) : HealthCB.step .pinned c s op = HealthCB.step .fixed c s op := by
  cases op <;> try rfl
  obtain ⟨f, lf, la, io, now⟩ := s
  cases io <;> cases la <;> simp_all [HealthCB.step, HealthCB.isOpenCall, staleProbe]
  rename_i a
  by_cases h1 : lf + c.timeout < now
  · by_cases h2 : now < a + c.window
    · simp [h1, h2]
    · rcases h with h | h <;> omega
  · simp [h1]

private theorem health_trace_eq_of_noStale (c : HCfg) : ∀ (ops : List Op) (s : HealthCB), noStaleAsk c s ops = true →
    (healthM .pinned c).trace s ops = (healthM .fixed c).trace s ops := by
  intro ops
  induction ops with
  | nil => intro s _; rfl
  | cons op ops ih =>
    intro s h
    simp only [noStaleAsk, Bool.and_eq_true] at h
    have he := health_step_eq_of_not_stale c s op h.1
    simp only [Machine.trace, Machine.obs, healthM] at *
    rw [he]
    rw [he] at h
    rw [ih _ h.2]

/-- Pinned tree: one probe per window holds for the histories in which every probe reports
    before its window has run out. -/
theorem health_one_probe_per_window_partial (c : HCfg) (hw : c.window ≤ c.timeout) (t0 : Int) (ops : List Op)
    (h : noStaleAsk c (HealthCB.init t0) ops = true) :
    holds (healthParams c) .probeLimit t0 ((healthM .pinned c).trace (HealthCB.init t0) ops) = true := by
  rw [health_trace_eq_of_noStale c ops _ h]
  exact health_one_probe_per_window c hw t0 ops

/-- `threshold` failures, timeout passes, a probe is admitted and never reports; 1.3 s later
    every caller is let through. -/
def healthProbeWitness : List Op :=
  List.replicate genHCfg.threshold .fail ++ [.tick (genHCfg.timeout.toNat + 1500000000), .ask, .tick (genHCfg.window.toNat + 300000000), .ask, .ask]

/-- **Pinned tree violates "at most one probe per second"** (DESIGN §4 #6). -/
theorem health_one_probe_per_window_witness :
    ¬ holds (healthParams genHCfg) .probeLimit 0 ((healthM .pinned genHCfg).trace (HealthCB.init 0) healthProbeWitness) = true := by
  decide

/-- The same history on the repaired breaker is fine (non-vacuity of the fix). -/
example : holds (healthParams genHCfg) .probeLimit 0 ((healthM .fixed genHCfg).trace (HealthCB.init 0) healthProbeWitness) = true := by
  decide

/-! ## olla engine breaker -/

theorem engine_clauses (c : ECfg) (k : Clause) (t0 : Int) (ops : List Op) :
    holds (engineParams c) k t0 ((engineM c).trace (EngineCB.init t0) ops) = true :=
  holdsFrom_of_inv (engineM c) (engineParams c) k (EInv c)
    (fun g s op h => ⟨engine_clause c g s op h k, einv_step c g s op h⟩) ops _ _ (einv_init c t0)

theorem engine_opens_only_after_threshold (c : ECfg) (t0 : Int) (ops : List Op) :
    holds (engineParams c) .opensOnly t0 ((engineM c).trace (EngineCB.init t0) ops) = true := engine_clauses c _ t0 ops
theorem engine_holds_while_open (c : ECfg) (t0 : Int) (ops : List Op) :
    holds (engineParams c) .holds t0 ((engineM c).trace (EngineCB.init t0) ops) = true := engine_clauses c _ t0 ops
theorem engine_admits_after_timeout (c : ECfg) (t0 : Int) (ops : List Op) :
    holds (engineParams c) .admits t0 ((engineM c).trace (EngineCB.init t0) ops) = true := engine_clauses c _ t0 ops
theorem engine_closes_on_success (c : ECfg) (t0 : Int) (ops : List Op) :
    holds (engineParams c) .closes t0 ((engineM c).trace (EngineCB.init t0) ops) = true := engine_clauses c _ t0 ops
theorem engine_reopens_on_failed_probe (c : ECfg) (t0 : Int) (ops : List Op) :
    holds (engineParams c) .reopens t0 ((engineM c).trace (EngineCB.init t0) ops) = true := engine_clauses c _ t0 ops
theorem engine_success_clears (c : ECfg) (t0 : Int) (ops : List Op) :
    holds (engineParams c) .clears t0 ((engineM c).trace (EngineCB.init t0) ops) = true := engine_clauses c _ t0 ops
theorem engine_never_stuck (c : ECfg) (t0 : Int) (ops : List Op) :
    holds (engineParams c) .neverStuck t0 ((engineM c).trace (EngineCB.init t0) ops) = true := engine_clauses c _ t0 ops

/-! ## unifier.CircuitBreaker -/

/-- All clauses except "a success clears the failure count", both variants. -/
theorem unifier_clauses (v : Variant) (c : UCfg) (k : Clause) (hk : k ≠ .clears ∨ v = .fixed) (t0 : Int) (ops : List Op) :
    holds (unifierParams c) k t0 ((unifierM v c).trace (UnifierCB.init t0) ops) = true :=
  holdsFrom_of_inv (unifierM v c) (unifierParams c) k (UInv c)
    (fun g s op h => ⟨unifier_clause v c g s op h k hk, uinv_step v c g s op h⟩) ops _ _ (uinv_init c t0)

theorem unifier_opens_only_after_threshold (v : Variant) (c : UCfg) (t0 : Int) (ops : List Op) :
    holds (unifierParams c) .opensOnly t0 ((unifierM v c).trace (UnifierCB.init t0) ops) = true :=
  unifier_clauses v c _ (.inl (by decide)) t0 ops
theorem unifier_holds_while_open (v : Variant) (c : UCfg) (t0 : Int) (ops : List Op) :
    holds (unifierParams c) .holds t0 ((unifierM v c).trace (UnifierCB.init t0) ops) = true :=
  unifier_clauses v c _ (.inl (by decide)) t0 ops
theorem unifier_admits_after_timeout (v : Variant) (c : UCfg) (t0 : Int) (ops : List Op) :
    holds (unifierParams c) .admits t0 ((unifierM v c).trace (UnifierCB.init t0) ops) = true :=
  unifier_clauses v c _ (.inl (by decide)) t0 ops
/-- Sequential histories: at most `HalfOpenRequests` probes per half-open episode. -/
theorem unifier_at_most_N_probes (v : Variant) (c : UCfg) (t0 : Int) (ops : List Op) :
    holds (unifierParams c) .probeLimit t0 ((unifierM v c).trace (UnifierCB.init t0) ops) = true :=
  unifier_clauses v c _ (.inl (by decide)) t0 ops
theorem unifier_closes_on_success (v : Variant) (c : UCfg) (t0 : Int) (ops : List Op) :
    holds (unifierParams c) .closes t0 ((unifierM v c).trace (UnifierCB.init t0) ops) = true :=
  unifier_clauses v c _ (.inl (by decide)) t0 ops
theorem unifier_reopens_on_failed_probe (v : Variant) (c : UCfg) (t0 : Int) (ops : List Op) :
    holds (unifierParams c) .reopens t0 ((unifierM v c).trace (UnifierCB.init t0) ops) = true :=
  unifier_clauses v c _ (.inl (by decide)) t0 ops
theorem unifier_never_stuck (v : Variant) (c : UCfg) (t0 : Int) (ops : List Op) :
    holds (unifierParams c) .neverStuck t0 ((unifierM v c).trace (UnifierCB.init t0) ops) = true :=
  unifier_clauses v c _ (.inl (by decide)) t0 ops

/-- **A success always clears the failure count** — full strength for the repaired breaker
    (fixes/C08-unifier-success-while-open.patch). -/
theorem unifier_success_clears (c : UCfg) (t0 : Int) (ops : List Op) :
    holds (unifierParams c) .clears t0 ((unifierM .fixed c).trace (UnifierCB.init t0) ops) = true :=
  unifier_clauses .fixed c _ (.inr rfl) t0 ops

/-- No success is recorded while the breaker reports `open`. -/
def noSuccWhileOpen (c : UCfg) : UnifierCB → List Op → Bool
  | _, [] => true
  | s, op :: ops => (!(op == .succ) || !(s.state == .opened)) && noSuccWhileOpen c (UnifierCB.step .pinned c s op).1 ops

private theorem unifier_step_eq (c : UCfg) (s : UnifierCB) (op : Op)
    (h : (!(op == .succ) || !(s.state == .opened)) = true) : UnifierCB.step .pinned c s op = UnifierCB.step .fixed c s op := by
  cases op <;> try rfl
  obtain ⟨st, f, su, ho, lf, now⟩ := s
  cases st <;> simp_all [UnifierCB.step, UnifierCB.recordSuccess]

private theorem unifier_trace_eq (c : UCfg) : ∀ (ops : List Op) (s : UnifierCB), noSuccWhileOpen c s ops = true →
    (unifierM .pinned c).trace s ops = (unifierM .fixed c).trace s ops := by
  intro ops
  induction ops with
  | nil => intro s _; rfl
  | cons op ops ih =>
    intro s h
    simp only [noSuccWhileOpen, Bool.and_eq_true] at h
    have he := unifier_step_eq c s op h.1
    simp only [Machine.trace, Machine.obs, unifierM] at *
    rw [he]
    rw [he] at h
    rw [ih _ h.2]

/-- Pinned tree: a success clears the failure count unless it is recorded while the breaker is open. -/
theorem unifier_success_clears_partial (c : UCfg) (t0 : Int) (ops : List Op)
    (h : noSuccWhileOpen c (UnifierCB.init t0) ops = true) :
    holds (unifierParams c) .clears t0 ((unifierM .pinned c).trace (UnifierCB.init t0) ops) = true := by
  rw [unifier_trace_eq c ops _ h]
  exact unifier_success_clears c t0 ops

def unifierClearsWitness : List Op := List.replicate genUCfg.failureThreshold .fail ++ [.succ]

/-- **Pinned tree: a success recorded while open leaves the failure count untouched** (DESIGN §4 #7). -/
theorem unifier_success_clears_witness :
    ¬ holds (unifierParams genUCfg) .clears 0 ((unifierM .pinned genUCfg).trace (UnifierCB.init 0) unifierClearsWitness) = true := by
  decide

/-- A client that asks, and reports the outcome of every request it was allowed to make,
    before anybody else asks (`true` = the request succeeded). -/
inductive Round where
  | wait (d : Nat)
  | call (ok : Bool)

def clientStep (v : Variant) (c : UCfg) (s : UnifierCB) : Round → UnifierCB
  | .wait d  => (UnifierCB.step v c s (.tick d)).1
  | .call ok =>
    let r := s.allow c
    if r.2 then (if ok then r.1.recordSuccess v c else r.1.recordFailure c) else r.1

def clientRun (v : Variant) (c : UCfg) : UnifierCB → List Round → UnifierCB
  | s, [] => s
  | s, r :: rs => clientRun v c (clientStep v c s r) rs

private def SeqInv (c : UCfg) (s : UnifierCB) : Prop :=
  (s.state ≠ .closed → s.lastFailure ≤ s.now) ∧
  (s.state = .opened → s.halfOpen = 0) ∧
  (s.state = .halfOpen → s.halfOpen = s.successes ∧ s.successes < c.successThreshold)

private theorem seqInv_step (v : Variant) (c : UCfg) (hc : c.successThreshold ≤ c.halfOpenRequests) (hpos : 0 < c.successThreshold) (s : UnifierCB) (r : Round)
    (h : SeqInv c s) : SeqInv c (clientStep v c s r) := by
  obtain ⟨st, f, su, ho, lf, now⟩ := s
  obtain ⟨h1, h2, h3⟩ := h
  cases r with
  | wait d => cases st <;> simp_all [SeqInv, clientStep, UnifierCB.step] <;> omega
  | call ok =>
    cases st
    · cases ok
      · by_cases hf : f + 1 ≥ c.failureThreshold <;>
          simp_all [SeqInv, clientStep, UnifierCB.allow, UnifierCB.recordFailure, UnifierCB.toOpen, -Nat.not_le]
      · simp_all [SeqInv, clientStep, UnifierCB.allow, UnifierCB.recordSuccess]
    · by_cases hto : now - lf > c.openDuration
      · have hn : 1 ≤ c.halfOpenRequests := by omega
        cases ok
        · simp_all [SeqInv, clientStep, UnifierCB.allow, UnifierCB.allowHalfOpen, UnifierCB.toHalfOpen, UnifierCB.recordFailure, UnifierCB.toOpen]
        · by_cases hs : 0 + 1 ≥ c.successThreshold <;>
            simp_all [SeqInv, clientStep, UnifierCB.allow, UnifierCB.allowHalfOpen, UnifierCB.toHalfOpen, UnifierCB.recordSuccess, UnifierCB.toClosed, -Nat.not_le]
          all_goals omega
      · simp_all [SeqInv, clientStep, UnifierCB.allow, -Int.not_lt]
    · have hn : ho + 1 ≤ c.halfOpenRequests := by have := h3 rfl; simp only at this; omega
      cases ok
      · simp_all [SeqInv, clientStep, UnifierCB.allow, UnifierCB.allowHalfOpen, UnifierCB.recordFailure, UnifierCB.toOpen]
      · by_cases hs : su + 1 ≥ c.successThreshold <;>
          simp_all [SeqInv, clientStep, UnifierCB.allow, UnifierCB.allowHalfOpen, UnifierCB.recordSuccess, UnifierCB.toClosed, -Nat.not_le]
        all_goals omega

private theorem seqInv_run (v : Variant) (c : UCfg) (hc : c.successThreshold ≤ c.halfOpenRequests) (hpos : 0 < c.successThreshold) :
    ∀ (rs : List Round) (s : UnifierCB), SeqInv c s → SeqInv c (clientRun v c s rs) := by
  intro rs
  induction rs with
  | nil => intro s h; exact h
  | cons r rs ih => intro s h; exact ih _ (seqInv_step v c hc hpos s r h)

private theorem seq_recover (v : Variant) (c : UCfg) (hc : c.successThreshold ≤ c.halfOpenRequests) :
    ∀ (k : Nat) (s : UnifierCB), SeqInv c s → (s.state = .opened → s.now - s.lastFailure > c.openDuration) →
      (s.state = .halfOpen → s.successes + k ≥ c.successThreshold) → (s.state = .opened → k ≥ c.successThreshold) → 0 < c.successThreshold →
      (clientRun v c s (List.replicate k (.call true))).state = .closed ∨ k = 0 ∧ s.state ≠ .closed := by
  intro k
  induction k with
  | zero => intro s _ _ _ _ _; by_cases h : s.state = .closed <;> simp [clientRun, h]
  | succ k ih =>
    intro s hi ho hh hk hpos
    simp only [List.replicate_succ, clientRun]
    have hi' := seqInv_step v c hc hpos s (.call true) hi
    obtain ⟨st, f, su, hoc, lf, now⟩ := s
    obtain ⟨h1, h2, h3⟩ := hi
    have key : ∀ s', clientStep v c ⟨st, f, su, hoc, lf, now⟩ (.call true) = s' →
        (s'.state = .closed) ∨ (s'.state = .halfOpen ∧ s'.successes + k ≥ c.successThreshold) := by
      intro s' hs'
      subst hs'
      cases st
      · left; simp [clientStep, UnifierCB.allow, UnifierCB.recordSuccess]
      · have hto := ho rfl
        have hn : 1 ≤ c.halfOpenRequests := by omega
        have hk' := hk rfl
        simp only at hto
        by_cases hs : 0 + 1 ≥ c.successThreshold
        · left; simp_all [clientStep, UnifierCB.allow, UnifierCB.allowHalfOpen, UnifierCB.toHalfOpen, UnifierCB.recordSuccess, UnifierCB.toClosed]
        · right; simp_all [clientStep, UnifierCB.allow, UnifierCB.allowHalfOpen, UnifierCB.toHalfOpen, UnifierCB.recordSuccess, UnifierCB.toClosed, -Nat.not_le]
          omega
      · have := h3 rfl
        have hh' := hh rfl
        have hn : hoc + 1 ≤ c.halfOpenRequests := by simp only at this; omega
        simp only at hh'
        by_cases hs : su + 1 ≥ c.successThreshold
        · left; simp_all [clientStep, UnifierCB.allow, UnifierCB.allowHalfOpen, UnifierCB.recordSuccess, UnifierCB.toClosed]
        · right; simp_all [clientStep, UnifierCB.allow, UnifierCB.allowHalfOpen, UnifierCB.recordSuccess, UnifierCB.toClosed, -Nat.not_le]
          omega
    rcases key _ rfl with hcl | ⟨hhalf, hsu⟩
    · -- closed stays closed under successful calls
      left
      have := ih _ hi' (by simp [hcl]) (by simp [hcl]) (by simp [hcl]) hpos
      rcases this with h | ⟨_, h⟩
      · exact h
      · exact absurd hcl h
    · have := ih _ hi' (by simp [hhalf]) (fun _ => hsu) (by simp [hhalf]) hpos
      rcases this with h | ⟨hk0, _⟩
      · left; exact h
      · subst hk0; have := hi'.2.2 hhalf; omega

/-- **Never stuck, with permission respected.**  From every state a well-behaved client can reach
    (it reports the outcome of every request it was allowed to make), once the protected endpoint
    works again: after `openDuration` has passed, `successThreshold` consecutive successful calls —
    each of which IS let through — close the breaker.  Needs `successThreshold ≤ halfOpenRequests`. -/
theorem unifier_never_stuck_client (v : Variant) (c : UCfg) (hc : c.successThreshold ≤ c.halfOpenRequests)
    (hpos : 0 < c.successThreshold) (t0 : Int) (history : List Round) :
    (clientRun v c (clientRun v c (UnifierCB.init t0) history)
      (.wait (c.openDuration.toNat + 1) :: List.replicate c.successThreshold (.call true))).state = .closed := by
  have hi := seqInv_run v c hc hpos history (UnifierCB.init t0) (by simp [SeqInv, UnifierCB.init])
  generalize clientRun v c (UnifierCB.init t0) history = s at hi
  have hi' := seqInv_step v c hc hpos s (.wait (c.openDuration.toNat + 1)) hi
  simp only [clientRun]
  have := seq_recover v c hc c.successThreshold _ hi'
    (by
      obtain ⟨st, f, su, ho, lf, now⟩ := s
      intro hst
      have := hi.1
      simp_all [clientStep, UnifierCB.step]
      omega)
    (by intro _; omega) (by intro _; omega) hpos
  rcases this with h | ⟨h, _⟩
  · exact h
  · omega

/-! ## Instances at the regenerated configuration (what the driver compares the real breakers with) -/

theorem health_gen (k : Clause) (hk : k ≠ .probeLimit) (t0 : Int) (ops : List Op) :
    holds (healthParams genHCfg) k t0 ((healthM activeHealth genHCfg).trace (HealthCB.init t0) ops) = true :=
  health_clauses activeHealth genHCfg k hk t0 ops

theorem health_one_probe_per_window_gen_fixed (t0 : Int) (ops : List Op) :
    holds (healthParams genHCfg) .probeLimit t0 ((healthM .fixed genHCfg).trace (HealthCB.init t0) ops) = true :=
  health_one_probe_per_window genHCfg gen_window_le_timeout t0 ops

theorem engine_gen (k : Clause) (t0 : Int) (ops : List Op) :
    holds (engineParams genECfg) k t0 ((engineM genECfg).trace (EngineCB.init t0) ops) = true :=
  engine_clauses genECfg k t0 ops

theorem unifier_gen (k : Clause) (hk : k ≠ .clears) (t0 : Int) (ops : List Op) :
    holds (unifierParams genUCfg) k t0 ((unifierM activeUnifier genUCfg).trace (UnifierCB.init t0) ops) = true :=
  unifier_clauses activeUnifier genUCfg k (.inl hk) t0 ops

theorem unifier_never_stuck_client_gen (v : Variant) (t0 : Int) (history : List Round) :
    (clientRun v genUCfg (clientRun v genUCfg (UnifierCB.init t0) history)
      (.wait (genUCfg.openDuration.toNat + 1) :: List.replicate genUCfg.successThreshold (.call true))).state = .closed :=
  unifier_never_stuck_client v genUCfg gen_unifier_success_le_halfopen (by decide) t0 history

/-- 32 callers (any number), any interleaving, repaired unification breaker: at most `HalfOpenRequests`. -/
theorem unifier_half_open_race_fixed_gen (m : Nat) (sched : List Nat) :
    (uRace .fixed genUCfg.halfOpenRequests (uRaceInit m) sched).1.admitted ≤ genUCfg.halfOpenRequests :=
  unifier_half_open_race_fixed _ m sched

/-! ## Non-vacuity (written with the regenerated values, so that a retune does not break them) -/

example : (healthM .pinned genHCfg).phase ((healthM .pinned genHCfg).run (HealthCB.init 0) (List.replicate genHCfg.threshold .fail)) = .opened := by decide
example : (engineM genECfg).phase ((engineM genECfg).run (EngineCB.init 0)
    (List.replicate genECfg.threshold .fail ++ [.tick (genECfg.timeout.toNat + 1000000000), .ask])) = .halfOpen := by decide
example : ((unifierM .pinned genUCfg).run (UnifierCB.init 0)
    (List.replicate genUCfg.failureThreshold .fail ++ [.tick (genUCfg.openDuration.toNat + 1000000000)] ++ List.replicate (genUCfg.halfOpenRequests + 1) .ask)).halfOpen
      = genUCfg.halfOpenRequests + 1 := by decide
example : (clientRun .pinned genUCfg (UnifierCB.init 0) (List.replicate genUCfg.failureThreshold (.call false))).state = .opened := by decide

/-! ## unifier.EndpointManager: the breaker that admits is the breaker that counts

The manager model (`Model.Breaker.Mgr`) keeps one breaker per endpoint.  An operation addressed to an endpoint is
exactly the single-breaker operation on that endpoint's breaker and touches no other endpoint; a sweep forgets exactly
the endpoints that source no model; and a forgotten endpoint continues as a new breaker, to which every clause
theorem above applies again. -/

theorem mgr_get_put_self (m : Mgr) (e : Nat) (s : UnifierCB) (h : e < m.cbs.length) : (m.put e s).get e = s := by
  simp [Mgr.put, Mgr.get, h]

theorem mgr_get_put_other (m : Mgr) (e e' : Nat) (s : UnifierCB) (h : e' ≠ e) : (m.put e s).get e' = m.get e' := by
  simp [Mgr.put, Mgr.get, List.getElem?_set, Ne.symm h]

/-- An operation addressed to endpoint `e` is the breaker operation on `e`'s own breaker: same answer, same next state. -/
theorem mgr_on_self (v : Variant) (c : UCfg) (m : Mgr) (e : Nat) (op : Op) (h : e < m.cbs.length) :
    ((m.on v c e op).1.get e, (m.on v c e op).2) = UnifierCB.step v c (m.get e) op := by
  simp [Mgr.on, mgr_get_put_self _ _ _ h]

/-- … and it leaves every other endpoint's breaker alone. -/
theorem mgr_on_other (v : Variant) (c : UCfg) (m : Mgr) (e e' : Nat) (op : Op) (h : e' ≠ e) :
    (m.on v c e op).1.get e' = m.get e' := by
  simp [Mgr.on, mgr_get_put_other _ _ _ _ h]

theorem sweepFrom_getElem? (a : Nat) (l : List UnifierCB) (i j : Nat) :
    (sweepFrom a i l)[j]? = (l[j]?).map (fun s => if a.testBit (i + j) then s else s.forget) := by
  induction l generalizing i j with
  | nil => simp [sweepFrom]
  | cons x xs ih =>
    cases j with
    | zero => simp [sweepFrom]
    | succ j =>
      simp only [sweepFrom, List.getElem?_cons_succ]
      rw [ih (i + 1) j]
      have : i + 1 + j = i + (j + 1) := by omega
      rw [this]

/-- One pass of the orphan sweep: an endpoint that sources a model keeps its breaker, any other is forgotten. -/
theorem mgr_sweep_get (v : Variant) (c : UCfg) (m : Mgr) (a e : Nat) (h : e < m.cbs.length) :
    (m.step v c (.sweep a)).1.get e = if a.testBit e then m.get e else (m.get e).forget := by
  simp only [Mgr.step, Mgr.get, sweepFrom_getElem?, Nat.zero_add]
  rw [List.getElem?_eq_getElem h]
  by_cases hb : a.testBit e <;> simp [hb]

theorem mgr_forget_get (v : Variant) (c : UCfg) (m : Mgr) (e : Nat) (h : e < m.cbs.length) :
    (m.step v c (.forget e)).1.get e = (m.get e).forget := by
  simp [Mgr.step, mgr_get_put_self _ _ _ h]

/-- A forgotten endpoint is a new breaker (the clock goes on). -/
theorem mgr_forget_is_new (s : UnifierCB) : s.forget = UnifierCB.init s.now := rfl

/-- Whatever history the breaker of a forgotten endpoint then sees, every clause of the property holds on it again
    (with the monitor started at that moment): forgetting does not carry a stale count, phase or stamp over. -/
theorem mgr_clauses_after_forget (v : Variant) (c : UCfg) (k : Clause) (hk : k ≠ .clears ∨ v = .fixed) (s : UnifierCB) (ops : List Op) :
    holds (unifierParams c) k s.now ((unifierM v c).trace s.forget ops) = true :=
  unifier_clauses v c k hk s.now ops

end Olla.Props.C08
