/-
C12 — Anthropic requests keep their meaning when translated to OpenAI form.

Model: `Olla.Model.AnthropicRequest` (parametric in the validation limits, the tool_choice
table and the defect switch `Cfg`); predicates: `Olla.Spec.C12`; limits and tables:
regenerated `Olla.Gen.Translator`.  Every theorem quantifies over ALL request ASTs.
-/
import Olla.Model.AnthropicRequest
import Olla.Spec.C12
import Olla.Spec.State

namespace Olla.Props.C12
open Olla.Model.AnthropicRequest Olla.Spec.C12

/-! ### Side conditions on the regenerated tables -/

/-- The compiled `Validate` requires model and messages, accepts the whole Anthropic range of
    temperature and top_p and nothing negative, max_tokens ≥ 1 and top_k ≥ 0 without an upper
    limit. -/
theorem gen_limits_ok : limitsOk genLimits = true := by decide

/-- Limits of the demanded shape, used by the witnesses and examples so that they do not depend
    on the regenerated values (a harmless retune must not break them). -/
def testLimits : Limits :=
  { temperature := ⟨0, 2000000, -1000000, 3000000⟩, topP := ⟨0, 1000000, -1000000, 3000000⟩,
    maxTokens := ⟨1, 100000, -1000, 100000⟩, topK := ⟨0, 100000, -1000, 100000⟩,
    requiresModel := true, requiresMessages := true }

/-- The tool_choice table of the pinned tree, kept as a constant so that the witness below stays
    a theorem after the tree is patched. -/
def pinnedChoiceTable : ChoiceTable :=
  [(("str", "auto"), "auto"), (("str", "any"), "required"), (("str", "none"), "none"), (("str", "tool"), "auto"),
   (("str", "zz-junk"), "auto"), (("obj", "auto"), "auto"), (("obj", "any"), "required"), (("obj", "none"), "auto"),
   (("obj", "tool"), "error"), (("obj", "zz-junk"), "auto"), (("obj+name", "tool"), "function:N"),
   (("obj+name", "auto"), "auto"), (("obj+name", "any"), "required"), (("obj+name", "none"), "auto"),
   (("obj+name", "zz-junk"), "auto"), (("other", ""), "auto")]

/-- Every tool_choice row the property pins down is right in the compiled table, except
    possibly the object form of `none`. -/
theorem gen_choice_table_partial : choiceTableOkExceptNoneObj Olla.Gen.Translator.toolChoiceTable = true := by decide

/-- The compiled table is either exactly the pinned tree's or fully correct — nothing else
    (so any other change to `convertToolChoice` breaks this obligation). -/
theorem gen_choice_table_pinned_or_ok :
    Olla.Gen.Translator.toolChoiceTable = pinnedChoiceTable ∨ choiceTableOk Olla.Gen.Translator.toolChoiceTable = true := by
  decide

/-- Every (form, keyword) row `choiceRow` can produce. -/
def allRows : List (String × String) :=
  [("str", "auto"), ("str", "any"), ("str", "none"), ("str", "tool"), ("str", "zz-junk"),
   ("obj", "auto"), ("obj", "any"), ("obj", "none"), ("obj", "tool"), ("obj", "zz-junk"),
   ("obj+name", "auto"), ("obj+name", "any"), ("obj+name", "none"), ("obj+name", "tool"), ("obj+name", "zz-junk"),
   ("other", "")]

/-- The table rejects exactly the rows the property calls invalid. -/
def choiceErrorsOk (tbl : ChoiceTable) : Bool :=
  allRows.all (fun row => (tcLookup tbl row.1 row.2 == "error") == errorRows.contains row)

theorem gen_choice_errors : choiceErrorsOk Olla.Gen.Translator.toolChoiceTable = true := by decide

/-- Without tools no tool_choice is ever sent (probed on the compiled code). -/
theorem gen_choice_without_tools : ∀ r ∈ Olla.Gen.Translator.toolChoiceNoTools, r.2 = "absent" := by decide

/-- `WriteError(…, 400)` answers 400 in Anthropic error format with type invalid_request_error. -/
theorem gen_error_format :
    (400, 400, "error", "invalid_request_error") ∈ Olla.Gen.Translator.errorTable := by decide

/-! ### Inversion of `translateIn` -/

private theorem translate_inv {lim : Limits} {tbl : ChoiceTable} {cfg : Cfg} {r : AReq} {o : OReq}
    (h : translateIn lim tbl cfg r = .ok o) :
    validateIn lim r = none ∧ r.messages.any (fun m => m.content.isBad) = false ∧
    o.model = r.model ∧ o.maxTokens = r.maxTokens ∧ o.stream = r.stream ∧ o.temperature = r.temperature ∧
    o.topP = r.topP ∧ o.stop = r.stop ∧
    o.messages = convertSystem r.system ++ r.messages.flatMap (convertSingle cfg) ∧
    ((r.tools.isEmpty = true ∧ o.tools = [] ∧ o.choice = none) ∨
     (r.tools.isEmpty = false ∧ o.tools = convertTools r.tools ∧ mapChoice tbl r.choice = .ok o.choice)) := by
  unfold translateIn at h
  cases hv : validateIn lim r with
  | some w => simp [hv] at h
  | none =>
    simp only [hv] at h
    by_cases hb : r.messages.any (fun m => m.content.isBad) = true
    · simp [hb] at h
    · have hb0 : r.messages.any (fun m => m.content.isBad) = false := by simpa using hb
      simp only [hb0, Bool.false_eq_true, if_false] at h
      by_cases ht : r.tools.isEmpty = true
      · simp only [ht, if_true] at h
        injection h with h; subst h
        exact ⟨rfl, hb0, rfl, rfl, rfl, rfl, rfl, rfl, rfl, Or.inl ⟨ht, rfl, rfl⟩⟩
      · have ht0 : r.tools.isEmpty = false := by simpa using ht
        simp only [ht0, Bool.false_eq_true, if_false] at h
        cases hc : mapChoice tbl r.choice with
        | error e => simp [hc] at h
        | ok c =>
          simp only [hc] at h
          injection h with h; subst h
          exact ⟨rfl, hb0, rfl, rfl, rfl, rfl, rfl, rfl, rfl, Or.inr ⟨ht0, rfl, rfl⟩⟩

/-! ### Scalars, tools, tool choice -/

/-- **Scalars**: model, max_tokens, stream, temperature, top_p and stop sequences are carried
    unchanged (as exact tokens). -/
theorem C12_scalars (lim : Limits) (tbl : ChoiceTable) (cfg : Cfg) (r : AReq) (o : OReq)
    (h : translateIn lim tbl cfg r = .ok o) : scalarsPreserved r o = true := by
  obtain ⟨_, _, h1, h2, h3, h4, h5, h6, _, _⟩ := translate_inv h
  simp [scalarsPreserved, h1, h2, h3, h4, h5, h6]

/-- **Tools**: the same tool definitions (name, description, schema token), in order. -/
theorem C12_tools (lim : Limits) (tbl : ChoiceTable) (cfg : Cfg) (r : AReq) (o : OReq)
    (h : translateIn lim tbl cfg r = .ok o) : toolsPreserved r o = true := by
  obtain ⟨_, _, _, _, _, _, _, _, _, ht⟩ := translate_inv h
  rcases ht with ⟨he, h1, _⟩ | ⟨_, h1, _⟩
  · have : r.tools = [] := by simpa using he
    simp [toolsPreserved, h1, this]
  · simp [toolsPreserved, h1, convertTools]

/-- For every tool_choice the property says something about: the table row it falls into,
    what that row must say, and that if it says so the translation is the demanded one. -/
private theorem choice_core (tbl : ChoiceTable) (c : Choice) (d : Option OChoice)
    (hd : choiceDemanded c = some d) :
    (c = .absent ∧ d = none) ∨
    ∃ form key res, ((form, key), res) ∈ choiceRowsDemanded ∧
      ((key == "none" && form != "str") = true → isNoneObj c = true) ∧
      (tcLookup tbl form key = res → mapChoice tbl c = .ok d) := by
  cases c with
  | absent => left; simp [choiceDemanded] at hd; exact ⟨rfl, hd.symm⟩
  | other => simp [choiceDemanded] at hd
  | str s =>
    right
    simp only [choiceDemanded] at hd
    by_cases h1 : (s == "auto") = true
    · have : s = "auto" := by simpa using h1
      subst this
      simp at hd; subst hd
      exact ⟨"str", "auto", "auto", by decide, by decide, fun hl => by simp [mapChoice, choiceRow, choiceKey, hl]⟩
    · simp only [h1, Bool.false_eq_true, if_false] at hd
      by_cases h2 : (s == "any") = true
      · have : s = "any" := by simpa using h2
        subst this
        simp at hd; subst hd
        exact ⟨"str", "any", "required", by decide, by decide, fun hl => by simp [mapChoice, choiceRow, choiceKey, hl]⟩
      · simp only [h2, Bool.false_eq_true, if_false] at hd
        by_cases h3 : (s == "none") = true
        · have : s = "none" := by simpa using h3
          subst this
          simp at hd; subst hd
          exact ⟨"str", "none", "none", by decide, by decide, fun hl => by simp [mapChoice, choiceRow, choiceKey, hl]⟩
        · simp [h3] at hd
  | obj ty name =>
    right
    simp only [choiceDemanded] at hd
    by_cases h1 : (ty == "auto") = true
    · have : ty = "auto" := by simpa using h1
      subst this
      simp at hd; subst hd
      cases name with
      | none => exact ⟨"obj", "auto", "auto", by decide, by decide, fun hl => by simp [mapChoice, choiceRow, choiceKey, hl]⟩
      | some n => exact ⟨"obj+name", "auto", "auto", by decide, fun hk => absurd hk (by decide), fun hl => by simp [mapChoice, choiceRow, choiceKey, hl]⟩
    · simp only [h1, Bool.false_eq_true, if_false] at hd
      by_cases h2 : (ty == "any") = true
      · have : ty = "any" := by simpa using h2
        subst this
        simp at hd; subst hd
        cases name with
        | none => exact ⟨"obj", "any", "required", by decide, by decide, fun hl => by simp [mapChoice, choiceRow, choiceKey, hl]⟩
        | some n => exact ⟨"obj+name", "any", "required", by decide, fun hk => absurd hk (by decide), fun hl => by simp [mapChoice, choiceRow, choiceKey, hl]⟩
      · simp only [h2, Bool.false_eq_true, if_false] at hd
        by_cases h3 : (ty == "none") = true
        · have : ty = "none" := by simpa using h3
          subst this
          simp at hd; subst hd
          cases name with
          | none => exact ⟨"obj", "none", "none", by decide, fun _ => by simp [isNoneObj], fun hl => by simp [mapChoice, choiceRow, choiceKey, hl]⟩
          | some n => exact ⟨"obj+name", "none", "none", by decide, fun _ => by simp [isNoneObj], fun hl => by simp [mapChoice, choiceRow, choiceKey, hl]⟩
        · simp only [h3, Bool.false_eq_true, if_false] at hd
          by_cases h4 : (ty == "tool") = true
          · have : ty = "tool" := by simpa using h4
            subst this
            cases name with
            | none => simp at hd
            | some n =>
              simp at hd; subst hd
              exact ⟨"obj+name", "tool", "function:N", by decide, fun hk => absurd hk (by decide), fun hl => by simp [mapChoice, choiceRow, choiceKey, hl]⟩
          · simp [h4] at hd

/-- **Tool choice**, parametric in the table: if the table has the rows the property pins down
    (auto→auto, any→required, none→none, {tool,name}→function, in string and object form) then
    for every request with tools the translated tool_choice is the demanded one. -/
theorem C12_tool_choice (lim : Limits) (tbl : ChoiceTable) (htbl : choiceTableOk tbl = true) (cfg : Cfg)
    (r : AReq) (o : OReq) (h : translateIn lim tbl cfg r = .ok o) : choicePreserved r o = true := by
  obtain ⟨_, _, _, _, _, _, _, _, _, ht⟩ := translate_inv h
  unfold choicePreserved
  rcases ht with ⟨he, _, _⟩ | ⟨he, _, hc⟩
  · simp [he]
  · simp only [he, Bool.false_or]
    cases hd : choiceDemanded r.choice with
    | none => rfl
    | some d =>
      rcases choice_core tbl r.choice d hd with ⟨ha, hdn⟩ | ⟨form, key, res, hmem, _, himp⟩
      · rw [ha] at hc; simp [mapChoice, choiceRow] at hc; simp [← hc, hdn]
      · have hl : tcLookup tbl form key = res := by
          unfold choiceTableOk at htbl
          rw [List.all_eq_true] at htbl
          simpa using htbl _ hmem
        have := himp hl
        rw [this] at hc
        injection hc with hc
        simp [hc]

/-- Pinned tree: the same, for every request whose tool_choice is not the OBJECT form of none. -/
theorem C12_tool_choice_partial (lim : Limits) (tbl : ChoiceTable) (htbl : choiceTableOkExceptNoneObj tbl = true)
    (cfg : Cfg) (r : AReq) (o : OReq) (h : translateIn lim tbl cfg r = .ok o)
    (hn : isNoneObj r.choice = false) : choicePreserved r o = true := by
  obtain ⟨_, _, _, _, _, _, _, _, _, ht⟩ := translate_inv h
  unfold choicePreserved
  rcases ht with ⟨he, _, _⟩ | ⟨he, _, hc⟩
  · simp [he]
  · simp only [he, Bool.false_or]
    cases hd : choiceDemanded r.choice with
    | none => rfl
    | some d =>
      rcases choice_core tbl r.choice d hd with ⟨ha, hdn⟩ | ⟨form, key, res, hmem, hno, himp⟩
      · rw [ha] at hc; simp [mapChoice, choiceRow] at hc; simp [← hc, hdn]
      · have hl : tcLookup tbl form key = res := by
          unfold choiceTableOkExceptNoneObj at htbl
          rw [List.all_eq_true] at htbl
          have hf : (!(key == "none" && form != "str")) = true := by
            cases hk : (key == "none" && form != "str") with
            | false => rfl
            | true => have := hno hk; rw [hn] at this; exact absurd this (by decide)
          simpa using htbl _ (List.mem_filter.mpr ⟨hmem, by simpa using hf⟩)
        have := himp hl
        rw [this] at hc
        injection hc with hc
        simp [hc]

/-- The theorem about the code as compiled from the tree (pinned or patched). -/
theorem C12_tool_choice_gen_partial (cfg : Cfg) (r : AReq) (o : OReq) (h : translate cfg r = .ok o)
    (hn : isNoneObj r.choice = false) : choicePreserved r o = true :=
  C12_tool_choice_partial genLimits _ gen_choice_table_partial cfg r o h hn

/-- `{"type":"none"}` with tools defined. -/
def choiceNoneWitness : AReq :=
  { model := "m", maxTokens := 5, stream := false, temperature := none, topP := none, topK := none, stop := [],
    system := .absent, messages := [⟨"user", .str "x"⟩], tools := [⟨"f", "d", "{}"⟩], choice := .obj "none" none }

/-- The full-strength statement is FALSE for the pinned tree's table: the object form of
    tool_choice none ("do not call tools") is sent upstream as "auto". -/
theorem C12_tool_choice_witness :
    choiceTableOk pinnedChoiceTable = false ∧
    (match translateIn testLimits pinnedChoiceTable pinned choiceNoneWitness with
     | .ok o => o.choice == some (.str "auto") && !choicePreserved choiceNoneWitness o
     | .error _ => false) = true := by
  decide


/-! ### Invalid requests are rejected, valid ones are translated -/

private theorem choiceKey_mem (s : String) : choiceKey s ∈ ["auto", "any", "none", "tool", "zz-junk"] := by
  unfold choiceKey
  split
  · rename_i h
    simp at h
    rcases h with h | h | h | h <;> simp [h]
  · simp

private theorem choiceRow_mem (c : Choice) (row : String × String) (h : choiceRow c = some row) : row ∈ allRows := by
  cases c with
  | absent => simp [choiceRow] at h
  | other => simp [choiceRow] at h; subst h; decide
  | str s =>
    simp [choiceRow] at h; subst h
    have := choiceKey_mem s
    simp at this
    rcases this with h | h | h | h | h <;> simp [h, allRows]
  | obj ty name =>
    cases name with
    | none =>
      simp [choiceRow] at h; subst h
      have := choiceKey_mem ty
      simp at this
      rcases this with h | h | h | h | h <;> simp [h, allRows]
    | some n =>
      simp [choiceRow] at h; subst h
      have := choiceKey_mem ty
      simp at this
      rcases this with h | h | h | h | h <;> simp [h, allRows]

/-- `mapChoice` fails exactly on the rows the table marks as errors. -/
private theorem mapChoice_error_iff (tbl : ChoiceTable) (hE : choiceErrorsOk tbl = true) (c : Choice) :
    (∃ e, mapChoice tbl c = .error e) ↔
      (match choiceRow c with | some row => errorRows.contains row | none => false) = true := by
  unfold mapChoice
  cases hr : choiceRow c with
  | none => simp
  | some row =>
    obtain ⟨form, key⟩ := row
    have hmem := choiceRow_mem c _ hr
    unfold choiceErrorsOk at hE
    rw [List.all_eq_true] at hE
    have hrow := hE _ hmem
    simp only [beq_iff_eq] at hrow
    simp only []
    by_cases herr : (tcLookup tbl form key == "error") = true
    · simp only [herr, if_true]
      rw [herr] at hrow
      constructor
      · intro _; exact hrow.symm
      · intro _; exact ⟨_, rfl⟩
    · have herr0 : (tcLookup tbl form key == "error") = false := by simpa using herr
      rw [herr0] at hrow
      simp only [herr0, Bool.false_eq_true, if_false]
      constructor
      · rintro ⟨e, he⟩
        split at he
        · split at he <;> simp at he
        · simp at he
      · intro h; rw [← hrow] at h; simp at h

private theorem validate_none_iff (lim : Limits) (r : AReq) :
    validateIn lim r = none ↔ fieldsOk lim r = true := by
  unfold validateIn fieldsOk optOk
  cases h1 : (lim.requiresModel && r.model == "") <;> cases h2 : (lim.requiresMessages && r.messages.isEmpty) <;>
    cases h3 : lim.maxTokens.contains r.maxTokens <;> simp <;>
    cases r.temperature <;> cases r.topP <;> cases r.topK <;> simp <;>
    (repeat' split) <;> simp_all

/-- **Invalid ⇒ error, nothing produced**: a request that is not valid (required field missing,
    number out of range, message content of the wrong JSON type, forced tool choice without a
    name) makes `TransformRequest` return an error — the result type leaves no room for a
    translated request next to it. -/
theorem C12_invalid_rejected (lim : Limits) (tbl : ChoiceTable) (hE : choiceErrorsOk tbl = true) (cfg : Cfg)
    (r : AReq) (h : validIn lim errorRows r = false) : ∃ e, translateIn lim tbl cfg r = .error e := by
  unfold translateIn
  cases hv : validateIn lim r with
  | some w => exact ⟨_, rfl⟩
  | none =>
    simp only []
    by_cases hb : r.messages.any (fun m => m.content.isBad) = true
    · simp only [hb, if_true]; exact ⟨_, rfl⟩
    · have hb0 : r.messages.any (fun m => m.content.isBad) = false := by simpa using hb
      simp only [hb0, Bool.false_eq_true, if_false]
      have hv' := (validate_none_iff lim r).mp hv
      have hall : r.messages.all (fun m => !m.content.isBad) = true := by
        rw [List.all_eq_true]; intro m hm
        have := List.any_eq_false.mp hb0 m hm
        simpa using this
      unfold validIn at h
      rw [hv', hall] at h
      simp only [Bool.true_and] at h
      unfold choiceOk at h
      by_cases ht : r.tools.isEmpty = true
      · simp [ht] at h
      · have ht0 : r.tools.isEmpty = false := by simpa using ht
        simp only [ht0, Bool.false_or] at h
        simp only [ht0, Bool.false_eq_true, if_false]
        have herr : (match choiceRow r.choice with | some row => errorRows.contains row | none => false) = true := by
          cases hr : choiceRow r.choice with
          | none => simp [hr] at h
          | some row => simp only [hr] at h ⊢; simpa using h
        obtain ⟨e, he⟩ := (mapChoice_error_iff tbl hE r.choice).mpr herr
        exact ⟨e, by rw [he]⟩

/-- **Valid ⇒ translated**: the converse — `valid` is exactly what is accepted. -/
theorem C12_valid_accepted (lim : Limits) (tbl : ChoiceTable) (hE : choiceErrorsOk tbl = true) (cfg : Cfg)
    (r : AReq) (h : validIn lim errorRows r = true) : ∃ o, translateIn lim tbl cfg r = .ok o := by
  unfold validIn at h
  simp only [Bool.and_eq_true] at h
  obtain ⟨⟨h1, h7⟩, h8⟩ := h
  have hv : validateIn lim r = none := (validate_none_iff lim r).mpr h1
  have hb0 : r.messages.any (fun m => m.content.isBad) = false := by
    rw [List.any_eq_false]; intro m hm
    have := List.all_eq_true.mp h7 m hm
    simpa using this
  unfold translateIn
  simp only [hv, hb0, Bool.false_eq_true, if_false]
  by_cases ht : r.tools.isEmpty = true
  · simp only [ht, if_true]; exact ⟨_, rfl⟩
  · have ht0 : r.tools.isEmpty = false := by simpa using ht
    simp only [ht0, Bool.false_eq_true, if_false]
    unfold choiceOk at h8
    simp only [ht0, Bool.false_or] at h8
    cases hc : mapChoice tbl r.choice with
    | ok c => exact ⟨_, rfl⟩
    | error e =>
      have := (mapChoice_error_iff tbl hE r.choice).mp ⟨e, hc⟩
      cases hr : choiceRow r.choice with
      | none => simp [hr] at this
      | some row =>
        simp only [hr] at this h8
        have hm : row ∈ errorRows := by simpa using this
        simp at h8
        exact absurd hm h8


/-- Unpacked `Range.contains` facts for a range with a hard lower end `lo` (above the scan's lower
    end) and either no upper end or an upper end `≥ top`. -/
private theorem range_lo (rg : Range) (x : Int) (hlo : rg.scanMin < rg.lo) (hx : x < rg.lo) :
    rg.contains x = false := by
  unfold Range.contains
  have h1 : (rg.lo == rg.scanMin) = false := by
    simp only [beq_eq_false_iff_ne, ne_eq]; omega
  have h2 : decide (rg.lo ≤ x) = false := by simp; omega
  simp [h1, h2]

private theorem range_in (rg : Range) (x : Int) (hx : rg.lo ≤ x) (hh : rg.hi = rg.scanMax ∨ x ≤ rg.hi)
    (hle : rg.lo ≤ rg.hi) : rg.contains x = true := by
  unfold Range.contains
  have h2 : decide (rg.lo ≤ x) = true := by simp; omega
  have h3 : decide (rg.lo ≤ rg.hi) = true := by simp; omega
  rcases hh with hh | hh
  · have h5 : decide (rg.lo ≤ rg.scanMax) = true := by simp; omega
    simp [h2, hh, h5]
  · have h4 : decide (x ≤ rg.hi) = true := by simp; omega
    simp [h2, h3, h4]

/-- **Limits are sound**: with limits of the demanded shape (`limitsOk`, an obligation on the
    regenerated values), a request the property certainly calls invalid fails the field checks … -/
theorem C12_limits_reject (lim : Limits) (hl : limitsOk lim = true) (r : AReq)
    (hb : fieldsCertainlyBad r = true) : fieldsOk lim r = false := by
  unfold limitsOk at hl
  simp only [Bool.and_eq_true, beq_iff_eq, decide_eq_true_eq] at hl
  obtain ⟨⟨⟨⟨⟨⟨⟨⟨⟨⟨⟨⟨⟨⟨⟨hm, hms⟩, t0⟩, t1⟩, t2⟩, p0⟩, p1⟩, p2⟩, m0⟩, m1⟩, m2⟩, m3⟩, k0⟩, k1⟩, k2⟩, k3⟩ := hl
  unfold fieldsCertainlyBad at hb
  simp only [Bool.or_eq_true, beq_iff_eq, decide_eq_true_eq] at hb
  unfold fieldsOk optOk
  rcases hb with ((((hb | hb) | hb) | hb) | hb) | hb
  · simp [hm, hb]
  · simp [hms, hb]
  · have := range_lo lim.maxTokens r.maxTokens (by omega) (by omega)
    simp [this]
  · cases ht : r.temperature with
    | none => simp [ht] at hb
    | some t =>
      simp only [ht, decide_eq_true_eq] at hb
      have := range_lo lim.temperature t.micros (by omega) (by omega)
      simp [this]
  · cases ht : r.topP with
    | none => simp [ht] at hb
    | some t =>
      simp only [ht, decide_eq_true_eq] at hb
      have := range_lo lim.topP t.micros (by omega) (by omega)
      simp [this]
  · cases ht : r.topK with
    | none => simp [ht] at hb
    | some k =>
      simp only [ht, decide_eq_true_eq] at hb
      have := range_lo lim.topK k (by omega) (by omega)
      simp [this]

/-- … and a request whose fields the property certainly calls valid passes them. -/
theorem C12_limits_accept (lim : Limits) (hl : limitsOk lim = true) (r : AReq)
    (hg : fieldsCertainlyGood r = true) : fieldsOk lim r = true := by
  unfold limitsOk at hl
  simp only [Bool.and_eq_true, beq_iff_eq, decide_eq_true_eq] at hl
  obtain ⟨⟨⟨⟨⟨⟨⟨⟨⟨⟨⟨⟨⟨⟨⟨hm, hms⟩, t0⟩, t1⟩, t2⟩, p0⟩, p1⟩, p2⟩, m0⟩, m1⟩, m2⟩, m3⟩, k0⟩, k1⟩, k2⟩, k3⟩ := hl
  unfold fieldsCertainlyGood at hg
  simp only [Bool.and_eq_true, bne_iff_ne, ne_eq, Bool.not_eq_true', decide_eq_true_eq] at hg
  obtain ⟨⟨⟨⟨⟨g1, g2⟩, g3⟩, g4⟩, g5⟩, g6⟩ := hg
  have hmax := range_in lim.maxTokens r.maxTokens (by omega) (Or.inl m1) m3
  have htemp : optOk lim.temperature (r.temperature.map (·.micros)) = true := by
    cases ht : r.temperature with
    | none => simp [optOk]
    | some t =>
      simp only [ht, Bool.and_eq_true, decide_eq_true_eq] at g4
      simp only [Option.map, optOk]
      exact range_in lim.temperature t.micros (by omega) (Or.inr (by omega)) (by omega)
  have htopp : optOk lim.topP (r.topP.map (·.micros)) = true := by
    cases ht : r.topP with
    | none => simp [optOk]
    | some t =>
      simp only [ht, Bool.and_eq_true, decide_eq_true_eq] at g5
      simp only [Option.map, optOk]
      exact range_in lim.topP t.micros (by omega) (Or.inr (by omega)) (by omega)
  have htopk : optOk lim.topK r.topK = true := by
    cases ht : r.topK with
    | none => simp [optOk]
    | some k =>
      simp only [ht, decide_eq_true_eq] at g6
      simp only [optOk]
      exact range_in lim.topK k (by omega) (Or.inl k1) k3
  unfold fieldsOk
  simp [g1, g2, hmax, htemp, htopp, htopk]

theorem C12_invalid_rejected_gen (cfg : Cfg) (r : AReq) (h : valid r = false) : ∃ e, translate cfg r = .error e :=
  C12_invalid_rejected genLimits _ gen_choice_errors cfg r h

theorem C12_valid_accepted_gen (cfg : Cfg) (r : AReq) (h : valid r = true) : ∃ o, translate cfg r = .ok o :=
  C12_valid_accepted genLimits _ gen_choice_errors cfg r h

/-! ### Order: system first, turns, text fragments, calls and results in the client's order -/

private def oAtoms (l : List OMsg) : List Atom := l.flatMap omsgAtoms

private theorem oAtoms_append (a b : List OMsg) : oAtoms (a ++ b) = oAtoms a ++ oAtoms b := by
  simp [oAtoms]

private theorem textAtoms_append (role a b : String) : textAtoms role (a ++ b) = textAtoms role a ++ textAtoms role b := by
  simp [textAtoms, String.toList_append]

private theorem textAtoms_empty (role : String) : textAtoms role "" = [] := by simp [textAtoms]

private theorem sysAtoms_append (a b : String) : sysAtoms (a ++ b) = sysAtoms a ++ sysAtoms b := by
  simp [sysAtoms, String.toList_append]

private theorem sysAtoms_empty : sysAtoms "" = [] := by simp [sysAtoms]

private theorem plain_atoms (role s : String) (h : (role == "system") = false) :
    oAtoms [.plain role s] = textAtoms role s := by
  simp [oAtoms, omsgAtoms, h]

private theorem flushUser_atoms (acc : String) : oAtoms (flushUser acc) = textAtoms "user" acc := by
  unfold flushUser
  by_cases h : (acc == "") = true
  · have : acc = "" := by simpa using h
    subst this; simp [oAtoms, textAtoms_empty]
  · simp only [h, Bool.false_eq_true, if_false]
    exact plain_atoms "user" acc (by decide)

/-- Patched user turn: atoms in block order, for any block list without a tool_use. -/
private theorem userInOrder_atoms : ∀ (l : List Block) (acc : String), l.all userBlockOk = true →
    oAtoms (userInOrder acc l) = textAtoms "user" acc ++ l.flatMap (blockAtoms "user")
  | [], acc, _ => by simp [userInOrder, flushUser_atoms]
  | b :: r, acc, h => by
    simp only [List.all_cons, Bool.and_eq_true] at h
    cases b with
    | text s =>
      simp [userInOrder, userInOrder_atoms r (acc ++ s) h.2, textAtoms_append, blockAtoms, List.append_assoc]
    | toolResult id c =>
      simp only [userInOrder, oAtoms_append, flushUser_atoms, List.flatMap_cons, blockAtoms]
      have := userInOrder_atoms r "" h.2
      simp only [textAtoms_empty, List.nil_append] at this
      simp [oAtoms, omsgAtoms] at this ⊢
      rw [this]
    | toolUse id name input => simp [userBlockOk] at h
    | image => simp [userInOrder, userInOrder_atoms r acc h.2, blockAtoms]
    | other => simp [userInOrder, userInOrder_atoms r acc h.2, blockAtoms]

private theorem textAtoms_cat (role : String) : ∀ (l : List String), textAtoms role (cat l) = l.flatMap (textAtoms role)
  | [] => by simp [cat, textAtoms_empty]
  | s :: r => by simp [cat, textAtoms_append, textAtoms_cat role r]

/-- Without non-empty text (and without tool_use) a user block list is just its results. -/
private theorem noText_user : ∀ (l : List Block), l.all userBlockOk = true → noText l = true →
    userTexts l = [] ∧ l.flatMap (blockAtoms "user") = oAtoms (userResults l)
  | [], _, _ => by simp [userTexts, userResults, oAtoms]
  | b :: r, h, hn => by
    simp only [List.all_cons, Bool.and_eq_true] at h
    cases b with
    | text s =>
      simp only [noText, Bool.and_eq_true, beq_iff_eq] at hn
      obtain ⟨h1, h2⟩ := noText_user r h.2 hn.2
      simp [userTexts, userResults, hn.1, h1, blockAtoms, textAtoms_empty, h2]
    | toolResult id c =>
      obtain ⟨h1, h2⟩ := noText_user r h.2 (by simpa [noText] using hn)
      simp [userTexts, userResults, h1, blockAtoms, h2, oAtoms, omsgAtoms]
    | toolUse id name input => simp [userBlockOk] at h
    | image =>
      obtain ⟨h1, h2⟩ := noText_user r h.2 (by simpa [noText] using hn)
      simp [userTexts, userResults, h1, blockAtoms, h2]
    | other =>
      obtain ⟨h1, h2⟩ := noText_user r h.2 (by simpa [noText] using hn)
      simp [userTexts, userResults, h1, blockAtoms, h2]

/-- Pinned user turn: text first, results after — equal to block order exactly when no
    non-empty text follows a tool_result. -/
private theorem userPinned_atoms : ∀ (l : List Block), l.all userBlockOk = true → textBeforeResults l = true →
    textAtoms "user" (cat (userTexts l)) ++ oAtoms (userResults l) = l.flatMap (blockAtoms "user")
  | [], _, _ => by simp [userTexts, userResults, cat, textAtoms_empty, oAtoms]
  | b :: r, h, ht => by
    simp only [List.all_cons, Bool.and_eq_true] at h
    cases b with
    | text s =>
      have ih := userPinned_atoms r h.2 (by simpa [textBeforeResults] using ht)
      by_cases hs : (s != "") = true
      · simp only [userTexts, hs, if_true, cat, textAtoms_append, userResults, List.flatMap_cons, blockAtoms,
          List.append_assoc, ih]
      · have : s = "" := by simpa [bne] using hs
        subst this
        simp [userTexts, userResults, blockAtoms, textAtoms_empty, ih]
    | toolResult id c =>
      obtain ⟨h1, h2⟩ := noText_user r h.2 (by simpa [textBeforeResults] using ht)
      simp [userTexts, userResults, h1, cat, textAtoms_empty, blockAtoms, h2, oAtoms, omsgAtoms]
    | toolUse id name input => simp [userBlockOk] at h
    | image =>
      have ih := userPinned_atoms r h.2 (by simpa [textBeforeResults] using ht)
      simp [userTexts, userResults, blockAtoms, ih]
    | other =>
      have ih := userPinned_atoms r h.2 (by simpa [textBeforeResults] using ht)
      simp [userTexts, userResults, blockAtoms, ih]

private theorem convertUser_atoms (cfg : Cfg) (l : List Block) (hok : l.all userBlockOk = true)
    (h : cfg.userOrder = .fixed ∨ textBeforeResults l = true) :
    oAtoms (convertUser cfg l) = l.flatMap (blockAtoms "user") := by
  unfold convertUser
  cases hv : cfg.userOrder with
  | fixed =>
    simp only []
    rw [userInOrder_atoms l "" hok, textAtoms_empty, List.nil_append]
  | pinned =>
    have ht : textBeforeResults l = true := by
      rcases h with h | h
      · rw [hv] at h; exact absurd h (by decide)
      · exact h
    simp only [oAtoms_append]
    rw [← userPinned_atoms l hok ht]
    congr 1
    by_cases he : (userTexts l).isEmpty = true
    · have : userTexts l = [] := by simpa using he
      simp [this, oAtoms, cat, textAtoms_empty]
    · simp only [he, Bool.false_eq_true, if_false]
      exact plain_atoms "user" _ (by decide)

/-- Without non-empty text an assistant block list is just its calls. -/
private theorem noText_asst : ∀ (l : List Block), l.all asstBlockOk = true → noText l = true →
    cat (asstTexts l) = "" ∧
      l.flatMap (blockAtoms "assistant") = (asstCalls l).map (fun k => Atom.call k.id k.name k.args)
  | [], _, _ => by simp [asstTexts, asstCalls, cat]
  | b :: r, h, hn => by
    simp only [List.all_cons, Bool.and_eq_true] at h
    cases b with
    | text s =>
      simp only [noText, Bool.and_eq_true, beq_iff_eq] at hn
      obtain ⟨h1, h2⟩ := noText_asst r h.2 hn.2
      simp [asstTexts, asstCalls, cat, hn.1, h1, blockAtoms, textAtoms_empty, h2]
    | toolUse id name input =>
      obtain ⟨h1, h2⟩ := noText_asst r h.2 (by simpa [noText] using hn)
      have hb := h.1
      simp only [asstBlockOk, Bool.and_eq_true] at hb
      simp [asstTexts, asstCalls, h1, blockAtoms, h2, hb.1.1, hb.1.2]
    | toolResult id c => simp [asstBlockOk] at h
    | image =>
      obtain ⟨h1, h2⟩ := noText_asst r h.2 (by simpa [noText] using hn)
      simp [asstTexts, asstCalls, h1, blockAtoms, h2]
    | other =>
      obtain ⟨h1, h2⟩ := noText_asst r h.2 (by simpa [noText] using hn)
      simp [asstTexts, asstCalls, h1, blockAtoms, h2]

private theorem asst_split : ∀ (l : List Block), l.all asstBlockOk = true → textBeforeCalls l = true →
    textAtoms "assistant" (cat (asstTexts l)) ++ (asstCalls l).map (fun k => Atom.call k.id k.name k.args) =
      l.flatMap (blockAtoms "assistant")
  | [], _, _ => by simp [asstTexts, asstCalls, cat, textAtoms_empty]
  | b :: r, h, ht => by
    simp only [List.all_cons, Bool.and_eq_true] at h
    cases b with
    | text s =>
      have ih := asst_split r h.2 (by simpa [textBeforeCalls] using ht)
      simp only [asstTexts, cat, textAtoms_append, asstCalls, List.flatMap_cons, blockAtoms, List.append_assoc, ih]
    | toolUse id name input =>
      obtain ⟨h1, h2⟩ := noText_asst r h.2 (by simpa [textBeforeCalls] using ht)
      have hb := h.1
      simp only [asstBlockOk, Bool.and_eq_true] at hb
      simp [asstTexts, asstCalls, h1, textAtoms_empty, blockAtoms, h2, hb.1.1, hb.1.2]
    | toolResult id c => simp [asstBlockOk] at h
    | image =>
      have ih := asst_split r h.2 (by simpa [textBeforeCalls] using ht)
      simp [asstTexts, asstCalls, blockAtoms, ih]
    | other =>
      have ih := asst_split r h.2 (by simpa [textBeforeCalls] using ht)
      simp [asstTexts, asstCalls, blockAtoms, ih]

private theorem convertAssistant_atoms (l : List Block) :
    oAtoms (convertAssistant l) =
      textAtoms "assistant" (cat (asstTexts l)) ++ (asstCalls l).map (fun k => Atom.call k.id k.name k.args) := by
  unfold convertAssistant
  by_cases hc : (asstCalls l).isEmpty = true
  · have hc' : asstCalls l = [] := by simpa using hc
    simp only [hc', List.isEmpty_nil, if_true, List.map_nil, List.append_nil]
    by_cases ht : (cat (asstTexts l) == "") = true
    · have : cat (asstTexts l) = "" := by simpa using ht
      simp [this, oAtoms, textAtoms_empty]
    · simp only [ht, Bool.false_eq_true, if_false]
      exact plain_atoms "assistant" _ (by decide)
  · simp only [hc, Bool.false_eq_true, if_false]
    by_cases ht : (cat (asstTexts l) != "") = true
    · simp [oAtoms, omsgAtoms, ht]
    · have : cat (asstTexts l) = "" := by simpa [bne] using ht
      simp [oAtoms, omsgAtoms, this, textAtoms_empty]

private theorem sys_atoms (s : Sys) : oAtoms (convertSystem s) = systemAtoms s := by
  have key : sysAtoms (cat (sysParts s)) = systemAtoms s := by
    cases s with
    | absent => simp [sysParts, cat, systemAtoms, sysAtoms_empty]
    | other => simp [sysParts, cat, systemAtoms, sysAtoms_empty]
    | str t =>
      by_cases ht : (t != "") = true
      · simp [sysParts, ht, cat, systemAtoms]
      · have : t = "" := by simpa [bne] using ht
        subst this; simp [sysParts, cat, systemAtoms, sysAtoms_empty]
    | blocks l =>
      simp only [sysParts, systemAtoms]
      induction l with
      | nil => simp [sysBlockParts, cat, sysAtoms_empty]
      | cons b r ih =>
        cases b with
        | other => simpa [sysBlockParts] using ih
        | text t =>
          by_cases ht : (t != "") = true
          · simp only [sysBlockParts, ht, if_true, cat, sysAtoms_append, ih, List.flatMap_cons]
          · have : t = "" := by simpa [bne] using ht
            subst this
            simpa [sysBlockParts, sysAtoms_empty] using ih
  unfold convertSystem
  by_cases he : (sysParts s).isEmpty = true
  · have : sysParts s = [] := by simpa using he
    rw [← key]; simp [this, oAtoms, cat, sysAtoms_empty]
  · simp only [he, Bool.false_eq_true, if_false]
    rw [← key]; simp [oAtoms, omsgAtoms]

/-- One well-roled message translates to the atoms the client wrote. -/
private theorem convertSingle_atoms (cfg : Cfg) (m : Msg)
    (hr : ((m.role == "user" && (contentBlocks m.content).all userBlockOk) ||
           (m.role == "assistant" && (contentBlocks m.content).all asstBlockOk)) = true)
    (hu : cfg.userOrder = .fixed ∨ (m.role != "user" || textBeforeResults (contentBlocks m.content)) = true)
    (ha : (m.role != "assistant" || textBeforeCalls (contentBlocks m.content)) = true)
    (hb : m.content.isBad = false) :
    oAtoms (convertSingle cfg m) = msgAtoms m := by
  have hblocks : ∀ l, contentBlocks m.content = l →
      (m.content = .blocks l ∨ (∃ b, m.content = .single b ∧ l = [b])) →
      oAtoms (byRole cfg m.role l) = l.flatMap (blockAtoms m.role) := by
    intro l hl _
    rw [hl] at hr hu ha
    simp only [Bool.or_eq_true, Bool.and_eq_true, beq_iff_eq] at hr
    rcases hr with ⟨hrole, hok⟩ | ⟨hrole, hok⟩
    · rw [hrole] at hu ⊢
      simp only [byRole, beq_self_eq_true, if_true]
      apply convertUser_atoms cfg l hok
      rcases hu with hu | hu
      · exact Or.inl hu
      · right; simpa using hu
    · rw [hrole] at ha ⊢
      have hne : ("assistant" == "user") = false := by decide
      simp only [byRole, hne, Bool.false_eq_true, if_false, beq_self_eq_true, if_true]
      rw [convertAssistant_atoms]
      exact asst_split l hok (by simpa using ha)
  have hrole : (m.role == "system") = false := by
    simp only [Bool.or_eq_true, Bool.and_eq_true, beq_iff_eq] at hr
    rcases hr with ⟨h, _⟩ | ⟨h, _⟩ <;> rw [h] <;> decide
  unfold convertSingle msgAtoms
  cases hc : m.content with
  | str s =>
    simp only []
    by_cases hs : (s != "") = true
    · simp only [hs, if_true]; exact plain_atoms m.role s hrole
    · have : s = "" := by simpa [bne] using hs
      subst this; simp [oAtoms, textAtoms_empty]
  | blocks l => simp only []; exact hblocks l (by simp [hc, contentBlocks]) (Or.inl hc)
  | single b =>
    simp only []
    have := hblocks [b] (by simp [hc, contentBlocks]) (Or.inr ⟨b, hc, rfl⟩)
    simpa using this
  | bad => simp [hc, Content.isBad] at hb

private theorem flatMap_atoms (cfg : Cfg) : ∀ (ms : List Msg),
    (∀ m ∈ ms, oAtoms (convertSingle cfg m) = msgAtoms m) →
    oAtoms (ms.flatMap (convertSingle cfg)) = ms.flatMap msgAtoms
  | [], _ => by simp [oAtoms]
  | m :: r, h => by
    simp only [List.flatMap_cons, oAtoms_append]
    rw [h m (by simp), flatMap_atoms cfg r (fun x hx => h x (by simp [hx]))]

/-- **Order**, parametric in the defect switch: for every accepted request that respects the
    role discipline, the OpenAI messages read back as exactly the atoms the client wrote —
    system text first, then every turn's text characters (tagged with the role), tool calls
    (id, name, argument token) and tool results (call id, content) in the client's order.
    `asstTextFirst` is forced by the target format (an OpenAI assistant message has one content
    string followed by its tool_calls); `userTextFirst` is needed only while `userOrder` is
    `.pinned`. -/
theorem C12_order (lim : Limits) (tbl : ChoiceTable) (cfg : Cfg) (r : AReq) (o : OReq)
    (h : translateIn lim tbl cfg r = .ok o) (hw : wellRoled r = true)
    (hu : cfg.userOrder = .fixed ∨ userTextFirst r = true) (ha : asstTextFirst r = true) :
    atomsO o = atomsA r := by
  obtain ⟨_, hb, _, _, _, _, _, _, hm, _⟩ := translate_inv h
  unfold atomsO atomsA
  rw [hm]
  have := oAtoms_append (convertSystem r.system) (r.messages.flatMap (convertSingle cfg))
  unfold oAtoms at this
  rw [this]
  have hs := sys_atoms r.system
  unfold oAtoms at hs
  rw [hs]
  congr 1
  have := flatMap_atoms cfg r.messages (by
    intro m hm
    unfold wellRoled at hw
    unfold asstTextFirst at ha
    apply convertSingle_atoms cfg m (List.all_eq_true.mp hw m hm)
    · rcases hu with hu | hu
      · exact Or.inl hu
      · right; unfold userTextFirst at hu; exact List.all_eq_true.mp hu m hm
    · exact List.all_eq_true.mp ha m hm
    · have := List.any_eq_false.mp hb m hm
      simpa using this)
  unfold oAtoms at this
  exact this

/-- Patched tree: block order inside user turns is kept, no condition on them. -/
theorem C12_order_fixed (r : AReq) (o : OReq) (h : translate fixed r = .ok o) (hw : wellRoled r = true)
    (ha : asstTextFirst r = true) : atomsO o = atomsA r :=
  C12_order genLimits _ fixed r o h hw (Or.inl rfl) ha

/-- Pinned tree: additionally no user turn has non-empty text after a tool_result. -/
theorem C12_order_partial (r : AReq) (o : OReq) (h : translate pinned r = .ok o) (hw : wellRoled r = true)
    (hu : userTextFirst r = true) (ha : asstTextFirst r = true) : atomsO o = atomsA r :=
  C12_order genLimits _ pinned r o h hw (Or.inr hu) ha

/-- The shape the task statement uses: valid ⇒ translated, and the translation keeps the order. -/
theorem C12_order_valid (cfg : Cfg) (r : AReq) (hv : valid r = true) (hw : wellRoled r = true)
    (hu : cfg.userOrder = .fixed ∨ userTextFirst r = true) (ha : asstTextFirst r = true) :
    ∃ o, translate cfg r = .ok o ∧ atomsO o = atomsA r := by
  obtain ⟨o, ho⟩ := C12_valid_accepted_gen cfg r hv
  exact ⟨o, ho, C12_order genLimits _ cfg r o ho hw hu ha⟩

/-- DESIGN §4 row 15: the user answers a tool call and adds a remark, in the order Anthropic
    mandates (tool_result first). -/
def orderWitness : AReq :=
  { model := "m", maxTokens := 5, stream := false, temperature := none, topP := none, topK := none, stop := [],
    system := .absent,
    messages := [⟨"user", .str "q"⟩,
                 ⟨"assistant", .blocks [.toolUse "t1" "f" (some "{\"a\":1}")]⟩,
                 ⟨"user", .blocks [.toolResult "t1" (.str "42"), .text "thanks"]⟩],
    tools := [], choice := .absent }

/-- The full-strength order statement is FALSE for the pinned tree: the request is valid and
    well-roled, yet the remark is sent BEFORE the tool result (which also separates the tool
    message from the assistant message that called it).  The patched variant keeps the order. -/
theorem C12_order_witness :
    limitsOk testLimits = true ∧ validIn testLimits errorRows orderWitness = true ∧
    wellRoled orderWitness = true ∧ asstTextFirst orderWitness = true ∧
    (match translateIn testLimits pinnedChoiceTable pinned orderWitness with
     | .ok o => o.messages == [.plain "user" "q", .assistant none [⟨"t1", "f", "{\"a\":1}"⟩],
                               .plain "user" "thanks", .tool "t1" (.str "42")] && atomsO o != atomsA orderWitness
     | .error _ => false) = true ∧
    (match translateIn testLimits pinnedChoiceTable fixed orderWitness with
     | .ok o => atomsO o == atomsA orderWitness
     | .error _ => false) = true := by
  decide

/-- An assistant turn with text AFTER a tool_use. -/
def asstOrderWitness : AReq :=
  { orderWitness with
    messages := [⟨"user", .str "q"⟩, ⟨"assistant", .blocks [.toolUse "t1" "f" (some "{}"), .text "done"]⟩] }

/-- Why `asstTextFirst` stays a hypothesis even for the patched tree: the OpenAI message puts the
    text in `content` and the call in `tool_calls`; read back, the text comes first. -/
theorem C12_assistant_order_witness :
    validIn testLimits errorRows asstOrderWitness = true ∧ wellRoled asstOrderWitness = true ∧
    asstTextFirst asstOrderWitness = false ∧
    (match translateIn testLimits pinnedChoiceTable fixed asstOrderWitness with
     | .ok o => atomsO o != atomsA asstOrderWitness
     | .error _ => false) = true := by
  decide

/-! ### Non-vacuity -/

def sampleReq : AReq :=
  { model := "claude-x", maxTokens := 100, stream := true, temperature := some ⟨"0.7", 700000⟩, topP := none,
    topK := some 5, stop := ["END"],
    system := .blocks [.text "You are ", .other, .text "helpful."],
    messages := [⟨"user", .blocks [.text "a", .image, .text "b"]⟩,
                 ⟨"assistant", .blocks [.text "let me ", .text "see", .toolUse "t1" "f" (some "{\"x\":[1]}"), .toolUse "t2" "g" (some "{}")]⟩,
                 ⟨"user", .blocks [.toolResult "t1" (.json "[1,2]"), .toolResult "t2" .none]⟩,
                 ⟨"assistant", .str "ok"⟩],
    tools := [⟨"f", "does f", "{\"type\":\"object\"}"⟩, ⟨"g", "", "null"⟩],
    choice := .obj "tool" (some "f") }

private def tr (r : AReq) : Except Err OReq := translateIn testLimits pinnedChoiceTable pinned r
private def errIs (x : Except Err OReq) (e : Err) : Bool := match x with | .error e' => e' == e | .ok _ => false

example : validIn testLimits errorRows sampleReq = true ∧ wellRoled sampleReq = true ∧ userTextFirst sampleReq = true ∧
    asstTextFirst sampleReq = true ∧ fieldsCertainlyGood sampleReq = true := by decide
example : (match tr sampleReq with
    | .ok o => atomsO o == atomsA sampleReq && scalarsPreserved sampleReq o && toolsPreserved sampleReq o &&
               choicePreserved sampleReq o && o.choice == some (.function "f") && o.messages.length == 6
    | .error _ => false) = true := by decide
example : errIs (tr { sampleReq with maxTokens := 0 }) (.validation "max_tokens") = true := by decide
example : errIs (tr { sampleReq with temperature := some ⟨"2.5", 2500000⟩ }) (.validation "temperature") = true := by decide
example : errIs (tr { sampleReq with messages := [⟨"user", .bad⟩] }) .content = true := by decide
example : errIs (tr { sampleReq with choice := .obj "tool" none }) .toolChoice = true := by decide
example : validIn testLimits errorRows { sampleReq with choice := .obj "tool" none } = false := by decide
example : fieldsCertainlyBad { sampleReq with maxTokens := 0 } = true := by decide

/-! ### tie: no process-wide state on the modelled path

The theorems above are about single calls (or the history of one object). They cover every
request of a running process only if a call reaches no state that outlives it besides that
object. `Olla.Gen.State` is re-read from the source on every run: the package-level variables
reachable from each function inside its package that the package changes after initialisation. -/
theorem C12_tie_no_process_wide_state :
    Olla.Spec.State.reachesOnly "anthropic.TransformRequest" [] = true := by decide

end Olla.Props.C12
