/-
C19 — Gauges and counters add up.
Theorems about `Olla.Model.Counters` on top of the retry-loop model `Olla.Model.Retry.execute`
(the model C02 / C04 use), for every candidate list, every selector meeting the C06 contract, every
assignment of attempt outcomes and EVERY interleaving of N concurrent requests.
-/
import Olla.Model.Retry
import Olla.Model.Counters
import Olla.Spec.C19
import Olla.Props.C02

namespace Olla.Props.C19
open Olla.Model.Retry Olla.Model.Counters Olla.Spec.C19 Olla.Props.C02

/-! ### Sums over requests -/

private theorem sumTo_zero (n : Nat) : sumTo (fun _ => 0) n = 0 := by
  induction n with
  | zero => rfl
  | succ n ih => simp [sumTo, ih]

private theorem sumTo_congr (f g : Nat → Nat) (n : Nat) (h : ∀ i, i < n → f i = g i) : sumTo f n = sumTo g n := by
  induction n with
  | zero => rfl
  | succ n ih =>
    simp only [sumTo]
    rw [ih (fun i hi => h i (Nat.lt_succ_of_lt hi)), h n (Nat.lt_succ_self n)]

private theorem sumTo_update (f : Nat → Nat) (i a : Nat) (n : Nat) (hi : i < n) :
    sumTo (fun j => if j = i then a else f j) n + f i = sumTo f n + a := by
  induction n with
  | zero => omega
  | succ n ih =>
    simp only [sumTo]
    by_cases h : i = n
    · subst h
      have : sumTo (fun j => if j = i then a else f j) i = sumTo f i :=
        sumTo_congr _ _ _ (fun j hj => by simp [Nat.ne_of_lt hj])
      simp [this]; omega
    · have hlt : i < n := by omega
      have := ih hlt
      have hn : (if n = i then a else f n) = f n := by simp [Ne.symm h]
      rw [hn]; omega

private theorem le_sumTo (f : Nat → Nat) (i n : Nat) (hi : i < n) : f i ≤ sumTo f n := by
  induction n with
  | zero => omega
  | succ n ih =>
    simp only [sumTo]
    by_cases h : i = n
    · subst h; omega
    · have := ih (by omega); omega

private theorem sumTo_add (f g : Nat → Nat) (n : Nat) : sumTo (fun i => f i + g i) n = sumTo f n + sumTo g n := by
  induction n with
  | zero => rfl
  | succ n ih => simp only [sumTo, ih]; omega

/-! ### Interleavings: every additive counter of the shared trace is the sum over the requests -/

/-- A counter that is additive over concatenation is, on any interleaving, the sum of its values on
    the per-request sequences. (Used for `countSucc`, `countFail`, `attempts`, and the per-endpoint ones.) -/
theorem counter_is_sum {α : Type} (c : List α → Nat) (h0 : c [] = 0) (hadd : ∀ a b, c (a ++ b) = c a + c b)
    (N : Nat) (ps : Nat → List α) (tr : List α) (h : Interleaving N ps tr) :
    c tr = sumTo (fun i => c (ps i)) N := by
  induction h with
  | nil => simp [h0, sumTo_zero]
  | @snoc ps tr i ev hi _ ih =>
    rw [hadd, ih]
    have hu := sumTo_update (fun j => c (ps j)) i (c (ps i ++ [ev])) N hi
    have hc : sumTo (fun j => c (if j = i then ps i ++ [ev] else ps j)) N =
        sumTo (fun j => if j = i then c (ps i ++ [ev]) else c (ps j)) N :=
      sumTo_congr _ _ _ (fun j _ => by by_cases hj : j = i <;> simp [hj])
    rw [hc]
    have h2 := hadd (ps i) [ev]
    omega

/-- Every prefix of an interleaving is an interleaving of prefixes of the same requests. -/
theorem interleaving_take {α : Type} (N : Nat) (ts : Nat → List α) (tr : List α) (h : Interleaving N ts tr) (k : Nat) :
    ∃ ps, Interleaving N ps (tr.take k) ∧ ∀ i, ps i <+: ts i := by
  induction h with
  | nil => exact ⟨fun _ => [], by simpa using Interleaving.nil, fun _ => List.prefix_refl _⟩
  | @snoc ps0 tr0 i ev hi hprev ih =>
    by_cases hk : k ≤ tr0.length
    · obtain ⟨ps, h1, h2⟩ := ih
      refine ⟨ps, ?_, ?_⟩
      · rw [List.take_append_of_le_length hk]; exact h1
      · intro j
        by_cases hj : j = i
        · subst hj; simp only [↓reduceIte]; exact (h2 j).trans (List.prefix_append _ _)
        · simp only [hj, ↓reduceIte]; exact h2 j
    · refine ⟨_, ?_, fun _ => List.prefix_refl _⟩
      have : (tr0 ++ [ev]).take k = tr0 ++ [ev] := List.take_of_length_le (by simp; omega)
      rw [this]
      exact Interleaving.snoc i ev hi hprev

/-- A request may run any number of its steps in a row. -/
theorem interleaving_append {α : Type} (N : Nat) (i : Nat) (hi : i < N) (l : List α) :
    ∀ (ps : Nat → List α) (tr : List α), Interleaving N ps tr →
      Interleaving N (fun j => if j = i then ps i ++ l else ps j) (tr ++ l) := by
  induction l with
  | nil =>
    intro ps tr h
    have e : (fun j => if j = i then ps i ++ [] else ps j) = ps := by
      funext j; by_cases hj : j = i <;> simp [hj]
    rw [e, List.append_nil]; exact h
  | cons x l ih =>
    intro ps tr h
    have h2 := ih _ _ (Interleaving.snoc i x hi h)
    have e : (fun j => if j = i then (fun j => if j = i then ps i ++ [x] else ps j) i ++ l
                       else (fun j => if j = i then ps i ++ [x] else ps j) j) =
             (fun j => if j = i then ps i ++ x :: l else ps j) := by
      funext j; by_cases hj : j = i <;> simp [hj]
    rw [e] at h2
    have e2 : tr ++ [x] ++ l = tr ++ x :: l := by simp
    rw [e2] at h2; exact h2

/-- Sequential execution (request 0 completely, then request 1) is one of the interleavings. -/
theorem interleaving_sequential {α : Type} (a b : List α) :
    Interleaving 2 (fun j => if j = 0 then a else if j = 1 then b else []) (a ++ b) := by
  have h1 := interleaving_append 2 0 (by omega) a _ _ (Interleaving.nil (α := α) (N := 2))
  have h2 := interleaving_append 2 1 (by omega) b _ _ h1
  have e : (fun j => if j = 1 then (fun j => if j = 0 then (fun _ => ([] : List α)) 0 ++ a else (fun _ => []) j) 1 ++ b
                     else (fun j => if j = 0 then (fun _ => ([] : List α)) 0 ++ a else (fun _ => []) j) j) =
           (fun j => if j = 0 then a else if j = 1 then b else []) := by
    funext j
    by_cases h0 : j = 0
    · subst h0; simp
    · by_cases h1 : j = 1
      · subst h1; simp
      · simp [h0, h1]
  rw [e] at h2
  simpa using h2

/-! ### One request: the bracket discipline of `executeProxyAttempt` + `proxyToSingleEndpoint` -/

private theorem phaseScan_append (p : Phase) (a b : List Ev) :
    phaseScan p (a ++ b) = (phaseScan p a).bind (fun q => phaseScan q b) := by
  induction a generalizing p with
  | nil => simp [phaseScan]
  | cons x xs ih =>
    simp only [List.cons_append, phaseScan]
    cases phaseStep p x with
    | none => simp
    | some q => simp [ih]

private theorem phaseScan_attempt (e : Nat) (a : Attempt) :
    phaseScan .idle ([Ev.selected e, Ev.inc e] ++ attemptEvents e a ++ [Ev.dec e]) = some .idle := by
  cases a <;> simp [attemptEvents, phaseScan, phaseStep]

private theorem scan_ext (tr : List Ev) (h : phaseScan .idle tr = some .idle) (e : Nat) (a : Attempt)
    (suffix : List Ev) (hs : phaseScan .idle suffix = some .idle) :
    phaseScan .idle (tr ++ [Ev.selected e, Ev.inc e] ++ attemptEvents e a ++ [Ev.dec e] ++ suffix) = some .idle := by
  have e1 : tr ++ [Ev.selected e, Ev.inc e] ++ attemptEvents e a ++ [Ev.dec e] ++ suffix =
      tr ++ (([Ev.selected e, Ev.inc e] ++ attemptEvents e a ++ [Ev.dec e]) ++ suffix) := by
    simp [List.append_assoc]
  rw [e1, phaseScan_append, h]
  simp only [Option.bind_some]
  rw [phaseScan_append, phaseScan_attempt]
  simpa using hs

private theorem countSucc_append (a b : List Ev) : countSucc (a ++ b) = countSucc a + countSucc b := by
  induction a with
  | nil => simp [countSucc]
  | cons x xs ih => cases x <;> simp [countSucc, ih] <;> omega

private theorem countFail_append (a b : List Ev) : countFail (a ++ b) = countFail a + countFail b := by
  induction a with
  | nil => simp [countFail]
  | cons x xs ih => cases x <;> simp [countFail, ih] <;> omega

private theorem attempts_append (a b : List Ev) : attempts (a ++ b) = attempts a + attempts b := by
  induction a with
  | nil => simp [attempts]
  | cons x xs ih => cases x <;> simp [attempts, ih] <;> omega

private theorem attemptsOn_append (e : Nat) (a b : List Ev) : attemptsOn e (a ++ b) = attemptsOn e a + attemptsOn e b := by
  induction a with
  | nil => simp [attemptsOn]
  | cons x xs ih => cases x <;> simp [attemptsOn, ih] <;> omega

private theorem succOn_append (e : Nat) (a b : List Ev) : succOn e (a ++ b) = succOn e a + succOn e b := by
  induction a with
  | nil => simp [succOn]
  | cons x xs ih => cases x <;> simp [succOn, ih] <;> omega

private theorem failOn_append (e : Nat) (a b : List Ev) : failOn e (a ++ b) = failOn e a + failOn e b := by
  induction a with
  | nil => simp [failOn]
  | cons x xs ih => cases x <;> simp [failOn, ih] <;> omega

private theorem countSucc_block (e : Nat) (a : Attempt) (suffix : List Ev) (hs : countSucc suffix = 0) (tr : List Ev) :
    countSucc (tr ++ [Ev.selected e, Ev.inc e] ++ attemptEvents e a ++ [Ev.dec e] ++ suffix) =
      countSucc tr + (match a with | .ok _ => 1 | _ => 0) := by
  simp only [countSucc_append, hs]
  cases a <;> simp [attemptEvents, countSucc]

/-- Everything the theorems below need about one run of the retry loop. -/
private theorem loop_inv (select : List Nat → Option Nat) (outcome : Nat → Attempt) :
    ∀ (fuel : Nat) (avail : List Nat) (tr : List Ev), phaseScan .idle tr = some .idle →
      phaseScan .idle (loop select outcome fuel avail tr).1 = some .idle ∧
      countSucc (loop select outcome fuel avail tr).1 =
        countSucc tr + (served (loop select outcome fuel avail tr)).toNat := by
  intro fuel
  induction fuel with
  | zero => intro avail tr h; simp [loop, served, h]
  | succ n ih =>
    intro avail tr h
    unfold loop
    by_cases hempty : avail = []
    · simp [hempty, served, h]
    · simp only [hempty, ↓reduceIte]
      cases hs : select avail with
      | none => simp [served, h]
      | some e =>
        simp only
        cases ha : outcome e with
        | ok r =>
          simp only
          refine ⟨by simpa using scan_ext tr h e (.ok r) [] rfl, ?_⟩
          have := countSucc_block e (.ok r) [] rfl tr
          simp only [List.append_nil] at this
          rw [this]; simp [served]
        | skip =>
          simp only
          have h1 := scan_ext tr h e .skip [Ev.removed e] (by simp [phaseScan, phaseStep])
          obtain ⟨i1, i2⟩ := ih (avail.erase e) _ h1
          refine ⟨i1, ?_⟩
          rw [i2, countSucc_block e .skip [Ev.removed e] (by simp [countSucc]) tr]
          simp
        | failBefore re =>
          cases re with
          | true =>
            simp only
            have h1 := scan_ext tr h e (.failBefore true) [Ev.markOffline e, Ev.removed e] (by simp [phaseScan, phaseStep])
            obtain ⟨i1, i2⟩ := ih (avail.erase e) _ h1
            refine ⟨i1, ?_⟩
            rw [i2, countSucc_block e (.failBefore true) [Ev.markOffline e, Ev.removed e] (by simp [countSucc]) tr]
            simp
          | false =>
            simp only
            refine ⟨by simpa using scan_ext tr h e (.failBefore false) [] rfl, ?_⟩
            have := countSucc_block e (.failBefore false) [] rfl tr
            simp only [List.append_nil] at this
            rw [this]; simp [served]
        | failAfter r k re =>
          cases re with
          | true =>
            simp only
            refine ⟨scan_ext tr h e (.failAfter r k true) [Ev.markOffline e] (by simp [phaseScan, phaseStep]), ?_⟩
            rw [countSucc_block e (.failAfter r k true) [Ev.markOffline e] (by simp [countSucc]) tr]
            simp [served]
          | false =>
            simp only
            refine ⟨by simpa using scan_ext tr h e (.failAfter r k false) [] rfl, ?_⟩
            have := countSucc_block e (.failAfter r k false) [] rfl tr
            simp only [List.append_nil] at this
            rw [this]; simp [served]

/-- **Every attempt is recorded exactly once** (one request): in the trace of `ExecuteWithRetry` every
    `Increment e` is followed by exactly one `RecordSuccess e` / `RecordFailure e` and then by `Decrement e`;
    nothing is recorded outside such a bracket, brackets do not nest, and the request ends outside one —
    for every candidate list, selector and outcome assignment (failovers, skips, mid-stream errors). -/
theorem C19_request_discipline (select : List Nat → Option Nat) (outcome : Nat → Attempt) (eps : List Nat) :
    phaseScan .idle (execute select outcome eps).1 = some .idle := by
  unfold execute
  by_cases h : eps = []
  · simp [h, phaseScan]
  · simp only [h, ↓reduceIte]
    exact (loop_inv select outcome eps.length eps [] (by simp [phaseScan])).1

/-- One request records exactly one success if it is served and none otherwise. -/
theorem C19_request_success_iff_served (select : List Nat → Option Nat) (outcome : Nat → Attempt) (eps : List Nat) :
    countSucc (execute select outcome eps).1 = (served (execute select outcome eps)).toNat := by
  unfold execute
  by_cases h : eps = []
  · simp [h, countSucc, served]
  · simp only [h, ↓reduceIte]
    simpa [countSucc] using (loop_inv select outcome eps.length eps [] (by simp [phaseScan])).2

/-! ### The gauge under arbitrary interleavings -/

private def gstep (e : Nat) (g : Int) : Ev → Int
  | .inc e' => if e' = e then g + 1 else g
  | .dec e' => if e' = e then (if g - 1 < 0 then 0 else g - 1) else g
  | _ => g

private theorem gauge_snoc (e : Nat) (a : List Ev) (x : Ev) : ∀ g, gauge e (a ++ [x]) g = gstep e (gauge e a g) x := by
  induction a with
  | nil => intro g; cases x <;> rfl
  | cons y ys ih => intro g; cases y <;> simp [gauge, ih]

/-- 1 if the phase is "inside an attempt on `e`". -/
private def ind (e : Nat) : Phase → Nat
  | .inAttempt e' _ => if e' = e then 1 else 0
  | .idle => 0

private theorem inFlight_eq (e : Nat) (p : List Ev) (st : Phase) (h : phaseScan .idle p = some st) :
    inFlight e p = ind e st := by
  unfold inFlight; rw [h]; cases st <;> simp [ind]

/-- One legal step moves the gauge exactly as it moves the in-flight indicator of the stepping request
    (the clamp at zero never fires because the stepping request itself accounts for one unit). -/
private theorem step_gauge (e : Nat) (st st' : Phase) (ev : Ev) (h : phaseStep st ev = some st') (g : Int)
    (hg : (ind e st : Int) ≤ g) : gstep e g ev = g - ind e st + ind e st' := by
  cases st with
  | idle =>
    cases ev <;> simp [phaseStep] at h <;> subst h <;> simp [gstep, ind]
    · split <;> simp_all
  | inAttempt a r =>
    cases r <;> cases ev <;> simp [phaseStep] at h
    all_goals (try (obtain ⟨h1, h2⟩ := h; subst h1; subst h2))
    all_goals (try subst h)
    all_goals (simp [gstep, ind] at *)
    all_goals (try (split <;> simp_all <;> omega))

private theorem snoc_scan (p : List Ev) (ev : Ev) (st' : Phase) (h : phaseScan .idle (p ++ [ev]) = some st') :
    ∃ st, phaseScan .idle p = some st ∧ phaseStep st ev = some st' := by
  rw [phaseScan_append] at h
  cases hp : phaseScan .idle p with
  | none => simp [hp] at h
  | some st =>
    refine ⟨st, rfl, ?_⟩
    simp only [hp, Option.bind_some, phaseScan] at h
    cases hs : phaseStep st ev with
    | none => simp [hs] at h
    | some q => simp [hs] at h; simp [h]

/-- **The gauge equals the number of attempts in flight** — core statement: whenever the shared trace is
    an interleaving of per-request sequences that respect the bracket discipline so far, the collector's
    gauge for `e` (clamped decrement and all) equals the number of requests currently inside an attempt on `e`. -/
theorem gauge_eq_inflight_core (e : Nat) (N : Nat) (ps : Nat → List Ev) (tr : List Ev) (h : Interleaving N ps tr) :
    (∀ j, j < N → ∃ st, phaseScan .idle (ps j) = some st) →
    gauge e tr 0 = (sumTo (fun i => inFlight e (ps i)) N : Nat) := by
  induction h with
  | nil => intro _; simp [gauge, inFlight, phaseScan, sumTo_zero]
  | @snoc ps tr i ev hi _ ih =>
    intro hok
    obtain ⟨st', hst'⟩ := hok i hi
    simp only [↓reduceIte] at hst'
    obtain ⟨st, hst, hstep⟩ := snoc_scan (ps i) ev st' hst'
    have hok' : ∀ j, j < N → ∃ st, phaseScan .idle (ps j) = some st := by
      intro j hj
      by_cases hji : j = i
      · subst hji; exact ⟨st, hst⟩
      · have := hok j hj; simpa [hji] using this
    have ihv := ih hok'
    rw [gauge_snoc, ihv]
    have hle : inFlight e (ps i) ≤ sumTo (fun i => inFlight e (ps i)) N := le_sumTo (fun i => inFlight e (ps i)) i N hi
    have e1 : inFlight e (ps i) = ind e st := inFlight_eq e _ _ hst
    have e2 : inFlight e (ps i ++ [ev]) = ind e st' := inFlight_eq e _ _ hst'
    have hsg := step_gauge e st st' ev hstep (sumTo (fun i => inFlight e (ps i)) N : Nat) (by rw [← e1]; exact_mod_cast hle)
    rw [hsg]
    have hu := sumTo_update (fun j => inFlight e (ps j)) i (inFlight e (ps i ++ [ev])) N hi
    have hc : sumTo (fun j => inFlight e (if j = i then ps i ++ [ev] else ps j)) N =
        sumTo (fun j => if j = i then inFlight e (ps i ++ [ev]) else inFlight e (ps j)) N :=
      sumTo_congr _ _ _ (fun j _ => by by_cases hj : j = i <;> simp [hj])
    rw [hc]
    omega

/-- The sequences of `N` requests that each run `ExecuteWithRetry` to completion. -/
def Requests (N : Nat) (ts : Nat → List Ev) : Prop :=
  ∀ i, i < N → ∃ select outcome eps, ts i = (execute select outcome eps).1

private theorem prefix_scan (p t : List Ev) (hp : p <+: t) (ht : ∃ st, phaseScan .idle t = some st) :
    ∃ st, phaseScan .idle p = some st := by
  obtain ⟨q, rfl⟩ := hp
  obtain ⟨st, hst⟩ := ht
  rw [phaseScan_append] at hst
  cases h : phaseScan .idle p with
  | none => simp [h] at hst
  | some s => exact ⟨s, rfl⟩

/-- **After every prefix of every interleaving** of `N` concurrent requests — whatever their candidate
    lists, selectors and attempt outcomes — the gauge of every endpoint equals the number of attempts
    currently open on it (the per-request prefixes `ps` say where each request stands) and is not negative. -/
theorem C19_gauge_eq_inflight (N : Nat) (ts : Nat → List Ev) (hreq : Requests N ts) (tr : List Ev)
    (h : Interleaving N ts tr) (e : Nat) (k : Nat) :
    ∃ ps, Interleaving N ps (tr.take k) ∧ (∀ i, ps i <+: ts i) ∧
      gaugeMatches (gauge e (tr.take k) 0) (sumTo (fun i => inFlight e (ps i)) N : Nat) = true := by
  obtain ⟨ps, h1, h2⟩ := interleaving_take N ts tr h k
  refine ⟨ps, h1, h2, ?_⟩
  have hok : ∀ j, j < N → ∃ st, phaseScan .idle (ps j) = some st := by
    intro j hj
    obtain ⟨sel, out, eps, he⟩ := hreq j hj
    exact prefix_scan (ps j) (ts j) (h2 j) ⟨.idle, by rw [he]; exact C19_request_discipline sel out eps⟩
  have := gauge_eq_inflight_core e N ps (tr.take k) h1 hok
  unfold gaugeMatches
  rw [this]; simp

/-- **The gauge returns to zero when traffic stops**: after any complete interleaving of `N` requests. -/
theorem C19_gauge_zero_at_quiescence (N : Nat) (ts : Nat → List Ev) (hreq : Requests N ts) (tr : List Ev)
    (h : Interleaving N ts tr) (es : List Nat) : quiescent (es.map (fun e => gauge e tr 0)) = true := by
  unfold quiescent
  rw [List.all_eq_true]
  intro g hg
  obtain ⟨e, _, rfl⟩ := List.mem_map.mp hg
  have hok : ∀ j, j < N → ∃ st, phaseScan .idle (ts j) = some st := by
    intro j hj
    obtain ⟨sel, out, eps, he⟩ := hreq j hj
    exact ⟨.idle, by rw [he]; exact C19_request_discipline sel out eps⟩
  rw [gauge_eq_inflight_core e N ts tr h hok]
  have hz : sumTo (fun i => inFlight e (ts i)) N = sumTo (fun _ => 0) N := by
    apply sumTo_congr
    intro j hj
    obtain ⟨sel, out, eps, he⟩ := hreq j hj
    unfold inFlight
    rw [he, C19_request_discipline sel out eps]
  rw [hz, sumTo_zero]; simp


/-! ### The collector's clean-up pass never touches a gauge that is in use

`Collector.cleanup` deletes per-endpoint entries that were not used for `EndpointTTL`.  With the
in-flight guard the pass is invisible to the gauge: whatever history of attempt events and clean-up
passes, at whatever times, the reported gauge is the gauge of the attempt events alone — so the
theorems above hold for processes of any age.  Without the guard (pinned tree) an endpoint that was
idle for the TTL loses its gauge while attempts are in flight (witness). -/

private theorem reported_setEntry (st : CState) (e' e : Nat) (en : Entry) :
    reported (setEntry st e' en) e = if e = e' then en.gauge else reported st e := by
  unfold reported setEntry
  by_cases h : e = e' <;> simp [h]

private theorem entryOf_gauge (st : CState) (e : Nat) (t : Int) : (entryOf st e t).gauge = reported st e := by
  unfold entryOf reported
  cases st.get e <;> rfl

private theorem sweep_reported_fixed (ttl : Int) (st : CState) (t : Int) (e : Nat) :
    reported (cstep .keepInFlight ttl st (.sweep t)) e = reported st e := by
  show (match (match st.get e with
      | some en => if droppable .keepInFlight ttl en t then none else some en
      | none => none) with | some en => en.gauge | none => 0) = (match st.get e with | some en => en.gauge | none => 0)
  cases st.get e with
  | none => rfl
  | some en =>
    by_cases hd : droppable .keepInFlight ttl en t = true
    · simp only [hd, if_true]
      unfold droppable at hd
      simp only [Bool.and_eq_true, beq_iff_eq] at hd
      exact hd.2.symm
    · simp only [hd]
      rfl

/-- **A guarded clean-up pass is invisible to every gauge.** -/
theorem C19_cleanup_invisible_fixed (ttl : Int) : ∀ (l : List CEv) (st : CState) (e : Nat),
    reported (runC .keepInFlight ttl st l) e = gauge e (evsOf l) (reported st e)
  | [], _, _ => rfl
  | .sweep t :: rest, st, e => by
    simp only [runC, evsOf]
    rw [C19_cleanup_invisible_fixed ttl rest _ e, sweep_reported_fixed]
  | .ev x t :: rest, st, e => by
    simp only [runC, evsOf]
    rw [C19_cleanup_invisible_fixed ttl rest _ e]
    cases x with
    | inc e' =>
      simp only [cstep, gauge, reported_setEntry, entryOf_gauge]
      by_cases h : e = e'
      · subst h; simp
      · have h' : ¬ e' = e := fun hh => h hh.symm
        simp [h, h']
    | dec e' =>
      simp only [cstep, gauge, reported_setEntry, entryOf_gauge]
      by_cases h : e = e'
      · subst h; simp
      · have h' : ¬ e' = e := fun hh => h hh.symm
        simp [h, h']
    | recSuccess e' =>
      simp only [cstep, gauge, reported_setEntry, entryOf_gauge]
      by_cases h : e = e'
      · subst h; simp
      · simp [h]
    | recFailure e' =>
      simp only [cstep, gauge, reported_setEntry, entryOf_gauge]
      by_cases h : e = e'
      · subst h; simp
      · simp [h]
    | _ => simp only [cstep, gauge]

/-- **The gauge equals the attempts in flight, clean-up included**: any history whose attempt events are a
    prefix of an interleaving of `N` requests, with clean-up passes anywhere in between, reports for every
    endpoint exactly the number of attempts open on it. -/
theorem C19_gauge_eq_inflight_with_cleanup (N : Nat) (ts : Nat → List Ev) (hreq : Requests N ts) (tr : List Ev)
    (h : Interleaving N ts tr) (e : Nat) (k : Nat) (ttl : Int) (l : List CEv) (hl : evsOf l = tr.take k) :
    ∃ ps, Interleaving N ps (tr.take k) ∧ (∀ i, ps i <+: ts i) ∧
      gaugeMatches (reported (runC .keepInFlight ttl CState.empty l) e) (sumTo (fun i => inFlight e (ps i)) N : Nat) = true := by
  obtain ⟨ps, h1, h2, h3⟩ := C19_gauge_eq_inflight N ts hreq tr h e k
  refine ⟨ps, h1, h2, ?_⟩
  rw [C19_cleanup_invisible_fixed, hl]
  exact h3

/-- The pinned pass: endpoint 0 serves a request, is idle for 61 minutes (TTL: 60), a new attempt is in
    flight on it when the pass runs — its gauge reads 0 with one attempt in flight. -/
theorem C19_cleanup_drops_inflight_gauge_witness :
    let hist : List CEv := [.ev (.inc 0) 0, .ev (.recSuccess 0) 0, .ev (.dec 0) 0, .ev (.inc 0) 3660000000000, .sweep 3660000000000]
    reported (runC .dropIdle 3600000000000 CState.empty hist) 0 = 0 ∧ gauge 0 (evsOf hist) 0 = 1 ∧
    reported (runC .keepInFlight 3600000000000 CState.empty hist) 0 = 1 := by
  decide

/-! ### Every attempt is recorded exactly once — globally -/

private def pend : Phase → Nat
  | .inAttempt _ false => 1
  | _ => 0

private def pendOn (e : Nat) : Phase → Nat
  | .inAttempt e' false => if e' = e then 1 else 0
  | _ => 0

private theorem scan_records (tr : List Ev) : ∀ (p q : Phase), phaseScan p tr = some q →
    countSucc tr + countFail tr + pend q = attempts tr + pend p := by
  induction tr with
  | nil => intro p q h; simp [phaseScan] at h; subst h; simp [countSucc, countFail, attempts]
  | cons ev rest ih =>
    intro p q h
    simp only [phaseScan] at h
    cases hs : phaseStep p ev with
    | none => simp [hs] at h
    | some p' =>
      simp only [hs] at h
      have := ih p' q h
      cases p with
      | idle =>
        cases ev <;> simp [phaseStep] at hs <;> subst hs <;> simp [countSucc, countFail, attempts, pend] at * <;> omega
      | inAttempt a r =>
        cases r <;> cases ev <;> simp [phaseStep] at hs
        all_goals (try (obtain ⟨h1, h2⟩ := hs; subst h1; subst h2))
        all_goals (try subst hs)
        all_goals (simp [countSucc, countFail, attempts, pend] at * <;> omega)

private theorem scan_records_on (e : Nat) (tr : List Ev) : ∀ (p q : Phase), phaseScan p tr = some q →
    succOn e tr + failOn e tr + pendOn e q = attemptsOn e tr + pendOn e p := by
  induction tr with
  | nil => intro p q h; simp [phaseScan] at h; subst h; simp [succOn, failOn, attemptsOn]
  | cons ev rest ih =>
    intro p q h
    simp only [phaseScan] at h
    cases hs : phaseStep p ev with
    | none => simp [hs] at h
    | some p' =>
      simp only [hs] at h
      have := ih p' q h
      cases p with
      | idle =>
        cases ev <;> simp [phaseStep] at hs <;> subst hs <;> simp [succOn, failOn, attemptsOn, pendOn] at * <;>
          (try split at this) <;> (try split) <;> simp_all <;> omega
      | inAttempt a r =>
        cases r <;> cases ev <;> simp [phaseStep] at hs
        all_goals (try (obtain ⟨h1, h2⟩ := hs; subst h1; subst h2))
        all_goals (try subst hs)
        all_goals (simp [succOn, failOn, attemptsOn, pendOn] at * <;> (try split at this) <;> (try split) <;> simp_all <;> omega)

/-- **Every attempt is recorded exactly once**, at global and at per-endpoint scope, after any complete
    interleaving of `N` requests: recorded successes + recorded failures = attempts made (Increment calls). -/
theorem C19_attempt_recorded_once (N : Nat) (ts : Nat → List Ev) (hreq : Requests N ts) (tr : List Ev)
    (h : Interleaving N ts tr) :
    recordedOnce (attempts tr) (countSucc tr + countFail tr : Nat) = true ∧
    ∀ e, recordedOnce (attemptsOn e tr) (succOn e tr + failOn e tr : Nat) = true := by
  have per : ∀ i, i < N → countSucc (ts i) + countFail (ts i) = attempts (ts i) ∧
      ∀ e, succOn e (ts i) + failOn e (ts i) = attemptsOn e (ts i) := by
    intro i hi
    obtain ⟨sel, out, eps, he⟩ := hreq i hi
    have hd := C19_request_discipline sel out eps
    rw [← he] at hd
    refine ⟨by simpa [pend] using scan_records (ts i) .idle .idle hd, fun e => ?_⟩
    simpa [pendOn] using scan_records_on e (ts i) .idle .idle hd
  constructor
  · unfold recordedOnce
    rw [counter_is_sum countSucc rfl countSucc_append N ts tr h, counter_is_sum countFail rfl countFail_append N ts tr h,
      counter_is_sum attempts rfl attempts_append N ts tr h, ← sumTo_add]
    rw [sumTo_congr _ _ N (fun i hi => (per i hi).1)]
    simp
  · intro e
    unfold recordedOnce
    rw [counter_is_sum (succOn e) rfl (succOn_append e) N ts tr h, counter_is_sum (failOn e) rfl (failOn_append e) N ts tr h,
      counter_is_sum (attemptsOn e) rfl (attemptsOn_append e) N ts tr h, ← sumTo_add]
    rw [sumTo_congr _ _ N (fun i hi => (per i hi).2 e)]
    simp

/-! ### Collector scopes: conserved by construction, equal to the sums over requests -/

private theorem collector_eq (tr : List Ev) : ∀ s : Stats, collector tr s =
    { total := s.total + countSucc tr + countFail tr, ok := s.ok + countSucc tr, failed := s.failed + countFail tr } := by
  induction tr with
  | nil => intro s; simp [collector, countSucc, countFail]
  | cons x xs ih =>
    intro s
    cases x <;> simp [collector, countSucc, countFail, ih, Stats.record] <;> omega

private theorem collectorOn_eq (e : Nat) (tr : List Ev) : ∀ s : Stats, collectorOn e tr s =
    { total := s.total + succOn e tr + failOn e tr, ok := s.ok + succOn e tr, failed := s.failed + failOn e tr } := by
  induction tr with
  | nil => intro s; simp [collectorOn, succOn, failOn]
  | cons x xs ih =>
    intro s
    cases x <;> simp [collectorOn, succOn, failOn, ih]
    all_goals (split <;> simp [Stats.record] <;> omega)

/-- **Conservation at the collector scopes** (global and per endpoint): after ANY sequence of recorded
    events — hence after every prefix of every interleaving — `total = successes + failures`. -/
theorem C19_collector_conserved (tr : List Ev) (e : Nat) :
    conserved (collector tr {}).total (collector tr {}).ok (collector tr {}).failed = true ∧
    conserved (collectorOn e tr {}).total (collectorOn e tr {}).ok (collectorOn e tr {}).failed = true := by
  rw [collector_eq, collectorOn_eq]
  unfold conserved
  simp
  constructor <;> omega

/-- The collector's numbers after an interleaving are the sums of the per-request numbers
    (what the driver computes from the model's per-request traces). -/
theorem C19_collector_is_sum (N : Nat) (ts : Nat → List Ev) (tr : List Ev) (h : Interleaving N ts tr) :
    (collector tr {}).ok = sumTo (fun i => countSucc (ts i)) N ∧
    (collector tr {}).failed = sumTo (fun i => countFail (ts i)) N ∧
    ∀ e, (collectorOn e tr {}).ok = sumTo (fun i => succOn e (ts i)) N ∧
         (collectorOn e tr {}).failed = sumTo (fun i => failOn e (ts i)) N := by
  refine ⟨?_, ?_, fun e => ⟨?_, ?_⟩⟩
  · rw [collector_eq]; simpa using counter_is_sum countSucc rfl countSucc_append N ts tr h
  · rw [collector_eq]; simpa using counter_is_sum countFail rfl countFail_append N ts tr h
  · rw [collectorOn_eq]; simpa using counter_is_sum (succOn e) rfl (succOn_append e) N ts tr h
  · rw [collectorOn_eq]; simpa using counter_is_sum (failOn e) rfl (failOn_append e) N ts tr h

/-! ### Scopes agree: the global scope is the sum of the per-endpoint scopes -/

private theorem sumTo_indicator (e0 n : Nat) (h : e0 < n) : sumTo (fun e => if e0 = e then 1 else 0) n = 1 := by
  induction n with
  | zero => omega
  | succ n ih =>
    simp only [sumTo]
    by_cases hn : e0 = n
    · subst hn
      have : sumTo (fun e => if e0 = e then 1 else 0) e0 = sumTo (fun _ => 0) e0 :=
        sumTo_congr _ _ _ (fun j hj => by simp [Nat.ne_of_gt hj])
      rw [this, sumTo_zero]; simp
    · have := ih (by omega)
      simp [this, hn]

/-- Every recorded outcome of `tr` is on an endpoint below `n`. -/
def RecordedBelow (n : Nat) (tr : List Ev) : Prop :=
  ∀ ev ∈ tr, (∀ e, ev = .recSuccess e → e < n) ∧ (∀ e, ev = .recFailure e → e < n)

private theorem countSucc_sum (n : Nat) (tr : List Ev) (h : RecordedBelow n tr) :
    countSucc tr = sumTo (fun e => succOn e tr) n := by
  induction tr with
  | nil => simp [countSucc, succOn, sumTo_zero]
  | cons x xs ih =>
    have hxs : RecordedBelow n xs := fun ev hev => h ev (List.mem_cons_of_mem _ hev)
    have ih := ih hxs
    cases x with
    | recSuccess e0 =>
      have he0 : e0 < n := (h (.recSuccess e0) (by simp)).1 e0 rfl
      simp only [countSucc, succOn]
      rw [sumTo_add, sumTo_indicator e0 n he0, ih]
    | _ => simpa [countSucc, succOn] using ih

private theorem countFail_sum (n : Nat) (tr : List Ev) (h : RecordedBelow n tr) :
    countFail tr = sumTo (fun e => failOn e tr) n := by
  induction tr with
  | nil => simp [countFail, failOn, sumTo_zero]
  | cons x xs ih =>
    have hxs : RecordedBelow n xs := fun ev hev => h ev (List.mem_cons_of_mem _ hev)
    have ih := ih hxs
    cases x with
    | recFailure e0 =>
      have he0 : e0 < n := (h (.recFailure e0) (by simp)).2 e0 rfl
      simp only [countFail, failOn]
      rw [sumTo_add, sumTo_indicator e0 n he0, ih]
    | _ => simpa [countFail, failOn] using ih

/-- **The global scope is the sum of the per-endpoint scopes**: the collector records an outcome at the global scope
    and at the scope of the attempt's endpoint in one call, so after ANY sequence of events on endpoints `0 … n-1` —
    hence over any stretch of a long-lived collector's life — what the global scope counts (total, successes, failures)
    is what the `n` endpoint scopes count together.  (The driver demands this of every step of a history.) -/
theorem C19_global_is_sum_of_endpoints (n : Nat) (tr : List Ev) (h : RecordedBelow n tr) :
    (collector tr {}).total = sumTo (fun e => (collectorOn e tr {}).total) n ∧
    (collector tr {}).ok = sumTo (fun e => (collectorOn e tr {}).ok) n ∧
    (collector tr {}).failed = sumTo (fun e => (collectorOn e tr {}).failed) n := by
  have hs := countSucc_sum n tr h
  have hf := countFail_sum n tr h
  refine ⟨?_, ?_, ?_⟩
  · rw [collector_eq]
    have : sumTo (fun e => (collectorOn e tr {}).total) n = sumTo (fun e => succOn e tr + failOn e tr) n :=
      sumTo_congr _ _ _ (fun e _ => by rw [collectorOn_eq]; simp)
    rw [this, sumTo_add, ← hs, ← hf]; simp
  · rw [collector_eq]
    have : sumTo (fun e => (collectorOn e tr {}).ok) n = sumTo (fun e => succOn e tr) n :=
      sumTo_congr _ _ _ (fun e _ => by rw [collectorOn_eq]; simp)
    rw [this, ← hs]; simp
  · rw [collector_eq]
    have : sumTo (fun e => (collectorOn e tr {}).failed) n = sumTo (fun e => failOn e tr) n :=
      sumTo_congr _ _ _ (fun e _ => by rw [collectorOn_eq]; simp)
    rw [this, ← hf]; simp

/-! ### Recorded successes = served requests -/

/-- `N` complete runs (trace and result). -/
def Runs (N : Nat) (runs : Nat → List Ev × Result) : Prop :=
  ∀ i, i < N → ∃ select outcome eps, SelectContract select ∧ runs i = execute select outcome eps

/-- **Recorded successes equal the number of served requests**, after any interleaving. -/
theorem C19_successes_eq_served (N : Nat) (runs : Nat → List Ev × Result) (hruns : Runs N runs) (tr : List Ev)
    (h : Interleaving N (fun i => (runs i).1) tr) :
    (collector tr {}).ok = sumTo (fun i => (served (runs i)).toNat) N := by
  rw [(C19_collector_is_sum N _ tr h).1]
  apply sumTo_congr
  intro i hi
  obtain ⟨sel, out, eps, _, he⟩ := hruns i hi
  simp only [he]
  exact C19_request_success_iff_served sel out eps

/-- A served request delivered its backend's whole response (C02), so with only success statuses on the
    backends "served" is "the client received a response in full with a success status":
    **full strength fails on the pinned tree** — see `C19_error_status_success_witness`. -/
theorem C19_successes_match_partial (N : Nat) (runs : Nat → List Ev × Result) (hruns : Runs N runs) (tr : List Ev)
    (h : Interleaving N (fun i => (runs i).1) tr)
    (hstatus : ∀ i, i < N → served (runs i) = true → fullSuccess (runs i) = true) :
    (collector tr {}).ok = sumTo (fun i => (fullSuccess (runs i)).toNat) N := by
  rw [C19_successes_eq_served N runs hruns tr h]
  apply sumTo_congr
  intro i hi
  cases hs : served (runs i) with
  | true => rw [hstatus i hi hs]
  | false =>
    have : fullSuccess (runs i) = false := by
      unfold served at hs; unfold fullSuccess
      cases hr : (runs i).2 <;> simp_all
    rw [this]

/-- Witness (relayed 503): one endpoint answering 503 — the client receives status 503, yet one success
    and no failure is recorded at the collector scope. -/
theorem C19_error_status_success_witness :
    let run := execute (fun l => l.head?) (fun _ => .ok ⟨503, [], [1]⟩) [0]
    clientStatus run.1 = some (0, 503, []) ∧ collector (requestTrace .pinned run.1) {} = ⟨1, 1, 0⟩ ∧
    successesMatch (collector (requestTrace .pinned run.1) {}).ok [⟨503, true⟩] = false ∧
    noErrorAsSuccess (collector (requestTrace .pinned run.1) {}).ok [⟨503, true⟩] = false := by decide

/-- With `fixes/C19-error-status-is-failure.patch` the same run records a failure. -/
theorem C19_error_status_fixed_example :
    let run := execute (fun l => l.head?) (fun _ => .ok ⟨503, [], [1]⟩) [0]
    collector (requestTrace .fixed run.1) {} = ⟨1, 0, 1⟩ ∧
    successesMatch (collector (requestTrace .fixed run.1) {}).ok [⟨503, true⟩] = true := by decide

/-- Witness (client abort): a stream the client cut is recorded as a success. -/
theorem C19_client_abort_success_witness :
    recordsSuccess .pinned .clientCancelled = true ∧
    successesMatch ((({} : Stats).record (recordsSuccess .pinned .clientCancelled)).ok) [⟨200, false⟩] = false := by decide

/-- …and only that ending is misrecorded: a complete stream is a success, a backend error a failure. -/
theorem C19_stream_end_partial (v : Variant) (x : StreamEnd) (h : x ≠ .clientCancelled) :
    recordsSuccess v x = (x == .complete) := by
  cases x <;> simp_all [recordsSuccess]

/-! ### Engine scope (`core.ProxyStats`) -/

/-- Witness (failover): endpoint 0 refuses, endpoint 1 answers — engine `[total, ok, failed] = [1, 1, 1]`. -/
theorem C19_engine_total_witness :
    let run := execute (fun l => l.head?) (fun e => if e = 0 then .failBefore true else .ok ⟨200, [], [1]⟩) [0, 1]
    engine .pinned 1 0 run.1 = ⟨1, 1, 1⟩ ∧
    conserved (engine .pinned 1 0 run.1).total (engine .pinned 1 0 run.1).ok (engine .pinned 1 0 run.1).failed = false := by decide

/-- The engine scope is conserved exactly when attempts (plus candidate-less requests) and requests
    coincide — e.g. when no request needed a second attempt. -/
theorem C19_engine_conserved_partial (requests noCand N : Nat) (ts : Nat → List Ev) (hreq : Requests N ts) (tr : List Ev)
    (h : Interleaving N ts tr) (hone : attempts tr + noCand = requests) :
    conserved (engine .pinned requests noCand tr).total (engine .pinned requests noCand tr).ok
      (engine .pinned requests noCand tr).failed = true := by
  have := (C19_attempt_recorded_once N ts hreq tr h).1
  unfold recordedOnce at this
  simp at this
  unfold conserved engine
  simp
  omega

/-- With `fixes/C19-engine-total-per-attempt.patch` (total counts attempts) the engine scope is conserved outright. -/
theorem C19_engine_conserved_fixed (requests noCand N : Nat) (ts : Nat → List Ev) (hreq : Requests N ts) (tr : List Ev)
    (h : Interleaving N ts tr) :
    conserved (engine .fixed requests noCand tr).total (engine .fixed requests noCand tr).ok
      (engine .fixed requests noCand tr).failed = true := by
  have := (C19_attempt_recorded_once N ts hreq tr h).1
  unfold recordedOnce at this
  simp at this
  unfold conserved engine
  simp
  omega

/-! ### Translator scope -/

private theorem translator_eq (v : Variant) (l : List TranslatorEnd) : ∀ s : Stats,
    (translator v l s).total = s.total + l.length ∧
    (translator v l s).ok = s.ok + (l.filter (translatorSuccess v)).length ∧
    (translator v l s).failed = s.failed + (l.filter (fun t => !translatorSuccess v t)).length := by
  induction l with
  | nil => intro s; simp [translator]
  | cons t r ih =>
    intro s
    obtain ⟨h1, h2, h3⟩ := ih (s.record (translatorSuccess v t))
    refine ⟨?_, ?_, ?_⟩
    · simp only [translator]; rw [h1]; simp [Stats.record]; omega
    · simp only [translator]; rw [h2]; cases hts : translatorSuccess v t <;> simp [Stats.record, hts] <;> omega
    · simp only [translator]; rw [h3]; cases hts : translatorSuccess v t <;> simp [Stats.record, hts] <;> omega

/-- **Conservation at the translator scope**: every translated request is recorded exactly once. -/
theorem C19_translator_conserved (v : Variant) (l : List TranslatorEnd) :
    conserved (translator v l {}).total (translator v l {}).ok (translator v l {}).failed = true ∧
    recordedOnce l.length (translator v l {}).total = true := by
  obtain ⟨h1, h2, h3⟩ := translator_eq v l {}
  have hsplit : ∀ (m : List TranslatorEnd), (m.filter (translatorSuccess v)).length + (m.filter (fun t => !translatorSuccess v t)).length = m.length := by
    intro m
    induction m with
    | nil => simp
    | cons t r ih => simp only [List.filter_cons]; cases translatorSuccess v t <;> simp <;> omega
  have := hsplit l
  unfold conserved recordedOnce
  rw [h1, h2, h3]
  simp
  omega

/-- Witness: a backend 503 relayed through the translator is recorded as a translator success. -/
theorem C19_translator_error_success_witness :
    translator .pinned [.answered 503] {} = ⟨1, 1, 0⟩ ∧
    noErrorAsSuccess (translator .pinned [.answered 503] {}).ok [⟨503, true⟩] = false := by decide

/-- The success flag is right for everything but relayed error statuses and failures after the
    (streaming) response was started. -/
theorem C19_translator_success_partial (t : TranslatorEnd)
    (h1 : ∀ s, t = .answered s → s < 400) (h2 : t ≠ .proxyErrorAfterStart) :
    translatorSuccess .pinned t = translatorSuccess .fixed t := by
  cases t with
  | answered s => simp [translatorSuccess, h1 s rfl]
  | proxyErrorBeforeStart => rfl
  | proxyErrorAfterStart => exact absurd rfl h2
  | rejected => rfl

/-! ### Non-vacuity -/

private def exOutcome : Nat → Attempt
  | 0 => .failBefore true
  | 1 => .skip
  | _ => .ok ⟨200, [("Content-Type", "application/json")], [79, 75]⟩

private def exA : List Ev := (execute (fun l => l.head?) exOutcome [0, 1, 2]).1
private def exB : List Ev := (execute (fun l => l.getLast?) exOutcome [0, 2]).1

example : attempts exA = 3 ∧ countSucc exA = 1 ∧ countFail exA = 2 := by decide
example : Requests 2 (fun j => if j = 0 then exA else if j = 1 then exB else []) := by
  intro i hi
  by_cases h0 : i = 0
  · exact ⟨fun l => l.head?, exOutcome, [0, 1, 2], by simp [h0, exA]⟩
  · have : i = 1 := by omega
    exact ⟨fun l => l.getLast?, exOutcome, [0, 2], by simp [this, exB]⟩
example : Interleaving 2 (fun j => if j = 0 then exA else if j = 1 then exB else []) (exA ++ exB) :=
  interleaving_sequential exA exB
-- mid-flight: request 0 is inside its attempt on endpoint 2, request 1 inside its attempt on endpoint 2
example : inFlight 2 (exA.take 14) = 1 ∧ gauge 2 (exA.take 14 ++ exB.take 3) 0 = 2 := by decide

end Olla.Props.C19
