/-
C03 — Only healthy, eligible endpoints ever receive traffic.
Theorems about the small-step machine `Olla.Model.Repository` for ALL histories: status writes (health
results, proxy-detected failures, recoveries) interleaved in any way with request arrivals and with the
individual retry-loop iterations of any number of in-flight requests, any candidate filters, any
balancer decision functions meeting the C06 contract, any attempt outcomes.
-/
import Olla.Model.Repository
import Olla.Spec.C03
import Olla.Props.C06
import Olla.Spec.State

namespace Olla.Props.C03
open Olla.Model.Balancer Olla.Model.Retry Olla.Model.Repository Olla.Spec.C03

/-- The only thing assumed of a balancer decision: it returns a member of the list it was given (or nothing).
    Proved for the three balancers, for every tier order / random draw / ticket, in `C03_balancers_meet_contract`. -/
def PickContract (pick : List Ep → Option Ep) : Prop := ∀ l e, pick l = some e → e ∈ l

def Op.wf : Op → Prop
  | .attempt _ pick _ => PickContract pick
  | _ => True

def uniqueIds (repo : Repo) : Prop := (repo.map (·.id)).Nodup

/-! ### Side conditions on the regenerated status table -/

/-- `GetHealthy`'s filter value is a routable status; `offline` (what a failed attempt writes), `unhealthy`
    and `unknown` are not. A retune of `IsRoutable` that breaks either half breaks this obligation. -/
theorem gen_healthy_routable_offline_not :
    isRoutable "healthy" = true ∧ isRoutable "offline" = false ∧ isRoutable "unhealthy" = false ∧ isRoutable "unknown" = false := by decide

/-! ### Repository facts -/

private theorem setStatus_ids (repo : Repo) (e : Nat) (s : String) : (setStatus repo e s).map (·.id) = repo.map (·.id) := by
  induction repo with
  | nil => rfl
  | cons x xs ih =>
    simp only [setStatus, List.map_cons, ih]
    by_cases h : x.id = e <;> simp [h]

private theorem statusOf_mem (repo : Repo) (hu : uniqueIds repo) (x : Ep) (hx : x ∈ repo) : statusOf repo x.id = some x.status := by
  induction repo with
  | nil => simp at hx
  | cons y ys ih =>
    unfold uniqueIds at hu
    simp only [List.map_cons, List.nodup_cons] at hu
    rcases List.mem_cons.mp hx with h | h
    · subst h; simp [statusOf]
    · have hne : y.id ≠ x.id := by
        intro heq; apply hu.1; rw [heq]; exact List.mem_map_of_mem h
      simp only [statusOf, hne, ↓reduceIte]
      exact ih hu.2 h

private theorem statusOf_setStatus (repo : Repo) (a b : Nat) (s : String) :
    statusOf (setStatus repo a s) b = if a = b then (statusOf repo b).map (fun _ => s) else statusOf repo b := by
  induction repo with
  | nil => simp [statusOf, setStatus]
  | cons x xs ih =>
    simp only [statusOf, setStatus]
    by_cases hxa : x.id = a
    · by_cases hab : a = b
      · subst hab; simp [hxa]
      · have hxb : x.id ≠ b := by rw [hxa]; exact hab
        simp only [hxa, ↓reduceIte, hab]
        rw [ih]; simp [hab]
    · by_cases hxb : x.id = b
      · have hab : a ≠ b := fun h => hxa (hxb.trans h.symm)
        have hba : ¬ b = a := fun h => hab h.symm
        subst hxb
        simp [hba, hab]
      · simp only [hxa, ↓reduceIte, hxb]
        exact ih

/-! ### The invariant -/

def ReqOk (r : Req) : Prop :=
  ∀ x ∈ r.cands, statusOf r.arrivalRepo x.id = some "healthy" ∧ x.status = "healthy"

def DispatchOk (d : Dispatch) : Prop :=
  d.inCands = true ∧ d.atArrival = some "healthy" ∧ d.seen = "healthy"

structure StateOk (σ : State) : Prop where
  ids  : uniqueIds σ.repo
  reqs : ∀ r ∈ σ.inflight, ReqOk r
  log  : ∀ d ∈ σ.log, DispatchOk d

private theorem removeReq_sub (l : List Req) (rid : Nat) : ∀ r ∈ removeReq l rid, r ∈ l := by
  intro r hr; exact (List.mem_filter.mp hr).1

private theorem updateReq_ok (l : List Req) (r' : Req) (hl : ∀ r ∈ l, ReqOk r) (h' : ReqOk r') :
    ∀ r ∈ updateReq l r', ReqOk r := by
  intro r hr
  unfold updateReq at hr
  obtain ⟨r0, hr0, rfl⟩ := List.mem_map.mp hr
  by_cases h : (r0.rid == r'.rid) = true
  · simp [h]; exact h'
  · simp [h]; exact hl r0 hr0

private theorem step_ok (σ : State) (h : StateOk σ) (op : Op) (hop : Op.wf op) : StateOk (step .copy σ op) := by
  cases op with
  | healthResult e s =>
    exact ⟨by unfold uniqueIds; simp only [step]; rw [setStatus_ids]; exact h.ids, h.reqs, h.log⟩
  | arrive rid allowed =>
    simp only [step]
    by_cases ha : σ.arrived.contains rid = true
    · simp only [ha, ↓reduceIte]; exact h
    · simp only [ha, Bool.false_eq_true, ↓reduceIte]
      refine ⟨h.ids, ?_, h.log⟩
      intro r hr
      by_cases hc : ((getHealthy σ.repo).filter (fun x => allowed x.id)).isEmpty = true
      · simp [hc] at hr; exact h.reqs r hr
      · simp [hc] at hr
        rcases hr with hr | hr
        · subst hr
          intro x hx
          simp only at hx
          have hx1 := (List.mem_filter.mp hx).1
          unfold getHealthy at hx1
          have hx2 := List.mem_filter.mp hx1
          have hst : x.status = "healthy" := by simpa using hx2.2
          refine ⟨?_, hst⟩
          simp only
          rw [statusOf_mem σ.repo h.ids x hx2.1, hst]
        · exact h.reqs r hr
  | attempt rid pick a =>
    simp only [step]
    cases hf : σ.inflight.find? (fun r => r.rid == rid) with
    | none => exact h
    | some r =>
      simp only
      have hrmem : r ∈ σ.inflight := List.mem_of_find?_eq_some hf
      have hrok := h.reqs r hrmem
      by_cases hz : (r.fuel = 0 || r.avail.isEmpty) = true
      · simp only [hz, ↓reduceIte]
        exact ⟨h.ids, fun x hx => h.reqs x (removeReq_sub _ _ x hx), h.log⟩
      · simp only [hz, Bool.false_eq_true, ↓reduceIte]
        cases hp : pick (view .copy σ.repo r) with
        | none => exact ⟨h.ids, fun x hx => h.reqs x (removeReq_sub _ _ x hx), h.log⟩
        | some t =>
          simp only
          have htv : t ∈ view .copy σ.repo r := hop _ _ hp
          have htc : t ∈ r.cands := (List.mem_filter.mp htv).1
          obtain ⟨ht1, ht2⟩ := hrok t htc
          have hd : DispatchOk (dispatchOf rid r t) := by
            refine ⟨?_, ht1, ht2⟩
            simp only [dispatchOf, List.any_eq_true]
            exact ⟨t, htc, by simp⟩
          have hlog : ∀ d ∈ σ.log ++ [dispatchOf rid r t], DispatchOk d := by
            intro d hdm
            rcases List.mem_append.mp hdm with hd1 | hd1
            · exact h.log d hd1
            · simp at hd1; subst hd1; exact hd
          have hnext : ReqOk { r with avail := r.avail.erase t.id, fuel := r.fuel - 1 } := hrok
          have hids : uniqueIds (setStatus σ.repo t.id "offline") := by unfold uniqueIds; rw [setStatus_ids]; exact h.ids
          cases a with
          | ok _ => exact ⟨h.ids, fun x hx => h.reqs x (removeReq_sub _ _ x hx), hlog⟩
          | skip => exact ⟨h.ids, updateReq_ok _ _ h.reqs hnext, hlog⟩
          | failBefore re =>
            cases re with
            | true => exact ⟨hids, updateReq_ok _ _ h.reqs hnext, hlog⟩
            | false => exact ⟨h.ids, fun x hx => h.reqs x (removeReq_sub _ _ x hx), hlog⟩
          | failAfter _ _ re =>
            cases re with
            | true => exact ⟨hids, fun x hx => h.reqs x (removeReq_sub _ _ x hx), hlog⟩
            | false => exact ⟨h.ids, fun x hx => h.reqs x (removeReq_sub _ _ x hx), hlog⟩

private theorem run_ok (ops : List Op) : ∀ (σ : State), StateOk σ → (∀ op ∈ ops, Op.wf op) → StateOk (run .copy σ ops) := by
  induction ops with
  | nil => intro σ h _; exact h
  | cons op rest ih =>
    intro σ h hw
    exact ih _ (step_ok σ h op (hw op (by simp))) (fun o ho => hw o (by simp [ho]))

private theorem init_ok (repo : Repo) (hu : uniqueIds repo) : StateOk (init repo) :=
  ⟨hu, by simp [init], by simp [init]⟩

/-- **Every dispatch is sound**: for every repository, every history of status writes, arrivals and
    retry-loop iterations (in any interleaving) and every balancer meeting the contract, each dispatch
    goes to an endpoint that was routable — indeed `healthy` — in the repository when its request arrived
    and that belongs to the candidate set computed for that request. -/
theorem C03_dispatch_sound (repo : Repo) (hu : uniqueIds repo) (history : List Op) (hw : ∀ op ∈ history, Op.wf op) :
    ∀ d ∈ (run .copy (init repo) history).log, dispatchOk d.atArrival d.inCands = true := by
  intro d hd
  obtain ⟨h1, h2, _⟩ := (run_ok history _ (init_ok repo hu) hw).log d hd
  unfold dispatchOk routableAt
  rw [h1, h2]
  simp [gen_healthy_routable_offline_not.1]

/-- **An endpoint that was not routable when the request arrived receives none of its traffic**
    (unknown / offline / unhealthy, however it got there). -/
theorem C03_failed_excluded (repo : Repo) (hu : uniqueIds repo) (history : List Op) (hw : ∀ op ∈ history, Op.wf op) :
    ∀ d ∈ (run .copy (init repo) history).log, routableAt d.atArrival = true := by
  intro d hd
  have := C03_dispatch_sound repo hu history hw d hd
  unfold dispatchOk at this
  simp only [Bool.and_eq_true] at this
  exact this.2

/-- **The snapshot is a snapshot** (this is what `healthyCopy := *endpoint` buys): whatever the status
    writers do while a request is in flight, every decision of the balancer is made on the statuses the
    repository held when the request arrived. -/
theorem C03_snapshot_stable (repo : Repo) (hu : uniqueIds repo) (history : List Op) (hw : ∀ op ∈ history, Op.wf op) :
    ∀ d ∈ (run .copy (init repo) history).log, d.atArrival = some d.seen := by
  intro d hd
  obtain ⟨_, h2, h3⟩ := (run_ok history _ (init_ok repo hu) hw).log d hd
  rw [h2, h3]

/-- With `GetHealthy` handing out its stored pointers (`Variant.alias`) that fails: a status written after
    the arrival is what the balancer reads. -/
theorem C03_alias_unstable_witness :
    let repo : Repo := [⟨0, 100, "healthy", 0⟩]
    let history : List Op := [.arrive 7 (fun _ => true), .healthResult 0 "busy", .attempt 7 (fun l => l.head?) (.ok ⟨200, [], []⟩)]
    (run .alias (init repo) history).log = [⟨7, 0, "busy", some "healthy", true⟩] ∧
    (run .copy (init repo) history).log = [⟨7, 0, "healthy", some "healthy", true⟩] := by decide

/-! ### Marked failed before the arrival ⇒ no traffic until readmitted -/

/-- No health result in `ops` stores a routable status for `e`. -/
def noReadmission (e : Nat) : List Op → Prop
  | [] => True
  | .healthResult e' s :: rest => (e' = e → isRoutable s = false) ∧ noReadmission e rest
  | _ :: rest => noReadmission e rest

private structure Excl (σ0 : State) (e : Nat) (τ : State) : Prop where
  ok     : StateOk τ
  status : routableAt (statusOf τ.repo e) = false
  arr    : ∀ x ∈ σ0.arrived, x ∈ τ.arrived
  reqs   : ∀ r ∈ τ.inflight, r.rid ∉ σ0.arrived → routableAt (statusOf r.arrivalRepo e) = false
  inarr  : ∀ r ∈ τ.inflight, r.rid ∈ τ.arrived
  log    : ∀ d ∈ τ.log, d ∈ σ0.log ∨ d.rid ∈ σ0.arrived ∨ d.target ≠ e

private theorem routableAt_offline (repo : Repo) (a b : Nat) (h : routableAt (statusOf repo b) = false) :
    routableAt (statusOf (setStatus repo a "offline") b) = false := by
  rw [statusOf_setStatus]
  by_cases hab : a = b
  · simp only [hab, ↓reduceIte]
    cases hs : statusOf repo b with
    | none => simp [routableAt]
    | some s => simp [routableAt, gen_healthy_routable_offline_not.2.1]
  · simp [hab, h]

private theorem excl_step (σ0 : State) (e : Nat) (τ : State) (h : Excl σ0 e τ) (op : Op) (hop : Op.wf op)
    (hno : noReadmission e [op]) : Excl σ0 e (step .copy τ op) := by
  have hok' := step_ok τ h.ok op hop
  cases op with
  | healthResult e' s =>
    refine ⟨hok', ?_, h.arr, h.reqs, h.inarr, h.log⟩
    simp only [step]
    rw [statusOf_setStatus]
    by_cases he : e' = e
    · simp only [he, ↓reduceIte]
      have := hno.1 he
      cases hs : statusOf τ.repo e with
      | none => simp [routableAt]
      | some s0 => simp [routableAt, this]
    · simp [he, h.status]
  | arrive rid allowed =>
    simp only [step] at hok' ⊢
    by_cases ha : τ.arrived.contains rid = true
    · simp only [ha, ↓reduceIte] at hok' ⊢; exact ⟨hok', h.status, h.arr, h.reqs, h.inarr, h.log⟩
    · simp only [ha, Bool.false_eq_true, ↓reduceIte] at hok' ⊢
      refine ⟨hok', h.status, fun x hx => List.mem_cons_of_mem _ (h.arr x hx), ?_, ?_, h.log⟩
      · intro r hr hnot
        by_cases hc : ((getHealthy τ.repo).filter (fun x => allowed x.id)).isEmpty = true
        · simp [hc] at hr; exact h.reqs r hr hnot
        · simp [hc] at hr
          rcases hr with hr | hr
          · subst hr; exact h.status
          · exact h.reqs r hr hnot
      · intro r hr
        by_cases hc : ((getHealthy τ.repo).filter (fun x => allowed x.id)).isEmpty = true
        · simp [hc] at hr; exact List.mem_cons_of_mem _ (h.inarr r hr)
        · simp [hc] at hr
          rcases hr with hr | hr
          · subst hr; simp
          · exact List.mem_cons_of_mem _ (h.inarr r hr)
  | attempt rid pick a =>
    simp only [step] at hok' ⊢
    cases hf : τ.inflight.find? (fun r => r.rid == rid) with
    | none => simp only [hf] at hok' ⊢; exact ⟨hok', h.status, h.arr, h.reqs, h.inarr, h.log⟩
    | some r =>
      simp only [hf] at hok' ⊢
      have hrmem : r ∈ τ.inflight := List.mem_of_find?_eq_some hf
      have hrid : r.rid = rid := by simpa using List.find?_some hf
      have hsubR : ∀ x ∈ removeReq τ.inflight rid, x ∈ τ.inflight := removeReq_sub _ _
      by_cases hz : (r.fuel = 0 || r.avail.isEmpty) = true
      · simp only [hz, ↓reduceIte] at hok' ⊢
        exact ⟨hok', h.status, h.arr, fun x hx => h.reqs x (hsubR x hx), fun x hx => h.inarr x (hsubR x hx), h.log⟩
      · simp only [hz, Bool.false_eq_true, ↓reduceIte] at hok' ⊢
        cases hp : pick (view .copy τ.repo r) with
        | none =>
          simp only [hp] at hok' ⊢
          exact ⟨hok', h.status, h.arr, fun x hx => h.reqs x (hsubR x hx), fun x hx => h.inarr x (hsubR x hx), h.log⟩
        | some t =>
          simp only [hp] at hok' ⊢
          have htv : t ∈ view .copy τ.repo r := hop _ _ hp
          have htc : t ∈ r.cands := (List.mem_filter.mp htv).1
          obtain ⟨ht1, _⟩ := h.ok.reqs r hrmem t htc
          -- the new dispatch: either the request arrived before σ0 or its target is not e
          have hnew : rid ∈ σ0.arrived ∨ t.id ≠ e := by
            by_cases hin : rid ∈ σ0.arrived
            · exact Or.inl hin
            · right
              intro hte
              have := h.reqs r hrmem (by rw [hrid]; exact hin)
              rw [← hte, ht1] at this
              simp [routableAt, gen_healthy_routable_offline_not.1] at this
          have hlog : ∀ d ∈ τ.log ++ [dispatchOf rid r t],
              d ∈ σ0.log ∨ d.rid ∈ σ0.arrived ∨ d.target ≠ e := by
            intro d hdm
            rcases List.mem_append.mp hdm with hd1 | hd1
            · exact h.log d hd1
            · simp at hd1; subst hd1; exact Or.inr hnew
          have hupd : ∀ x ∈ updateReq τ.inflight { r with avail := r.avail.erase t.id, fuel := r.fuel - 1 },
              (x.rid ∉ σ0.arrived → routableAt (statusOf x.arrivalRepo e) = false) ∧ x.rid ∈ τ.arrived := by
            intro x hx
            unfold updateReq at hx
            obtain ⟨r0, hr0, rfl⟩ := List.mem_map.mp hx
            by_cases hq : (r0.rid == r.rid) = true
            · simp only [hq, ↓reduceIte]
              exact ⟨h.reqs r hrmem, h.inarr r hrmem⟩
            · simp only [hq, Bool.false_eq_true, ↓reduceIte]
              exact ⟨h.reqs r0 hr0, h.inarr r0 hr0⟩
          cases a with
          | ok _ =>
            simp only at hok' ⊢
            exact ⟨hok', h.status, h.arr, fun x hx => h.reqs x (hsubR x hx), fun x hx => h.inarr x (hsubR x hx), hlog⟩
          | skip =>
            simp only at hok' ⊢
            exact ⟨hok', h.status, h.arr, fun x hx => (hupd x hx).1, fun x hx => (hupd x hx).2, hlog⟩
          | failBefore re =>
            cases re with
            | true =>
              simp only at hok' ⊢
              exact ⟨hok', routableAt_offline _ _ _ h.status, h.arr, fun x hx => (hupd x hx).1, fun x hx => (hupd x hx).2, hlog⟩
            | false =>
              simp only at hok' ⊢
              exact ⟨hok', h.status, h.arr, fun x hx => h.reqs x (hsubR x hx), fun x hx => h.inarr x (hsubR x hx), hlog⟩
          | failAfter _ _ re =>
            cases re with
            | true =>
              simp only at hok' ⊢
              exact ⟨hok', routableAt_offline _ _ _ h.status, h.arr, fun x hx => h.reqs x (hsubR x hx), fun x hx => h.inarr x (hsubR x hx), hlog⟩
            | false =>
              simp only at hok' ⊢
              exact ⟨hok', h.status, h.arr, fun x hx => h.reqs x (hsubR x hx), fun x hx => h.inarr x (hsubR x hx), hlog⟩

private theorem noReadmission_cons (e : Nat) (op : Op) (rest : List Op) (h : noReadmission e (op :: rest)) :
    noReadmission e [op] ∧ noReadmission e rest := by
  cases op <;> simp_all [noReadmission]

private theorem excl_run (σ0 : State) (e : Nat) (ops : List Op) : ∀ (τ : State), Excl σ0 e τ →
    (∀ op ∈ ops, Op.wf op) → noReadmission e ops → Excl σ0 e (run .copy τ ops) := by
  induction ops with
  | nil => intro τ h _ _; exact h
  | cons op rest ih =>
    intro τ h hw hno
    obtain ⟨h1, h2⟩ := noReadmission_cons e op rest hno
    exact ih _ (excl_step σ0 e τ h op (hw op (by simp)) h1) (fun o ho => hw o (by simp [ho])) h2

/-- **Marked failed ⇒ out of rotation until readmitted**: let `before` be any history after which endpoint
    `e` is not routable (a health result stored offline / unhealthy / unknown, or a failed attempt marked it
    offline — completed, i.e. part of `before`). As long as no health result stores a routable status for
    `e` (`noReadmission`), whatever else happens (`after`: other writes, arrivals, iterations of old and new
    requests), every request that arrives during `after` sends `e` nothing. Requests that had arrived
    earlier work on their own snapshot — the property exempts them ("before the request arrived"). -/
theorem C03_marked_failed_excluded (repo : Repo) (hu : uniqueIds repo) (before after : List Op)
    (hw1 : ∀ op ∈ before, Op.wf op) (hw2 : ∀ op ∈ after, Op.wf op) (e : Nat)
    (hbad : routableAt (statusOf (run .copy (init repo) before).repo e) = false)
    (hno : noReadmission e after) :
    ∀ d ∈ (run .copy (run .copy (init repo) before) after).log,
      d ∈ (run .copy (init repo) before).log ∨ d.rid ∈ (run .copy (init repo) before).arrived ∨ d.target ≠ e := by
  have hok := run_ok before _ (init_ok repo hu) hw1
  -- every in-flight request of σ0 has arrived in σ0
  have hin : ∀ (ops : List Op) (σ : State), (∀ r ∈ σ.inflight, r.rid ∈ σ.arrived) →
      ∀ r ∈ (run .copy σ ops).inflight, r.rid ∈ (run .copy σ ops).arrived := by
    intro ops
    induction ops with
    | nil => intro σ h; exact h
    | cons op rest ih =>
      intro σ h
      apply ih
      cases op with
      | healthResult e' s => exact h
      | arrive rid allowed =>
        simp only [step]
        by_cases ha : σ.arrived.contains rid = true
        · simp only [ha, ↓reduceIte]; exact h
        · simp only [ha, Bool.false_eq_true, ↓reduceIte]
          intro r hr
          by_cases hc : ((getHealthy σ.repo).filter (fun x => allowed x.id)).isEmpty = true
          · simp [hc] at hr; exact List.mem_cons_of_mem _ (h r hr)
          · simp [hc] at hr
            rcases hr with hr | hr
            · subst hr; simp
            · exact List.mem_cons_of_mem _ (h r hr)
      | attempt rid pick a =>
        simp only [step]
        cases hf : σ.inflight.find? (fun r => r.rid == rid) with
        | none => exact h
        | some r =>
          simp only
          have hrmem : r ∈ σ.inflight := List.mem_of_find?_eq_some hf
          have hupd : ∀ (nx : Req), nx.rid = r.rid → ∀ x ∈ updateReq σ.inflight nx, x.rid ∈ σ.arrived := by
            intro nx hnx x hx
            unfold updateReq at hx
            obtain ⟨r0, hr0, rfl⟩ := List.mem_map.mp hx
            by_cases hq : (r0.rid == nx.rid) = true
            · simp only [hq, ↓reduceIte]; rw [hnx]; exact h r hrmem
            · simp only [hq, Bool.false_eq_true, ↓reduceIte]; exact h r0 hr0
          split
          · exact fun x hx => h x (removeReq_sub _ _ x hx)
          · split
            · exact fun x hx => h x (removeReq_sub _ _ x hx)
            · cases a with
              | ok _ => exact fun x hx => h x (removeReq_sub _ _ x hx)
              | skip => exact hupd _ rfl
              | failBefore re => cases re with
                | true => exact hupd _ rfl
                | false => exact fun x hx => h x (removeReq_sub _ _ x hx)
              | failAfter _ _ re => cases re <;> exact fun x hx => h x (removeReq_sub _ _ x hx)
  have hin0 := hin before (init repo) (by simp [init])
  have h0 : Excl (run .copy (init repo) before) e (run .copy (init repo) before) :=
    ⟨hok, hbad, fun _ h => h, fun r hr hnot => absurd (hin0 r hr) hnot, hin0, fun d hd => Or.inl hd⟩
  exact (excl_run _ e after _ h0 hw2 hno).log

/-- The history of seed C03-f, on the model: request 1 is held by endpoint 0; a health check passes endpoint 0 meanwhile;
    then the held attempt fails at connection level and request 1 fails over to endpoint 1.  The failure is the newer
    fact: endpoint 0 is offline afterwards and request 2, which arrives later, sends it nothing — an instance of
    `C03_marked_failed_excluded` with `before` = everything up to the failed attempt. -/
theorem C03_failure_after_a_passing_check_example :
    let repo : Repo := [⟨0, 300, "healthy", 0⟩, ⟨1, 200, "healthy", 0⟩]
    let history : List Op := [.arrive 1 (fun _ => true), .healthResult 0 "healthy", .healthResult 1 "healthy",
      .attempt 1 (fun l => l.head?) (.failBefore true), .attempt 1 (fun l => l.head?) (.ok ⟨200, [], []⟩),
      .arrive 2 (fun _ => true), .attempt 2 (fun l => l.head?) (.ok ⟨200, [], []⟩)]
    ((run .copy (init repo) history).log.map (fun d => (d.rid, d.target))) = [(1, 0), (1, 1), (2, 1)] ∧
    statusOf (run .copy (init repo) history).repo 0 = some "offline" := by decide

/-- The history of seed C03-h, on the model: requests 1 and 2 arrive while endpoint 0 is healthy and hold the same
    (old) reading of it; request 1's attempt on endpoint 0 fails (endpoint 0 offline) and it fails over; a health check
    readmits endpoint 0; then request 2's attempt on endpoint 0 — made from its old reading, which the property lets it
    use — fails as well.  That failure is a new fact although the reading it was made from is an old one: endpoint 0 is
    offline again, and request 3, which arrives afterwards, sends it nothing.  (`C03_marked_failed_excluded` with
    `before` = everything up to request 2's failed attempt.)  The long-lived histories of the harness (`life`) walk
    the production stack through this and the neighbouring orders. -/
theorem C03_failure_from_an_old_reading_after_a_readmission_example :
    let repo : Repo := [⟨0, 300, "healthy", 0⟩, ⟨1, 200, "healthy", 0⟩]
    let history : List Op := [.arrive 1 (fun _ => true), .arrive 2 (fun _ => true),
      .attempt 1 (fun l => l.head?) (.failBefore true), .healthResult 0 "healthy",
      .attempt 2 (fun l => l.head?) (.failBefore true),
      .attempt 1 (fun l => l.head?) (.ok ⟨200, [], []⟩), .attempt 2 (fun l => l.head?) (.ok ⟨200, [], []⟩),
      .arrive 3 (fun _ => true), .attempt 3 (fun l => l.head?) (.ok ⟨200, [], []⟩)]
    ((run .copy (init repo) history).log.map (fun d => (d.rid, d.target))) = [(1, 0), (2, 0), (1, 1), (2, 1), (3, 1)] ∧
    statusOf (run .copy (init repo) history).repo 0 = some "offline" := by decide

/-! ### "Every load balancer returns a member of the list it was given or an error" -/

/-- Re-export of `Olla.Props.C06.selectors_member`. -/
theorem selectors_member (l : List Ep) (e : Ep) :
    (∀ tier r20, tier.Perm (topTier l) → prioritySelectTier tier r20 = some e → e ∈ l ∧ isRoutable e.status = true) ∧
    (∀ c, rrSelect c l = some e → e ∈ l ∧ isRoutable e.status = true) ∧
    (lcSelect l = some e → e ∈ l ∧ isRoutable e.status = true) :=
  Olla.Props.C06.selectors_member l e

/-- The decision function of each of the three balancers — for every counter value, every random draw and
    (priority) the tier in list order — meets `PickContract`, and so does the spec predicate on it. -/
theorem C03_balancers_meet_contract (c r20 : Nat) :
    PickContract (rrSelect c) ∧ PickContract lcSelect ∧ PickContract (fun l => prioritySelectTier (topTier l) r20) ∧
    ∀ (l : List Ep), memberOrError (l.map (·.id)) ((rrSelect c l).map (·.id)) = true ∧
      memberOrError (l.map (·.id)) ((lcSelect l).map (·.id)) = true ∧
      memberOrError (l.map (·.id)) ((prioritySelectTier (topTier l) r20).map (·.id)) = true := by
  have hrr : PickContract (rrSelect c) := fun l e h => ((selectors_member l e).2.1 c h).1
  have hlc : PickContract lcSelect := fun l e h => ((selectors_member l e).2.2 h).1
  have hpr : PickContract (fun l => prioritySelectTier (topTier l) r20) :=
    fun l e h => ((selectors_member l e).1 (topTier l) r20 (List.Perm.refl _) h).1
  refine ⟨hrr, hlc, hpr, fun l => ?_⟩
  have mem : ∀ (pick : List Ep → Option Ep), PickContract pick → memberOrError (l.map (·.id)) ((pick l).map (·.id)) = true := by
    intro pick hc
    unfold memberOrError
    cases hp : pick l with
    | none => simp
    | some e => simp only [Option.map_some, List.contains_iff_mem]; exact List.mem_map_of_mem (hc l e hp)
  exact ⟨mem _ hrr, mem _ hlc, mem _ hpr⟩

/-! ### Non-vacuity -/

private def exRepo : Repo := [⟨0, 300, "healthy", 0⟩, ⟨1, 200, "healthy", 0⟩, ⟨2, 100, "unknown", 0⟩]
private def exHistory : List Op :=
  [.arrive 1 (fun _ => true),
   .attempt 1 (fun l => prioritySelectTier (topTier l) 0) (.failBefore true),   -- endpoint 0 fails, is marked offline
   .arrive 2 (fun _ => true),                                                   -- arrives after the mark
   .attempt 2 (fun l => prioritySelectTier (topTier l) 0) (.ok ⟨200, [], []⟩),
   .attempt 1 (fun l => prioritySelectTier (topTier l) 0) (.ok ⟨200, [], []⟩),
   .healthResult 0 "healthy",                                                    -- readmitted
   .arrive 3 (fun _ => true),
   .attempt 3 (fun l => prioritySelectTier (topTier l) 0) (.ok ⟨200, [], []⟩)]

example : uniqueIds exRepo := by unfold uniqueIds; decide
example : ((run .copy (init exRepo) exHistory).log.map (fun d => (d.rid, d.target))) = [(1, 0), (2, 1), (1, 1), (3, 0)] := by decide
example : statusOf (run .copy (init exRepo) (exHistory.take 2)).repo 0 = some "offline" := by decide
example : noReadmission 0 (exHistory.drop 2 |>.take 3) := by simp [exHistory, noReadmission]

/-! ### tie: no process-wide state on the modelled path

The theorems above are about single calls (or the history of one object). They cover every
request of a running process only if a call reaches no state that outlives it besides that
object. `Olla.Gen.State` is re-read from the source on every run: the package-level variables
reachable from each function inside its package that the package changes after initialisation. -/
theorem C03_tie_no_process_wide_state :
    Olla.Spec.State.reachesOnly "registry.GetRoutableEndpointsForModel" [] = true := by decide

end Olla.Props.C03
