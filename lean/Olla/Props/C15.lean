/-
C15 — Client credentials and hop-by-hop headers stop at the proxy.
Property theorems (plus `private` helper lemmas and non-vacuity examples). Model:
`Olla.Model.Headers` (CopyHeaders + forwarded-header maintenance + what the engines add),
predicates: `Olla.Spec.C15`, deny-lists / written names / values: regenerated `Olla.Gen.Headers`.

Every theorem quantifies over ALL header maps (any keys in any letter case, any number of
values per key, empty values), all `Ctx` (Host, peer address, TLS) and all model names.
-/
import Olla.Model.Headers
import Olla.Spec.C15
import Olla.Spec.State
import Olla.Gen.Security

namespace Olla.Props.C15
open Olla.Model.Headers Olla.Gen.Headers
open Olla.Spec.C15 (isFiltered noneForwarded othersUnchanged additionsKeepExisting keeps isToken lower eqIgnoreCase)

/-! ### Side conditions on the regenerated tables (`decide` on the values of this run) -/

/-- Every name the property lists (any spelling of it, see `filtered_dropped`) is on one of the two
    deny-lists the compiled code uses: matched by the EqualFold list, or — with its canonical
    spelling — by the canonical-key list. -/
theorem gen_covers_spec :
    ∀ s ∈ Olla.Spec.C15.sensitive ++ Olla.Spec.C15.hopByHop,
      (hopByHop.any (fun h => lowerAscii h == lowerAscii s) ||
       sensitive.any (fun g => lowerAscii g == lowerAscii s && g.all isTokenChar && canonGo true g == g)) = true := by
  decide

/-- Conversely the code's deny-lists contain nothing but names the property lists, so no
    "other" header is dropped. -/
theorem gen_lists_within_spec : ∀ g ∈ hopByHop ++ sensitive, isFiltered g = true := by decide

/-- The hop-by-hop list is ASCII (the `strings.EqualFold` port in the model is exact for such a left operand). -/
theorem gen_hop_ascii : ∀ h ∈ hopByHop, h.all isTokenChar = true := by decide

/-- The keys olla writes are exactly the maintained headers of the property plus X-Proxied-By
    (CopyHeaders) and X-Model (engines), and they are written under canonical keys. -/
theorem gen_written_names :
    Olla.Spec.C15.maintained = [hVia, hXFF, hXFH, hXFP, hXRealIP] ∧
    Olla.Spec.C15.ollaWritten = [hVia, hXFF, hXFH, hXFP, hXRealIP, hProxiedBy, hXModel] ∧
    [hVia, hXFF, hXFH, hXFP, hXRealIP, hProxiedBy, hXModel].map canonicalKey = [hVia, hXFF, hXFH, hXFP, hXRealIP, hProxiedBy, hXModel] := by
  decide

/-- None of the headers olla writes is itself a filtered name, and none is caught by the copy loop's deny-lists. -/
theorem gen_written_not_filtered :
    ∀ k ∈ [hVia, hXFF, hXFH, hXFP, hXRealIP, hProxiedBy, hXModel],
      isFiltered k = false ∧ isHop k = false ∧ isSensitive k = false := by decide

/-- Run on a request without headers, the real CopyHeaders wrote exactly the keys the model writes. -/
theorem gen_added_on_empty :
    (∀ k ∈ addedOnEmpty, k ∈ [hVia, hXFF, hXFH, hXFP, hXRealIP, hProxiedBy]) ∧
    (∀ k ∈ addedOnEmptyNoHost, k ∈ [hVia, hXFP, hProxiedBy]) := by decide

/-! ### ASCII case facts (52 letters by `decide`, everything else is a fixed point) -/

private theorem mapChar_not_mem (t : List (Char × Char)) (c : Char) (h : c ∉ t.map (·.1)) : mapChar t c = c := by
  induction t with
  | nil => rfl
  | cons p t ih =>
    obtain ⟨a, b⟩ := p
    simp only [List.map_cons, List.mem_cons, not_or] at h
    simp only [mapChar, h.1, if_false]
    exact ih h.2

private theorem lower_notLetter (c : Char) (h : c ∉ letters) : toLowerAZ c = c := by
  apply mapChar_not_mem
  intro hm
  apply h
  have : (uppers.zip lowers).map (·.1) = uppers := by decide
  rw [this] at hm
  simp [letters, hm]

private theorem upper_notLetter (c : Char) (h : c ∉ letters) : toUpperAZ c = c := by
  apply mapChar_not_mem
  intro hm
  apply h
  have : (lowers.zip uppers).map (·.1) = lowers := by decide
  rw [this] at hm
  simp [letters, hm]

private theorem lower_upper (c : Char) : toLowerAZ (toUpperAZ c) = toLowerAZ c := by
  by_cases h : c ∈ letters
  · revert c; decide
  · rw [upper_notLetter c h]

private theorem lower_lower (c : Char) : toLowerAZ (toLowerAZ c) = toLowerAZ c := by
  by_cases h : c ∈ letters
  · revert c; decide
  · rw [lower_notLetter c h, lower_notLetter c h]

private theorem upper_lower (c : Char) : toUpperAZ (toLowerAZ c) = toUpperAZ c := by
  by_cases h : c ∈ letters
  · revert c; decide
  · rw [lower_notLetter c h]

private theorem token_lower (c : Char) : isTokenChar (toLowerAZ c) = isTokenChar c := by
  by_cases h : c ∈ letters
  · revert c; decide
  · rw [lower_notLetter c h]

private theorem dash_lower (c : Char) : (toLowerAZ c == '-') = (c == '-') := by
  by_cases h : c ∈ letters
  · revert c; decide
  · rw [lower_notLetter c h]

private theorem dash_upper (c : Char) : (toUpperAZ c == '-') = (c == '-') := by
  by_cases h : c ∈ letters
  · revert c; decide
  · rw [upper_notLetter c h]

private theorem upper_congr {a b : Char} (h : toLowerAZ a = toLowerAZ b) : toUpperAZ a = toUpperAZ b := by
  rw [← upper_lower a, ← upper_lower b, h]

private theorem token_congr {a b : Char} (h : toLowerAZ a = toLowerAZ b) : isTokenChar a = isTokenChar b := by
  rw [← token_lower a, ← token_lower b, h]

private theorem dash_congr {a b : Char} (h : toLowerAZ a = toLowerAZ b) : (a == '-') = (b == '-') := by
  rw [← dash_lower a, ← dash_lower b, h]

/-! ### CanonicalHeaderKey and EqualFold only look at the letters up to case -/

private theorem canonGo_congr : ∀ (a b : List Char) (u : Bool), lowerAscii a = lowerAscii b → canonGo u a = canonGo u b
  | [], [], _, _ => rfl
  | [], _ :: _, _, h => by simp [lowerAscii] at h
  | _ :: _, [], _, h => by simp [lowerAscii] at h
  | x :: xs, y :: ys, u, h => by
    simp only [lowerAscii, List.map_cons, List.cons.injEq] at h
    obtain ⟨hxy, hrest⟩ := h
    have hup := upper_congr hxy
    have ih := fun u' => canonGo_congr xs ys u' hrest
    cases u
    · simp only [canonGo, Bool.false_eq_true, if_false]
      rw [hxy, ih]
    · simp only [canonGo, if_true]
      rw [hup, ih]

private theorem canonGo_lower : ∀ (a : List Char) (u : Bool), lowerAscii (canonGo u a) = lowerAscii a
  | [], _ => rfl
  | x :: xs, u => by
    have ih := fun u' => canonGo_lower xs u'
    simp only [lowerAscii] at ih ⊢
    cases u
    · simp only [canonGo, Bool.false_eq_true, if_false, List.map_cons, lower_lower, ih]
    · simp only [canonGo, if_true, List.map_cons, lower_upper, ih]

private theorem allToken_congr : ∀ (a b : List Char), lowerAscii a = lowerAscii b → a.all isTokenChar = b.all isTokenChar
  | [], [], _ => rfl
  | [], _ :: _, h => by simp [lowerAscii] at h
  | _ :: _, [], h => by simp [lowerAscii] at h
  | x :: xs, y :: ys, h => by
    simp only [lowerAscii, List.map_cons, List.cons.injEq] at h
    simp only [List.all_cons, token_congr h.1, allToken_congr xs ys h.2]

/-- any spelling of a canonical token name canonicalises to it -/
private theorem canonicalKey_of_lower_eq (g n : List Char) (h : lowerAscii g = lowerAscii n)
    (hg : g.all isTokenChar = true) (hc : canonGo true g = g) : canonicalKey n = g := by
  unfold canonicalKey
  rw [← allToken_congr g n h, hg]
  simp only [if_true]
  rw [← canonGo_congr g n true h, hc]

/-- any spelling of an ASCII name is EqualFold to it -/
private theorem equalFold_of_lower_eq : ∀ (h n : List Char), lowerAscii h = lowerAscii n → equalFold h n = true
  | [], [], _ => rfl
  | [], _ :: _, h => by simp [lowerAscii] at h
  | _ :: _, [], h => by simp [lowerAscii] at h
  | x :: xs, y :: ys, h => by
    simp only [lowerAscii, List.map_cons, List.cons.injEq] at h
    simp only [equalFold, foldEqChar, h.1, beq_self_eq_true, Bool.or_true, Bool.true_or, Bool.true_and]
    exact equalFold_of_lower_eq xs ys h.2

private theorem token_not_special : isTokenChar kelvin = false ∧ isTokenChar longS = false := by decide

/-- for a token (hence ASCII) right operand, EqualFold is equality up to ASCII case -/
private theorem lower_eq_of_equalFold : ∀ (h n : List Char), equalFold h n = true → n.all isTokenChar = true →
    lowerAscii h = lowerAscii n
  | [], [], _, _ => rfl
  | [], _ :: _, h, _ => by simp [equalFold] at h
  | _ :: _, [], h, _ => by simp [equalFold] at h
  | x :: xs, y :: ys, h, ht => by
    simp only [equalFold, Bool.and_eq_true] at h
    simp only [List.all_cons, Bool.and_eq_true] at ht
    have ih := lower_eq_of_equalFold xs ys h.2 ht.2
    have hc : toLowerAZ x = toLowerAZ y := by
      have hf := h.1
      simp only [foldEqChar, Bool.or_eq_true, Bool.and_eq_true, beq_iff_eq] at hf
      rcases hf with ((h1 | h1) | h1) | h1
      · rw [h1]
      · exact h1
      · have := token_not_special.1; rw [← h1.2] at this; rw [this] at ht; exact absurd ht.1 (by simp)
      · have := token_not_special.2; rw [← h1.2] at this; rw [this] at ht; exact absurd ht.1 (by simp)
    simp only [lowerAscii, List.map_cons, hc, List.cons.injEq, true_and]
    exact ih

private theorem lower_eq_lowerAscii (s : List Char) : lower s = lowerAscii s := rfl

private theorem isFiltered_congr (a b : List Char) (h : lowerAscii a = lowerAscii b) : isFiltered a = isFiltered b := by
  unfold isFiltered eqIgnoreCase
  simp only [lower_eq_lowerAscii, h]

/-- **Spec ⊆ code**: a name the property lists, in any letter case, is dropped by the copy loop. -/
private theorem filtered_dropped (n : Name) (h : isFiltered n = true) : isHop n = true ∨ isSensitive n = true := by
  unfold isFiltered at h
  rw [List.any_eq_true] at h
  obtain ⟨s, hs, heq⟩ := h
  unfold eqIgnoreCase at heq
  simp only [lower_eq_lowerAscii, beq_iff_eq] at heq
  have hc := gen_covers_spec s hs
  rw [Bool.or_eq_true, List.any_eq_true, List.any_eq_true] at hc
  rcases hc with ⟨g, hg, hge⟩ | ⟨g, hg, hge⟩
  · left
    unfold isHop
    rw [List.any_eq_true]
    refine ⟨g, hg, equalFold_of_lower_eq g n ?_⟩
    simp only [beq_iff_eq] at hge
    rw [hge, heq]
  · right
    simp only [Bool.and_eq_true, beq_iff_eq] at hge
    unfold isSensitive
    have : canonicalKey n = g := canonicalKey_of_lower_eq g n (by rw [hge.1.1, heq]) hge.1.2 hge.2
    rw [this]
    exact List.contains_iff_mem.mpr hg

/-- **code ⊆ Spec**: the copy loop drops a well-formed header name only if the property lists it. -/
private theorem dropped_filtered (n : Name) (ht : n.all isTokenChar = true)
    (h : isHop n = true ∨ isSensitive n = true) : isFiltered n = true := by
  rcases h with h | h
  · unfold isHop at h
    rw [List.any_eq_true] at h
    obtain ⟨g, hg, hf⟩ := h
    have := lower_eq_of_equalFold g n hf ht
    rw [← isFiltered_congr g n this]
    exact gen_lists_within_spec g (List.mem_append_left _ hg)
  · unfold isSensitive canonicalKey at h
    rw [ht] at h
    simp only [if_true] at h
    have hm : canonGo true n ∈ sensitive := List.contains_iff_mem.mp h
    rw [← isFiltered_congr (canonGo true n) n (canonGo_lower n true)]
    exact gen_lists_within_spec _ (List.mem_append_right _ hm)

/-! ### http.Header facts -/

private theorem mem_setRaw {k : Name} {vs : List Value} : ∀ {h : Hdr} {e}, e ∈ setRaw k vs h → e = (k, vs) ∨ e ∈ h
  | [], e, he => by simp [setRaw] at he; exact Or.inl he
  | x :: t, e, he => by
    unfold setRaw at he
    split at he
    · rcases List.mem_cons.mp he with h1 | h1
      · exact Or.inl h1
      · exact Or.inr (List.mem_cons_of_mem _ h1)
    · rcases List.mem_cons.mp he with h1 | h1
      · exact Or.inr (by rw [h1]; exact List.mem_cons_self)
      · rcases mem_setRaw h1 with h2 | h2
        · exact Or.inl h2
        · exact Or.inr (List.mem_cons_of_mem _ h2)

private theorem mem_setRaw_of_ne {k : Name} {vs : List Value} : ∀ {h : Hdr} {e : Name × List Value}, e ∈ h → e.1 ≠ k → e ∈ setRaw k vs h
  | [], _, he, _ => by simp at he
  | x :: t, e, he, hne => by
    unfold setRaw
    split
    · rename_i hx
      rcases List.mem_cons.mp he with h1 | h1
      · rw [h1] at hne; exact absurd hx hne
      · exact List.mem_cons_of_mem _ h1
    · rcases List.mem_cons.mp he with h1 | h1
      · rw [h1]; exact List.mem_cons_self
      · exact List.mem_cons_of_mem _ (mem_setRaw_of_ne h1 hne)

private theorem valuesOf_setRaw_same (k : Name) (vs : List Value) : ∀ (h : Hdr), valuesOf (setRaw k vs h) k = vs
  | [] => by simp [setRaw, valuesOf]
  | x :: t => by
    unfold setRaw
    split
    · simp [valuesOf]
    · rename_i hx
      have ih := valuesOf_setRaw_same k vs t
      unfold valuesOf at ih ⊢
      rw [List.find?_cons_of_neg (by simpa using hx)]
      exact ih

private theorem valuesOf_setRaw_ne (k k' : Name) (vs : List Value) (hne : k' ≠ k) : ∀ (h : Hdr), valuesOf (setRaw k vs h) k' = valuesOf h k'
  | [] => by
    unfold setRaw valuesOf
    rw [List.find?_cons_of_neg (by simpa using (Ne.symm hne))]
  | x :: t => by
    unfold setRaw
    split
    · rename_i hx
      unfold valuesOf
      rw [List.find?_cons_of_neg (by simpa using (Ne.symm hne)), List.find?_cons_of_neg (by rw [hx]; simpa using (Ne.symm hne))]
    · have ih := valuesOf_setRaw_ne k k' vs hne t
      unfold valuesOf at ih ⊢
      by_cases hx' : x.1 = k'
      · rw [List.find?_cons_of_pos (by simpa using hx'), List.find?_cons_of_pos (by simpa using hx')]
      · rw [List.find?_cons_of_neg (by simpa using hx'), List.find?_cons_of_neg (by simpa using hx')]
        exact ih

private theorem mem_setIf {h : Hdr} {k : Name} {v : Option Value} {e} (he : e ∈ setIf h k v) : e.1 = k ∨ e ∈ h := by
  unfold setIf at he
  cases v with
  | none => exact Or.inr he
  | some v =>
    rcases mem_setRaw he with h1 | h1
    · left; rw [h1]
    · exact Or.inr h1

private theorem mem_setIf_of_ne {h : Hdr} {k : Name} {v : Option Value} {e : Name × List Value} (he : e ∈ h) (hne : e.1 ≠ k) : e ∈ setIf h k v := by
  unfold setIf
  cases v with
  | none => exact he
  | some v => exact mem_setRaw_of_ne he hne

private def resultOf (d : Option Value) (old : List Value) : List Value :=
  match d with
  | some v => [v]
  | none => old

private theorem valuesOf_setIf_same (h : Hdr) (k : Name) (v : Option Value) :
    valuesOf (setIf h k v) k = resultOf v (valuesOf h k) := by
  unfold setIf
  cases v with
  | none => rfl
  | some v => exact valuesOf_setRaw_same k [v] h

private theorem valuesOf_setIf_ne (h : Hdr) (k k' : Name) (v : Option Value) (hne : k' ≠ k) :
    valuesOf (setIf h k v) k' = valuesOf h k' := by
  unfold setIf
  cases v with
  | none => rfl
  | some v => exact valuesOf_setRaw_ne k k' [v] hne h

private theorem valuesOf_copied (orig : Hdr) (k : Name) (h1 : isHop k = false) (h2 : isSensitive k = false) :
    valuesOf (copied orig) k = valuesOf orig k := by
  unfold copied valuesOf
  induction orig with
  | nil => rfl
  | cons x t ih =>
    rw [List.filter_cons]
    by_cases hx : x.1 = k
    · have hp : (!(isHop x.1) && !(isSensitive x.1)) = true := by rw [hx, h1, h2]; rfl
      simp only [hp, if_true]
      rw [List.find?_cons_of_pos (by simpa using hx), List.find?_cons_of_pos (by simpa using hx)]
    · rw [List.find?_cons_of_neg (by simpa using hx)]
      by_cases hp : (!(isHop x.1) && !(isSensitive x.1)) = true
      · simp only [hp, if_true]
        rw [List.find?_cons_of_neg (by simpa using hx)]; exact ih
      · simp only [hp]
        exact ih

/-! ### Theorem 1 — nothing sensitive or hop-by-hop is forwarded -/

private theorem key_cases {var : Variant} {ctx : Ctx} {orig : Hdr} {model : Value} {e : Name × List Value}
    (he : e ∈ engineHeaders var ctx orig model) :
    e.1 ∈ [hVia, hXFF, hXFH, hXFP, hXRealIP, hProxiedBy, hXModel] ∨ e ∈ copied orig := by
  unfold engineHeaders copyHeaders at he
  simp only [] at he
  rcases mem_setIf he with h | he; · left; simp [h]
  rcases mem_setIf he with h | he; · left; simp [h]
  rcases mem_setIf he with h | he; · left; simp [h]
  rcases mem_setIf he with h | he; · left; simp [h]
  rcases mem_setIf he with h | he; · left; simp [h]
  rcases mem_setIf he with h | he; · left; simp [h]
  rcases mem_setIf he with h | he; · left; simp [h]
  exact Or.inr he

/-- **No header block olla sends upstream contains a sensitive or hop-by-hop name** — for every
    client header map (any letter case of any listed name, any number of values), every peer/Host/TLS
    context, either code variant, with or without a model header. -/
theorem C15_none_forwarded (var : Variant) (ctx : Ctx) (orig : Hdr) (model : Value) :
    noneForwarded (engineHeaders var ctx orig model) = true := by
  unfold noneForwarded
  rw [List.all_eq_true]
  intro e he
  rcases key_cases he with hk | hc
  · rw [(gen_written_not_filtered e.1 hk).1]; rfl
  · unfold copied at hc
    rw [List.mem_filter] at hc
    cases hf : isFiltered e.1 with
    | false => rfl
    | true =>
      have := hc.2
      rcases filtered_dropped e.1 hf with h | h <;> simp [h] at this

/-- the same for CopyHeaders alone (the translation path hands the request to the same engines) -/
theorem C15_none_forwarded_copyHeaders (var : Variant) (ctx : Ctx) (orig : Hdr) :
    noneForwarded (copyHeaders var ctx orig) = true := by
  have := C15_none_forwarded var ctx orig []
  simpa [engineHeaders, setIf] using this

/-! ### Theorem 2 — every other client header arrives unchanged -/

/-- **Every client header with a well-formed name that is neither filtered nor one of the headers
    olla owns arrives with the same key, the same values, in the same order.** -/
theorem C15_others_unchanged (var : Variant) (ctx : Ctx) (orig : Hdr) (model : Value) :
    othersUnchanged orig (engineHeaders var ctx orig model) = true := by
  unfold othersUnchanged
  rw [List.all_eq_true]
  intro e he
  cases ht : isToken e.1 with
  | false => rfl
  | true =>
    cases hf : isFiltered e.1 with
    | true => rfl
    | false =>
      cases hw : Olla.Spec.C15.ollaWritten.contains e.1 with
      | true => rfl
      | false =>
        simp only [Bool.not_true, Bool.false_or]
        rw [List.contains_iff_mem]
        have hw' : e.1 ∉ [hVia, hXFF, hXFH, hXFP, hXRealIP, hProxiedBy, hXModel] := by
          rw [← gen_written_names.2.1]
          intro hm
          rw [List.contains_iff_mem.mpr hm] at hw
          exact absurd hw (by simp)
        simp only [List.mem_cons, List.not_mem_nil, or_false, not_or] at hw'
        have htok : e.1.all isTokenChar = true := by
          unfold isToken at ht
          rw [Bool.and_eq_true] at ht
          exact ht.2
        have hcop : e ∈ copied orig := by
          unfold copied
          rw [List.mem_filter]
          refine ⟨he, ?_⟩
          cases h1 : isHop e.1 with
          | true => rw [dropped_filtered e.1 htok (Or.inl h1)] at hf; exact absurd hf (by simp)
          | false =>
            cases h2 : isSensitive e.1 with
            | true => rw [dropped_filtered e.1 htok (Or.inr h2)] at hf; exact absurd hf (by simp)
            | false => rfl
        unfold engineHeaders copyHeaders
        simp only []
        obtain ⟨nVia, nXFF, nXFH, nXFP, nRIP, nPB, nXM⟩ := hw'
        exact mem_setIf_of_ne (mem_setIf_of_ne (mem_setIf_of_ne (mem_setIf_of_ne (mem_setIf_of_ne
          (mem_setIf_of_ne (mem_setIf_of_ne hcop nPB) nVia) nRIP) nXFF) nXFP) nXFH) nXM

/-- for CopyHeaders alone -/
theorem C15_others_unchanged_copyHeaders (var : Variant) (ctx : Ctx) (orig : Hdr) :
    othersUnchanged orig (copyHeaders var ctx orig) = true := by
  have := C15_others_unchanged var ctx orig []
  simpa [engineHeaders, setIf] using this

/-! ### Theorem 3 — Via / X-Forwarded-* / X-Real-IP additions keep the existing values -/

/-- **…and nothing else arrives**: every header olla sends upstream either bears a name the client sent
    or is one of the headers olla owns — no header of another request, whatever else is in flight. -/
theorem C15_nothing_foreign (var : Variant) (ctx : Ctx) (orig : Hdr) (model : Value) :
    Olla.Spec.C15.nothingForeign orig (engineHeaders var ctx orig model) = true := by
  unfold Olla.Spec.C15.nothingForeign
  rw [List.all_eq_true]
  intro e he
  rcases key_cases he with h | h
  · have hw : Olla.Spec.C15.ollaWritten.contains e.1 = true := by
      simp only [List.mem_cons, List.mem_nil_iff, or_false] at h
      rcases h with h | h | h | h | h | h | h <;> (rw [h]; decide)
    rw [Bool.or_eq_true]; exact Or.inl hw
  · have hmem : e ∈ orig := by
      unfold copied at h
      exact (List.mem_filter.mp h).1
    rw [Bool.or_eq_true]
    right
    rw [List.any_eq_true]
    exact ⟨e, hmem, by simp⟩

private theorem spec_valuesOf (h : Hdr) (k : Name) : Olla.Spec.C15.valuesOf h k = valuesOf h k := rfl

private theorem joinWith_eq : ∀ l : List Value, joinWith commaSp l = Olla.Spec.C15.joinComma l
  | [] => rfl
  | [_] => rfl
  | x :: y :: t => by
    have ih := joinWith_eq (y :: t)
    simp only [joinWith, Olla.Spec.C15.joinComma, commaSp] at ih ⊢
    rw [ih]

private theorem joinComma_nil : ∀ l : List Value, (∀ v ∈ l, v ≠ []) → Olla.Spec.C15.joinComma l = [] → l = []
  | [], _, _ => rfl
  | [x], hl, h => by
    simp only [Olla.Spec.C15.joinComma] at h
    exact absurd h (hl x (by simp))
  | x :: y :: t, hl, h => by
    simp only [Olla.Spec.C15.joinComma, List.append_eq_nil_iff] at h
    exact absurd h.1.1 (hl x (by simp))

private def nonEmpty (vs : List Value) : List Value := vs.filter (fun v => v != [])

private theorem nonEmpty_ne (vs : List Value) : ∀ v ∈ nonEmpty vs, v ≠ [] := by
  intro v hv
  unfold nonEmpty at hv
  rw [List.mem_filter] at hv
  simpa using hv.2

/-- under the variant's precondition, "the existing value" the code reads is all existing
    non-empty lines joined by ", " -/
private theorem existing_spec (var : Variant) (orig : Hdr) (k : Name)
    (hyp : var = .fixed ∨ (valuesOf orig k).length ≤ 1) :
    existing var orig k = Olla.Spec.C15.joinComma (nonEmpty (valuesOf orig k)) := by
  have short : (valuesOf orig k).length ≤ 1 → Olla.Model.Headers.get orig k = Olla.Spec.C15.joinComma (nonEmpty (valuesOf orig k)) := by
    intro hl
    unfold Olla.Model.Headers.get nonEmpty
    cases hv : valuesOf orig k with
    | nil => rfl
    | cons v t =>
      cases t with
      | nil =>
        by_cases hvn : v = []
        · subst hvn; rfl
        · have : (v != []) = true := by simpa using hvn
          simp only [List.filter_cons, this, if_true, List.filter_nil, Olla.Spec.C15.joinComma]
      | cons w t' => rw [hv] at hl; simp at hl
  cases var with
  | pinned =>
    rcases hyp with h | h
    · exact absurd h (by decide)
    · exact short h
  | fixed =>
    unfold existing
    simp only []
    by_cases hl : (valuesOf orig k).length ≤ 1
    · rw [if_pos hl]; exact short hl
    · rw [if_neg hl]; exact joinWith_eq _

private theorem keeps_refl (old : List Value) : keeps old old = true := by
  unfold keeps
  simp only [Bool.or_eq_true]
  left
  rw [List.isPrefixOf_iff_prefix]
  exact List.prefix_refl _

private theorem keeps_of_nil (old new : List Value) (h : nonEmpty old = []) : keeps old new = true := by
  unfold keeps
  unfold nonEmpty at h
  simp only [h, List.isPrefixOf, Bool.true_or]

private theorem keeps_join (old : List Value) : keeps old [Olla.Spec.C15.joinComma (nonEmpty old)] = true := by
  unfold keeps nonEmpty
  simp only [beq_self_eq_true, Bool.true_or, Bool.or_true]

private theorem keeps_join_app (old : List Value) (y : Value) :
    keeps old [Olla.Spec.C15.joinComma (nonEmpty old) ++ commaSp ++ y] = true := by
  unfold keeps nonEmpty commaSp
  simp only [Bool.or_eq_true]
  right; right
  rw [List.isPrefixOf_iff_prefix]
  exact List.prefix_append _ _

/-- the shape every maintained header ends up with: untouched, or `Set` to a value that starts with
    everything that was there -/
private theorem keeps_decision (var : Variant) (orig : Hdr) (k : Name)
    (hyp : var = .fixed ∨ (valuesOf orig k).length ≤ 1) (d : Option Value)
    (hd : d = none ∨ (∃ y, d = some (existing var orig k ++ commaSp ++ y)) ∨
          (existing var orig k ≠ [] ∧ d = some (existing var orig k)) ∨
          (existing var orig k = [] ∧ ∃ y, d = some y)) :
    keeps (valuesOf orig k) (resultOf d (valuesOf orig k)) = true := by
  have hs := existing_spec var orig k hyp
  unfold resultOf
  rcases hd with h | ⟨y, h⟩ | ⟨_, h⟩ | ⟨hn, y, h⟩
  · subst h; exact keeps_refl _
  · subst h; simp only []; rw [hs]; exact keeps_join_app _ _
  · subst h; simp only []; rw [hs]; exact keeps_join _
  · subst h
    apply keeps_of_nil
    rw [hs] at hn
    exact joinComma_nil _ (nonEmpty_ne _) hn

private theorem ne_nil_of_bne {v : Value} (h : (v != []) = true) : v ≠ [] := by simpa using h
private theorem eq_nil_of_not_bne {v : Value} (h : ¬ (v != []) = true) : v = [] := by simpa using h

private theorem via_decision (var : Variant) (orig : Hdr) :
    viaNew var orig = none ∨ (∃ y, viaNew var orig = some (existing var orig hVia ++ commaSp ++ y)) ∨
    (existing var orig hVia ≠ [] ∧ viaNew var orig = some (existing var orig hVia)) ∨
    (existing var orig hVia = [] ∧ ∃ y, viaNew var orig = some y) := by
  unfold viaNew
  simp only []
  by_cases h : (existing var orig hVia != []) = true
  · right; left; exact ⟨viaValue, by rw [if_pos h]⟩
  · right; right; right; exact ⟨eq_nil_of_not_bne h, viaValue, by rw [if_neg h]⟩

private theorem xff_decision (var : Variant) (ctx : Ctx) (orig : Hdr) :
    xffNew var ctx orig = none ∨ (∃ y, xffNew var ctx orig = some (existing var orig hXFF ++ commaSp ++ y)) ∨
    (existing var orig hXFF ≠ [] ∧ xffNew var ctx orig = some (existing var orig hXFF)) ∨
    (existing var orig hXFF = [] ∧ ∃ y, xffNew var ctx orig = some y) := by
  unfold xffNew
  simp only []
  by_cases h : (existing var orig hXFF != []) = true
  · rw [if_pos h]
    by_cases hi : (extractClientIP var ctx orig != []) = true
    · rw [if_pos hi]; right; left; exact ⟨_, rfl⟩
    · rw [if_neg hi]; right; right; left; exact ⟨ne_nil_of_bne h, rfl⟩
  · rw [if_neg h]
    by_cases hi : (extractClientIP var ctx orig != []) = true
    · rw [if_pos hi]; right; right; right; exact ⟨eq_nil_of_not_bne h, _, rfl⟩
    · rw [if_neg hi]; left; rfl

private theorem xfp_decision (var : Variant) (ctx : Ctx) (orig : Hdr) :
    xfpNew var ctx orig = none ∨ (∃ y, xfpNew var ctx orig = some (existing var orig hXFP ++ commaSp ++ y)) ∨
    (existing var orig hXFP ≠ [] ∧ xfpNew var ctx orig = some (existing var orig hXFP)) ∨
    (existing var orig hXFP = [] ∧ ∃ y, xfpNew var ctx orig = some y) := by
  unfold xfpNew
  by_cases h : (existing var orig hXFP == []) = true
  · rw [if_pos h]; right; right; right; exact ⟨by simpa using h, _, rfl⟩
  · rw [if_neg h]; left; rfl

private theorem xfh_decision (var : Variant) (ctx : Ctx) (orig : Hdr) :
    xfhNew var ctx orig = none ∨ (∃ y, xfhNew var ctx orig = some (existing var orig hXFH ++ commaSp ++ y)) ∨
    (existing var orig hXFH ≠ [] ∧ xfhNew var ctx orig = some (existing var orig hXFH)) ∨
    (existing var orig hXFH = [] ∧ ∃ y, xfhNew var ctx orig = some y) := by
  unfold xfhNew
  by_cases h : (existing var orig hXFH == [] && ctx.host != []) = true
  · rw [if_pos h]
    rw [Bool.and_eq_true] at h
    right; right; right; exact ⟨by simpa using h.1, _, rfl⟩
  · rw [if_neg h]; left; rfl

private theorem rip_decision (var : Variant) (ctx : Ctx) (orig : Hdr) :
    realIPNew var ctx orig = none ∨ (∃ y, realIPNew var ctx orig = some (existing var orig hXRealIP ++ commaSp ++ y)) ∨
    (existing var orig hXRealIP ≠ [] ∧ realIPNew var ctx orig = some (existing var orig hXRealIP)) ∨
    (existing var orig hXRealIP = [] ∧ ∃ y, realIPNew var ctx orig = some y) := by
  unfold realIPNew
  simp only []
  by_cases h : (existing var orig hXRealIP == []) = true
  · rw [if_pos h]
    by_cases hi : (extractClientIP var ctx orig != []) = true
    · rw [if_pos hi]; right; right; right; exact ⟨by simpa using h, _, rfl⟩
    · rw [if_neg hi]; left; rfl
  · rw [if_neg h]; left; rfl

/-- Theorem 3 for both code variants: with the fix for all header maps; for the code as pinned
    whenever each maintained header arrives on at most one line. -/
theorem C15_appended_keep_existing_general (var : Variant) (ctx : Ctx) (orig : Hdr) (model : Value)
    (hyp : var = .fixed ∨ Olla.Spec.C15.singleLine orig = true) :
    additionsKeepExisting orig (engineHeaders var ctx orig model) = true := by
  have hk : ∀ k ∈ [hVia, hXFF, hXFH, hXFP, hXRealIP], var = .fixed ∨ (valuesOf orig k).length ≤ 1 := by
    intro k hk
    rcases hyp with h | h
    · exact Or.inl h
    · right
      unfold Olla.Spec.C15.singleLine at h
      rw [gen_written_names.1, List.all_eq_true] at h
      have := h k hk
      rw [spec_valuesOf] at this
      simpa using this
  have nf := gen_written_not_filtered
  unfold additionsKeepExisting
  rw [gen_written_names.1]
  simp only [List.all_cons, List.all_nil, Bool.and_true, Bool.and_eq_true, spec_valuesOf]
  unfold engineHeaders copyHeaders
  simp only []
  refine ⟨?_, ?_, ?_, ?_, ?_⟩
  · simp (disch := decide) only [valuesOf_setIf_ne, valuesOf_setIf_same]
    rw [valuesOf_copied orig hVia (nf hVia (by simp)).2.1 (nf hVia (by simp)).2.2]
    exact keeps_decision var orig hVia (hk hVia (by simp)) _ (via_decision var orig)
  · simp (disch := decide) only [valuesOf_setIf_ne, valuesOf_setIf_same]
    rw [valuesOf_copied orig hXFF (nf hXFF (by simp)).2.1 (nf hXFF (by simp)).2.2]
    exact keeps_decision var orig hXFF (hk hXFF (by simp)) _ (xff_decision var ctx orig)
  · simp (disch := decide) only [valuesOf_setIf_ne, valuesOf_setIf_same]
    rw [valuesOf_copied orig hXFH (nf hXFH (by simp)).2.1 (nf hXFH (by simp)).2.2]
    exact keeps_decision var orig hXFH (hk hXFH (by simp)) _ (xfh_decision var ctx orig)
  · simp (disch := decide) only [valuesOf_setIf_ne, valuesOf_setIf_same]
    rw [valuesOf_copied orig hXFP (nf hXFP (by simp)).2.1 (nf hXFP (by simp)).2.2]
    exact keeps_decision var orig hXFP (hk hXFP (by simp)) _ (xfp_decision var ctx orig)
  · simp (disch := decide) only [valuesOf_setIf_ne, valuesOf_setIf_same]
    rw [valuesOf_copied orig hXRealIP (nf hXRealIP (by simp)).2.1 (nf hXRealIP (by simp)).2.2]
    exact keeps_decision var orig hXRealIP (hk hXRealIP (by simp)) _ (rip_decision var ctx orig)

/-- **With the fix (`fixes/C15-forwarded-multiline.patch`): for ALL header maps, each of Via,
    X-Forwarded-For, X-Forwarded-Host, X-Forwarded-Proto, X-Real-IP leaves the proxy still carrying
    every non-empty value it arrived with, in order.** -/
theorem C15_appended_keep_existing_fixed (ctx : Ctx) (orig : Hdr) (model : Value) :
    additionsKeepExisting orig (engineHeaders .fixed ctx orig model) = true :=
  C15_appended_keep_existing_general .fixed ctx orig model (Or.inl rfl)

/-- **The code as pinned**: the same, under the explicit hypothesis that every maintained header
    arrives on at most one line.

    FULL-STRENGTH STATEMENT, false for the pinned tree (see the witness below):
      `∀ ctx orig model, additionsKeepExisting orig (engineHeaders .pinned ctx orig model) = true` -/
theorem C15_appended_keep_existing_partial (ctx : Ctx) (orig : Hdr) (model : Value)
    (hsingle : Olla.Spec.C15.singleLine orig = true) :
    additionsKeepExisting orig (engineHeaders .pinned ctx orig model) = true :=
  C15_appended_keep_existing_general .pinned ctx orig model (Or.inr hsingle)

private def witnessCtx : Ctx := { host := ['h'], remoteHost := ['1','9','2','.','0','.','2','.','1'], tls := false }
private def witnessVia : Hdr := [(hVia, [['1','.','0',' ','a'], ['1','.','1',' ','b']])]
private def witnessXFF : Hdr := [(hXFF, [['1','.','1','.','1','.','1'], ['2','.','2','.','2','.','2']])]

/-- Counterexample to the full-strength statement on the pinned code: `Via: 1.0 a` + `Via: 1.1 b`
    leaves as `Via: 1.0 a, 1.1 olla/…` — the second line is gone. -/
theorem C15_appended_keep_existing_pinned_witness :
    ¬ (∀ (ctx : Ctx) (orig : Hdr) (model : Value), additionsKeepExisting orig (engineHeaders .pinned ctx orig model) = true) := by
  intro h
  have := h witnessCtx witnessVia []
  revert this
  decide

/-- The same for X-Forwarded-For: `1.1.1.1` + `2.2.2.2` leaves as `1.1.1.1, 1.1.1.1`. -/
theorem C15_appended_keep_existing_pinned_witness_xff :
    valuesOf (copyHeaders .pinned witnessCtx witnessXFF) hXFF = [['1','.','1','.','1','.','1',',',' ','1','.','1','.','1','.','1']] ∧
    additionsKeepExisting witnessXFF (copyHeaders .pinned witnessCtx witnessXFF) = false := by
  decide

/-- What holds of the tree under check, whichever variant is active: full strength exactly when
    `Olla.Model.Headers.active = .fixed` (then the first disjunct is closed by `rfl`). -/
theorem C15_appended_keep_existing_active (ctx : Ctx) (orig : Hdr) (model : Value)
    (hyp : active = .fixed ∨ Olla.Spec.C15.singleLine orig = true) :
    additionsKeepExisting orig (engineHeaders active ctx orig model) = true :=
  C15_appended_keep_existing_general active ctx orig model hyp

/-! ### Non-vacuity -/

private def demo : Hdr :=
  [("aUtHoRiZaTiOn".toList, ["Bearer s".toList]), ("COOKIE".toList, ["a=b".toList, "c=d".toList]),
   ("keep-ALIVE".toList, ["t=5".toList]), ("X-Custom".toList, ["1".toList, [], "3".toList]),
   ("Via".toList, ["1.0 edge".toList]), ("X-Forwarded-For".toList, ["198.51.100.7".toList])]

/-- the model really drops, keeps and appends on a concrete request -/
example : copyHeaders .pinned witnessCtx demo =
    [("X-Custom".toList, ["1".toList, [], "3".toList]),
     (hVia, [("1.0 edge, ".toList ++ viaValue)]),
     (hXFF, ["198.51.100.7, 198.51.100.7".toList]),
     (hProxiedBy, [proxiedByValue]),
     (hXRealIP, ["198.51.100.7".toList]),
     (hXFP, [protoPlain]),
     (hXFH, [['h']])] := by decide

example : isFiltered "pRoXy-AuThOrIzAtIoN".toList = true ∧ isFiltered "X-Custom".toList = false ∧
    isFiltered "Trailers".toList = false := by decide

/-- the hypothesis of the partial theorem is satisfiable and the fixed variant differs from the pinned one exactly on multi-line input -/
example : Olla.Spec.C15.singleLine demo = true ∧ Olla.Spec.C15.singleLine witnessVia = false ∧
    additionsKeepExisting witnessVia (copyHeaders .fixed witnessCtx witnessVia) = true ∧
    copyHeaders .fixed witnessCtx demo = copyHeaders .pinned witnessCtx demo := by decide

/-! ### tie: no process-wide state on the modelled path

The theorems above are about single calls (or the history of one object). They cover every
request of a running process only if a call reaches no state that outlives it besides that
object. `Olla.Gen.State` is re-read from the source on every run: the package-level variables
reachable from each function inside its package that the package changes after initialisation. -/
theorem C15_tie_no_process_wide_state :
    Olla.Spec.State.reachesOnly "core.CopyHeaders" [] = true := by decide

/-- The glue in front of the handlers: the middleware chain mounted on the proxy routes (rate limit, size limit,
    request and access logging) hands the request on as it came — every line of every client header, the path
    and the raw query (a probe through the real chain, regenerated on every run: a tie, not a theorem). -/
theorem C15_tie_middleware_leaves_request_alone : Olla.Gen.Security.chainRequestChanges = [] := by decide

end Olla.Props.C15
