/-
C06 — Each balancing strategy distributes load as documented.
Property theorems only (plus the small lemmas they need, marked `private`); the model is
`Olla.Model.Balancer`, the predicates are `Olla.Spec.C06`, the status facts are the regenerated
`Olla.Gen.Balancer.statusTable`.
-/
import Olla.Model.Balancer
import Olla.Spec.C06
import Olla.Spec.State

namespace Olla.Props.C06
open Olla.Model.Balancer Olla.Spec.C06

/-! ### Side conditions on the regenerated table -/

/-- Every routable status carries a positive weight that is an exact number of tenths. -/
theorem gen_routable_weight_positive :
    ∀ r ∈ Olla.Gen.Balancer.statusTable, r.2.1 = true → 0 < r.2.2 ∧ r.2.2 < 999999 := by decide

/-- The routable statuses are exactly healthy, busy and warming (property text of C03/C06). -/
theorem gen_routable_exact :
    ∀ r ∈ Olla.Gen.Balancer.statusTable, r.2.1 = (["healthy", "busy", "warming"].contains r.1) := by decide

/-- The six declared statuses are all tabulated (so the `default:` branch is only the bogus row). -/
theorem gen_statuses_tabulated :
    ∀ s ∈ ["healthy", "busy", "offline", "warming", "unhealthy", "unknown"],
      (Olla.Gen.Balancer.statusTable.map (·.1)).contains s = true := by decide

private theorem weight_pos_of_routable (s : String) (h : isRoutable s = true) : 0 < weightTenths s := by
  unfold isRoutable routableIn at h
  unfold weightTenths weightIn
  cases hf : Olla.Gen.Balancer.statusTable.find? (fun r => r.1 == s) with
  | none => simp [hf] at h
  | some r =>
    simp [hf] at h ⊢
    exact (gen_routable_weight_positive r (List.mem_of_find?_eq_some hf) h).1

/-! ### Priority -/

private theorem routable_mem {l : List Ep} {e : Ep} : e ∈ routable l ↔ e ∈ l ∧ isRoutable e.status = true := by
  simp [routable, List.mem_filter]

private theorem maxPrio_spec : ∀ (l : List Ep) (m : Int), maxPrio l = some m →
    (∃ e ∈ l, e.prio = m) ∧ ∀ e ∈ l, e.prio ≤ m
  | [], m, h => by simp [maxPrio] at h
  | e :: es, m, h => by
    unfold maxPrio at h
    cases hm : maxPrio es with
    | none =>
      rw [hm] at h; simp at h
      cases es with
      | nil => subst h; simp
      | cons x xs => unfold maxPrio at hm; cases h2 : maxPrio xs <;> simp [h2] at hm
    | some m' =>
      rw [hm] at h; simp at h
      have ih := maxPrio_spec es m' hm
      obtain ⟨⟨w, hw, hwm⟩, hall⟩ := ih
      by_cases hge : e.prio ≥ m'
      · simp [hge] at h; subst h
        refine ⟨⟨e, by simp, rfl⟩, ?_⟩
        intro x hx; rcases List.mem_cons.mp hx with rfl | hx
        · exact Int.le_refl _
        · exact Int.le_trans (hall x hx) hge
      · simp [hge] at h; subst h
        refine ⟨⟨w, by simp [hw], hwm⟩, ?_⟩
        intro x hx; rcases List.mem_cons.mp hx with rfl | hx
        · omega
        · exact hall x hx

private theorem maxPrio_none : ∀ (l : List Ep), maxPrio l = none → l = []
  | [], _ => rfl
  | e :: es, h => by unfold maxPrio at h; cases hm : maxPrio es <;> simp [hm] at h

/-- The model's tier is exactly the property's "highest-priority tier that has a routable member". -/
theorem topTier_iff_spec (l : List Ep) (e : Ep) : e ∈ topTier l ↔ inTopTier l e = true := by
  unfold topTier inTopTier
  cases hm : maxPrio (routable l) with
  | none =>
    have hr := maxPrio_none _ hm
    simp only [List.not_mem_nil, false_iff]
    intro h
    simp only [Bool.and_eq_true, List.contains_iff_mem] at h
    have : e ∈ routable l := routable_mem.mpr ⟨h.1.1, h.1.2⟩
    rw [hr] at this; simp at this
  | some m =>
    obtain ⟨⟨w, hw, hwm⟩, hall⟩ := maxPrio_spec _ _ hm
    simp only [List.mem_filter, beq_iff_eq, Bool.and_eq_true, List.contains_iff_mem, List.all_eq_true,
      Bool.or_eq_true, Bool.not_eq_true', decide_eq_true_eq]
    constructor
    · rintro ⟨her, hp⟩
      have := routable_mem.mp her
      refine ⟨⟨this.1, this.2⟩, ?_⟩
      intro x hx
      by_cases hrx : isRoutable x.status = true
      · right; have := hall x (routable_mem.mpr ⟨hx, hrx⟩); omega
      · left; simpa using hrx
    · rintro ⟨⟨hel, her⟩, hmax⟩
      refine ⟨routable_mem.mpr ⟨hel, her⟩, ?_⟩
      have h1 := hall e (routable_mem.mpr ⟨hel, her⟩)
      have hwr := routable_mem.mp hw
      rcases hmax w hwr.1 with h2 | h2
      · simp [hwr.2] at h2
      · omega

private theorem weightedScan_mem : ∀ (t : List Ep) (acc r : Nat) (e : Ep), weightedScan t acc r = some e → e ∈ t
  | [], _, _, _, h => by simp [weightedScan] at h
  | [x], _, _, e, h => by simp [weightedScan] at h; simp [h]
  | x :: y :: ys, acc, r, e, h => by
    simp only [weightedScan] at h
    split at h
    · simp at h; simp [h]
    · have := weightedScan_mem (y :: ys) _ r e h
      exact List.mem_cons_of_mem _ this

/-- **Priority routing always picks an endpoint from the highest-priority tier that has a routable
    member** — for whatever order the (unstable) sort left the tier in and whatever the random draw. -/
theorem prio_in_top_tier (l tier : List Ep) (hperm : tier.Perm (topTier l)) (r20 : Nat) (e : Ep)
    (h : prioritySelectTier tier r20 = some e) : inTopTier l e = true := by
  rw [← topTier_iff_spec]
  apply hperm.mem_iff.mp
  unfold prioritySelectTier at h
  split at h
  · simp at h
  · simp at h; simp [h]
  · exact weightedScan_mem _ _ _ _ h

private theorem weightedScan_reach : ∀ (t : List Ep) (acc : Nat) (e : Ep),
    (∀ x ∈ t, 0 < weightTenths x.status) → e ∈ t →
    ∃ r, acc < r ∧ r < acc + totalWeight20 t ∧ weightedScan t acc r = some e
  | [], _, _, _, he => by simp at he
  | [x], acc, e, hw, he => by
    simp at he; subst he
    refine ⟨acc + 1, by omega, ?_, by simp [weightedScan]⟩
    have := hw e (by simp)
    simp [totalWeight20]; omega
  | x :: y :: ys, acc, e, hw, he => by
    have hx := hw x (by simp)
    by_cases hex : e = x
    · subst hex
      refine ⟨acc + 1, by omega, ?_, ?_⟩
      · simp [totalWeight20]; omega
      · simp only [weightedScan]; rw [if_pos (by omega)]
    · have he' : e ∈ y :: ys := by
        rcases List.mem_cons.mp he with h | h
        · exact absurd h hex
        · exact h
      obtain ⟨r, h1, h2, h3⟩ := weightedScan_reach (y :: ys) (acc + 2 * weightTenths x.status) e
        (fun z hz => hw z (List.mem_cons_of_mem _ hz)) he'
      refine ⟨r, by omega, ?_, ?_⟩
      · simp [totalWeight20] at h2 ⊢; omega
      · simp only [weightedScan]; rw [if_neg (by omega)]; exact h3

/-- **…and every member of that tier is eventually picked**: for every order of the tier there is a
    draw `r < totalWeight` (i.e. one `rand.Float64()` can produce) that selects it. Uses the regenerated
    fact that routable statuses have positive weight. -/
theorem prio_every_member_reachable (l tier : List Ep) (hperm : tier.Perm (topTier l)) (e : Ep)
    (he : inTopTier l e = true) :
    ∃ r20, (tier.length = 1 ∨ r20 < totalWeight20 tier) ∧ prioritySelectTier tier r20 = some e := by
  have hmem : e ∈ tier := hperm.mem_iff.mpr ((topTier_iff_spec l e).mpr he)
  have hw : ∀ x ∈ tier, 0 < weightTenths x.status := by
    intro x hx
    have := (topTier_iff_spec l x).mp (hperm.mem_iff.mp hx)
    unfold inTopTier at this
    simp only [Bool.and_eq_true] at this
    exact weight_pos_of_routable _ this.1.2
  match tier, hmem, hw with
  | [x], hmem, _ => exact ⟨0, Or.inl rfl, by simp at hmem; simp [prioritySelectTier, hmem]⟩
  | x :: y :: ys, hmem, hw =>
    obtain ⟨r, _, h2, h3⟩ := weightedScan_reach (x :: y :: ys) 0 e hw hmem
    exact ⟨r, Or.inr (by omega), by simpa [prioritySelectTier] using h3⟩

/-- Priority selection fails exactly when nothing is routable. -/
theorem prio_none_iff_no_routable (l : List Ep) : topTier l = [] ↔ routable l = [] := by
  constructor
  · intro h
    cases hr : routable l with
    | nil => rfl
    | cons x xs =>
      exfalso
      cases hm : maxPrio (routable l) with
      | none => have := maxPrio_none _ hm; rw [hr] at this; simp at this
      | some m =>
        obtain ⟨⟨w, hw, hwm⟩, _⟩ := maxPrio_spec _ _ hm
        have : w ∈ topTier l := by unfold topTier; rw [hm]; simp [List.mem_filter, hw, hwm]
        rw [h] at this; simp at this
  · intro h; unfold topTier; rw [h]; simp [maxPrio]

/-! ### Round robin -/

/-- Round-robin returns a routable member of the list it was given. -/
theorem rr_member (c : Nat) (l : List Ep) (e : Ep) (h : rrSelect c l = some e) :
    e ∈ l ∧ isRoutable e.status = true := by
  unfold rrSelect at h
  simp only at h
  split at h
  · simp at h
  · exact routable_mem.mp (List.mem_of_getElem? h)

theorem rr_none_iff_no_routable (c : Nat) (l : List Ep) : rrSelect c l = none ↔ routable l = [] := by
  unfold rrSelect
  simp only
  generalize c % 2 ^ 64 = c'
  constructor
  · intro h
    split at h
    · rename_i h0; exact List.eq_nil_of_length_eq_zero h0
    · rename_i h0
      have : c' % (routable l).length < (routable l).length := Nat.mod_lt _ (by omega)
      rw [List.getElem?_eq_none_iff] at h; omega
  · intro h; simp [h]

private theorem window_count (n j : Nat) (hj : j < n) : ∀ s, ((List.range' s n).map (· % n)).count j = 1 := by
  intro s
  induction s with
  | zero =>
    have : (List.range' 0 n).map (· % n) = List.range' 0 n := by
      conv => rhs; rw [← List.map_id (List.range' 0 n)]
      apply List.map_congr_left
      intro i hi
      simp [List.mem_range'] at hi
      simpa using Nat.mod_eq_of_lt hi
    rw [this, List.count_range_1']; simp [hj]
  | succ s ih =>
    -- range' s (n+1) = s :: range' (s+1) n = range' s n ++ [s+n]
    have h1 : List.range' s (n + 1) = s :: List.range' (s + 1) n := List.range'_succ
    have h2 : List.range' s (n + 1) = List.range' s n ++ [s + n] := by simpa using List.range'_concat (s := s) (n := n) (step := 1)
    have e1 : ((List.range' s (n + 1)).map (· % n)).count j
        = (if s % n = j then 1 else 0) + ((List.range' (s + 1) n).map (· % n)).count j := by
      rw [h1]; simp [List.count_cons]; omega
    have e2 : ((List.range' s (n + 1)).map (· % n)).count j
        = ((List.range' s n).map (· % n)).count j + (if (s + n) % n = j then 1 else 0) := by
      rw [h2]; simp [List.count_append, List.count_cons]
    have e3 : (s + n) % n = s % n := Nat.add_mod_right s n
    rw [e3] at e2
    omega

/-- **Round-robin over a stable set of n routable endpoints gives each endpoint exactly k of any
    n·k consecutive selections**: for any starting counter `s` (no wrap of the 64-bit counter inside the
    window) position `j` of the routable list is chosen exactly `k` times. -/
theorem rr_exact_fairness (n : Nat) (j : Nat) (hj : j < n) :
    ∀ (k s : Nat), s + n * k ≤ 2 ^ 64 →
      ((List.range' s (n * k)).map (fun c => (c % 2 ^ 64) % n)).count j = k := by
  intro k
  induction k with
  | zero => intro s _; simp
  | succ k ih =>
    intro s hs
    have hsplit : List.range' s (n * (k + 1)) = List.range' s n ++ List.range' (s + n) (n * k) := by
      rw [List.range'_append_1]; congr 1; rw [Nat.mul_succ]; omega
    rw [hsplit, List.map_append, List.count_append]
    have hk := ih (s + n) (by rw [Nat.mul_succ] at hs; omega)
    rw [hk]
    have hw : (List.range' s n).map (fun c => (c % 2 ^ 64) % n) = (List.range' s n).map (· % n) := by
      apply List.map_congr_left
      intro c hc
      simp [List.mem_range'] at hc
      have : c < 2 ^ 64 := by rw [Nat.mul_succ] at hs; omega
      simp [Nat.mod_eq_of_lt this]
    rw [hw, window_count n j hj s]; omega

/-- The selector really is "position (counter mod 2^64) mod n of the routable list". -/
theorem rr_select_eq (c : Nat) (l : List Ep) (h : routable l ≠ []) :
    rrSelect c l = (routable l)[(c % 2 ^ 64) % (routable l).length]? := by
  unfold rrSelect; simp [h]

/-- **…also when selections are made concurrently**: the atomic add hands every caller a distinct
    ticket; however the `m` tickets `s … s+m-1` are distributed over callers (any permutation), the
    multiset of selections is the same as in the sequential run. -/
theorem rr_concurrent (l : List Ep) (s m : Nat) (tickets : List Nat) (h : tickets.Perm (List.range' s m)) :
    (tickets.map (fun c => rrSelect c l)).Perm ((List.range' s m).map (fun c => rrSelect c l)) :=
  h.map _

/-- Stated caveat: across the wrap of the 64-bit counter fairness can be off by one
    (2^64 is not a multiple of 3): the two selections around the wrap both hit position 0. -/
theorem rr_wrap_caveat : ((2 ^ 64 - 1) % 2 ^ 64) % 3 = 0 ∧ ((2 ^ 64) % 2 ^ 64) % 3 = 0 := by decide

/-! ### Least connections -/

private theorem lcScan_spec : ∀ (t : List Ep) (best : Option Ep) (e : Ep), lcScan t best = some e →
    (e ∈ t ∨ best = some e) ∧ (∀ x ∈ t, e.conns ≤ x.conns) ∧ (∀ b, best = some b → e.conns ≤ b.conns)
  | [], best, e, h => by simp [lcScan] at h; simp [h]
  | x :: xs, none, e, h => by
    simp only [lcScan] at h
    obtain ⟨h1, h2, h3⟩ := lcScan_spec xs (some x) e h
    refine ⟨?_, ?_, by simp⟩
    · rcases h1 with h1 | h1
      · exact Or.inl (List.mem_cons_of_mem _ h1)
      · simp at h1; exact Or.inl (by simp [h1])
    · intro y hy; rcases List.mem_cons.mp hy with rfl | hy
      · exact h3 _ rfl
      · exact h2 y hy
  | x :: xs, some b, e, h => by
    simp only [lcScan] at h
    split at h
    · rename_i hlt
      obtain ⟨h1, h2, h3⟩ := lcScan_spec xs (some x) e h
      have hx := h3 x rfl
      refine ⟨?_, ?_, ?_⟩
      · rcases h1 with h1 | h1
        · exact Or.inl (List.mem_cons_of_mem _ h1)
        · simp at h1; exact Or.inl (by simp [h1])
      · intro y hy; rcases List.mem_cons.mp hy with rfl | hy
        · exact hx
        · exact h2 y hy
      · intro b' hb'; simp at hb'; subst hb'; omega
    · rename_i hge
      obtain ⟨h1, h2, h3⟩ := lcScan_spec xs (some b) e h
      have hb := h3 b rfl
      refine ⟨?_, ?_, ?_⟩
      · rcases h1 with h1 | h1
        · exact Or.inl (List.mem_cons_of_mem _ h1)
        · exact Or.inr h1
      · intro y hy; rcases List.mem_cons.mp hy with rfl | hy
        · omega
        · exact h2 y hy
      · intro b' hb'; simp at hb'; subst hb'; exact hb

/-- **Least-connections picks an endpoint whose number of in-flight requests is minimal among the
    candidates at the moment of selection.** -/
theorem lc_minimal (l : List Ep) (e : Ep) (h : lcSelect l = some e) : isMinimal l e = true := by
  unfold lcSelect at h
  obtain ⟨h1, h2, _⟩ := lcScan_spec _ _ _ h
  have hm : e ∈ routable l := by simpa using h1
  have hm' := routable_mem.mp hm
  unfold isMinimal
  simp only [Bool.and_eq_true, List.contains_iff_mem, List.all_eq_true, Bool.or_eq_true,
    Bool.not_eq_true', decide_eq_true_eq]
  refine ⟨⟨hm'.1, hm'.2⟩, ?_⟩
  intro x hx
  by_cases hrx : isRoutable x.status = true
  · right; exact h2 x (routable_mem.mpr ⟨hx, hrx⟩)
  · left; simpa using hrx

private theorem lcScan_some : ∀ (t : List Ep) (b : Ep), ∃ e, lcScan t (some b) = some e
  | [], b => ⟨b, rfl⟩
  | x :: xs, b => by
    simp only [lcScan]; split
    · exact lcScan_some xs x
    · exact lcScan_some xs b

theorem lc_none_iff_no_routable (l : List Ep) : lcSelect l = none ↔ routable l = [] := by
  unfold lcSelect
  cases hr : routable l with
  | nil => simp [lcScan]
  | cons x xs =>
    simp only [lcScan]
    obtain ⟨e, he⟩ := lcScan_some xs x
    simp [he]

/-- The gauge the selector reads is never driven below zero by Increment/Decrement. -/
theorem gauge_nonneg (c : Int) (hc : 0 ≤ c) (d : Int) : 0 ≤ recordConn c d := by
  unfold recordConn; split
  · omega
  · split
    · split <;> omega
    · exact hc

/-! ### "Every load balancer returns a member of the list it was given or an error" (also C03) -/

theorem selectors_member (l : List Ep) (e : Ep) :
    (∀ tier r20, tier.Perm (topTier l) → prioritySelectTier tier r20 = some e → e ∈ l ∧ isRoutable e.status = true) ∧
    (∀ c, rrSelect c l = some e → e ∈ l ∧ isRoutable e.status = true) ∧
    (lcSelect l = some e → e ∈ l ∧ isRoutable e.status = true) := by
  refine ⟨?_, fun c h => rr_member c l e h, ?_⟩
  · intro tier r20 hp h
    have := prio_in_top_tier l tier hp r20 e h
    unfold inTopTier at this
    simp only [Bool.and_eq_true, List.contains_iff_mem] at this
    exact ⟨this.1.1, this.1.2⟩
  · intro h
    have := lc_minimal l e h
    unfold isMinimal at this
    simp only [Bool.and_eq_true, List.contains_iff_mem] at this
    exact ⟨this.1.1, this.1.2⟩

/-! ### Non-vacuity: the hypotheses above are met by concrete, non-trivial inputs -/

private def exL : List Ep :=
  [⟨0, 2, "warming", 3⟩, ⟨1, 2, "healthy", 1⟩, ⟨2, 1, "healthy", 0⟩, ⟨3, 5, "offline", 0⟩]

example : (topTier exL).map (·.id) = [0, 1] := by decide
example : prioritySelectTier (topTier exL) 3 = some ⟨1, 2, "healthy", 1⟩ := by decide
example : (rrSelect 4 exL).map (·.id) = some 1 := by decide
example : (lcSelect exL).map (·.id) = some 2 := by decide
example : (3 : Nat) + 3 * 2 ≤ 2 ^ 64 := by decide

/-! ### tie: no process-wide state on the modelled path

The theorems above are about single calls (or the history of one object). They cover every
request of a running process only if a call reaches no state that outlives it besides that
object. `Olla.Gen.State` is re-read from the source on every run: the package-level variables
reachable from each function inside its package that the package changes after initialisation. -/
theorem C06_tie_no_process_wide_state :
    Olla.Spec.State.reachesOnly "balancer.Select" [] = true := by decide

end Olla.Props.C06
