-- This module serves as the root of the `Olla` library.
-- Import modules here that should be built as part of the library.
import Olla.Basic
