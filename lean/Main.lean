import Olla.Driver.C01
import Olla.Driver.C02
import Olla.Driver.C03
import Olla.Driver.C04
import Olla.Driver.C05
import Olla.Driver.C06
import Olla.Driver.C07
import Olla.Driver.C08
import Olla.Driver.C09
import Olla.Driver.C10
import Olla.Driver.C11
import Olla.Driver.C12
import Olla.Driver.C13
import Olla.Driver.C14
import Olla.Driver.C15
import Olla.Driver.C16
import Olla.Driver.C17
import Olla.Driver.C18
import Olla.Driver.C19
import Olla.Driver.C20

def main (args : List String) : IO UInt32 := do
  match args with
  | ["C01"] => Olla.Driver.C01.main; return 0
  | ["C02"] => Olla.Driver.C02.main; return 0
  | ["C03"] => Olla.Driver.C03.main; return 0
  | ["C04"] => Olla.Driver.C04.main; return 0
  | ["C05"] => Olla.Driver.C05.main; return 0
  | ["C06"] => Olla.Driver.C06.main; return 0
  | ["C07"] => Olla.Driver.C07.main; return 0
  | ["C08"] => Olla.Driver.C08.main; return 0
  | ["C09"] => Olla.Driver.C09.main; return 0
  | ["C10"] => Olla.Driver.C10.main; return 0
  | ["C11"] => Olla.Driver.C11.main; return 0
  | ["C12"] => Olla.Driver.C12.main; return 0
  | ["C13"] => Olla.Driver.C13.main; return 0
  | ["C14"] => Olla.Driver.C14.main; return 0
  | ["C15"] => Olla.Driver.C15.main; return 0
  | ["C16"] => Olla.Driver.C16.main; return 0
  | ["C17"] => Olla.Driver.C17.main; return 0
  | ["C18"] => Olla.Driver.C18.main; return 0
  | ["C19"] => Olla.Driver.C19.main; return 0
  | ["C20"] => Olla.Driver.C20.main; return 0
  | _ => IO.eprintln s!"usage: olla_model <property-id>   (got {args})"; return 2
