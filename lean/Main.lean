import Olla.Driver.C06

def main (args : List String) : IO UInt32 := do
  match args with
  | ["C06"] => Olla.Driver.C06.main; return 0
  | _ => IO.eprintln s!"usage: olla_model <property-id>   (got {args})"; return 2
