//go:build verif

package services

import (
	"github.com/thushan/olla/internal/adapter/proxy"
	"github.com/thushan/olla/internal/config"
	"github.com/thushan/olla/internal/logger"
)

// VerifProxyConfiguration is what the production wiring hands to the engines for a given proxy section of the
// configuration: the unexported createProxyConfiguration of a wrapper built by the exported constructor.
func VerifProxyConfiguration(cfg *config.ProxyConfig, log logger.StyledLogger) *proxy.Configuration {
	return NewProxyServiceWrapper(cfg, log).createProxyConfiguration()
}
