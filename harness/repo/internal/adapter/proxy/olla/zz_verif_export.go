//go:build verif

package olla

import (
	"sync/atomic"
	"time"

	"github.com/puzpuzpuz/xsync/v4"
)

// VerifEngineBreaker wraps the unexported per-endpoint breaker of the olla engine.
// It is obtained through the real Service.GetCircuitBreaker, so threshold and initial
// state are whatever the engine installs.
type VerifEngineBreaker struct{ cb *circuitBreaker }

// VerifNewEngineBreaker builds the breaker the engine would create for a new endpoint name.
func VerifNewEngineBreaker(name string) *VerifEngineBreaker {
	s := &Service{circuitBreakers: *xsync.NewMap[string, *circuitBreaker]()}
	return &VerifEngineBreaker{cb: s.GetCircuitBreaker(name)}
}

func (v *VerifEngineBreaker) IsOpen() bool   { return v.cb.IsOpen() }
func (v *VerifEngineBreaker) RecordSuccess() { v.cb.RecordSuccess() }
func (v *VerifEngineBreaker) RecordFailure() { v.cb.RecordFailure() }

// Peek reads (failures, state 0/1/2, lastFailure stamp).
func (v *VerifEngineBreaker) Peek() (failures, state, lastFailure int64) {
	return atomic.LoadInt64(&v.cb.failures), atomic.LoadInt64(&v.cb.state), atomic.LoadInt64(&v.cb.lastFailure)
}

// Rewind simulates "d passes": the stored last-failure stamp moves d into the past.
func (v *VerifEngineBreaker) Rewind(d time.Duration) {
	if x := atomic.LoadInt64(&v.cb.lastFailure); x != 0 {
		atomic.StoreInt64(&v.cb.lastFailure, x-int64(d))
	}
}

// VerifRewindEndpointBreaker simulates "d passes" for the breaker the running service holds for an endpoint.
func VerifRewindEndpointBreaker(s *Service, endpoint string, d time.Duration) {
	cb := s.GetCircuitBreaker(endpoint)
	if x := atomic.LoadInt64(&cb.lastFailure); x != 0 {
		atomic.StoreInt64(&cb.lastFailure, x-int64(d))
	}
}

// VerifCleanupPassAfter simulates "d passes without a new request" and then runs the periodic clean-up pass of the
// engine (the 5-minute ticker's body) once: every pool's last-used stamp moves d into the past first.
func VerifCleanupPassAfter(s *Service, d time.Duration) {
	s.endpointPools.Range(func(_ string, p *connectionPool) bool {
		atomic.AddInt64(&p.lastUsed, -int64(d))
		return true
	})
	s.cleanupUnusedResources()
}
