//go:build verif

package core

import "net/http"

// VerifHopByHopHeaders returns a copy of the unexported list isHopByHopHeader consults.
func VerifHopByHopHeaders() []string {
	out := make([]string, len(hopByHopHeaders))
	copy(out, hopByHopHeaders)
	return out
}

// VerifIsHopByHopHeader exposes the unexported predicate CopyHeaders uses.
func VerifIsHopByHopHeader(name string) bool { return isHopByHopHeader(name) }

// VerifExtractClientIP exposes the unexported helper the forwarded-header maintenance uses.
func VerifExtractClientIP(r *http.Request) string { return extractClientIP(r) }
