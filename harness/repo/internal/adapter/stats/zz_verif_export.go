//go:build verif

package stats

import (
	"reflect"
	"sync/atomic"
	"time"
	"unsafe"

	"github.com/thushan/olla/internal/core/ports"
)

// VerifCleanupPassAfter simulates "the collector has been up for d since its last clean-up pass" and runs the
// pass RecordRequest would run at that point (same function, same lock) — without recording a request.
func VerifCleanupPassAfter(sc ports.StatsCollector, d time.Duration) {
	c, ok := sc.(*Collector)
	if !ok {
		return
	}
	atomic.AddInt64(&c.lastCleanup, -int64(d))
	c.tryCleanup(time.Now().UnixNano())
}

// VerifAge simulates "d passes without traffic": every time stamp the collector keeps (last clean-up pass,
// per-endpoint lastUsed) moves d into the past.
func VerifAge(sc ports.StatsCollector, d time.Duration) {
	c, ok := sc.(*Collector)
	if !ok {
		return
	}
	atomic.AddInt64(&c.lastCleanup, -int64(d))
	c.endpoints.Range(func(_ string, data *endpointData) bool {
		atomic.AddInt64(&data.lastUsed, -int64(d))
		return true
	})
}

// VerifEntryRef returns the per-endpoint record the collector's READERS (GetConnectionStats / GetEndpointStats range
// over the same map) currently hold under url, as an opaque reference: two references are equal exactly when they are
// the same record, so a harness can tell "the counters restarted because the clean-up pass dropped the idle record and
// a new one was started" from "the counters of the same record changed".  Holding the reference keeps the old record
// alive, so its address cannot be handed to a new one.  ok=false: the collector has no field of that name / shape any
// more (the harness then falls back to comparing numbers).  Looked up by field name through reflection, so a rename of
// anything else in the collector does not break the build.
func VerifEntryRef(sc ports.StatsCollector, url string) (ref any, ok bool) {
	c, isC := sc.(*Collector)
	if !isC || c == nil {
		return nil, false
	}
	f := reflect.ValueOf(c).Elem().FieldByName("endpoints")
	if !f.IsValid() {
		return nil, false
	}
	f = reflect.NewAt(f.Type(), unsafe.Pointer(f.UnsafeAddr())).Elem() // readable although unexported
	if f.Kind() != reflect.Pointer {
		f = f.Addr() // a map held by value: its methods have pointer receivers
	} else if f.IsNil() {
		return nil, false
	}
	load := f.MethodByName("Load")
	if !load.IsValid() || load.Type().NumIn() != 1 || load.Type().In(0).Kind() != reflect.String || load.Type().NumOut() != 2 {
		return nil, false
	}
	out := load.Call([]reflect.Value{reflect.ValueOf(url)})
	if !out[1].Bool() {
		return nil, true
	}
	return out[0].Interface(), true
}
