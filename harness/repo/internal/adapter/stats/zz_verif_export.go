//go:build verif

package stats

import (
	"sync/atomic"
	"time"

	"github.com/thushan/olla/internal/core/ports"
)

// VerifCleanupPassAfter simulates "the collector has been up for d since its last clean-up pass" and runs the
// pass RecordRequest would run at that point (same function, same lock) — without recording a request.
func VerifCleanupPassAfter(sc ports.StatsCollector, d time.Duration) {
	c, ok := sc.(*Collector)
	if !ok {
		return
	}
	atomic.AddInt64(&c.lastCleanup, -int64(d))
	c.tryCleanup(time.Now().UnixNano())
}

// VerifAge simulates "d passes without traffic": every time stamp the collector keeps (last clean-up pass,
// per-endpoint lastUsed) moves d into the past.
func VerifAge(sc ports.StatsCollector, d time.Duration) {
	c, ok := sc.(*Collector)
	if !ok {
		return
	}
	atomic.AddInt64(&c.lastCleanup, -int64(d))
	c.endpoints.Range(func(_ string, data *endpointData) bool {
		atomic.AddInt64(&data.lastUsed, -int64(d))
		return true
	})
}
