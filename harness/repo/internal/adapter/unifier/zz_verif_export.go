//go:build verif

package unifier

import "time"

// VerifRewind simulates "d passes" for the unification breaker: the stored time of
// the last failure moves d into the past (0 = "never failed" is left alone).
func (cb *CircuitBreaker) VerifRewind(d time.Duration) {
	if v := cb.lastFailureTime.Load(); v != 0 {
		cb.lastFailureTime.Store(v - int64(d))
	}
}

// VerifLastFailure returns the raw stored stamp (0 = never).
func (cb *CircuitBreaker) VerifLastFailure() int64 { return cb.lastFailureTime.Load() }

// VerifLifecycleBreaker returns the breaker a LifecycleUnifier keeps for an endpoint (through its own manager).
func VerifLifecycleBreaker(u *LifecycleUnifier, endpointURL string) *CircuitBreaker {
	return u.endpointManager.GetCircuitBreaker(endpointURL)
}
