//go:build verif

package unifier

import (
	"reflect"
	"sync"
	"time"
	"unsafe"
)

// VerifRewind simulates "d passes" for the unification breaker: the stored time of
// the last failure moves d into the past (0 = "never failed" is left alone).
func (cb *CircuitBreaker) VerifRewind(d time.Duration) {
	if v := cb.lastFailureTime.Load(); v != 0 {
		cb.lastFailureTime.Store(v - int64(d))
	}
}

// VerifLastFailure returns the raw stored stamp (0 = never).
func (cb *CircuitBreaker) VerifLastFailure() int64 { return cb.lastFailureTime.Load() }

// VerifLifecycleBreaker returns the breaker a LifecycleUnifier keeps for an endpoint (through its own manager).
func VerifLifecycleBreaker(u *LifecycleUnifier, endpointURL string) *CircuitBreaker {
	return u.endpointManager.GetCircuitBreaker(endpointURL)
}

// ---- round 7: one long-lived manager / unifier taken through histories (c08 kind "manager")

// verifCollectBreakers finds every *CircuitBreaker a struct holds in a map or a sync.Map, whatever the fields are
// called (looked up by type, so that a rename, or a second container next to the authoritative one, neither breaks
// the build nor escapes simulated time).
func verifCollectBreakers(ptr any) (out []*CircuitBreaker, containers int) {
	v := reflect.ValueOf(ptr)
	if v.Kind() != reflect.Ptr || v.IsNil() || v.Elem().Kind() != reflect.Struct {
		return nil, 0
	}
	v = v.Elem()
	seen := map[*CircuitBreaker]bool{}
	add := func(cb *CircuitBreaker) {
		if cb != nil && !seen[cb] {
			seen[cb] = true
			out = append(out, cb)
		}
	}
	cbType := reflect.TypeOf((*CircuitBreaker)(nil))
	syncMapType := reflect.TypeOf(sync.Map{})
	for i := 0; i < v.NumField(); i++ {
		f := v.Field(i)
		if !f.CanAddr() {
			continue
		}
		f = reflect.NewAt(f.Type(), unsafe.Pointer(f.UnsafeAddr())).Elem()
		switch {
		case f.Kind() == reflect.Map && f.Type().Elem() == cbType:
			containers++
			for it := f.MapRange(); it.Next(); {
				if cb, ok := it.Value().Interface().(*CircuitBreaker); ok {
					add(cb)
				}
			}
		case f.Type() == syncMapType:
			sm := f.Addr().Interface().(*sync.Map)
			found := false
			sm.Range(func(_, val any) bool {
				if cb, ok := val.(*CircuitBreaker); ok {
					found = true
					add(cb)
				}
				return true
			})
			if found {
				containers++
			}
		}
	}
	return out, containers
}

// VerifManagerRewind simulates "d passes" for every breaker the manager holds; ok=false when the manager has no
// container of breakers this accessor recognises (the harness then reports the case as not judged).
// Not for concurrent use with the manager's own methods (the harness drives histories from one goroutine).
func VerifManagerRewind(m *EndpointManager, d time.Duration) (n int, ok bool) {
	cbs, containers := verifCollectBreakers(m)
	for _, cb := range cbs {
		cb.VerifRewind(d)
	}
	return len(cbs), containers > 0
}

// VerifLifecycleManager returns the endpoint manager a LifecycleUnifier currently uses (Clear installs a new one);
// the field is looked up by its type.
func VerifLifecycleManager(u *LifecycleUnifier) *EndpointManager {
	v := reflect.ValueOf(u).Elem()
	want := reflect.TypeOf((*EndpointManager)(nil))
	for i := 0; i < v.NumField(); i++ {
		f := v.Field(i)
		if f.Type() == want {
			f = reflect.NewAt(f.Type(), unsafe.Pointer(f.UnsafeAddr())).Elem()
			m, _ := f.Interface().(*EndpointManager)
			return m
		}
	}
	return nil
}

// VerifSweep runs one pass of the background clean-up, exactly what cleanupRoutine does every CleanupInterval.
func VerifSweep(u *LifecycleUnifier) { u.performCleanup() }
