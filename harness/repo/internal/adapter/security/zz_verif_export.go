//go:build verif

package security

import (
	"reflect"
	"time"
	"unsafe"

	"golang.org/x/time/rate"
)

// verifAgeLimiter moves an x/time/rate limiter's clock d into the past: from the limiter's point of
// view d has passed since it was last used (its unexported time stamps are reached by reflection,
// under this build tag only).
func verifAgeLimiter(l *rate.Limiter, d time.Duration) {
	if l == nil {
		return
	}
	v := reflect.ValueOf(l).Elem()
	for _, name := range []string{"last", "lastEvent"} {
		f := v.FieldByName(name)
		if !f.IsValid() {
			panic("verif: x/time/rate.Limiter has no field " + name)
		}
		p := (*time.Time)(unsafe.Pointer(f.UnsafeAddr()))
		if !p.IsZero() {
			*p = p.Add(-d)
		}
	}
}

// VerifAge simulates "d passes without a request": every time stamp the validator keeps (per-key
// lastAccess / windowStart, the per-key and global limiters' clocks) moves d into the past.
func VerifAge(rl *RateLimitValidator, d time.Duration) {
	verifAgeLimiter(rl.globalLimiter, d)
	rl.ipLimiters.Range(func(_ string, li *ipLimiterInfo) bool {
		li.mu.Lock()
		li.lastAccess = li.lastAccess.Add(-d)
		// the start of the informational per-minute window (X-RateLimit-Remaining), if the entry keeps one as a time stamp:
		// reached by name so that a refactor of that bookkeeping does not break the hook (admission does not depend on it)
		if f := reflect.ValueOf(li).Elem().FieldByName("windowStart"); f.IsValid() && f.Type() == reflect.TypeOf(time.Time{}) {
			p := (*time.Time)(unsafe.Pointer(f.UnsafeAddr()))
			*p = p.Add(-d)
		}
		verifAgeLimiter(li.limiter, d)
		li.mu.Unlock()
		return true
	})
}

// VerifSweep runs one pass of the periodic clean-up, as the ticker goroutine would.
func VerifSweep(rl *RateLimitValidator) { rl.cleanupOldLimiters() }

// VerifKeys lists the bucket keys that currently have a limiter.
func VerifKeys(rl *RateLimitValidator) []string {
	var out []string
	rl.ipLimiters.Range(func(k string, _ *ipLimiterInfo) bool { out = append(out, k); return true })
	return out
}
