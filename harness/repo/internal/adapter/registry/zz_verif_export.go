//go:build verif

package registry

import (
	"context"
	"reflect"

	"github.com/thushan/olla/internal/core/domain"
)

// VerifUnifyNow runs the body of one `go r.unifyModelsAsync(...)` synchronously, so a harness can
// choose the order in which the spawned unification tasks take effect (the scheduler's choice).
func (r *UnifiedMemoryModelRegistry) VerifUnifyNow(ctx context.Context, endpointURL string, models []*domain.ModelInfo) {
	r.unifyModelsAsync(ctx, endpointURL, models)
}

// VerifUnifyIdle reports whether no unification task currently holds the unification mutex and no accepted listing is
// still waiting to be unified (the outstanding-listings map, looked up by name so that a registry without it still builds).
func (r *UnifiedMemoryModelRegistry) VerifUnifyIdle() bool {
	if !r.unificationMutex.TryLock() {
		return false
	}
	r.unificationMutex.Unlock()
	if f := reflect.ValueOf(r).Elem().FieldByName("latestListings"); f.IsValid() && f.Kind() == reflect.Map {
		return f.Len() == 0
	}
	return true
}
