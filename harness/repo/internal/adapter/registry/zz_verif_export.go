//go:build verif

package registry

import (
	"context"

	"github.com/thushan/olla/internal/core/domain"
)

// VerifUnifyNow runs the body of one `go r.unifyModelsAsync(...)` synchronously, so a harness can
// choose the order in which the spawned unification tasks take effect (the scheduler's choice).
func (r *UnifiedMemoryModelRegistry) VerifUnifyNow(ctx context.Context, endpointURL string, models []*domain.ModelInfo) {
	r.unifyModelsAsync(ctx, endpointURL, models)
}

// VerifUnifyIdle reports whether no unification task currently holds the unification mutex.
func (r *UnifiedMemoryModelRegistry) VerifUnifyIdle() bool {
	if r.unificationMutex.TryLock() {
		r.unificationMutex.Unlock()
		return true
	}
	return false
}
