//go:build verif

package health

import (
	"context"
	"sync/atomic"
	"time"

	"github.com/thushan/olla/internal/core/domain"
)

// In-package accessors for the verification harness (properties C07 and C08).
// They only read / shift state; every decision is still made by the real code.

// VerifBreakerOf returns the breaker a checker was built with.
func VerifBreakerOf(c *HTTPHealthChecker) *CircuitBreaker { return c.healthClient.circuitBreaker }

// VerifBreakerConfig returns the threshold and timeout the constructor installed.
func VerifBreakerConfig(cb *CircuitBreaker) (threshold int, timeout time.Duration) {
	return cb.failureThreshold, cb.timeout
}

// VerifPeek reads the per-URL state without changing it. exists=false: no state was ever created.
func VerifPeek(cb *CircuitBreaker, url string) (failures, lastFailure, lastAttempt int64, isOpen int32, exists bool) {
	st, ok := cb.endpoints.Load(url)
	if !ok {
		return 0, 0, 0, 0, false
	}
	return atomic.LoadInt64(&st.failures), atomic.LoadInt64(&st.lastFailure), atomic.LoadInt64(&st.lastAttempt), atomic.LoadInt32(&st.isOpen), true
}

// VerifRewind simulates "d passes": every stored time stamp moves d into the past.
// The zero value of lastAttempt / lastFailure is a sentinel ("none") and is left alone.
func VerifRewind(cb *CircuitBreaker, url string, d time.Duration) {
	st, ok := cb.endpoints.Load(url)
	if !ok {
		return
	}
	if v := atomic.LoadInt64(&st.lastFailure); v != 0 {
		atomic.StoreInt64(&st.lastFailure, v-int64(d))
	}
	if v := atomic.LoadInt64(&st.lastAttempt); v != 0 {
		atomic.StoreInt64(&st.lastAttempt, v-int64(d))
	}
}

// VerifCalculateBackoff evaluates the unexported schedule function.
func VerifCalculateBackoff(interval time.Duration, multiplier int, success bool) (time.Duration, int) {
	return calculateBackoff(&domain.Endpoint{CheckInterval: interval, BackoffMultiplier: multiplier}, success)
}

// VerifClassify runs classifyError + determineStatus exactly as performSingleCheck does.
func VerifClassify(statusCode int, latency time.Duration, err error) (domain.EndpointStatus, domain.HealthCheckErrorType) {
	if err != nil {
		et := classifyError(err)
		return determineStatus(0, latency, err, et), et
	}
	return determineStatus(statusCode, latency, nil, domain.ErrorTypeNone), domain.ErrorTypeNone
}

// VerifShouldRetry exposes the retry decision of HealthClient.Check.
func VerifShouldRetry(err error) bool { return shouldRetry(err, classifyError(err)) }

// VerifTickerRound is the body of the scheduler loop (one ticker firing): only endpoints
// whose NextCheckTime has been reached are checked.
func VerifTickerRound(c *HTTPHealthChecker, ctx context.Context) { c.performHealthChecks(ctx) }

// VerifMarkRunning lets RunHealthCheck be used without starting the 30 s ticker goroutine.
func VerifMarkRunning(c *HTTPHealthChecker) { c.isRunning.Store(true) }
