//go:build verif

// c15: correspondence harness for "credentials and hop-by-hop headers stop at the proxy".
// Pure part: core.CopyHeaders (with updateForwardedHeaders), isHopByHopHeader, extractClientIP and
// http.CanonicalHeaderKey on generated header maps. Stack part: the unchanged production wiring
// (app.CreateAndStartServiceManager) with either engine in front of raw-socket backends that record
// the header block exactly as it arrived, driven by a raw-socket client (exact header spelling on
// the wire), including a fail-over and the Anthropic translation / passthrough routes.
package main

import (
	"bufio"
	"context"
	"crypto/tls"
	"fmt"
	"io"
	"net"
	"net/http"
	"os"
	"sort"
	"strconv"
	"strings"
	"sync"
	"time"

	"github.com/thushan/olla/internal/adapter/proxy/core"
	"github.com/thushan/olla/internal/app"
	"github.com/thushan/olla/internal/app/services"
	"github.com/thushan/olla/internal/config"
	"github.com/thushan/olla/internal/core/domain"
	"github.com/thushan/olla/internal/logger"
	"github.com/thushan/olla/internal/zz_verif/stack"
	"github.com/thushan/olla/internal/zz_verif/vlib"
)

// ---------------------------------------------------------------- name material

// the five credential headers of the property text (input domain of the generator, not a table)
var sensitiveNames = []string{"Authorization", "Cookie", "X-Api-Key", "X-Auth-Token", "Proxy-Authorization"}

// RFC 7230 section 6.1
var hopNames = []string{"Connection", "Keep-Alive", "Proxy-Authenticate", "Proxy-Authorization", "TE", "Trailer", "Transfer-Encoding", "Upgrade"}

var maintained = []string{"Via", "X-Forwarded-For", "X-Forwarded-Host", "X-Forwarded-Proto", "X-Real-Ip"}

const tokenAlphabet = "abcdefghijklmnopqrstuvwxyzABCDEFGHIJKLMNOPQRSTUVWXYZ0123456789-_.!#$%&'*+^`|~"

func listed() []string {
	seen := map[string]bool{}
	var out []string
	for _, n := range append(append(append([]string{}, sensitiveNames...), hopNames...), core.VerifHopByHopHeaders()...) {
		l := strings.ToLower(n)
		if !seen[l] {
			seen[l] = true
			out = append(out, l)
		}
	}
	return out
}

// variant i of a lower-case name: bit j of i upper-cases the j-th letter
func variant(lower string, i uint64) string {
	b := []byte(lower)
	bit := uint(0)
	for j, c := range b {
		if c >= 'a' && c <= 'z' {
			if i>>bit&1 == 1 {
				b[j] = c - 32
			}
			bit++
		}
	}
	return string(b)
}

func letters(s string) int {
	n := 0
	for _, c := range []byte(s) {
		if c >= 'a' && c <= 'z' {
			n++
		}
	}
	return n
}

func randCase(r *vlib.Rng, s string) string {
	b := []byte(strings.ToLower(s))
	switch r.Intn(4) {
	case 0:
		return string(b)
	case 1:
		return strings.ToUpper(s)
	case 2:
		return http.CanonicalHeaderKey(s)
	}
	for j, c := range b {
		if c >= 'a' && c <= 'z' && r.Bool() {
			b[j] = c - 32
		}
	}
	return string(b)
}

func randToken(r *vlib.Rng) string {
	n := 1 + r.Intn(12)
	b := make([]byte, n)
	for i := range b {
		if r.Chance(1, 5) {
			b[i] = '-'
		} else {
			b[i] = tokenAlphabet[r.Intn(len(tokenAlphabet))]
		}
	}
	return string(b)
}

var oddValues = []string{"", " ", "x", "a, b", ", x", "1.2.3.4", " 1.2.3.4 ", "1.2.3.4,5.6.7.8", "\t10.0.0.1 , 10.0.0.2", " 10.9.9.9 ", "1.0 fred, 1.1 p.example.net",
	"https", "http", "proxy.example:8443", "unknown", "\"quoted, comma\"", "::1", "[2001:db8::1]", ",", ",,", " , ", "é", "xK"}

func randValue(r *vlib.Rng) string {
	if r.Chance(2, 5) {
		return vlib.Pick(r, oddValues)
	}
	n := r.Intn(10)
	b := make([]byte, n)
	for i := range b {
		b[i] = "abcxyz019 ,;=/.:-"[r.Intn(17)]
	}
	return string(b)
}

func randValues(r *vlib.Rng, max int) []string {
	n := r.Intn(max + 1)
	vs := make([]string, n)
	for i := range vs {
		vs[i] = randValue(r)
	}
	return vs
}

// ---------------------------------------------------------------- pure cases

type kv struct {
	K string   `json:"k"`
	V []string `json:"v"`
}

func sortedHeader(h http.Header) []kv {
	out := make([]kv, 0, len(h))
	for k, v := range h {
		vs := make([]string, len(v))
		copy(vs, v)
		out = append(out, kv{k, vs})
	}
	sort.Slice(out, func(i, j int) bool { return out[i].K < out[j].K })
	return out
}

func remoteHost(remote string) string {
	host, _, err := net.SplitHostPort(remote)
	if err != nil {
		return remote
	}
	return host
}

func runCopy(in http.Header, host, remote string, withTLS bool) (out http.Header, outHost string, panicked string) {
	defer func() {
		if p := recover(); p != nil {
			panicked = fmt.Sprint(p)
		}
	}()
	h := http.Header{}
	for k, v := range in {
		vs := make([]string, len(v))
		copy(vs, v)
		h[k] = vs
	}
	o := &http.Request{Method: "POST", Header: h, Host: host, RemoteAddr: remote}
	if withTLS {
		o.TLS = &tls.ConnectionState{}
	}
	p, _ := http.NewRequest("POST", "http://backend.invalid/x", nil)
	core.CopyHeaders(p, o)
	return p.Header, p.Host, ""
}

func caseCopy(c *vlib.Cases, in http.Header, host, remote string, withTLS bool, bucket string) {
	out, outHost, pan := runCopy(in, host, remote, withTLS)
	c.Emit(map[string]any{"kind": "copy", "hdrs": sortedHeader(in), "host": host, "remote": remote, "remote_host": remoteHost(remote), "tls": withTLS,
		"impl": map[string]any{"out": sortedHeader(out), "out_host": outHost, "panic": pan}})
	c.Count(bucket)
}

// one CopyHeaders call per case variant of `lower` in [from, from+count); records the variants that came through
func caseVariants(c *vlib.Cases, lower string, from, count uint64) {
	fwd := []uint64{}
	for i := from; i < from+count; i++ {
		name := variant(lower, i)
		out, _, pan := runCopy(http.Header{name: {"secret-" + name}, "X-Control": {"c"}}, "h", "192.0.2.1:1", false)
		if pan != "" || len(out["X-Control"]) != 1 {
			fwd = append(fwd, i) // treat a crash / lost control header as a failure of this variant
			continue
		}
		for k, vs := range out {
			if strings.EqualFold(k, lower) || (len(vs) > 0 && strings.HasPrefix(vs[0], "secret-")) {
				fwd = append(fwd, i)
				break
			}
		}
	}
	c.Emit(map[string]any{"kind": "variants", "base": lower, "from": from, "count": count, "impl": map[string]any{"forwarded": fwd}})
	c.Count("variants." + lower)
}

func genHeader(r *vlib.Rng) http.Header {
	h := http.Header{}
	// listed names, random spelling, multiplicity 0..3
	for n := r.Intn(4); n > 0; n-- {
		name := randCase(r, vlib.Pick(r, listed()))
		h[name] = randValues(r, 3)
	}
	// arbitrary token-named headers
	nt := r.Intn(8)
	if r.Chance(1, 6) {
		nt = 20 + r.Intn(21)
	}
	for ; nt > 0; nt-- {
		h[randToken(r)] = randValues(r, 3)
	}
	// maintained headers: absent / single / multi-line; mostly under the canonical key
	for _, m := range maintained {
		switch r.Intn(6) {
		case 0, 1, 2:
		case 3:
			h[m] = []string{randValue(r)}
		case 4:
			h[m] = randValues(r, 3)
		case 5:
			h[randCase(r, m)] = randValues(r, 2)
		}
	}
	if r.Chance(1, 8) {
		h["X-Proxied-By"] = randValues(r, 2)
	}
	// names net/http would never deliver: spaces, non-ASCII (incl. the Unicode case-folds of K and s)
	if r.Chance(1, 10) {
		odd := []string{"Keep-Alive ", "Keep-Alive", "tranſfer-encoding", "Tranſfer-Encoding", "x y", "Cookieé", "upgrade", "K", "A:b", "(x)", "conneсtion", "TEİ"}
		h[vlib.Pick(r, odd)] = randValues(r, 2)
	}
	return h
}

var hosts = []string{"", "client.example", "client.example:8080", "[::1]:40114", "UPPER.Example"}
var remotes = []string{"192.0.2.1:1234", "[2001:db8::7]:99", "", "not-an-address", "10.0.0.5", "203.0.113.9:0", " 198.51.100.2:5"}

func purePart(c *vlib.Cases, r *vlib.Rng, thorough bool) {
	// ---- witnesses and corner cases first
	caseCopy(c, http.Header{}, "", "", false, "corner")
	caseCopy(c, http.Header{}, "client.example", "192.0.2.1:1234", true, "corner")
	caseCopy(c, http.Header{"Via": {"1.0 a", "1.1 b"}}, "h", "192.0.2.1:1", false, "witness.multiline")
	caseCopy(c, http.Header{"X-Forwarded-For": {"1.1.1.1", "2.2.2.2"}}, "h", "192.0.2.1:1", false, "witness.multiline")
	caseCopy(c, http.Header{"X-Real-Ip": {"", "3.3.3.3"}}, "h", "192.0.2.1:1", false, "witness.multiline")
	caseCopy(c, http.Header{"X-Forwarded-Proto": {"", "https"}}, "h", "192.0.2.1:1", true, "witness.multiline")
	caseCopy(c, http.Header{"X-Forwarded-Host": {"", "outer.example"}}, "h", "192.0.2.1:1", false, "witness.multiline")
	caseCopy(c, http.Header{"Via": {"1.0 a"}, "X-Forwarded-For": {"1.1.1.1, 2.2.2.2"}, "X-Real-Ip": {"3.3.3.3"}, "X-Forwarded-Proto": {"https"}, "X-Forwarded-Host": {"outer"}}, "h", "192.0.2.1:1", false, "corner")
	caseCopy(c, http.Header{"via": {"lower"}, "VIA": {"upper"}, "x-forwarded-for": {"9.9.9.9"}}, "h", "192.0.2.1:1", false, "corner")
	caseCopy(c, http.Header{"aUtHoRiZaTiOn": {"Bearer s"}, "COOKIE": {"a=b", "c=d"}, "x-api-key": {}, "X-AUTH-token": {""}, "proxy-AUTHORIZATION": {"p"}, "X-Keep": {"1", "", "3"}}, "h", "192.0.2.1:1", false, "corner")
	caseCopy(c, http.Header{"Keep-Alive": {"kelvin"}, "tranſfer-encoding": {"long-s"}, "Keep-Alive ": {"space"}}, "h", "192.0.2.1:1", false, "corner")
	caseCopy(c, http.Header{"X-Proxied-By": {"client"}, "X-Model": {"client"}, "Trailers": {"x"}, "Proxy-Connection": {"keep-alive"}}, "h", "192.0.2.1:1", false, "corner")
	caseCopy(c, http.Header{"X-Forwarded-For": {" , 1.1.1.1"}, "X-Real-Ip": {"  "}}, "", "", false, "corner")

	// ---- every case variant of every listed name (one CopyHeaders call each)
	const batch = 4096
	for _, l := range listed() {
		n := uint64(1) << uint(letters(l))
		if !thorough && n > 1<<14 {
			// quick: all variants of the short names; the long ones get the first and last 4096 variants plus 8 random windows
			caseVariants(c, l, 0, batch)
			caseVariants(c, l, n-batch, batch)
			for k := 0; k < 8; k++ {
				caseVariants(c, l, uint64(r.Intn(int(n/batch)))*batch, batch)
			}
			continue
		}
		for from := uint64(0); from < n; from += batch {
			cnt := uint64(batch)
			if from+cnt > n {
				cnt = n - from
			}
			caseVariants(c, l, from, cnt)
		}
	}

	// ---- random header maps
	n := 4000
	if thorough {
		n = 80000
	}
	for i := 0; i < n; i++ {
		h := genHeader(r)
		b := "copy.random"
		for _, m := range maintained {
			if len(h[m]) > 1 {
				b = "copy.random.multiline"
			}
		}
		caseCopy(c, h, vlib.Pick(r, hosts), vlib.Pick(r, remotes), r.Chance(1, 4), b)
	}

	// ---- ports of library functions: CanonicalHeaderKey, isHopByHopHeader (EqualFold), extractClientIP (TrimSpace, Index)
	names := []string{"", "a", "A", "-", "--a", "a-b", "A-B", "x-real-ip", "X-REAL-IP", "te", "content-md5", "www-authenticate", "a b", "a\tb", "é", "a-é", "Keep-alive", "a:b", "a_b-c", "1a-2b", "a--b-", "-a", "a.b-c", "~a", "a|b"}
	for _, l := range listed() {
		names = append(names, l, strings.ToUpper(l), l+"s", "x"+l, l[:len(l)-1], strings.Replace(l, "-", "_", 1), strings.Replace(l, "k", "K", 1), strings.Replace(l, "s", "ſ", 1))
	}
	m := 1500
	if thorough {
		m = 30000
	}
	for i := 0; i < m; i++ {
		s := randToken(r)
		switch r.Intn(6) {
		case 0:
			s = randCase(r, vlib.Pick(r, listed()))
		case 1:
			b := []rune(s)
			b[r.Intn(len(b))] = vlib.Pick(r, []rune{' ', 'é', 'K', 'ſ', ':', '(', '\t', '@', '/'})
			s = string(b)
		}
		names = append(names, s)
	}
	for _, s := range names {
		c.Emit(map[string]any{"kind": "name", "name": s, "impl": map[string]any{"canon": http.CanonicalHeaderKey(s), "hop": core.VerifIsHopByHopHeader(s)}})
		c.Count("name")
	}
	for i := 0; i < m/3; i++ {
		h := http.Header{}
		if r.Chance(2, 3) {
			h["X-Forwarded-For"] = randValues(r, 3)
		}
		if r.Chance(1, 2) {
			h["X-Real-Ip"] = randValues(r, 2)
		}
		remote := vlib.Pick(r, remotes)
		req := &http.Request{Header: h, RemoteAddr: remote}
		c.Emit(map[string]any{"kind": "clientip", "hdrs": sortedHeader(h), "remote_host": remoteHost(remote), "impl": map[string]any{"ip": core.VerifExtractClientIP(req)}})
		c.Count("clientip")
	}
}

// ---------------------------------------------------------------- raw backend / raw client / stack

type seenReq struct {
	Line  string      `json:"line"`
	Lines [][2]string `json:"lines"`
}

type rawBackend struct {
	ln    net.Listener
	addr  string
	mu    sync.Mutex
	seen  []seenReq
	conns map[net.Conn]bool
	reply string
	dropNext int // close the connection without answering this many proxied requests
}

const chatReply = `{"id":"chatcmpl-1","object":"chat.completion","created":1,"model":"m1","choices":[{"index":0,"message":{"role":"assistant","content":"hi"},"finish_reason":"stop"}],"usage":{"prompt_tokens":1,"completion_tokens":1,"total_tokens":2}}`

func newBackend() *rawBackend {
	ln, err := net.Listen("tcp", "127.0.0.1:0")
	if err != nil {
		panic(err)
	}
	stack.OwnPort(ln.Addr().String())
	b := &rawBackend{ln: ln, addr: ln.Addr().String(), reply: chatReply, conns: map[net.Conn]bool{}}
	go func() {
		for {
			conn, err := ln.Accept()
			if err != nil {
				return
			}
			go b.handle(conn)
		}
	}()
	return b
}

// refuse: stop listening and drop every open connection, so the next dial is refused
func (b *rawBackend) refuse() {
	b.ln.Close()
	b.mu.Lock()
	for c := range b.conns {
		c.Close()
	}
	b.mu.Unlock()
}

func (b *rawBackend) take() []seenReq {
	b.mu.Lock()
	defer b.mu.Unlock()
	s := b.seen
	b.seen = nil
	return s
}

func (b *rawBackend) handle(conn net.Conn) {
	b.mu.Lock()
	b.conns[conn] = true
	b.mu.Unlock()
	defer func() {
		conn.Close()
		b.mu.Lock()
		delete(b.conns, conn)
		b.mu.Unlock()
	}()
	br := bufio.NewReader(conn)
	for {
		conn.SetReadDeadline(time.Now().Add(5 * time.Second))
		line, err := br.ReadString('\n')
		if err != nil {
			return
		}
		rl := strings.TrimRight(line, "\r\n")
		var lines [][2]string
		cl, chunked := 0, false
		for {
			l, err := br.ReadString('\n')
			if err != nil {
				return
			}
			l = strings.TrimRight(l, "\r\n")
			if l == "" {
				break
			}
			k, v, _ := strings.Cut(l, ":")
			v = strings.Trim(v, " \t")
			lines = append(lines, [2]string{k, v})
			if strings.EqualFold(k, "Content-Length") {
				cl, _ = strconv.Atoi(v)
			}
			if strings.EqualFold(k, "Transfer-Encoding") && strings.Contains(strings.ToLower(v), "chunked") {
				chunked = true
			}
		}
		if chunked {
			for {
				sz, err := br.ReadString('\n')
				if err != nil {
					return
				}
				n, _ := strconv.ParseInt(strings.TrimSpace(strings.SplitN(sz, ";", 2)[0]), 16, 64)
				if n == 0 {
					// the trailer section: field lines up to the empty line; what arrives here was sent upstream after the body
					for {
						tl, err := br.ReadString('\n')
						if err != nil {
							return
						}
						tl = strings.TrimRight(tl, "\r\n")
						if tl == "" {
							break
						}
						k, v, _ := strings.Cut(tl, ":")
						lines = append(lines, [2]string{k, strings.Trim(v, " \t")})
					}
					break
				}
				if _, err := io.CopyN(io.Discard, br, n+2); err != nil {
					return
				}
			}
		} else if cl > 0 {
			if _, err := io.CopyN(io.Discard, br, int64(cl)); err != nil {
				return
			}
		}
		parts := strings.SplitN(rl, " ", 3)
		path := ""
		if len(parts) > 1 {
			path = parts[1]
		}
		body := b.reply
		if strings.HasSuffix(path, "/zz-health") || strings.HasSuffix(path, "/v1/models") && strings.HasPrefix(rl, "GET") {
			body = `{"object":"list","data":[{"id":"m1","object":"model"}]}`
		} else {
			b.mu.Lock()
			if b.dropNext > 0 {
				b.dropNext--
				b.mu.Unlock()
				return // closed without an answer: the engine's RoundTrip fails
			}
			b.seen = append(b.seen, seenReq{Line: rl, Lines: lines})
			b.mu.Unlock()
		}
		fmt.Fprintf(conn, "HTTP/1.1 200 OK\r\nContent-Type: application/json\r\nContent-Length: %d\r\n\r\n%s", len(body), body)
	}
}

var (
	logOnce   sync.Once
	sharedLog logger.StyledLogger
)

func quietLog() logger.StyledLogger {
	logOnce.Do(func() {
		_, sl, _, err := logger.NewWithTheme(&logger.Config{Level: "error", Theme: "default"})
		if err != nil {
			panic(err)
		}
		sharedLog = sl
	})
	return sharedLog
}

type epSpec struct {
	name string
	typ  string
	prio int
	b    *rawBackend
}

type stk struct {
	mgr    *services.ServiceManager
	addr   string
	cancel context.CancelFunc
	repo   domain.EndpointRepository
}

func startStack(engine string, eps []epSpec) (*stk, error) {
	var last error
	for try := 0; try < 4; try++ {
		cfg := config.DefaultConfig()
		cfg.Server.Host = "127.0.0.1"
		cfg.Server.RequestLogging = true // the default: the logging middleware is part of what production runs
		cfg.Server.RateLimits.GlobalRequestsPerMinute = 0
		cfg.Server.RateLimits.PerIPRequestsPerMinute = 0
		cfg.Server.RateLimits.HealthRequestsPerMinute = 0
		cfg.Server.RateLimits.BurstSize = 0
		stack.ApplyVary(cfg, stack.VaryFor("c15", engine, len(eps))) // settings no property mentions (scratch directories live in the run directory)
		// whom the rate limiter believes about the client's address is no business of the header relay
		switch stack.VaryFor("c15.trust", engine, len(eps)) % 3 {
		case 1:
			cfg.Server.RateLimits.TrustProxyHeaders = true
			cfg.Server.RateLimits.TrustedProxyCIDRs = []string{"10.0.0.0/8"} // the harness's loopback clients are outside
			_, n10, _ := net.ParseCIDR("10.0.0.0/8")
			cfg.Server.RateLimits.TrustedProxyCIDRsParsed = []*net.IPNet{n10}
		case 2:
			cfg.Server.RateLimits.TrustProxyHeaders = true // loopback is a trusted proxy
			cfg.Server.RateLimits.TrustedProxyCIDRs = []string{"127.0.0.0/8"}
			_, lo, _ := net.ParseCIDR("127.0.0.0/8")
			cfg.Server.RateLimits.TrustedProxyCIDRsParsed = []*net.IPNet{lo}
		}
		if v := os.Getenv("VERIF_C15_TRUST"); v == "narrow" {
			cfg.Server.RateLimits.TrustProxyHeaders = true
			cfg.Server.RateLimits.TrustedProxyCIDRs = []string{"10.0.0.0/8"}
			_, n10, _ := net.ParseCIDR("10.0.0.0/8")
			cfg.Server.RateLimits.TrustedProxyCIDRsParsed = []*net.IPNet{n10}
		}
		cfg.Proxy.Engine = engine
		cfg.Proxy.LoadBalancer = "priority"
		cfg.Discovery.ModelDiscovery.Enabled = true
		cfg.Discovery.ModelDiscovery.RetryAttempts = 1
		cfg.Discovery.ModelDiscovery.RetryBackoff = 10 * time.Millisecond
		cfg.Discovery.ModelDiscovery.Timeout = 2 * time.Second
		cfg.Discovery.Static.Endpoints = nil
		for _, e := range eps {
			pr := e.prio
			cfg.Discovery.Static.Endpoints = append(cfg.Discovery.Static.Endpoints, config.EndpointConfig{
				URL: "http://" + e.b.addr, Name: e.name, Type: e.typ, Priority: &pr,
				HealthCheckURL: "/zz-health", ModelURL: "/v1/models", CheckInterval: 10 * time.Minute, CheckTimeout: 2 * time.Second,
			})
		}
		// a port from this process's reserved block (picking a free ephemeral port and closing it again lets another
		// process's listener take it before the server binds it)
		cfg.Server.Port = stack.FreePort()
		ctx, cancel := context.WithCancel(context.Background())
		mgr, err := app.CreateAndStartServiceManager(ctx, cfg, quietLog())
		if err != nil {
			cancel()
			last = err
			continue
		}
		s := &stk{mgr: mgr, addr: fmt.Sprintf("127.0.0.1:%d", cfg.Server.Port), cancel: cancel}
		if d, err := mgr.GetRegistry().GetDiscovery(); err == nil {
			s.repo, _ = d.GetEndpointRepository()
		}
		ok := false
		deadline := time.Now().Add(8 * time.Second)
		for time.Now().Before(deadline) {
			conn, err := net.DialTimeout("tcp", s.addr, 200*time.Millisecond)
			if err == nil {
				conn.Close()
				if s.repo != nil {
					if h, err := s.repo.GetHealthy(context.Background()); err == nil && len(h) == len(eps) {
						ok = true
						break
					}
				}
			}
			time.Sleep(15 * time.Millisecond)
		}
		if ok {
			// wait until model discovery has registered m1 (model-aware routing rejects unknown models)
			warm := "POST /olla/proxy/v1/chat/completions HTTP/1.1\r\nHost: warmup\r\nContent-Type: application/json\r\nContent-Length: 14\r\n\r\n{\"model\":\"m1\"}"
			for time.Now().Before(deadline) {
				if st, err := rawDo(s.addr, warm); err == nil && strings.HasPrefix(st, "200") {
					break
				}
				time.Sleep(20 * time.Millisecond)
			}
			for _, e := range eps {
				e.b.take()
			}
			return s, nil
		}
		s.stop()
		last = fmt.Errorf("stack did not become ready (engine %s)", engine)
	}
	return nil, last
}

func (s *stk) stop() {
	ctx, c := context.WithTimeout(context.Background(), 3*time.Second)
	defer c()
	s.mgr.Stop(ctx)
	s.cancel()
}

// rawDo writes the request bytes and returns the status line of the response.
func rawDo(addr string, req string) (string, error) {
	conn, err := net.DialTimeout("tcp", addr, 2*time.Second)
	if err != nil {
		return "", err
	}
	defer conn.Close()
	conn.SetDeadline(time.Now().Add(8 * time.Second))
	if _, err := io.WriteString(conn, req); err != nil {
		return "", err
	}
	resp, err := http.ReadResponse(bufio.NewReader(conn), nil)
	if err != nil {
		return "", err
	}
	io.Copy(io.Discard, resp.Body)
	resp.Body.Close()
	return resp.Status, nil
}

type route struct {
	name   string
	method string
	target string
	body   string
	model  string // what both engines are expected to write into X-Model ("?" = not predicted)
	epType string
}

var routes = []route{
	{"proxy", "POST", "/olla/proxy/v1/chat/completions", `{"model":"m1","messages":[{"role":"user","content":"hi"}]}`, "m1", "openai"},
	{"proxy-nomodel", "POST", "/olla/proxy/v1/embeddings?x=1", `{"input":"hi"}`, "", "openai"},
	{"provider", "POST", "/olla/openai/v1/chat/completions", `{"model":"m1","messages":[{"role":"user","content":"hi"}]}`, "m1", "openai"},
	{"anthropic-translate", "POST", "/olla/anthropic/v1/messages", `{"model":"m1","max_tokens":16,"messages":[{"role":"user","content":"hi"}]}`, "?", "openai"},
	{"anthropic-passthrough", "POST", "/olla/anthropic/v1/messages", `{"model":"m1","max_tokens":16,"messages":[{"role":"user","content":"hi"}]}`, "?", "vllm"},
}

// header lines a client puts on the wire, in order; exact spelling
func genLines(r *vlib.Rng, rich bool) [][2]string {
	var lines [][2]string
	add := func(k, v string) { lines = append(lines, [2]string{k, v}) }
	add("User-Agent", "c15-harness/1")
	add("Accept-Encoding", "identity")
	add("Content-Type", "application/json")
	marker := func(name string) string { return "c15-" + strings.ToLower(name) + "-" + strconv.Itoa(r.Intn(1000)) }
	for _, n := range sensitiveNames {
		if rich || r.Chance(1, 2) {
			for k := 1 + r.Intn(2); k > 0; k-- {
				add(randCase(r, n), marker(n))
			}
		}
	}
	for _, n := range []string{"Keep-Alive", "Proxy-Authenticate", "TE", "Upgrade"} {
		if rich || r.Chance(1, 2) {
			v := marker(n)
			if n == "TE" {
				v = "trailers"
			}
			add(randCase(r, n), v)
		}
	}
	if rich || r.Chance(1, 2) {
		add(randCase(r, "Connection"), vlib.Pick(r, []string{"close", "keep-alive", "close, X-Nominated", "Upgrade"}))
	}
	for k := r.Intn(6); k > 0; k-- {
		name := randToken(r)
		if strings.EqualFold(name, "host") || strings.EqualFold(name, "content-length") || strings.EqualFold(name, "expect") {
			continue
		}
		v := strings.TrimSpace(randValue(r))
		if strings.ContainsAny(v, "  ") {
			v = "x"
		}
		add(name, v)
		if r.Chance(1, 3) {
			add(randCase(r, name), strings.Trim(randValue(r), " \t  "))
		}
	}
	add("X-Keep-Me", "1")
	add("x-keep-me", "")
	add("X-KEEP-ME", "3")
	// headers that tracing / logging layers like to read: repeated, and long (they are "other client headers" too)
	long := func(n int) string { return strings.Repeat("0123456789abcdef", n/16+1)[:n] }
	for _, n := range []string{"X-Request-ID", "X-Correlation-ID", "Traceparent", "X-Session-ID", "X-Trace-Id", "Idempotency-Key", "Referer", "Accept-Language", "X-Client-Version"} {
		switch r.Intn(5) {
		case 0:
			add(n, long(vlib.Pick(r, []int{129, 184, 300, 1025, 4000})))
		case 1:
			add(n, "req-1-"+strconv.Itoa(r.Intn(1000)))
			add(n, "req-2-"+strconv.Itoa(r.Intn(1000)))
		case 2:
			add(randCase(r, n), "v-"+strconv.Itoa(r.Intn(1000)))
		}
	}
	switch r.Intn(4) {
	case 0:
	case 1:
		add("Via", "1.0 edge")
		add("X-Forwarded-For", "198.51.100.7")
		add("X-Forwarded-Proto", "https")
	case 2:
		add("via", "1.0 edge-a")
		add("VIA", "1.1 edge-b")
		add("X-Forwarded-For", "198.51.100.7")
		add("x-forwarded-for", "203.0.113.9, 10.0.0.1")
		add("X-Real-IP", "198.51.100.7")
	case 3:
		add("X-Forwarded-Host", "outer.example")
		add("X-Real-Ip", "")
		add("X-REAL-IP", "198.51.100.8")
		add("X-Forwarded-Proto", "")
		add("X-Forwarded-Proto", "https")
	}
	if r.Chance(1, 3) {
		add("X-Proxied-By", "client-set")
		add("X-Model", "client-set")
	}
	return lines
}

// trailerCases: the next stack cases send their body chunked with a trailer section
var trailerCases bool

func stackCase(c *vlib.Cases, engine string, rt route, failover bool, lines [][2]string, s *stk, target, other *rawBackend) {
	const host = "olla.test:4040"
	var sb strings.Builder
	fmt.Fprintf(&sb, "%s %s HTTP/1.1\r\nHost: %s\r\n", rt.method, rt.target, host)
	for _, l := range lines {
		fmt.Fprintf(&sb, "%s: %s\r\n", l[0], l[1])
	}
	if trailerCases && len(rt.body) > 0 {
		// a chunked upload with a trailer section (RFC 7230 4.1.2): the fields after the last chunk are not header lines of
		// the request; whatever the proxy does with them, no credential may reach the backend and no line the client did
		// not send as a header may appear upstream
		fmt.Fprintf(&sb, "Transfer-Encoding: chunked\r\nTrailer: Authorization, X-Checksum, Cookie, X-Api-Key\r\n\r\n%x\r\n%s\r\n0\r\nAuthorization: Bearer sk-in-the-trailer\r\nX-Checksum: 9f86d081\r\nCookie: session=in-the-trailer\r\nX-Api-Key: key-in-the-trailer\r\n\r\n", len(rt.body), rt.body)
	} else {
		fmt.Fprintf(&sb, "Content-Length: %d\r\n\r\n%s", len(rt.body), rt.body)
	}
	target.take()
	if other != nil {
		other.take()
	}
	status, err := rawDo(s.addr, sb.String())
	errs := ""
	if err != nil {
		errs = err.Error()
	}
	seen := target.take()
	elsewhere := 0
	if other != nil {
		elsewhere = len(other.take())
	}
	c.Emit(map[string]any{"kind": "stack", "engine": engine, "route": rt.name, "failover": failover, "lines": lines, "host": host, "remote_host": "127.0.0.1",
		"model": rt.model, "impl": map[string]any{"status": status, "err": errs, "seen": seen, "elsewhere": elsewhere}})
	c.Count("stack." + engine + "." + rt.name + map[bool]string{true: ".failover", false: ""}[failover])
}

func stackPart(c *vlib.Cases, r *vlib.Rng, thorough bool) {
	perRoute, failovers := 6, 2
	if thorough {
		perRoute, failovers = 60, 8
	}
	for _, engine := range []string{"sherpa", "olla"} {
		byType := map[string][]route{}
		for _, rt := range routes {
			byType[rt.epType] = append(byType[rt.epType], rt)
		}
		for _, typ := range []string{"openai", "vllm"} {
			b := newBackend()
			s, err := startStack(engine, []epSpec{{"only", typ, 100, b}})
			if err != nil {
				c.Emit(map[string]any{"kind": "stack-error", "engine": engine, "impl": map[string]any{"err": err.Error()}})
				continue
			}
			for _, rt := range byType[typ] {
				for i := 0; i < perRoute; i++ {
					trailerCases = i%3 == 2
					stackCase(c, engine, rt, false, genLines(r, i == 0), s, b, nil)
					trailerCases = false
				}
			}
			s.stop()
			b.refuse()
		}
		// a request whose only attempt dies in the transport, then requests of OTHER clients on the same engine
		// instance: nothing of the failed request's headers may show up in them
		for i := 0; i < failovers; i++ {
			b := newBackend()
			s, err := startStack(engine, []epSpec{{"only", "openai", 100, b}})
			if err != nil {
				c.Emit(map[string]any{"kind": "stack-error", "engine": engine, "impl": map[string]any{"err": err.Error()}})
				continue
			}
			for round := 0; round < 2; round++ {
				b.mu.Lock()
				b.dropNext = 1
				b.mu.Unlock()
				var sb strings.Builder
				fmt.Fprintf(&sb, "POST /olla/proxy/v1/chat/completions HTTP/1.1\r\nHost: olla.test:4040\r\n")
				for _, l := range genLines(r, true) {
					fmt.Fprintf(&sb, "%s: %s\r\n", l[0], l[1])
				}
				fmt.Fprintf(&sb, "X-Tenant-Id: tenant-of-the-failed-request\r\nX-Trace-Context: failed-%d\r\nContent-Length: 2\r\n\r\n{}", i)
				rawDo(s.addr, sb.String())
				for k := 0; k < 3; k++ {
					stackCase(c, engine, routes[(i+k)%3], false, genLines(r, false), s, b, nil)
				}
			}
			s.stop()
			b.refuse()
		}
		// fail-over: the preferred endpoint passes its health check, then refuses connections
		for i := 0; i < failovers; i++ {
			a, b := newBackend(), newBackend()
			s, err := startStack(engine, []epSpec{{"first", "openai", 100, a}, {"second", "openai", 50, b}})
			if err != nil {
				c.Emit(map[string]any{"kind": "stack-error", "engine": engine, "impl": map[string]any{"err": err.Error()}})
				continue
			}
			a.refuse()
			stackCase(c, engine, routes[i%3], true, genLines(r, true), s, b, nil)
			// later requests on the same engine instance, each with its own header set: nothing of the
			// request whose first attempt failed may show up in them
			for k := 0; k < 3; k++ {
				stackCase(c, engine, routes[(i+k)%3], false, genLines(r, k == 0), s, b, nil)
			}
			s.stop()
			b.refuse()
		}
	}
}

// ownersCase: a long-lived stack whose preferred endpoint died (its breaker opened, later requests skip it), then many
// clients at once, each with header lines only it sends (X-Owner-<id>, a session header, a tracing id).  Every upstream request
// carries the header lines of the client it belongs to (identified by the number in its query) and nobody else's.
func ownersCase(engine string, rounds, clients int) map[string]any {
	a, b := stack.NewBackend("A"), stack.NewBackend("B")
	defer a.Close()
	defer b.Close()
	s, err := stack.Start(stack.Opts{Vary: stack.VaryFor("c15.owners", engine), Engine: engine, Balancer: "priority", EPs: []stack.EP{
		{Name: "A", Type: "openai", Priority: 300, Backend: a}, {Name: "B", Type: "openai", Priority: 100, Backend: b}}})
	if err != nil {
		return map[string]any{"start_err": err.Error()}
	}
	defer s.Stop()
	okB := stack.Behaviour{Kind: "ok", Status: 200, Headers: [][2]string{{"Content-Type", "application/json"}}, Body: []byte(`{"ok":true}`)}
	b.SetBehaviour(okB)
	vlib.Breadcrumb(map[string]any{"kind": "owners", "engine": engine, "rounds": rounds, "clients": clients, "what": "preferred endpoint's breaker opened, then bursts of concurrent clients each with its own X-Owner-<id> / X-Session / X-Trace header lines"})
	send := func(id string, extra [][2]string) {
		h := append([][2]string{{"Content-Type", "application/json"}}, extra...)
		stack.Do(s.Addr, stack.Request("POST", "/olla/proxy/v1/chat/completions?n="+id, s.Addr, h, []byte(`{}`), false), 5*time.Second)
	}
	// the preferred endpoint closes every exchange without an answer until its breaker is open; then requests skip it
	a.SetBehaviour(stack.Behaviour{Kind: "close0"})
	for i := 0; i < 9; i++ {
		send(fmt.Sprintf("prime%d", i), nil)
		s.SetStatus("A", domain.StatusHealthy)
	}
	a.SetBehaviour(okB)
	a.Taken()
	b.Taken()
	total, wrong, first := 0, 0, ""
	for r := 0; r < rounds; r++ {
		// clients that give up while the proxy is still waiting for the backend's answer (the backend holds their request):
		// their header lines are theirs alone too
		gate := make(chan struct{})
		held := okB
		held.Gate = gate
		script := func(_ int, sn *stack.Seen) stack.Behaviour {
			if strings.HasPrefix(sn.RawQuery, "n=aband") {
				return held
			}
			return okB
		}
		a.SetScript(script)
		b.SetScript(script)
		for k := 0; k < 3; k++ {
			id := fmt.Sprintf("abandr%dk%d", r, k)
			if conn, err := net.DialTimeout("tcp", s.Addr, 2*time.Second); err == nil {
				conn.Write(stack.Request("POST", "/olla/proxy/v1/chat/completions?n="+id, s.Addr, [][2]string{{"Content-Type", "application/json"}, {"X-Owner-" + id, id}, {"X-Session", "session=" + id}, {"X-Trace", "t-" + id}}, []byte(`{}`), false))
				go func() { time.Sleep(25 * time.Millisecond); conn.Close() }()
			}
		}
		time.Sleep(60 * time.Millisecond)
		close(gate)
		time.Sleep(10 * time.Millisecond)
		var wg sync.WaitGroup
		for k := 0; k < clients; k++ {
			wg.Add(1)
			go func(k int) {
				defer wg.Done()
				id := fmt.Sprintf("r%dk%d", r, k)
				send(id, [][2]string{{"X-Owner-" + id, id}, {"X-Session", "session=" + id}, {"X-Trace", "t-" + id}})
			}(k)
		}
		wg.Wait()
		s.SetStatus("A", domain.StatusHealthy)
		for _, be := range []*stack.Backend{a, b} {
			for _, sn := range be.Taken() {
				total++
				id := strings.TrimPrefix(sn.RawQuery, "n=")
				bad := ""
				for name, vals := range sn.Header {
					if strings.HasPrefix(name, "X-Owner-") && !strings.EqualFold(name, "X-Owner-"+id) {
						bad = "carries " + name
					}
					if name == "X-Session" && (len(vals) != 1 || vals[0] != "session="+id) {
						bad = fmt.Sprintf("X-Session %v", vals)
					}
					if name == "X-Trace" && (len(vals) != 1 || vals[0] != "t-"+id) {
						bad = fmt.Sprintf("X-Trace %v", vals)
					}
				}
				if len(sn.Header["X-Session"]) == 0 || len(sn.Header["X-Trace"]) == 0 {
					bad = "lost its X-Session / X-Trace"
				}
				if bad != "" {
					wrong++
					if first == "" {
						first = fmt.Sprintf("round %d: the upstream request of client %s %s", r, id, bad)
					}
				}
			}
		}
	}
	return map[string]any{"requests_seen": total, "wrong": wrong, "first": first, "rounds": rounds, "clients": clients}
}

func main() {
	tier := vlib.Tier()
	r := vlib.NewRng(vlib.Seed())
	c := vlib.OpenCases("cases.jsonl")
	thorough := tier == "thorough"
	purePart(c, r, thorough)
	if os.Getenv("VERIF_C15_NOSTACK") == "" {
		stackPart(c, r.Fork(), thorough)
	}
	note := "every letter-case variant (2^letters) of every listed name with at most 14 letters goes through core.CopyHeaders one by one; names with more letters: first/last 4096 variants and 8 random windows of 4096 (quick), all variants (thorough)"
	if thorough {
		note = "every letter-case variant (2^letters, up to 2^18) of every sensitive / hop-by-hop name goes through core.CopyHeaders one by one"
	}
	if os.Getenv("VERIF_C15_NOSTACK") == "" {
		for _, engine := range []string{"sherpa", "olla"} {
			c.Emit(map[string]any{"kind": "owners", "engine": engine, "impl": ownersCase(engine, map[bool]int{false: 100, true: 1000}[thorough], 24)})
			c.Count("owners." + engine)
		}
	}
	c.Close(map[string]any{"exhaustive": true, "exhaustive_note": note})
}
