//go:build verif

// c12: correspondence harness for the Anthropic -> OpenAI request translation (property C12).
// Drives the REAL exported anthropic.Translator.TransformRequest (and WriteError for the 400
// body) with a grammar-directed generator of Anthropic Messages requests: 0..6 turns, 0..5
// blocks per turn in every order (text / tool_use / tool_result / image / other), nested tool
// arguments (depth <= 4), unicode, system as string or blocks, 0..4 tools, every tool_choice
// form, optional fields present / absent / out of range — plus a malformed stream (not JSON,
// wrong types, unknown fields).  The harness knows the AST of what it generated and converts
// the produced OpenAI map into the AST the Lean driver reads by an independent reader;
// argument strings and tool-result contents are re-parsed and canonicalised so that "JSON-equal"
// is token equality.
package main

import (
	"runtime"
	"sync/atomic"
	"sync"
	"bytes"
	"context"
	"encoding/json"
	"fmt"
	"github.com/thushan/olla/internal/core/domain"
	"github.com/thushan/olla/internal/zz_verif/anth"
	"github.com/thushan/olla/internal/zz_verif/stack"
	"net/http"
	"net/http/httptest"
	"os"
	"sort"
	"strconv"
	"strings"
	"time"

	"github.com/thushan/olla/internal/adapter/translator/anthropic"
	"github.com/thushan/olla/internal/config"
	"github.com/thushan/olla/internal/zz_verif/vlib"
)

// ---------------------------------------------------------------- AST (mirrors Olla.Model.AnthropicRequest)

type RC struct {
	K string `json:"k"` // none | str | json
	S string `json:"s"`
}

type Block struct {
	T     string  `json:"t"` // text | tool_use | tool_result | image | other
	S     string  `json:"s"`
	ID    string  `json:"id"`
	Name  string  `json:"name"`
	Input *string `json:"input,omitempty"` // canonical token; nil = input is not a JSON object
	RC    *RC     `json:"rc,omitempty"`
	raw   string  // JSON text of the block as sent
}

type Content struct {
	K      string  `json:"k"` // str | blocks | single | bad
	S      string  `json:"s"`
	Blocks []Block `json:"blocks"`
	raw    string
}

type Msg struct {
	Role    string  `json:"role"`
	Content Content `json:"content"`
	noRole  bool
}

type SysBlock struct {
	T   string `json:"t"` // text | other
	S   string `json:"s"`
	raw string
}

type Sys struct {
	K      string     `json:"k"` // absent | str | blocks | other
	S      string     `json:"s"`
	Blocks []SysBlock `json:"blocks"`
	raw    string
}

type Tool struct {
	Name   string `json:"name"`
	Desc   string `json:"desc"`
	Schema string `json:"schema"`
	raw    string
}

type Choice struct {
	K    string  `json:"k"` // absent | str | obj | other
	S    string  `json:"s"` // the string, or the object's type
	Name *string `json:"name,omitempty"`
	raw  string
}

type Num struct {
	Tok    string `json:"tok"`
	Micros int64  `json:"micros"`
	lit    string
}

type AReq struct {
	Model       string   `json:"model"`
	MaxTokens   int64    `json:"max_tokens"`
	Stream      bool     `json:"stream"`
	Temperature *Num     `json:"temperature,omitempty"`
	TopP        *Num     `json:"top_p,omitempty"`
	TopK        *int64   `json:"top_k,omitempty"`
	Stop        []string `json:"stop"`
	System      Sys      `json:"system"`
	Messages    []Msg    `json:"messages"`
	Tools       []Tool   `json:"tools"`
	Choice      Choice   `json:"choice"`

	noModel, noMaxTokens, streamAbsent bool
	stopRaw                            string // "" absent, else JSON
	extra                              []kv
}

// ---------------------------------------------------------------- JSON helpers

type kv struct {
	k string
	v string // already-encoded JSON
}

func jstr(s string) string {
	var buf bytes.Buffer
	enc := json.NewEncoder(&buf)
	enc.SetEscapeHTML(false)
	_ = enc.Encode(s)
	return strings.TrimRight(buf.String(), "\n")
}

func jobj(r *vlib.Rng, kvs []kv) string {
	o := append([]kv{}, kvs...)
	if r != nil && r.Bool() {
		for i := len(o) - 1; i > 0; i-- {
			j := r.Intn(i + 1)
			o[i], o[j] = o[j], o[i]
		}
	}
	parts := make([]string, len(o))
	sep := ","
	if r != nil && r.Chance(1, 4) {
		sep = " , "
	}
	for i, p := range o {
		parts[i] = jstr(p.k) + ":" + p.v
	}
	return "{" + strings.Join(parts, sep) + "}"
}

func jarr(items []string) string { return "[" + strings.Join(items, ",") + "]" }

func fmtFloat(f float64) string { return strconv.FormatFloat(f, 'g', -1, 64) }

// canonValue: deterministic text of a decoded JSON value (decoded with UseNumber): sorted keys,
// numbers through float64.
func canonValue(v any) string {
	switch x := v.(type) {
	case nil:
		return "null"
	case bool:
		if x {
			return "true"
		}
		return "false"
	case json.Number:
		f, err := x.Float64()
		if err != nil {
			return "num:" + string(x)
		}
		return fmtFloat(f)
	case float64:
		return fmtFloat(x)
	case string:
		return jstr(x)
	case []any:
		parts := make([]string, len(x))
		for i, y := range x {
			parts[i] = canonValue(y)
		}
		return "[" + strings.Join(parts, ",") + "]"
	case map[string]any:
		ks := make([]string, 0, len(x))
		for k := range x {
			ks = append(ks, k)
		}
		sort.Strings(ks)
		parts := make([]string, len(ks))
		for i, k := range ks {
			parts[i] = jstr(k) + ":" + canonValue(x[k])
		}
		return "{" + strings.Join(parts, ",") + "}"
	}
	return fmt.Sprintf("?%T", v)
}

func parseJSON(s string) (any, bool) {
	dec := json.NewDecoder(strings.NewReader(s))
	dec.UseNumber()
	var v any
	if err := dec.Decode(&v); err != nil || dec.More() {
		return nil, false
	}
	return v, true
}

// canonText: token of a JSON text, or a marker if it does not parse.
func canonText(s string) string {
	v, ok := parseJSON(s)
	if !ok {
		return "!unparsable:" + s
	}
	return canonValue(v)
}

// rcOfString abstracts a tool message content string / a string tool_result content.
func rcOfString(s string) RC {
	if s == "" {
		return RC{K: "none"}
	}
	if v, ok := parseJSON(s); ok {
		switch v.(type) {
		case map[string]any, []any:
			return RC{K: "json", S: canonValue(v)}
		}
	}
	return RC{K: "str", S: s}
}

// ---------------------------------------------------------------- generators

var alphabets = []string{
	// control characters a backend validly writes as \u00XX escapes (ANSI colour codes, bell, vertical tab, DEL, C1),
	// characters outside the BMP that are not "printable" (tag characters of the subdivision flags, private-use planes,
	// non-characters) and text that spells out escapes itself
	"\x1b[31m\x07\x0b\x7f\u0085\x00\x1f",
	"\U000e0067\U000e0062\U000e007f\U000f0000\U0010fffd\U0001f3f4\ufffe\uffff",
	"\\u003c\\u003e\\u0026 \\n \\\\ \\x1b <b>&amp;</b>",
	"abcdefghijklmnopqrstuvwxyz ABC.,!?",
	"héllo wörld ñ ß",
	"日本語のテキスト",
	"😀🎉🚀👩‍👩‍👧‍👦",
	"\"\\/\n\t<>&' ",
	"مرحبا שלום",
	"e\u0301\u200d\ufeff",
}

func genStr(r *vlib.Rng, minLen, maxLen int) string {
	n := minLen + r.Intn(maxLen-minLen+1)
	var b strings.Builder
	al := []rune(vlib.Pick(r, alphabets))
	for i := 0; i < n; i++ {
		if r.Chance(1, 8) {
			al = []rune(vlib.Pick(r, alphabets))
		}
		b.WriteRune(al[r.Intn(len(al))])
		if r.Chance(1, 14) { // text that spells escapes out (source code, JSON fixtures, regular expressions)
			b.WriteString(vlib.Pick(r, []string{"\\u003c", "\\u003e", "\\u0026", "\\n", "\\\"", "\\x1b", "&lt;", "\\\\u0041", "%5C"}))
		}
	}
	return b.String()
}

func genIdent(r *vlib.Rng) string {
	const al = "abcdefghijklmnopqrstuvwxyzABCDEFGHIJKLMNOPQRSTUVWXYZ0123456789_-"
	n := 1 + r.Intn(10)
	b := make([]byte, n)
	for i := range b {
		b[i] = al[r.Intn(len(al))]
	}
	return string(b)
}

// genJSONText renders a random JSON value (depth-limited) as text with shuffled keys.
func genJSONText(r *vlib.Rng, depth int, wantObj bool) string {
	k := r.Intn(8)
	if wantObj {
		k = 7
	} else if depth <= 0 && k >= 6 {
		k = r.Intn(6)
	}
	switch k {
	case 0:
		return jstr(genStr(r, 0, 10))
	case 1:
		return strconv.Itoa(r.Intn(2000) - 1000)
	case 2:
		return vlib.Pick(r, []string{"true", "false"})
	case 3:
		return "null"
	case 4:
		return vlib.Pick(r, []string{"0.5", "12.25", "1e3", "-0.125", "3.0", "1E-2", "100000"})
	case 5:
		return jstr(vlib.Pick(r, []string{"", "x", "{\"looks\":\"like json\"}", "[1,2]", "null", "5"}))
	case 6:
		n := r.Intn(4)
		items := make([]string, n)
		for i := range items {
			items[i] = genJSONText(r, depth-1, false)
		}
		return jarr(items)
	default:
		n := r.Intn(4)
		var kvs []kv
		seen := map[string]bool{}
		for i := 0; i < n; i++ {
			key := genIdent(r)
			if r.Chance(1, 6) {
				key = genStr(r, 1, 5)
			}
			if seen[key] {
				continue
			}
			seen[key] = true
			kvs = append(kvs, kv{key, genJSONText(r, depth-1, false)})
		}
		return jobj(r, kvs)
	}
}

func genToolUse(r *vlib.Rng, ids *[]string) Block {
	id := "toolu_" + genIdent(r)
	name := genIdent(r)
	switch r.Intn(25) {
	case 0:
		id = ""
	case 1:
		name = ""
	}
	if id != "" {
		*ids = append(*ids, id)
	}
	b := Block{T: "tool_use", ID: id, Name: name}
	kvs := []kv{{"type", `"tool_use"`}}
	if id != "" || r.Bool() {
		kvs = append(kvs, kv{"id", jstr(id)})
	}
	if name != "" || r.Bool() {
		kvs = append(kvs, kv{"name", jstr(name)})
	}
	switch r.Intn(14) {
	case 0: // no input
	case 1:
		kvs = append(kvs, kv{"input", vlib.Pick(r, []string{"null", `"str"`, "[1]", "5", "true"})})
	default:
		txt := genJSONText(r, 3, true)
		tok := canonText(txt)
		b.Input = &tok
		kvs = append(kvs, kv{"input", txt})
	}
	if r.Chance(1, 10) {
		kvs = append(kvs, kv{"cache_control", `{"type":"ephemeral"}`})
	}
	b.raw = jobj(r, kvs)
	return b
}

func genToolResult(r *vlib.Rng, ids []string) Block {
	id := "toolu_" + genIdent(r)
	if len(ids) > 0 && r.Chance(5, 6) {
		id = ids[r.Intn(len(ids))]
	}
	kvs := []kv{{"type", `"tool_result"`}}
	switch r.Intn(20) {
	case 0:
		id = ""
	case 1:
		id = ""
		kvs = append(kvs, kv{"tool_use_id", "5"})
	}
	if id != "" {
		kvs = append(kvs, kv{"tool_use_id", jstr(id)})
	}
	b := Block{T: "tool_result", ID: id}
	var rc RC
	switch r.Intn(10) {
	case 0:
		rc = RC{K: "none"}
		switch r.Intn(3) {
		case 0:
			kvs = append(kvs, kv{"content", "null"})
		case 1:
			kvs = append(kvs, kv{"content", `""`})
		}
	case 1: // scalar, re-encoded by json.Marshal
		lit := vlib.Pick(r, []string{"5", "42", "2.5", "true", "false", "-7"})
		rc = RC{K: "str", S: lit}
		kvs = append(kvs, kv{"content", lit})
	case 2, 3: // structured: the Anthropic form [{"type":"text","text":…}] or any object/array
		txt := genJSONText(r, 3, r.Bool())
		if r.Bool() {
			txt = jarr([]string{jobj(r, []kv{{"type", `"text"`}, {"text", jstr(genStr(r, 0, 12))}})})
		}
		if r.Chance(1, 4) { // what a screenshot or file-reading tool hands back: text plus an inline image or document
			reps := 1 + r.Intn(40)
			if r.Chance(1, 3) { // a real screenshot: several KiB up to tens of KiB of base64
				reps = 400 + r.Intn(3000)
			}
			data := strings.Repeat(vlib.Pick(r, []string{"iVBORw0KGgo", "JVBERi0xLjQK", "QUJD"}), reps)
			typ := vlib.Pick(r, []string{"image", "document"})
			mt := map[string]string{"image": "image/png", "document": "application/pdf"}[typ]
			parts := []string{jobj(r, []kv{{"type", jstr(typ)}, {"source", jobj(r, []kv{{"type", `"base64"`}, {"media_type", jstr(mt)}, {"data", jstr(data)}})}})}
			if r.Bool() {
				parts = append([]string{jobj(r, []kv{{"type", `"text"`}, {"text", jstr(genStr(r, 0, 12))}})}, parts...)
			}
			txt = jarr(parts)
		}
		v, _ := parseJSON(txt)
		switch v.(type) {
		case map[string]any, []any:
			rc = RC{K: "json", S: canonValue(v)}
		case nil:
			rc = RC{K: "none"}
		case string:
			rc = rcOfString(v.(string))
		default:
			b2, _ := json.Marshal(v)
			if n, ok := v.(json.Number); ok {
				f, _ := n.Float64()
				b2, _ = json.Marshal(f)
			}
			rc = RC{K: "str", S: string(b2)}
		}
		kvs = append(kvs, kv{"content", txt})
	default:
		s := genStr(r, 1, 20)
		if r.Chance(1, 12) {
			s = vlib.Pick(r, []string{`{"a":1}`, `[1, 2]`, `{"b" : {"c":[]}}`, "null", "42", "{not json"})
		}
		rc = rcOfString(s)
		kvs = append(kvs, kv{"content", jstr(s)})
	}
	b.RC = &rc
	if r.Chance(1, 8) {
		kvs = append(kvs, kv{"is_error", vlib.Pick(r, []string{"true", "false"})})
	}
	b.raw = jobj(r, kvs)
	return b
}

func genTextBlock(r *vlib.Rng) Block {
	s := genStr(r, 1, 16)
	if r.Chance(1, 10) {
		s = ""
	}
	kvs := []kv{{"type", `"text"`}, {"text", jstr(s)}}
	if r.Chance(1, 12) {
		kvs = append(kvs, kv{"cache_control", `{"type":"ephemeral"}`})
	}
	return Block{T: "text", S: s, raw: jobj(r, kvs)}
}

func genOther(r *vlib.Rng) Block {
	return Block{T: "other", raw: vlib.Pick(r, []string{`"just a string"`, "5", "null", "[]", "{}", `{"type":"thinking","thinking":"hmm","signature":"x"}`,
		`{"type":"text"}`, `{"type":"text","text":5}`, `{"type":5,"text":"x"}`, `{"type":"document","source":{"type":"text","data":"d"}}`,
		`{"type":"redacted_thinking","data":"x"}`, `{"type":"TEXT","text":"wrong case"}`, `{"text":"no type"}`})}
}

func genImage(r *vlib.Rng) Block {
	return Block{T: "image", raw: `{"type":"image","source":{"type":"base64","media_type":"image/png","data":"aGk="}}`}
}

func genUserBlocks(r *vlib.Rng, ids []string, tmp *[]string) []Block {
	n := r.Intn(6)
	var out []Block
	pattern := r.Intn(10)
	switch {
	case pattern < 3: // the order Anthropic mandates: tool results first, then text
		k := 1 + r.Intn(3)
		for i := 0; i < k; i++ {
			out = append(out, genToolResult(r, ids))
		}
		for i := r.Intn(3); i > 0; i-- {
			out = append(out, genTextBlock(r))
		}
		return out
	case pattern < 5: // text first, then results
		for i := 1 + r.Intn(2); i > 0; i-- {
			out = append(out, genTextBlock(r))
		}
		for i := r.Intn(3); i > 0; i-- {
			out = append(out, genToolResult(r, ids))
		}
		return out
	}
	for i := 0; i < n; i++ {
		switch k := r.Intn(100); {
		case k < 50:
			out = append(out, genTextBlock(r))
		case k < 80:
			out = append(out, genToolResult(r, ids))
		case k < 88:
			out = append(out, genImage(r))
		case k < 96:
			out = append(out, genOther(r))
		default:
			out = append(out, genToolUse(r, tmp)) // misplaced
		}
	}
	return out
}

func genAsstBlocks(r *vlib.Rng, ids *[]string) []Block {
	var out []Block
	if r.Chance(7, 10) { // what models emit: text* then tool_use*
		for i := r.Intn(3); i > 0; i-- {
			out = append(out, genTextBlock(r))
		}
		if r.Chance(1, 6) {
			out = append([]Block{genOther(r)}, out...)
		}
		for i := r.Intn(4); i > 0; i-- {
			out = append(out, genToolUse(r, ids))
		}
		return out
	}
	n := r.Intn(6)
	for i := 0; i < n; i++ {
		switch k := r.Intn(100); {
		case k < 45:
			out = append(out, genTextBlock(r))
		case k < 83:
			out = append(out, genToolUse(r, ids))
		case k < 92:
			out = append(out, genOther(r))
		case k < 96:
			out = append(out, genImage(r))
		default:
			out = append(out, genToolResult(r, *ids)) // misplaced
		}
	}
	return out
}

func blocksContent(r *vlib.Rng, bs []Block) Content {
	if len(bs) == 1 && bs[0].T != "other" && r.Chance(1, 5) {
		return Content{K: "single", Blocks: bs, raw: bs[0].raw}
	}
	if bs == nil {
		bs = []Block{}
	}
	raws := make([]string, len(bs))
	for i, b := range bs {
		raws[i] = b.raw
	}
	return Content{K: "blocks", Blocks: bs, raw: jarr(raws)}
}

func strContent(r *vlib.Rng) Content {
	s := genStr(r, 1, 24)
	if r.Chance(1, 12) {
		s = ""
	}
	return Content{K: "str", S: s, Blocks: []Block{}, raw: jstr(s)}
}

func genMessages(r *vlib.Rng) []Msg {
	n := r.Intn(7)
	if r.Chance(1, 2) && n == 0 {
		n = 1
	}
	var ids []string
	var msgs []Msg
	role := "user"
	for i := 0; i < n; i++ {
		m := Msg{Role: role}
		if r.Chance(1, 40) {
			m.Role = vlib.Pick(r, []string{"system", "tool", "", "User", "developer"})
			if m.Role == "" && r.Bool() {
				m.noRole = true
			}
		}
		switch k := r.Intn(100); {
		case k < 30:
			m.Content = strContent(r)
		case k < 97:
			if m.Role == "assistant" {
				m.Content = blocksContent(r, genAsstBlocks(r, &ids))
			} else {
				var tmp []string
				m.Content = blocksContent(r, genUserBlocks(r, ids, &tmp))
			}
		default:
			m.Content = Content{K: "bad", Blocks: []Block{}, raw: vlib.Pick(r, []string{"null", "5", "true", "1.5"})}
		}
		msgs = append(msgs, m)
		if !r.Chance(1, 10) { // usually alternate
			if role == "user" {
				role = "assistant"
			} else {
				role = "user"
			}
		}
	}
	if msgs == nil {
		msgs = []Msg{}
	}
	return msgs
}

func genSys(r *vlib.Rng) Sys {
	switch k := r.Intn(20); {
	case k < 6:
		if r.Bool() {
			return Sys{K: "absent", Blocks: []SysBlock{}}
		}
		return Sys{K: "absent", Blocks: []SysBlock{}, raw: "null"}
	case k < 12:
		s := genStr(r, 1, 30)
		if r.Chance(1, 8) {
			s = ""
		}
		return Sys{K: "str", S: s, Blocks: []SysBlock{}, raw: jstr(s)}
	case k < 19:
		n := r.Intn(4)
		bs := []SysBlock{}
		var raws []string
		for i := 0; i < n; i++ {
			switch r.Intn(6) {
			case 0:
				b := SysBlock{T: "other", raw: vlib.Pick(r, []string{`"str"`, "5", "null", `{"type":"image"}`, `{"type":"text","text":5}`, `{"text":"no type"}`, `{}`})}
				bs = append(bs, b)
				raws = append(raws, b.raw)
			default:
				s := genStr(r, 1, 14)
				if r.Chance(1, 8) {
					s = ""
				}
				kvs := []kv{{"type", `"text"`}, {"text", jstr(s)}}
				if r.Chance(1, 5) {
					kvs = append(kvs, kv{"cache_control", `{"type":"ephemeral"}`})
				}
				b := SysBlock{T: "text", S: s, raw: jobj(r, kvs)}
				bs = append(bs, b)
				raws = append(raws, b.raw)
			}
		}
		return Sys{K: "blocks", Blocks: bs, raw: jarr(raws)}
	default:
		return Sys{K: "other", Blocks: []SysBlock{}, raw: vlib.Pick(r, []string{"5", "true", `{"type":"text","text":"an object, not a list"}`})}
	}
}

func genTools(r *vlib.Rng) []Tool {
	if r.Chance(2, 5) {
		return []Tool{}
	}
	n := 1 + r.Intn(4)
	out := make([]Tool, n)
	for i := range out {
		t := Tool{Name: genIdent(r)}
		kvs := []kv{{"name", jstr(t.Name)}}
		if r.Chance(3, 4) {
			t.Desc = genStr(r, 0, 20)
			kvs = append(kvs, kv{"description", jstr(t.Desc)})
		}
		switch r.Intn(8) {
		case 0:
			t.Schema = "null"
		case 1:
			t.Schema = "null"
			kvs = append(kvs, kv{"input_schema", "null"})
		default:
			txt := jobj(r, []kv{{"type", `"object"`}, {"properties", genJSONText(r, 3, true)}, {"required", jarr([]string{jstr(genIdent(r))})}})
			if r.Chance(1, 4) {
				txt = genJSONText(r, 4, true)
			}
			t.Schema = canonText(txt)
			kvs = append(kvs, kv{"input_schema", txt})
		}
		t.raw = jobj(r, kvs)
		out[i] = t
	}
	return out
}

func genChoice(r *vlib.Rng) Choice {
	key := vlib.Pick(r, []string{"auto", "any", "none", "tool", "auto", "any", "none", "tool", "zz-junk", "AUTO", ""})
	switch k := r.Intn(20); {
	case k < 6:
		if r.Chance(1, 4) {
			return Choice{K: "absent", raw: "null"}
		}
		return Choice{K: "absent"}
	case k < 9:
		return Choice{K: "str", S: key, raw: jstr(key)}
	case k < 19:
		kvs := []kv{{"type", jstr(key)}}
		c := Choice{K: "obj", S: key}
		if r.Chance(1, 12) { // type missing or not a string
			c.S = ""
			kvs = nil
			if r.Bool() {
				kvs = []kv{{"type", "5"}}
			}
		}
		switch {
		case key == "tool" && r.Chance(5, 6), key != "tool" && r.Chance(1, 5):
			n := genIdent(r)
			c.Name = &n
			kvs = append(kvs, kv{"name", jstr(n)})
		case r.Chance(1, 10):
			kvs = append(kvs, kv{"name", "5"}) // not a string
		}
		if r.Chance(1, 8) {
			kvs = append(kvs, kv{"disable_parallel_tool_use", "true"})
		}
		c.raw = jobj(r, kvs)
		return c
	default:
		return Choice{K: "other", raw: vlib.Pick(r, []string{"5", "true", "[]", `["auto"]`})}
	}
}

func genNum(r *vlib.Rng, hiMicros int64) *Num {
	if r.Bool() {
		return nil
	}
	var m int64
	switch k := r.Intn(20); {
	case k < 10:
		m = int64(r.Intn(int(hiMicros/1000)+1)) * 1000
	case k == 10:
		m = 0
	case k == 11:
		m = hiMicros
	case k == 12:
		m = hiMicros + 1
	case k == 13:
		m = -1
	case k == 14:
		m = -500000
	case k == 15:
		m = hiMicros + 500000
	case k == 16:
		m = 100000000
	case k == 17:
		m = 1000000
	default:
		m = int64(r.Intn(int(hiMicros) + 1))
	}
	neg := m < 0
	a := m
	if neg {
		a = -a
	}
	lit := fmt.Sprintf("%d.%06d", a/1000000, a%1000000)
	if r.Bool() {
		lit = strings.TrimRight(lit, "0")
		if strings.HasSuffix(lit, ".") {
			if r.Bool() {
				lit = strings.TrimSuffix(lit, ".")
			} else {
				lit += "0"
			}
		}
	}
	if neg {
		lit = "-" + lit
	}
	f, _ := strconv.ParseFloat(lit, 64)
	return &Num{Tok: fmtFloat(f), Micros: m, lit: lit}
}

func genReq(r *vlib.Rng) *AReq {
	q := &AReq{Model: vlib.Pick(r, []string{"claude-sonnet-4", "claude-3-5-haiku-latest", "llama3.1:8b", "模型/x", "m"}), Stop: []string{}}
	switch r.Intn(30) {
	case 0:
		q.Model = ""
	case 1:
		q.Model = ""
		q.noModel = true
	}
	q.MaxTokens = int64(1 + r.Intn(8192))
	switch r.Intn(24) {
	case 0:
		q.MaxTokens = 0
	case 1:
		q.MaxTokens = -5
	case 2:
		q.MaxTokens = 1
	case 3:
		q.MaxTokens = 0
		q.noMaxTokens = true
	case 4:
		q.MaxTokens = 2000000000
	}
	switch r.Intn(3) {
	case 0:
		q.streamAbsent = true
	case 1:
		q.Stream = true
	}
	q.Temperature = genNum(r, 2000000)
	q.TopP = genNum(r, 1000000)
	if r.Chance(1, 3) {
		k := int64(r.Intn(100))
		if r.Chance(1, 6) {
			k = -1 - int64(r.Intn(5))
		}
		q.TopK = &k
	}
	switch r.Intn(6) {
	case 0:
		q.stopRaw = "[]"
	case 1:
		q.stopRaw = "null"
	case 2, 3:
		n := 1 + r.Intn(3)
		items := make([]string, n)
		for i := range items {
			s := genStr(r, 1, 8)
			q.Stop = append(q.Stop, s)
			items[i] = jstr(s)
		}
		q.stopRaw = jarr(items)
	}
	q.System = genSys(r)
	q.Messages = genMessages(r)
	q.Tools = genTools(r)
	q.Choice = genChoice(r)
	if r.Chance(1, 5) {
		q.extra = append(q.extra, kv{"metadata", `{"user_id":"u-1"}`})
	}
	if r.Chance(1, 8) {
		q.extra = append(q.extra, kv{"thinking", `{"type":"enabled","budget_tokens":1024}`})
	}
	if r.Chance(1, 12) {
		q.extra = append(q.extra, kv{"output_config", `{"effort":"high"}`})
	}
	return q
}

func (q *AReq) render(r *vlib.Rng) string {
	var kvs []kv
	if !q.noModel {
		kvs = append(kvs, kv{"model", jstr(q.Model)})
	}
	if !q.noMaxTokens {
		kvs = append(kvs, kv{"max_tokens", strconv.FormatInt(q.MaxTokens, 10)})
	}
	if !q.streamAbsent {
		kvs = append(kvs, kv{"stream", strconv.FormatBool(q.Stream)})
	}
	if q.Temperature != nil {
		kvs = append(kvs, kv{"temperature", q.Temperature.lit})
	}
	if q.TopP != nil {
		kvs = append(kvs, kv{"top_p", q.TopP.lit})
	}
	if q.TopK != nil {
		kvs = append(kvs, kv{"top_k", strconv.FormatInt(*q.TopK, 10)})
	}
	if q.stopRaw != "" {
		kvs = append(kvs, kv{"stop_sequences", q.stopRaw})
	}
	if q.System.raw != "" {
		kvs = append(kvs, kv{"system", q.System.raw})
	}
	ms := make([]string, len(q.Messages))
	for i, m := range q.Messages {
		mk := []kv{{"content", m.Content.raw}}
		if !m.noRole {
			mk = append(mk, kv{"role", jstr(m.Role)})
		}
		ms[i] = jobj(r, mk)
	}
	kvs = append(kvs, kv{"messages", jarr(ms)})
	if len(q.Tools) > 0 || r.Chance(1, 6) {
		ts := make([]string, len(q.Tools))
		for i, t := range q.Tools {
			ts[i] = t.raw
		}
		kvs = append(kvs, kv{"tools", jarr(ts)})
	}
	if q.Choice.raw != "" {
		kvs = append(kvs, kv{"tool_choice", q.Choice.raw})
	}
	kvs = append(kvs, q.extra...)
	return jobj(r, kvs)
}

// ---------------------------------------------------------------- running the real code and reading its output

type errInfo struct {
	Class string `json:"class"` // parse | validation | content | toolChoice | other
	What  string `json:"what"`
	Msg   string `json:"msg"`
}

func classify(err error) errInfo {
	m := err.Error()
	e := errInfo{Class: "other", Msg: m}
	// the wrapping prefixes of TransformRequest; an unrecognised text stays "other" and the
	// driver then only compares error-ness (a reworded message must not raise an alarm)
	switch {
	case strings.Contains(m, "parse"):
		e.Class = "parse"
	case strings.HasPrefix(m, "invalid request"):
		e.Class = "validation"
		for _, w := range []string{"max_tokens", "temperature", "top_p", "top_k", "model", "message"} {
			if strings.Contains(m, w) {
				e.What = w
				if w == "message" {
					e.What = "messages"
				}
				break
			}
		}
	case strings.Contains(m, "convert messages"):
		e.Class = "content"
	case strings.Contains(m, "tool_choice"):
		e.Class = "toolChoice"
	}
	return e
}

func errorFormatOK(tr *anthropic.Translator, err error) bool {
	rec := httptest.NewRecorder()
	tr.WriteError(rec, err, http.StatusBadRequest)
	var m map[string]any
	if json.Unmarshal(rec.Body.Bytes(), &m) != nil {
		return false
	}
	e, _ := m["error"].(map[string]any)
	msg, _ := e["message"].(string)
	return rec.Code == 400 && m["type"] == "error" && e["type"] == "invalid_request_error" && msg == err.Error() && len(m) == 2 && len(e) == 2 &&
		strings.HasPrefix(rec.Header().Get("Content-Type"), "application/json")
}

func keysSubset(m map[string]any, ks ...string) bool {
	for k := range m {
		found := false
		for _, x := range ks {
			if x == k {
				found = true
			}
		}
		if !found {
			return false
		}
	}
	return true
}

// readOpenAI converts the JSON the backend would receive into the OReq AST.
func readOpenAI(body []byte) (map[string]any, string) {
	dec := json.NewDecoder(bytes.NewReader(body))
	dec.UseNumber()
	var m map[string]any
	if err := dec.Decode(&m); err != nil {
		return nil, "not an object"
	}
	shape := ""
	if !keysSubset(m, "model", "max_tokens", "stream", "temperature", "top_p", "stop", "messages", "tools", "tool_choice") {
		shape = "unexpected top-level key"
	}
	out := map[string]any{}
	model, ok1 := m["model"].(string)
	mt, ok2 := m["max_tokens"].(json.Number)
	st, ok3 := m["stream"].(bool)
	if !ok1 || !ok2 || !ok3 {
		return nil, "model/max_tokens/stream missing or mistyped"
	}
	mti, err := mt.Int64()
	if err != nil {
		return nil, "max_tokens not an integer"
	}
	out["model"], out["max_tokens"], out["stream"] = model, mti, st
	for _, k := range []string{"temperature", "top_p"} {
		if v, ok := m[k]; ok {
			n, ok := v.(json.Number)
			if !ok {
				return nil, k + " not a number"
			}
			f, _ := n.Float64()
			out[k] = fmtFloat(f)
		}
	}
	stop := []string{}
	if v, ok := m["stop"]; ok {
		arr, ok := v.([]any)
		if !ok {
			return nil, "stop not an array"
		}
		for _, s := range arr {
			str, ok := s.(string)
			if !ok {
				return nil, "stop element not a string"
			}
			stop = append(stop, str)
		}
		if len(arr) == 0 {
			shape = "empty stop array sent"
		}
	}
	out["stop"] = stop
	msgs := []map[string]any{}
	arr, ok := m["messages"].([]any)
	if !ok {
		return nil, "messages not an array"
	}
	for _, x := range arr {
		mm, ok := x.(map[string]any)
		if !ok {
			return nil, "message not an object"
		}
		role, ok := mm["role"].(string)
		if !ok {
			return nil, "role not a string"
		}
		switch {
		case role == "tool" && mm["tool_call_id"] != nil:
			id, ok1 := mm["tool_call_id"].(string)
			c, ok2 := mm["content"].(string)
			if !ok1 || !ok2 || len(mm) != 3 {
				return nil, "tool message fields"
			}
			rc := rcOfString(c)
			msgs = append(msgs, map[string]any{"t": "tool", "id": id, "rc": rc})
		case mm["tool_calls"] != nil:
			tcs, ok := mm["tool_calls"].([]any)
			if !ok || len(tcs) == 0 || !keysSubset(mm, "role", "content", "tool_calls") || role != "assistant" {
				return nil, "assistant message with tool_calls: fields"
			}
			cv, has := mm["content"]
			if !has {
				return nil, "assistant message with tool_calls lacks the content key"
			}
			var content any
			if cv != nil {
				s, ok := cv.(string)
				if !ok || s == "" {
					return nil, "assistant content must be a non-empty string or null"
				}
				content = s
			}
			calls := []map[string]any{}
			for _, t := range tcs {
				tm, _ := t.(map[string]any)
				fn, _ := tm["function"].(map[string]any)
				id, ok1 := tm["id"].(string)
				nm, ok2 := fn["name"].(string)
				as, ok3 := fn["arguments"].(string)
				if !ok1 || !ok2 || !ok3 || tm["type"] != "function" || len(tm) != 3 || len(fn) != 2 {
					return nil, "tool_call fields"
				}
				calls = append(calls, map[string]any{"id": id, "name": nm, "args": canonText(as)})
			}
			msgs = append(msgs, map[string]any{"t": "assistant", "content": content, "calls": calls})
		default:
			c, ok := mm["content"].(string)
			if !ok || len(mm) != 2 {
				return nil, "plain message fields"
			}
			msgs = append(msgs, map[string]any{"t": "plain", "role": role, "content": c})
		}
	}
	out["messages"] = msgs
	tools := []map[string]any{}
	if v, ok := m["tools"]; ok {
		arr, ok := v.([]any)
		if !ok || len(arr) == 0 {
			return nil, "tools not a non-empty array"
		}
		for _, t := range arr {
			tm, _ := t.(map[string]any)
			fn, _ := tm["function"].(map[string]any)
			nm, ok1 := fn["name"].(string)
			ds, ok2 := fn["description"].(string)
			_, ok3 := fn["parameters"]
			if !ok1 || !ok2 || !ok3 || tm["type"] != "function" || len(tm) != 2 || len(fn) != 3 {
				return nil, "tool definition fields"
			}
			tools = append(tools, map[string]any{"name": nm, "desc": ds, "params": canonValue(fn["parameters"])})
		}
	}
	out["tools"] = tools
	if v, ok := m["tool_choice"]; ok {
		switch x := v.(type) {
		case string:
			out["choice"] = map[string]any{"k": "str", "s": x}
		case map[string]any:
			fn, _ := x["function"].(map[string]any)
			nm, ok := fn["name"].(string)
			if !ok || x["type"] != "function" || len(x) != 2 || len(fn) != 1 {
				return nil, "tool_choice object fields"
			}
			out["choice"] = map[string]any{"k": "function", "s": nm}
		default:
			return nil, "tool_choice type"
		}
	}
	out["shape"] = shape
	return out, ""
}

type env struct {
	c  *vlib.Cases
	r  *vlib.Rng
	tr *anthropic.Translator
	// tri is the same translator with the request inspector switched on (translators.anthropic.inspector.enabled),
	// which must not change what goes upstream
	tri *anthropic.Translator
	n   int
	// forceInspector is set by a replay of a case that ran with the inspector on
	forceInspector *bool
	// slices: the production stack end to end (one per engine): endpoint A refuses connections, endpoint B records what
	// it is sent; every request is a failover, what B receives is "the request Olla sends upstream"
	slices []*slice
	// sized: translators by configured max_message_size; sizedSlices: production stacks configured with that limit
	sized       map[int64]*anthropic.Translator
	sizedSlices map[int64]*slice
}

type slice struct {
	s    *stack.Stack
	a, b *stack.Backend
}

func newSlice(engine string) *slice { return newSliceLimit(engine, 10<<20) }

// newSliceLimit: the same stack with translators.anthropic.max_message_size set to limit.
func newSliceLimit(engine string, limit int64) *slice {
	a, b := stack.NewBackend("A"), stack.NewBackend("B")
	b.KeepBodies = true
	b.SetScript(func(_ int, sn *stack.Seen) stack.Behaviour { return anth.OKAnswer("B", sn) })
	a.Refuse()
	s, err := stack.Start(stack.Opts{Vary: stack.VaryFor("c12.slice", engine), Engine: engine, Balancer: "priority", EPs: []stack.EP{{Name: "A", Type: "openai", Priority: 300, Backend: a}, {Name: "B", Type: "openai", Priority: 100, Backend: b}},
		Mutate: func(cfg *config.Config) {
			cfg.Translators.Anthropic.Enabled = true
			cfg.Translators.Anthropic.MaxMessageSize = limit
		}})
	if err != nil {
		a.Close()
		b.Close()
		return nil
	}
	return &slice{s: s, a: a, b: b}
}

func (sl *slice) close() {
	sl.s.Stop()
	sl.a.Close()
	sl.b.Close()
}

// callStack sends the request through the running stack and reads back what the working backend received.
func (e *env) callStack(sl *slice, model, body string) map[string]any {
	impl := map[string]any{"inspector": false, "stack": true}
	for _, be := range []*stack.Backend{sl.a, sl.b} {
		if err := anth.Register(sl.s, be, []string{model}); err != nil {
			impl["ok"], impl["err"] = false, "stack: register: "+err.Error()
			return impl
		}
	}
	sl.s.SetStatus("A", domain.StatusHealthy) // the previous request's refused attempt took A out of rotation
	sl.s.SetStatus("B", domain.StatusHealthy)
	deadline := time.Now().Add(2 * time.Second)
	for !anth.Routable(sl.s, []*stack.Backend{sl.a, sl.b}, model) && time.Now().Before(deadline) {
		time.Sleep(time.Millisecond)
	}
	sl.b.Taken()
	wait := 4 * time.Second
	if len(body) > 1<<16 {
		wait = 20 * time.Second
	}
	r := stack.Do(sl.s.Addr, stack.Request("POST", "/olla/anthropic/v1/messages", sl.s.Addr, [][2]string{{"Content-Type", "application/json"}, {"anthropic-version", "2023-06-01"}}, []byte(body), false), wait)
	seen := sl.b.Taken()
	impl["status"], impl["neterr"] = r.Status, r.Err
	if len(seen) != 1 {
		impl["ok"], impl["err"] = false, fmt.Sprintf("stack: client status %d err '%s', the working backend saw %d request(s)", r.Status, r.Err, len(seen))
		return impl
	}
	impl["ok"] = true
	o, bad := readOpenAI(seen[0].Body)
	if bad != "" {
		impl["shape"] = bad
		raw := seen[0].Body
		if len(raw) > 400 {
			raw = raw[:400]
		}
		impl["raw"] = string(raw)
		return impl
	}
	impl["out"] = o
	impl["shape"] = o["shape"]
	delete(o, "shape")
	impl["meta_ok"] = seen[0].Path == "/v1/chat/completions" && seen[0].Method == "POST"
	return impl
}

func (e *env) call(body string) (out map[string]any) {
	e.n++
	tr := e.tr
	insp := e.n%3 == 0
	if e.forceInspector != nil {
		insp = *e.forceInspector
	}
	if insp && e.tri != nil {
		tr = e.tri
	}
	return e.callTr(tr, insp, body)
}

// callTr runs TransformRequest of the given translator on the body and reads back what it produced.
func (e *env) callTr(tr *anthropic.Translator, insp bool, body string) (out map[string]any) {
	impl := map[string]any{}
	impl["inspector"] = insp
	func() {
		defer func() {
			if p := recover(); p != nil {
				impl["panic"] = fmt.Sprint(p)
			}
		}()
		req := httptest.NewRequest("POST", "/olla/anthropic/v1/messages", strings.NewReader(body))
		res, err := tr.TransformRequest(context.Background(), req)
		if err != nil {
			impl["ok"] = false
			impl["err"] = classify(err)
			impl["error_format_ok"] = errorFormatOK(tr, err)
			if res != nil {
				impl["produced_despite_error"] = true
			}
			return
		}
		impl["ok"] = true
		b, merr := json.Marshal(res.OpenAIRequest)
		if merr != nil {
			impl["shape"] = "OpenAI request does not marshal: " + merr.Error()
			return
		}
		o, bad := readOpenAI(b)
		if bad != "" {
			impl["shape"] = bad
			impl["raw"] = string(b)
			return
		}
		impl["out"] = o
		impl["shape"] = o["shape"]
		delete(o, "shape")
		impl["meta_ok"] = res.ModelName == o["model"] && res.IsStreaming == o["stream"] && res.TargetPath == "/v1/chat/completions"
	}()
	return impl
}

func (e *env) reqCase(class string, q *AReq) {
	body := q.render(e.r)
	impl := e.call(body)
	m := map[string]any{"kind": "req", "class": class, "req": q, "impl": impl}
	if len(body) <= 2500 {
		m["body"] = body
	}
	e.c.Emit(m)
	e.c.Count("req." + class)
	// every seventh accepted request also travels through the production stack, as a failover
	if ok, _ := impl["ok"].(bool); ok && len(e.slices) > 0 && e.n%7 == 0 && len(body) < 1<<18 && strings.TrimSpace(q.Model) != "" {
		sl := e.slices[(e.n/7)%len(e.slices)]
		m2 := map[string]any{"kind": "req", "class": class + ".stack", "req": q, "impl": e.callStack(sl, q.Model, body)}
		if len(body) <= 2500 {
			m2["body"] = body
		}
		e.c.Emit(m2)
		e.c.Count("req.stack")
	}
}

// sharedCase: one translator, many clients at once.  Every request is translated alone first (the reference), then
// some requests that fail (unparsable, oversize) go through, then all requests are translated at the same time, several
// rounds: what is sent upstream for a client depends on that client's request only.
func (e *env) sharedCase(k, rounds int) {
	tr := anthropic.NewTranslator(vlib.QuietLogger(), config.AnthropicTranslatorConfig{Enabled: true, MaxMessageSize: 1 << 20})
	one := func(body string) string {
		out := "panic"
		func() {
			defer func() { _ = recover() }()
			req := httptest.NewRequest("POST", "/olla/anthropic/v1/messages", strings.NewReader(body))
			res, err := tr.TransformRequest(context.Background(), req)
			if err != nil {
				out = fmt.Sprint("error: ", classify(err))
				return
			}
			time.Sleep(30 * time.Microsecond) // the handler does other things between the translation and the serialisation of its result
			b, _ := json.Marshal(res.OpenAIRequest)
			out = string(b) + "|" + res.ModelName + "|" + res.TargetPath
		}()
		return out
	}
	bodies := make([]string, k)
	ref := make([]string, k)
	for i := range bodies {
		q := genReq(e.r)
		q.Model = fmt.Sprintf("client-%02d-model", i)
		q.Stop = []string{fmt.Sprintf("</c%02d>", i), fmt.Sprintf("stop-%02d", i), "Human:"}[:1+i%3]
		bodies[i] = q.render(e.r)
		ref[i] = one(bodies[i])
	}
	for _, bad := range []string{`{"model":"m","messages":[`, `{"model":5}`, strings.Repeat("x", 2<<20), `{"model":"m","max_tokens":1,"messages":[{"role":"user","content":[{"type":"tool_result"}]}]}`} {
		one(bad)
	}
	mism, first := 0, ""
	var mu sync.Mutex
	for rd := 0; rd < rounds; rd++ {
		var wg sync.WaitGroup
		var start int32
		for i := range bodies {
			wg.Add(1)
			go func(i int) {
				defer wg.Done()
				for atomic.LoadInt32(&start) == 0 {
					runtime.Gosched()
				}
				if got := one(bodies[i]); got != ref[i] {
					mu.Lock()
					mism++
					if first == "" {
						first = fmt.Sprintf("round %d client %d: alone its request became %.400s; among %d concurrent clients %.400s", rd, i, ref[i], k, got)
					}
					mu.Unlock()
				}
			}(i)
		}
		atomic.StoreInt32(&start, 1)
		wg.Wait()
	}
	e.c.Emit(map[string]any{"kind": "shared", "clients": k, "rounds": rounds, "impl": map[string]any{"mismatches": mism, "first": first}})
	e.c.Count("shared-translator")
}

func (e *env) malformed(why, body string, expectError bool) {
	m := map[string]any{"kind": "malformed", "why": why, "expect_error": expectError, "impl": e.call(body)}
	if len(body) <= 600 {
		m["body"] = strings.ToValidUTF8(body, "\uFFFD")
	}
	e.c.Emit(m)
	e.c.Count("malformed." + why)
}

func baseReq() *AReq {
	return &AReq{Model: "m", MaxTokens: 5, streamAbsent: true, Stop: []string{}, System: Sys{K: "absent", Blocks: []SysBlock{}},
		Messages: []Msg{}, Tools: []Tool{}, Choice: Choice{K: "absent"}}
}

func textB(s string) Block {
	return Block{T: "text", S: s, raw: jobj(nil, []kv{{"type", `"text"`}, {"text", jstr(s)}})}
}
func useB(id, name, input string) Block {
	tok := canonText(input)
	return Block{T: "tool_use", ID: id, Name: name, Input: &tok, raw: jobj(nil, []kv{{"type", `"tool_use"`}, {"id", jstr(id)}, {"name", jstr(name)}, {"input", input}})}
}
func resB(id, content string) Block {
	rc := rcOfString(content)
	return Block{T: "tool_result", ID: id, RC: &rc, raw: jobj(nil, []kv{{"type", `"tool_result"`}, {"tool_use_id", jstr(id)}, {"content", jstr(content)}})}
}
func msgB(role string, bs ...Block) Msg {
	return Msg{Role: role, Content: blocksContent(vlib.NewRng(1), bs)}
}
func msgS(role, s string) Msg {
	return Msg{Role: role, Content: Content{K: "str", S: s, Blocks: []Block{}, raw: jstr(s)}}
}

func main() {
	tier := vlib.Tier()
	e := &env{c: vlib.OpenCases("cases.jsonl"), r: vlib.NewRng(vlib.Seed()).Fork(),
		tr: anthropic.NewTranslator(vlib.QuietLogger(), config.AnthropicTranslatorConfig{Enabled: true, MaxMessageSize: 10 << 20})}
	if dir, err := os.MkdirTemp(vlib.OutDir(), "inspector"); err == nil {
		defer os.RemoveAll(dir)
		e.tri = anthropic.NewTranslator(vlib.QuietLogger(), config.AnthropicTranslatorConfig{Enabled: true, MaxMessageSize: 10 << 20,
			Inspector: config.InspectorConfig{Enabled: true, OutputDir: dir, SessionHeader: "X-Session-ID"}})
	}
	r := e.r
	for _, engine := range []string{"sherpa", "olla"} {
		if sl := newSlice(engine); sl != nil {
			e.slices = append(e.slices, sl)
			defer sl.close()
		}
	}

	if p := vlib.ReplayPath(); p != "" {
		b, err := os.ReadFile(p)
		if err != nil {
			fmt.Fprintln(os.Stderr, "replay:", err)
			os.Exit(3)
		}
		var doc map[string]any
		_ = json.Unmarshal(b, &doc)
		fc, _ := doc["failing_case"].(map[string]any)
		if fc == nil {
			fc = doc
		}
		body, _ := fc["body"].(string)
		if im, _ := fc["impl"].(map[string]any); im != nil {
			if v, ok := im["inspector"].(bool); ok {
				e.forceInspector = &v
			}
		}
		var impl map[string]any
		if sz, _ := fc["sized"].(map[string]any); sz != nil { // a sized request: the translator with that max_message_size
			lim, _ := sz["limit"].(float64)
			impl = e.callTr(e.sizedTr(int64(lim)), false, body)
		} else {
			impl = e.call(body)
		}
		m := map[string]any{"kind": fc["kind"], "class": "replay", "req": fc["req"], "why": fc["why"], "expect_error": fc["expect_error"], "body": body, "impl": impl, "sized": fc["sized"]}
		e.c.Emit(m)
		e.c.Close(map[string]any{"replay": p})
		return
	}

	// ---- corpus: witnesses and corner cases
	w := baseReq()
	w.Messages = []Msg{msgS("user", "q"), msgB("assistant", useB("t1", "f", `{"a":1}`)), msgB("user", resB("t1", "42"), textB("thanks"))}
	e.reqCase("witness.result-then-text", w)
	w2 := baseReq()
	w2.Messages = []Msg{msgS("user", "q"), msgB("assistant", useB("t1", "f", `{"a":1}`), useB("t2", "g", `{}`)), msgB("user", resB("t1", "42"), resB("t2", "43"), textB("now"), textB(" what?"))}
	e.reqCase("witness.two-results-then-text", w2)
	w3 := baseReq()
	w3.Messages = []Msg{msgS("user", "q"), msgB("assistant", useB("t1", "f", `{}`), textB("done"))}
	e.reqCase("witness.assistant-text-after-tool-use", w3)
	w4 := baseReq()
	w4.Messages = []Msg{msgS("user", "x")}
	w4.Tools = []Tool{{Name: "f", Desc: "d", Schema: `{"type":"object"}`, raw: `{"name":"f","description":"d","input_schema":{"type":"object"}}`}}
	w4.Choice = Choice{K: "obj", S: "none", raw: `{"type":"none"}`}
	e.reqCase("witness.tool-choice-none-object", w4)
	for _, c := range []Choice{{K: "str", S: "auto", raw: `"auto"`}, {K: "str", S: "any", raw: `"any"`}, {K: "str", S: "none", raw: `"none"`}, {K: "str", S: "tool", raw: `"tool"`},
		{K: "obj", S: "auto", raw: `{"type":"auto"}`}, {K: "obj", S: "any", raw: `{"type":"any"}`}, {K: "obj", S: "tool", raw: `{"type":"tool"}`},
		{K: "obj", S: "tool", Name: sp("f"), raw: `{"type":"tool","name":"f"}`}, {K: "obj", S: "none", Name: sp("f"), raw: `{"type":"none","name":"f"}`},
		{K: "other", raw: "5"}, {K: "absent", raw: "null"}, {K: "absent"}} {
		q := baseReq()
		q.Messages = []Msg{msgS("user", "x")}
		q.Tools = w4.Tools
		q.Choice = c
		e.reqCase("corner.tool-choice-forms", q)
		q2 := baseReq()
		q2.Messages = []Msg{msgS("user", "x")}
		q2.Choice = c
		e.reqCase("corner.tool-choice-without-tools", q2)
	}
	e.reqCase("corner.no-messages", baseReq())

	// ---- grammar-directed requests
	n := 3000
	if tier == "thorough" {
		n = 60000
	}
	for i := 0; i < n; i++ {
		e.reqCase("grammar", genReq(r))
	}

	// ---- requests of a chosen size relative to max_message_size; numeric dimensions at their edges
	e.sizedSlices = map[int64]*slice{}
	for i, lim := range []int64{8192, 65536} {
		if sl := newSliceLimit([]string{"sherpa", "olla"}[(i+int(vlib.Seed()%2))%2], lim); sl != nil {
			e.sizedSlices[lim] = sl
			defer sl.close()
		}
	}
	ns, nb := 240, 200
	if tier == "thorough" {
		ns, nb = 960, 3000
	}
	e.sizedCases(tier, ns)
	e.boundaryCases(tier, nb)

	// ---- malformed stream
	good := func() string {
		q := genReq(r)
		q.Model, q.noModel, q.MaxTokens, q.noMaxTokens = "m", false, 5, false
		q.Temperature, q.TopP, q.TopK = nil, nil, nil
		if len(q.Messages) == 0 {
			q.Messages = []Msg{msgS("user", "x")}
		}
		for i := range q.Messages {
			if q.Messages[i].Content.K == "bad" {
				q.Messages[i] = msgS("user", "x")
			}
		}
		q.Choice = Choice{K: "absent"}
		return q.render(r)
	}
	nm := 1
	if tier == "thorough" {
		nm = 40
	}
	for rep := 0; rep < nm; rep++ {
		for _, c := range [][2]string{
			{"empty-body", ""}, {"not-json", "hello"}, {"html", "<html>"}, {"array", "[]"}, {"string", `"x"`}, {"number", "5"}, {"true", "true"},
			{"null", "null"}, {"empty-object", "{}"}, {"binary", "\x00\xff\xfe"},
			{"model-number", `{"model":5,"max_tokens":5,"messages":[{"role":"user","content":"x"}]}`},
			{"model-null", `{"model":null,"max_tokens":5,"messages":[{"role":"user","content":"x"}]}`},
			{"max-tokens-string", `{"model":"m","max_tokens":"5","messages":[{"role":"user","content":"x"}]}`},
			{"max-tokens-float", `{"model":"m","max_tokens":5.5,"messages":[{"role":"user","content":"x"}]}`},
			{"max-tokens-exp", `{"model":"m","max_tokens":1e2,"messages":[{"role":"user","content":"x"}]}`},
			{"max-tokens-huge", `{"model":"m","max_tokens":99999999999999999999,"messages":[{"role":"user","content":"x"}]}`},
			{"messages-object", `{"model":"m","max_tokens":5,"messages":{}}`},
			{"messages-string", `{"model":"m","max_tokens":5,"messages":"hi"}`},
			{"message-not-object", `{"model":"m","max_tokens":5,"messages":[5]}`},
			{"role-number", `{"model":"m","max_tokens":5,"messages":[{"role":5,"content":"x"}]}`},
			{"stream-string", `{"model":"m","max_tokens":5,"stream":"yes","messages":[{"role":"user","content":"x"}]}`},
			{"temperature-string", `{"model":"m","max_tokens":5,"temperature":"hot","messages":[{"role":"user","content":"x"}]}`},
			{"top-k-float", `{"model":"m","max_tokens":5,"top_k":1.5,"messages":[{"role":"user","content":"x"}]}`},
			{"stop-string", `{"model":"m","max_tokens":5,"stop_sequences":"x","messages":[{"role":"user","content":"x"}]}`},
			{"stop-number-element", `{"model":"m","max_tokens":5,"stop_sequences":[5],"messages":[{"role":"user","content":"x"}]}`},
			{"tools-object", `{"model":"m","max_tokens":5,"tools":{},"messages":[{"role":"user","content":"x"}]}`},
			{"tool-name-number", `{"model":"m","max_tokens":5,"tools":[{"name":5,"input_schema":{}}],"messages":[{"role":"user","content":"x"}]}`},
			{"tool-schema-string", `{"model":"m","max_tokens":5,"tools":[{"name":"f","input_schema":"x"}],"messages":[{"role":"user","content":"x"}]}`},
			{"metadata-string", `{"model":"m","max_tokens":5,"metadata":"x","messages":[{"role":"user","content":"x"}]}`},
			{"unknown-top-level-field", `{"model":"m","max_tokens":5,"bogus":1,"messages":[{"role":"user","content":"x"}]}`},
			{"unknown-message-field", `{"model":"m","max_tokens":5,"messages":[{"role":"user","content":"x","name":"bob"}]}`},
			{"unknown-tool-field", `{"model":"m","max_tokens":5,"tools":[{"name":"f","input_schema":{},"strict":true}],"messages":[{"role":"user","content":"x"}]}`},
		} {
			e.malformed(c[0], c[1], true)
		}
		// structural damage to an otherwise good request
		g := good()
		e.malformed("truncated", g[:len(g)*(1+r.Intn(8))/10], true)
		e.malformed("truncated-by-one", g[:len(g)-1], true)
		e.malformed("single-quotes", strings.ReplaceAll(g, `"`, `'`), true)
		e.malformed("unknown-field-injected", `{"zz_unknown":`+genJSONText(r, 2, false)+","+g[1:], true)
		e.malformed("case-mangled-key", strings.Replace(g, `"messages"`, `"Messages_"`, 1), true)
		// lenient on purpose? observed only: the decoder stops after the first JSON value
		e.malformed("trailing-garbage", g+" trailing", false)
		e.malformed("two-documents", g+g, false)
	}

	e.sharedCase(24, map[bool]int{false: 250, true: 2500}[tier == "thorough"])
	e.c.Close(map[string]any{"exhaustive": false,
		"exhaustive_note": "the request grammar is infinite; every tool_choice form (string / object / object+name / other / null / absent x keyword) is enumerated with and without tools, every malformed kind is run at least once, everything else is sampled"})
}

func sp(s string) *string { return &s }
