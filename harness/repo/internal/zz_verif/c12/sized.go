//go:build verif

// sized.go: boundary-biased requests for C12.
//
// (1) sized requests: a grammar-generated request is padded, in one to three of its string-carrying places (system
// prompt, a text block, a string message, a tool_use input, a tool_result content, a tool description, a schema
// description), so that the body the client sends has EXACTLY a chosen number of bytes relative to the translator's
// configured max_message_size (limit-4 .. limit, limit/2, 2/5, 3/4, a random share), for limits at and next to the
// powers of two and the decimal round numbers (4 KiB .. 1 MiB quick, up to the 10 MiB default and 16 MiB thorough).  The
// padding is text whose JSON encoding has another length when it is encoded again: markup (<, >, & become six bytes in
// Go's encoder), U+2028/U+2029, \b \f, escapes the client spelled out (A, é, surrogate pairs, \/ — these
// shrink), 2/3/4-byte characters at every offset in front of the boundary, insignificant white space.  Such a request is
// a valid Anthropic request inside the limit: the statement's first sentence applies to it and it is judged by the same
// predicates as every other request (kind "req").  Bodies LONGER than the limit are only observed (the statement says
// nothing about them): they are emitted as kind "malformed" with expect_error=false, where only a panic counts.
//
// (2) boundary requests: one or two numeric dimensions of a grammar-generated request are moved to the edges: max_tokens
// (1, 2, 2^31-1, 2^31, 2^53+1, 2^63-1, 0, -1), counts (64 / 100 / 128 / 129 / 257 turns, 50 / 64 / 128 tools, 64 / 256
// stop sequences, 64 / 200 blocks in one turn, 50 parallel tool calls with their results), sampling numbers at and next
// to their limits written in other forms (2.000000, 2.000001, 1e0, 0.0, -0.0), nesting depth 16 / 64 of tool arguments.
package main

import (
	"fmt"
	"strconv"
	"strings"

	"github.com/thushan/olla/internal/adapter/translator/anthropic"
	"github.com/thushan/olla/internal/config"
	"github.com/thushan/olla/internal/zz_verif/vlib"
)

type padUnit struct{ raw, dec string }

func same(xs ...string) []padUnit {
	out := make([]padUnit, len(xs))
	for i, x := range xs {
		out[i] = padUnit{x, x}
	}
	return out
}

// fillers: what the padding is made of.  raw is what the client writes inside the JSON string, dec what it means.
// ue spells code units as JSON escapes (backslash, u, four hex digits).
func ue(cs ...int) string {
	var b strings.Builder
	for _, c := range cs {
		b.WriteString(bsl + "u" + fmt.Sprintf("%04x", c))
	}
	return b.String()
}

const bsl = "\\"

var fillers = map[string][]padUnit{
	"ascii":  same("a", "b", "lorem ", "ipsum ", "0123456789", "."),
	"markup": same("<p>", "</p>", "<br/>", "<div class='a'>", "</div>", "&amp;", "&", "<", ">", "a && b", "x < y", "->", "=>", "<>", "<!-- c -->", "<a href='?a=1&b=2'>", "if (a<b && c>d) {", "text "),
	// line and paragraph separators, sent as they are (three bytes each; Go's encoder spells them as six)
	"lsep": same(string(rune(0x2028)), string(rune(0x2029)), "line", " "),
	// short escapes (Go's encoder spells backspace and form feed differently from the client), control characters
	"bsff": {{bsl + "b", "\b"}, {bsl + "f", "\f"}, {bsl + "n", "\n"}, {bsl + "t", "\t"}, {bsl + "r", "\r"}, {ue(1), string(rune(1))}, {ue(0x1b), string(rune(0x1b))}, {"x", "x"}},
	// characters the client spelled as escapes although it need not: these shrink when encoded again
	"escaped": {{ue(0x41), "A"}, {ue(0x3c), "<"}, {ue(0x3e), ">"}, {ue(0x26), "&"}, {bsl + "/", "/"}, {ue(0xe9), string(rune(0xe9))}, {ue(0x65e5), string(rune(0x65e5))},
		{ue(0x2028), string(rune(0x2028))}, {ue(0x22), "\""}, {ue(0x5c), bsl}, {ue(0x7f), string(rune(0x7f))}, {ue(0xE9), string(rune(0xe9))}},
	// characters outside the BMP spelled as surrogate pairs (twelve bytes for four)
	"surrogates": {{ue(0xd83d, 0xde00), string(rune(0x1f600))}, {ue(0xd834, 0xdd1e), string(rune(0x1d11e))}, {ue(0xdbff, 0xdffd), string(rune(0x10fffd))}, {ue(0xd83c, 0xdff4), string(rune(0x1f3f4))}},
	"emoji4":     same(string(rune(0x1f600)), string(rune(0x1d11e)), string(rune(0x10fffd)), string(rune(0xe0067)), string(rune(0x1f680))),
	"cjk":        same(string(rune(0x65e5)), string(rune(0x672c)), string(rune(0x8a9e)), string(rune(0x306e)), string(rune(0xffff)), string(rune(0x20ac))),
	"latin2":     same(string(rune(0xe9)), string(rune(0xdf)), string(rune(0xf1)), string(rune(0x85)), string(rune(0x5e9)), string(rune(0x645))),
	// quotes and backslashes, and text that spells an escape out (backslash backslash u 0 0 3 c means the six characters)
	"quotes": {{bsl + "\"", "\""}, {bsl + bsl, bsl}, {"'", "'"}, {bsl + bsl + "u003c", bsl + "u003c"}, {bsl + bsl + "n", bsl + "n"}},
}

var fillerNames = []string{"ascii", "markup", "markup", "markup", "lsep", "bsff", "escaped", "surrogates", "emoji4", "cjk", "latin2", "quotes", "mixed", "mixed"}

// genFill renders padding whose RAW form has exactly n bytes.  A run of 0..3 ASCII bytes goes first so that multi-byte
// characters and escapes sit at every offset relative to the end; what does not fit a unit any more is ASCII.
func genFill(r *vlib.Rng, kind string, n int) (raw, dec string) {
	var rb, db strings.Builder
	rb.Grow(n)
	db.Grow(n)
	lead := r.Intn(4)
	for i := 0; i < lead && rb.Len() < n; i++ {
		rb.WriteByte('a')
		db.WriteByte('a')
	}
	units := fillers[kind]
	for rb.Len() < n {
		if kind == "mixed" && (units == nil || r.Chance(1, 40)) {
			units = fillers[vlib.Pick(r, fillerNames[:len(fillerNames)-2])]
		}
		u := units[r.Intn(len(units))]
		if rb.Len()+len(u.raw) > n {
			// the remainder: try the smallest unit, else ASCII
			rb.WriteByte('z')
			db.WriteByte('z')
			continue
		}
		rb.WriteString(u.raw)
		db.WriteString(u.dec)
	}
	return rb.String(), db.String()
}

// jstrInner: how the harness's canonical JSON text spells a string, without the quotes.
func jstrInner(s string) string {
	q := jstr(s)
	return q[1 : len(q)-1]
}

// substAll replaces the placeholder in every string of the AST: plain strings get the meaning, canonical JSON tokens
// (tool inputs, structured results, schemas) get the canonical spelling of the meaning.
func (q *AReq) substAll(ph, dec string) {
	inner := jstrInner(dec)
	rp := func(s string) string { return strings.Replace(s, ph, dec, -1) }
	rt := func(s string) string { return strings.Replace(s, ph, inner, -1) }
	q.System.S = rp(q.System.S)
	for i := range q.System.Blocks {
		q.System.Blocks[i].S = rp(q.System.Blocks[i].S)
	}
	for i := range q.Stop {
		q.Stop[i] = rp(q.Stop[i])
	}
	for i := range q.Messages {
		c := &q.Messages[i].Content
		c.S = rp(c.S)
		for j := range c.Blocks {
			b := &c.Blocks[j]
			b.S = rp(b.S)
			if b.Input != nil {
				t := rt(*b.Input)
				b.Input = &t
			}
			if b.RC != nil {
				if b.RC.K == "json" {
					b.RC.S = rt(b.RC.S)
				} else if strings.Contains(b.RC.S, ph) {
					rc := rcOfString(rp(b.RC.S)) // an empty padding makes it the empty result
					b.RC = &rc
				}
			}
		}
	}
	for i := range q.Tools {
		q.Tools[i].Desc = rp(q.Tools[i].Desc)
		q.Tools[i].Schema = rt(q.Tools[i].Schema)
	}
}

// validBase: a grammar-generated request with the fields that make a request invalid put right (5 in 6), so that the
// first sentence of the statement applies; 1 in 6 stays as drawn (an invalid request of that size must be refused).
func validBase(r *vlib.Rng, small bool) *AReq {
	q := genReq(r)
	if small {
		q = baseReq()
		q.Messages = []Msg{msgS("user", "q")}
		return q
	}
	if r.Chance(1, 6) {
		return q
	}
	if strings.TrimSpace(q.Model) == "" {
		q.Model = "m"
	}
	q.noModel = false
	if q.MaxTokens < 1 {
		q.MaxTokens = 1 + int64(r.Intn(8192))
	}
	q.noMaxTokens = false
	if q.Temperature != nil && (q.Temperature.Micros < 0 || q.Temperature.Micros > 2000000) {
		q.Temperature = nil
	}
	if q.TopP != nil && (q.TopP.Micros < 0 || q.TopP.Micros > 1000000) {
		q.TopP = nil
	}
	if q.TopK != nil && *q.TopK < 0 {
		q.TopK = nil
	}
	if len(q.Messages) == 0 {
		q.Messages = []Msg{msgS("user", "x")}
	}
	for i := range q.Messages {
		if q.Messages[i].Content.K == "bad" {
			q.Messages[i] = msgS("user", "x")
		}
	}
	return q
}

func rebuildBlocks(c *Content) {
	raws := make([]string, len(c.Blocks))
	for i, b := range c.Blocks {
		raws[i] = b.raw
	}
	c.K, c.raw = "blocks", jarr(raws)
}

// addSlot puts the placeholder ph into one more string-carrying place of the request; it returns the name of the place.
func addSlot(r *vlib.Rng, q *AReq, ph string, n int) string {
	switch k := r.Intn(9); k {
	case 0: // system prompt
		switch q.System.K {
		case "str":
			q.System.S += ph
			q.System.raw = jstr(q.System.S)
		case "blocks":
			b := SysBlock{T: "text", S: ph, raw: jobj(r, []kv{{"type", `"text"`}, {"text", jstr(ph)}})}
			at := r.Intn(len(q.System.Blocks) + 1)
			q.System.Blocks = append(q.System.Blocks[:at], append([]SysBlock{b}, q.System.Blocks[at:]...)...)
			raws := make([]string, len(q.System.Blocks))
			for i, x := range q.System.Blocks {
				raws[i] = x.raw
			}
			q.System.raw = jarr(raws)
		default:
			q.System = Sys{K: "str", S: ph, Blocks: []SysBlock{}, raw: jstr(ph)}
		}
		return "system"
	case 1, 2: // a text block inside an existing turn, or a string turn
		var cand []int
		for i, m := range q.Messages {
			if m.Content.K == "blocks" || m.Content.K == "str" {
				cand = append(cand, i)
			}
		}
		if len(cand) == 0 {
			q.Messages = append(q.Messages, msgS("user", ph))
			return "turn-string"
		}
		c := &q.Messages[cand[r.Intn(len(cand))]].Content
		if c.K == "str" {
			c.S = ph + c.S
			c.raw = jstr(c.S)
			return "turn-string"
		}
		at := r.Intn(len(c.Blocks) + 1)
		if r.Bool() { // in front: text first keeps the order the target format can carry
			at = 0
		}
		c.Blocks = append(c.Blocks[:at:at], append([]Block{textB(ph)}, c.Blocks[at:]...)...)
		rebuildBlocks(c)
		return "text-block"
	case 3: // a new last turn
		q.Messages = append(q.Messages, msgS("user", ph))
		return "turn-string"
	case 4, 5: // a tool call carrying the text (write_file / edit), and its result
		id := "toolu_pad" + strconv.Itoa(n)
		in := jobj(r, []kv{{"path", `"index.html"`}, {"content", jstr(ph)}})
		q.Messages = append(q.Messages, msgB("assistant", textB("writing"), useB(id, "write_file", in)), msgB("user", resB(id, "ok")))
		return "tool-input"
	case 6: // a tool result carrying the text (read_file / fetch), string or structured
		id := "toolu_pad" + strconv.Itoa(n)
		res := resB(id, ph)
		if r.Bool() {
			txt := jarr([]string{jobj(r, []kv{{"type", `"text"`}, {"text", jstr(ph)}})})
			rc := RC{K: "json", S: canonText(txt)}
			res = Block{T: "tool_result", ID: id, RC: &rc, raw: jobj(r, []kv{{"type", `"tool_result"`}, {"tool_use_id", jstr(id)}, {"content", txt}})}
		}
		q.Messages = append(q.Messages, msgB("assistant", useB(id, "read_file", `{"path":"index.html"}`)), msgB("user", res))
		return "tool-result"
	case 7: // a tool description
		t := Tool{Name: "pad_" + strconv.Itoa(n), Desc: ph, Schema: `{"type":"object"}`}
		t.raw = jobj(r, []kv{{"name", jstr(t.Name)}, {"description", jstr(ph)}, {"input_schema", `{"type":"object"}`}})
		q.Tools = append(q.Tools, t)
		return "tool-description"
	default: // a schema
		txt := jobj(r, []kv{{"type", `"object"`}, {"properties", jobj(r, []kv{{"html", jobj(r, []kv{{"type", `"string"`}, {"description", jstr(ph)}})}})}})
		t := Tool{Name: "pad_" + strconv.Itoa(n), Desc: "d", Schema: canonText(txt)}
		t.raw = jobj(r, []kv{{"name", jstr(t.Name)}, {"description", `"d"`}, {"input_schema", txt}})
		q.Tools = append(q.Tools, t)
		return "tool-schema"
	}
}

// sizedLimits: max_message_size values (0 = not configured = the 10 MiB default).
func sizedLimits(tier string) []int64 {
	ls := []int64{4096, 4095, 4097, 8192, 8191, 8193, 10000, 16384, 32768, 50000, 65536, 65535, 65537, 100000, 131072, 131073, 262144, 262143}
	if tier == "thorough" {
		ls = append(ls, 524288, 1000000, 1<<20, 1<<20-1, 1<<20+1, 2<<20, 4<<20, 8<<20, 10<<20, 0, 0, 16<<20, 16<<20+1)
	}
	return ls
}

func (e *env) sizedTr(limit int64) *anthropic.Translator {
	if e.sized == nil {
		e.sized = map[int64]*anthropic.Translator{}
	}
	if tr, ok := e.sized[limit]; ok {
		return tr
	}
	tr := anthropic.NewTranslator(vlib.QuietLogger(), config.AnthropicTranslatorConfig{Enabled: true, MaxMessageSize: limit})
	e.sized[limit] = tr
	return tr
}

// buildSized returns the request, its body of exactly `target` bytes, and where the padding went; ok=false if the drawn
// request does not fit.
func buildSized(r *vlib.Rng, target int, kind string, small bool) (q *AReq, body string, where string, ok bool) {
	q = validBase(r, small)
	nslots := 1 + r.Intn(3)
	phs := make([]string, nslots)
	var places []string
	for i := range phs {
		phs[i] = fmt.Sprintf("@@PAD%d@@", i)
		places = append(places, addSlot(r, q, phs[i], i))
	}
	body = q.render(r)
	free := target - len(body)
	for _, ph := range phs {
		if strings.Count(body, ph) != 1 {
			return nil, "", "", false
		}
		free += len(ph)
	}
	if free < 0 {
		return nil, "", "", false
	}
	// split: the first slot takes most of it
	shares := make([]int, nslots)
	rest := free
	for i := nslots - 1; i > 0; i-- {
		shares[i] = 0
		if rest > 0 {
			shares[i] = r.Intn(rest/4 + 1)
		}
		rest -= shares[i]
	}
	shares[0] = rest
	for i, ph := range phs {
		raw, dec := genFill(r, kind, shares[i])
		body = strings.Replace(body, ph, raw, 1)
		q.substAll(ph, dec)
	}
	if len(body) != target {
		return nil, "", "", false
	}
	return q, body, strings.Join(places, "+"), true
}

// sizedCases: n sized requests through TransformRequest of a translator with the drawn limit; every `stackEvery`-th
// accepted one inside the limit also travels through the production stack configured with that limit.
func (e *env) sizedCases(tier string, n int) {
	r := e.r
	limits := sizedLimits(tier)
	for i := 0; i < n; i++ {
		limit := limits[r.Intn(18)]
		if i%3 != 0 {
			limit = limits[r.Intn(9)] // most cases are small
		}
		if len(limits) > 18 && i%12 == 5 { // thorough: the large limits, the default, the safety cap's neighbourhood
			limit = limits[18+r.Intn(len(limits)-18)]
		}
		eff := limit
		if eff == 0 {
			eff = 10 << 20
		}
		L := int(eff)
		var target int
		over := false
		switch k := r.Intn(20); {
		case k < 3:
			target = L
		case k < 6:
			target = L - 1 - r.Intn(4)
		case k == 6:
			target = L / 2
		case k == 7:
			target = L/2 + 1
		case k == 8:
			target = L * 2 / 5
		case k == 9:
			target = L * 3 / 4
		case k == 10:
			target = L / 6
		case k == 11:
			target = L/6 + 1 + r.Intn(3)
		case k < 17:
			target = L/8 + r.Intn(L-L/8+1)
		case k == 17:
			target, over = L+1, true
		case k == 18:
			target, over = L+2+r.Intn(6), true
		default:
			target, over = L+L/3, true
		}
		kind := vlib.Pick(r, fillerNames)
		var q *AReq
		var body, where string
		ok := false
		for try := 0; try < 6 && !ok; try++ {
			q, body, where, ok = buildSized(r, target, kind, try >= 4)
		}
		if !ok {
			e.c.Count("sized.did-not-fit")
			continue
		}
		tr := e.sizedTr(limit)
		if over {
			m := map[string]any{"kind": "malformed", "why": "longer-than-max-message-size", "expect_error": false, "impl": e.callTr(tr, false, body),
				"sized": map[string]any{"limit": limit, "raw_len": len(body), "filler": kind, "where": where}}
			e.c.Emit(m)
			e.c.Count("sized.over")
			continue
		}
		sz := map[string]any{"limit": limit, "raw_len": len(body), "filler": kind, "where": where, "at": relName(len(body), L)}
		impl := e.callTr(tr, false, body)
		m := map[string]any{"kind": "req", "class": "sized." + kind, "req": q, "impl": impl, "sized": sz}
		if len(body) <= 70000 {
			m["body"] = body
		}
		e.c.Emit(m)
		e.c.Count("sized." + kind)
		// the same through the production stack whose translator has this limit
		if sl := e.sizedSlices[limit]; sl != nil && strings.TrimSpace(q.Model) != "" {
			{
				si := e.callStack(sl, q.Model, body)
				st, _ := si["status"].(int)
				got, _ := si["ok"].(bool)
				m2 := map[string]any{"kind": "req", "class": "sized." + kind + ".stack", "req": q, "impl": si, "sized": sz}
				if len(body) <= 70000 {
					m2["body"] = body
				}
				switch {
				case got: // the working backend received exactly one request: judged
				case st == 400 || st == 413: // refused by olla: judged as a rejection
					si["err"] = map[string]any{"class": "other", "msg": fmt.Sprintf("the stack answered %d and sent nothing upstream", st)}
					si["error_format_ok"] = true // the body format is judged on WriteError directly
				default: // timeouts, 5xx of a loaded machine: not judged
					m2 = map[string]any{"kind": "malformed", "why": "stack-did-not-settle", "expect_error": false, "impl": map[string]any{"ok": false}, "sized": sz}
				}
				e.c.Emit(m2)
				e.c.Count("sized.stack")
			}
		}
	}
}

func relName(n, L int) string {
	switch {
	case n == L:
		return "at-limit"
	case n >= L-4:
		return "just-below-limit"
	case n*2 >= L:
		return "upper-half"
	}
	return "lower-half"
}

// ---------------------------------------------------------------- (2) numeric dimensions at their edges

func numLit(lit string, micros int64) *Num {
	f, _ := strconv.ParseFloat(lit, 64)
	return &Num{Tok: fmtFloat(f), Micros: micros, lit: lit}
}

func deepJSON(depth int, leaf string) string {
	var b strings.Builder
	for i := 0; i < depth; i++ {
		if i%2 == 0 {
			b.WriteString(`{"k":`)
		} else {
			b.WriteString(`[`)
		}
	}
	b.WriteString(leaf)
	for i := depth - 1; i >= 0; i-- {
		if i%2 == 0 {
			b.WriteString(`}`)
		} else {
			b.WriteString(`]`)
		}
	}
	return b.String()
}

func (e *env) boundaryCases(tier string, n int) {
	r := e.r
	big := []int{50, 63, 64, 65, 100, 127, 128, 129, 200, 256, 257}
	if tier == "thorough" {
		big = append(big, 1000, 1024, 1025, 4096)
	}
	for i := 0; i < n; i++ {
		q := validBase(r, r.Chance(1, 4))
		dims := 1 + r.Intn(2)
		name := ""
		for d := 0; d < dims; d++ {
			switch k := r.Intn(9); k {
			case 0:
				q.MaxTokens = vlib.Pick(r, []int64{1, 2, 0, -1, 4096, 8191, 8192, 8193, 65535, 65536, 1<<31 - 1, 1 << 31, 1<<32 - 1, 1 << 32, 1<<53 - 1, 1 << 53, 1<<53 + 1, 1<<63 - 1, -(1 << 31), -(1 << 63)})
				q.noMaxTokens = false
				name += ".max-tokens"
			case 1:
				q.Temperature = vlib.Pick(r, []*Num{numLit("2.000000", 2000000), numLit("2.000001", 2000001), numLit("1.999999", 1999999), numLit("2e0", 2000000), numLit("0.0", 0), numLit("-0.0", 0),
					numLit("0.000001", 1), numLit("-0.000001", -1), numLit("20e-1", 2000000), numLit("2.1", 2100000), numLit("200", 200000000), numLit("0.2e1", 2000000), numLit("1E0", 1000000)})
				name += ".temperature"
			case 2:
				q.TopP = vlib.Pick(r, []*Num{numLit("1.000000", 1000000), numLit("1.000001", 1000001), numLit("0.999999", 999999), numLit("1e0", 1000000), numLit("0.0", 0), numLit("-0.0", 0),
					numLit("0.000001", 1), numLit("-0.000001", -1), numLit("10e-1", 1000000), numLit("1.1", 1100000), numLit("100", 100000000), numLit("0.1e1", 1000000)})
				name += ".top-p"
			case 3:
				k := vlib.Pick(r, []int64{0, 1, -1, 40, 1<<31 - 1, 1 << 31, 1<<63 - 1, -(1 << 63)})
				q.TopK = &k
				name += ".top-k"
			case 4: // many stop sequences
				cnt := vlib.Pick(r, big)
				q.Stop = []string{}
				items := make([]string, cnt)
				for j := range items {
					s := genStr(r, 1, 6) + strconv.Itoa(j)
					q.Stop = append(q.Stop, s)
					items[j] = jstr(s)
				}
				q.stopRaw = jarr(items)
				name += ".stop-count"
			case 5: // many turns
				cnt := vlib.Pick(r, big)
				q.Messages = nil
				for j := 0; j < cnt; j++ {
					role := "user"
					if j%2 == 1 {
						role = "assistant"
					}
					if r.Chance(1, 4) {
						q.Messages = append(q.Messages, msgB(role, textB(genStr(r, 1, 6))))
					} else {
						q.Messages = append(q.Messages, msgS(role, genStr(r, 1, 6)+strconv.Itoa(j)))
					}
				}
				name += ".turn-count"
			case 6: // many tools
				cnt := vlib.Pick(r, big)
				q.Tools = nil
				for j := 0; j < cnt; j++ {
					t := Tool{Name: "t" + strconv.Itoa(j) + "_" + genIdent(r), Desc: genStr(r, 0, 8), Schema: `{"type":"object"}`}
					t.raw = jobj(r, []kv{{"name", jstr(t.Name)}, {"description", jstr(t.Desc)}, {"input_schema", `{"type":"object"}`}})
					q.Tools = append(q.Tools, t)
				}
				name += ".tool-count"
			case 7: // many parallel tool calls in one turn, all their results in the next, then text blocks
				cnt := vlib.Pick(r, big)
				var uses, ress []Block
				uses = append(uses, textB("calling"))
				for j := 0; j < cnt; j++ {
					id := "toolu_p" + strconv.Itoa(j)
					uses = append(uses, useB(id, "f"+strconv.Itoa(j%7), `{"i":`+strconv.Itoa(j)+`}`))
					ress = append(ress, resB(id, "r"+strconv.Itoa(j)))
				}
				q.Messages = append(q.Messages, msgB("assistant", uses...), msgB("user", ress...))
				name += ".parallel-calls"
			default: // deep tool arguments, many text blocks in one turn
				if r.Bool() {
					depth := vlib.Pick(r, []int{8, 16, 31, 32, 33, 64, 100})
					id := "toolu_deep"
					q.Messages = append(q.Messages, msgB("assistant", useB(id, "deep", deepJSON(depth, vlib.Pick(r, []string{`"<leaf>"`, "1", "[]", "{}", "null"})))), msgB("user", resB(id, "ok")))
					name += ".deep-arguments"
				} else {
					cnt := vlib.Pick(r, big)
					var bs []Block
					for j := 0; j < cnt; j++ {
						bs = append(bs, textB(genStr(r, 0, 4)))
					}
					q.Messages = append(q.Messages, msgB("user", bs...))
					name += ".block-count"
				}
			}
		}
		e.reqCase("boundary"+name, q)
	}
}
