//go:build verif

// c13: correspondence harness for the Anthropic response/stream translator (property C13).
// Drives the REAL exported entry points anthropic.Translator.TransformStreamingResponse and
// TransformResponse with generated OpenAI completions: (text, 0..4 tool calls, interleavings,
// empty content, unicode, big arguments) x SSE renderings x read chunkings (whole, 1 byte at a
// time, per rune, random sizes, splits inside id/name/arguments) x injected malformed lines.
// Every call runs under recover and a 2 s watchdog.  The emitted Anthropic SSE is parsed by a
// strict reader of our own into OutEv JSON; the Lean driver runs the model on the same logical
// lines, compares, and evaluates Olla.Spec.C13 on the implementation's events.
package main

import (
	"net/http"
	"runtime"
	"sync/atomic"
	"sync"
	"errors"
	"bytes"
	"context"
	"encoding/json"
	"fmt"
	"github.com/thushan/olla/internal/zz_verif/anth"
	"github.com/thushan/olla/internal/zz_verif/stack"
	"io"
	"net/http/httptest"
	"os"
	"sort"
	"strconv"
	"strings"
	"testing/iotest"
	"time"
	"unicode/utf8"

	"github.com/thushan/olla/internal/adapter/translator/anthropic"
	"github.com/thushan/olla/internal/config"
	"github.com/thushan/olla/internal/zz_verif/vlib"
)

// ---------------------------------------------------------------- logical input

type Frag struct {
	Idx  int    `json:"idx"`
	ID   string `json:"id"`
	Name string `json:"name"`
	Args string `json:"args"`
}

type Usage struct {
	P *int64 `json:"p,omitempty"`
	C *int64 `json:"c,omitempty"`
}

// Line is what processStreamLine can distinguish (Olla.Model.AnthropicStream.Line).
type Line struct {
	T       string  `json:"t"` // "ign" | "chunk"
	Model   *string `json:"model,omitempty"`
	Choice  bool    `json:"choice"`
	Finish  *string `json:"finish,omitempty"`
	Usage   *Usage  `json:"usage,omitempty"`
	Delta   bool    `json:"delta"`
	Content *string `json:"content,omitempty"`
	Tools   *[]Frag `json:"tools,omitempty"`
	raw     string  // fixed rendering (hand-written odd shapes / ignorable lines); "" = render from fields
}

type Seg struct {
	T      string   `json:"t"` // "text" | "call"
	Pieces []string `json:"pieces"`
	Idx    int      `json:"idx"`
	ID     string   `json:"id"`
	Name   string   `json:"name"`
	First  string   `json:"first"`
}

func sp(s string) *string { return &s }
func ip(n int64) *int64   { return &n }

// ---------------------------------------------------------------- ordered JSON rendering

type kv struct {
	k string
	v any
}
type obj []kv
type rawJSON string

type renderer struct {
	r       *vlib.Rng
	escMode int // 0 Go default (HTML escaped), 1 no HTML escape, 2 all non-ASCII as \uXXXX
	shuffle bool
}

func (e *renderer) str(s string) string {
	switch e.escMode {
	case 2:
		var b strings.Builder
		b.WriteByte('"')
		for _, c := range s {
			switch {
			case c == '"':
				b.WriteString(`\"`)
			case c == '\\':
				b.WriteString(`\\`)
			case c == '\n':
				b.WriteString(`\n`)
			case c == '\r':
				b.WriteString(`\r`)
			case c == '\t':
				b.WriteString(`\t`)
			case c == '/':
				b.WriteString(`\/`)
			case c < 0x20 || c > 0x7e:
				if c > 0xffff {
					c -= 0x10000
					fmt.Fprintf(&b, `\u%04x\u%04x`, 0xd800+(c>>10), 0xdc00+(c&0x3ff))
				} else {
					fmt.Fprintf(&b, `\u%04x`, c)
				}
			default:
				b.WriteRune(c)
			}
		}
		b.WriteByte('"')
		return b.String()
	case 1:
		var buf bytes.Buffer
		enc := json.NewEncoder(&buf)
		enc.SetEscapeHTML(false)
		_ = enc.Encode(s)
		return strings.TrimRight(buf.String(), "\n")
	default:
		b, _ := json.Marshal(s)
		return string(b)
	}
}

func (e *renderer) val(v any) string {
	switch x := v.(type) {
	case nil:
		return "null"
	case rawJSON:
		return string(x)
	case string:
		return e.str(x)
	case bool:
		if x {
			return "true"
		}
		return "false"
	case int:
		return strconv.Itoa(x)
	case int64:
		return strconv.FormatInt(x, 10)
	case []any:
		parts := make([]string, len(x))
		for i, y := range x {
			parts[i] = e.val(y)
		}
		return "[" + strings.Join(parts, ",") + "]"
	case obj:
		o := x
		if e.shuffle && len(o) > 1 {
			o = append(obj{}, x...)
			for i := len(o) - 1; i > 0; i-- {
				j := e.r.Intn(i + 1)
				o[i], o[j] = o[j], o[i]
			}
		}
		parts := make([]string, len(o))
		for i, p := range o {
			parts[i] = e.str(p.k) + ":" + e.val(p.v)
		}
		return "{" + strings.Join(parts, ",") + "}"
	}
	panic(fmt.Sprintf("renderer: %T", v))
}

// renderChunk writes the OpenAI chunk JSON for a logical chunk, with realistic decoration.
func (e *renderer) renderChunk(l *Line, first bool) string {
	r := e.r
	top := obj{}
	if r.Chance(2, 3) {
		top = append(top, kv{"id", "chatcmpl-" + strconv.Itoa(r.Intn(99999))}, kv{"object", "chat.completion.chunk"}, kv{"created", int64(1700000000 + r.Intn(1000))})
	}
	if l.Model != nil {
		top = append(top, kv{"model", *l.Model})
	}
	if r.Chance(1, 5) {
		top = append(top, kv{"system_fingerprint", "fp_" + strconv.Itoa(r.Intn(999))})
	}
	if l.Choice {
		ch := obj{kv{"index", 0}}
		if l.Delta {
			d := obj{}
			if first && r.Bool() {
				d = append(d, kv{"role", "assistant"})
			}
			if l.Content != nil {
				d = append(d, kv{"content", *l.Content})
			} else if r.Chance(1, 4) {
				d = append(d, kv{"content", nil})
			}
			if l.Tools != nil {
				arr := []any{}
				for _, f := range *l.Tools {
					t := obj{}
					if f.Idx != 0 || r.Chance(4, 5) {
						t = append(t, kv{"index", f.Idx})
					}
					if f.ID != "" || r.Chance(1, 6) {
						t = append(t, kv{"id", f.ID})
					}
					if f.ID != "" && r.Chance(4, 5) {
						t = append(t, kv{"type", "function"})
					}
					fn := obj{}
					if f.Name != "" || r.Chance(1, 6) {
						fn = append(fn, kv{"name", f.Name})
					}
					if f.Args != "" || r.Chance(2, 3) {
						fn = append(fn, kv{"arguments", f.Args})
					}
					t = append(t, kv{"function", fn})
					arr = append(arr, t)
				}
				d = append(d, kv{"tool_calls", arr})
			}
			if r.Chance(1, 8) {
				d = append(d, kv{"refusal", nil})
			}
			ch = append(ch, kv{"delta", d})
		}
		if r.Chance(1, 6) {
			ch = append(ch, kv{"logprobs", nil})
		}
		if l.Finish != nil {
			ch = append(ch, kv{"finish_reason", *l.Finish})
		} else if r.Chance(1, 2) {
			ch = append(ch, kv{"finish_reason", nil})
		}
		top = append(top, kv{"choices", []any{ch}})
	} else {
		switch r.Intn(4) {
		case 0:
			// no choices key at all
		default:
			top = append(top, kv{"choices", []any{}})
		}
	}
	if l.Usage != nil {
		u := obj{}
		var tot int64
		if l.Usage.P != nil {
			u = append(u, kv{"prompt_tokens", *l.Usage.P})
			tot += *l.Usage.P
		}
		if l.Usage.C != nil {
			u = append(u, kv{"completion_tokens", *l.Usage.C})
			tot += *l.Usage.C
		}
		if r.Bool() {
			u = append(u, kv{"total_tokens", tot})
		}
		top = append(top, kv{"usage", u})
	} else if r.Chance(1, 8) {
		top = append(top, kv{"usage", nil})
	}
	return e.val(top)
}

// ---------------------------------------------------------------- odd but parseable shapes, with their logical meaning

func oddLines() []Line {
	ch := func(raw string, l Line) Line { l.T = "chunk"; l.raw = "data: " + raw; return l }
	empty := []Frag{}
	return []Line{
		ch(`null`, Line{}),
		ch(`{}`, Line{}),
		ch(`{"choices":{}}`, Line{}),
		ch(`{"choices":[]}`, Line{}),
		ch(`{"choices":[null]}`, Line{}),
		ch(`{"choices":["x"]}`, Line{}),
		ch(`{"choices":[[]]}`, Line{}),
		ch(`{"model":5,"choices":[{"delta":{"content":"odd1"}}]}`, Line{Choice: true, Delta: true, Content: sp("odd1")}),
		ch(`{"model":"late-model","choices":[{"delta":{}}]}`, Line{Model: sp("late-model"), Choice: true, Delta: true}),
		ch(`{"choices":[{"delta":"x"}]}`, Line{Choice: true}),
		ch(`{"choices":[{"delta":null,"finish_reason":"length"}]}`, Line{Choice: true, Finish: sp("length")}),
		ch(`{"choices":[{"finish_reason":"stop"}]}`, Line{Choice: true, Finish: sp("stop")}),
		ch(`{"choices":[{"delta":{"content":5}}]}`, Line{Choice: true, Delta: true}),
		ch(`{"choices":[{"delta":{"content":["a"]}}]}`, Line{Choice: true, Delta: true}),
		ch(`{"choices":[{"delta":{"content":null,"tool_calls":null}}]}`, Line{Choice: true, Delta: true}),
		ch(`{"choices":[{"delta":{"tool_calls":"x"}}]}`, Line{Choice: true, Delta: true}),
		ch(`{"choices":[{"delta":{"tool_calls":{}}}]}`, Line{Choice: true, Delta: true}),
		ch(`{"choices":[{"delta":{"tool_calls":[]}}]}`, Line{Choice: true, Delta: true, Tools: &empty}),
		ch(`{"choices":[{"delta":{"tool_calls":[null,"x",7,{"index":0},{"index":0,"function":"x"},{"index":1,"function":null}]}}]}`, Line{Choice: true, Delta: true, Tools: &empty}),
		ch(`{"choices":[{"delta":{"tool_calls":[{"index":"1","id":5,"function":{"name":7,"arguments":9}}]}}]}`, Line{Choice: true, Delta: true, Tools: &[]Frag{{}}}),
		ch(`{"choices":[{"delta":{"tool_calls":[{"index":2.9,"id":"only-id","function":{}}]}}]}`, Line{Choice: true, Delta: true, Tools: &[]Frag{{Idx: 2, ID: "only-id"}}}),
		ch(`{"choices":[{"delta":{"tool_calls":[{"function":{"name":"only-name"}}]}}]}`, Line{Choice: true, Delta: true, Tools: &[]Frag{{Name: "only-name"}}}),
		ch(`{"choices":[{"delta":{},"finish_reason":7}]}`, Line{Choice: true, Delta: true}),
		ch(`{"choices":[{"delta":{},"finish_reason":""}]}`, Line{Choice: true, Delta: true, Finish: sp("")}),
		ch(`{"choices":[{"delta":{}}],"usage":"x"}`, Line{Choice: true, Delta: true}),
		ch(`{"choices":[{"delta":{}}],"usage":{}}`, Line{Choice: true, Delta: true, Usage: &Usage{}}),
		ch(`{"choices":[{"delta":{}}],"usage":{"prompt_tokens":"7","completion_tokens":null}}`, Line{Choice: true, Delta: true, Usage: &Usage{}}),
		ch(`{"choices":[{"delta":{}}],"usage":{"prompt_tokens":3}}`, Line{Choice: true, Delta: true, Usage: &Usage{P: ip(3)}}),
		ch(`{"choices":[{"delta":{}}],"usage":{"completion_tokens":4.0}}`, Line{Choice: true, Delta: true, Usage: &Usage{C: ip(4)}}),
		ch(` {"choices":[{"delta":{"content":"odd2"}}]} `, Line{Choice: true, Delta: true, Content: sp("odd2")}),
		ch(`{"choices":[{"delta":{"content":"odd3"}},{"delta":{"content":"second choice is ignored"}}]}`, Line{Choice: true, Delta: true, Content: sp("odd3")}),
		ch(`{"error":{"message":"backend exploded","type":"server_error"}}`, Line{}),
	}
}

func ignorable(r *vlib.Rng) Line {
	raws := []string{
		"", ": keep-alive", "event: message", "id: 17", "retry: 3000", "data: [DONE]", "data: [DONE]  ", "data:[DONE]",
		"data:", "data: ", "data: {", "data: {\"choices\":[{\"delta\":{\"content\":\"trunc", "data: }{", "data: [1,2]", "data: \"str\"", "data: 12",
		"data: true", "DATA: {\"choices\":[]}", " data: {\"choices\":[]}", "data:{\"choices\":[{\"delta\":{\"content\":\"no space after colon\"}}]}",
		"data: {\"choices\":[{\"delta\":{\"content\":\"x\"}}]} trailing", "data: {'choices':[]}", "data: \xff\xfe\x00garbage", "\x00\x01\x02", "\xef\xbb\xbfdata: {}",
		"garbage without prefix", "<html><body>502 Bad Gateway</body></html>", "data: {\"choices\":[{\"delta\":{\"content\":\"\\ud800\"}}]", "data: NaN",
		"data: {\"a\":1e999999999999}x", strings.Repeat("x", 70000), "data: " + strings.Repeat("[", 5000),
	}
	return Line{T: "ign", raw: vlib.Pick(r, raws)}
}

// ---------------------------------------------------------------- generators

var alphabets = []string{
	// control characters a backend validly writes as \u00XX escapes (ANSI colour codes, bell, vertical tab, DEL, C1),
	// characters outside the BMP that are not "printable" (tag characters of the subdivision flags, private-use planes,
	// non-characters) and text that spells out escapes itself
	"\x1b[31m\x07\x0b\x7f\u0085\x00\x1f",
	"\U000e0067\U000e0062\U000e007f\U000f0000\U0010fffd\U0001f3f4\ufffe\uffff",
	"\\u003c\\u003e\\u0026 \\n \\\\ \\x1b <b>&amp;</b>",
	"abcdefghijklmnopqrstuvwxyz ABC.,!?",
	"héllo wörld ñ ß ø",
	"日本語のテキスト漢字",
	"😀🎉🚀👩‍👩‍👧‍👦🇦🇺",
	"\"\\/\b\f\n\r\t<>&'\u2028\u2029",
	"مرحبا שלום",
	"e\u0301a\u0308\u200d\ufeff",
	"data: [DONE]\n\nevent: x {}[]:,",
}

func genStr(r *vlib.Rng, minLen, maxLen int) string {
	n := minLen + r.Intn(maxLen-minLen+1)
	var b strings.Builder
	al := []rune(vlib.Pick(r, alphabets))
	for i := 0; i < n; i++ {
		if r.Chance(1, 10) {
			al = []rune(vlib.Pick(r, alphabets))
		}
		b.WriteRune(al[r.Intn(len(al))])
		if r.Chance(1, 14) { // text that spells escapes out (source code, JSON fixtures, regular expressions)
			b.WriteString(vlib.Pick(r, []string{"\\u003c", "\\u003e", "\\u0026", "\\n", "\\\"", "\\x1b", "&lt;", "\\\\u0041", "%5C"}))
		}
	}
	return b.String()
}

func genIdent(r *vlib.Rng) string {
	const al = "abcdefghijklmnopqrstuvwxyzABCDEFGHIJKLMNOPQRSTUVWXYZ0123456789_-"
	n := 1 + r.Intn(12)
	b := make([]byte, n)
	for i := range b {
		b[i] = al[r.Intn(len(al))]
	}
	return string(b)
}

func genJSON(r *vlib.Rng, depth int) any {
	k := r.Intn(7)
	if depth <= 0 && k >= 5 {
		k = r.Intn(5)
	}
	switch k {
	case 0:
		return genStr(r, 0, 12)
	case 1:
		return r.Intn(2000) - 1000
	case 2:
		return r.Bool()
	case 3:
		return nil
	case 4:
		return float64(r.Intn(100000)) / 100
	case 5:
		n := r.Intn(4)
		a := make([]any, n)
		for i := range a {
			a[i] = genJSON(r, depth-1)
		}
		return a
	default:
		return genObj(r, depth-1)
	}
}

func genObj(r *vlib.Rng, depth int) map[string]any {
	n := r.Intn(4)
	m := map[string]any{}
	for i := 0; i < n; i++ {
		key := genIdent(r)
		if r.Chance(1, 6) {
			key = genStr(r, 1, 6)
		}
		m[key] = genJSON(r, depth)
	}
	return m
}

// genArgs returns a canonical (Go json.Marshal) JSON object string.
func genArgs(r *vlib.Rng, big int) string {
	m := genObj(r, 3)
	if big > 0 {
		m["blob"] = genStr(r, big, big)
	}
	b, _ := json.Marshal(m)
	return string(b)
}

// splitRunes cuts s into n pieces at rune boundaries (pieces may be empty).
func splitRunes(r *vlib.Rng, s string, n int) []string {
	rs := []rune(s)
	cuts := make([]int, n-1)
	for i := range cuts {
		cuts[i] = r.Intn(len(rs) + 1)
	}
	sort.Ints(cuts)
	out := make([]string, 0, n)
	prev := 0
	for _, c := range cuts {
		out = append(out, string(rs[prev:c]))
		prev = c
	}
	return append(out, string(rs[prev:]))
}

type completion struct {
	segs   []Seg
	finish *string // nil = the backend never sends one
	usage  *Usage
	model  string
}

func genCall(r *vlib.Rng, idx int, big int) Seg {
	args := genArgs(r, big)
	if r.Chance(1, 12) {
		args = ""
	}
	np := 1 + r.Intn(6)
	if big > 0 {
		np = 2 + r.Intn(8)
	}
	ps := splitRunes(r, args, np)
	first := ps[0]
	if r.Chance(1, 2) { // OpenAI style: the opening fragment carries an empty arguments string
		first = ""
		ps = append([]string{""}, ps...)
	}
	id := "call_" + genIdent(r)
	if r.Chance(1, 10) {
		id = "toolu_" + genStr(r, 1, 8)
	}
	return Seg{T: "call", Idx: idx, ID: id, Name: genIdent(r), First: first, Pieces: ps[1:]}
}

func genText(r *vlib.Rng) Seg {
	n := 1 + r.Intn(6)
	ps := make([]string, n)
	for i := range ps {
		ps[i] = genStr(r, 1, 14)
		if r.Chance(1, 12) {
			ps[i] = ""
		}
	}
	return Seg{T: "text", Pieces: ps}
}

// shape: 0 text only, 1 calls only, 2 text then calls, 3 interleaved, 4 empty
func genCompletion(r *vlib.Rng, shape int, big int) completion {
	c := completion{model: vlib.Pick(r, []string{"gpt-4o", "llama3.1:8b", "qwen2.5-coder", "模型", ""})}
	ncalls := 0
	switch shape {
	case 0:
		c.segs = []Seg{genText(r)}
	case 1:
		ncalls = 1 + r.Intn(4)
	case 2:
		c.segs = []Seg{genText(r)}
		ncalls = 1 + r.Intn(4)
	case 3:
		n := 2 + r.Intn(5)
		k := 0
		for i := 0; i < n; i++ {
			if r.Bool() {
				c.segs = append(c.segs, genText(r))
			} else {
				c.segs = append(c.segs, genCall(r, k, 0))
				k++
			}
		}
	case 4:
	}
	sameIdx := r.Chance(1, 10) // some backends number every call 0
	for i := 0; i < ncalls; i++ {
		idx := i
		if sameIdx {
			idx = 0
		}
		b := 0
		if i == 0 {
			b = big
		}
		c.segs = append(c.segs, genCall(r, idx, b))
	}
	hasCall := false
	for _, s := range c.segs {
		if s.T == "call" {
			hasCall = true
		}
	}
	switch {
	case r.Chance(1, 12):
		c.finish = nil
	case r.Chance(1, 4):
		c.finish = sp(vlib.Pick(r, []string{"stop", "tool_calls", "length", "content_filter", "function_call", "", "zz-junk", "STOP", "eos"}))
	case hasCall:
		c.finish = sp("tool_calls")
	default:
		c.finish = sp(vlib.Pick(r, []string{"stop", "stop", "length"}))
	}
	if r.Chance(5, 6) {
		c.usage = &Usage{P: ip(int64(r.Intn(5000))), C: ip(int64(r.Intn(3000)))}
		if r.Chance(1, 12) {
			c.usage.P = nil
		}
	}
	return c
}

type renderOpts struct {
	usageMode    int  // 0 on the finish chunk, 1 separate chunk with "choices":[], 2 separate chunk with an empty delta, 3 every chunk (continuous), then final
	groupFrags   bool // several fragments of one call / several opening fragments in one tool_calls array
	mixed        bool // put a text piece and the following call's opening fragment into ONE delta
	emptyTools   bool // content chunks also carry "tool_calls":[]
	roleFirst    bool // leading role-only chunk
	contentNull  bool
	finishOnLast bool // finish_reason (and usage) ride on the last content / tool chunk instead of a chunk of their own
}

// toLines renders the completion as logical chunk lines.
func toLines(r *vlib.Rng, c completion, o renderOpts) []Line {
	var out []Line
	mk := func() Line { return Line{T: "chunk", Choice: true, Delta: true} }
	if o.roleFirst {
		l := mk()
		l.Content = sp("")
		out = append(out, l)
	}
	var pendingText *string
	flushText := func() {
		if pendingText != nil {
			l := mk()
			l.Content = pendingText
			out = append(out, l)
			pendingText = nil
		}
	}
	for si, s := range c.segs {
		if s.T == "text" {
			for pi, p := range s.Pieces {
				last := pi == len(s.Pieces)-1 && si+1 < len(c.segs) && c.segs[si+1].T == "call"
				if o.mixed && last && p != "" {
					pp := p
					pendingText = &pp
					continue
				}
				l := mk()
				l.Content = sp(p)
				if o.emptyTools && r.Chance(1, 3) {
					l.Tools = &[]Frag{}
				}
				out = append(out, l)
			}
			continue
		}
		frags := []Frag{{Idx: s.Idx, ID: s.ID, Name: s.Name, Args: s.First}}
		for _, p := range s.Pieces {
			frags = append(frags, Frag{Idx: s.Idx, Args: p})
		}
		i := 0
		for i < len(frags) {
			n := 1
			if o.groupFrags {
				n = 1 + r.Intn(3)
			}
			if i+n > len(frags) {
				n = len(frags) - i
			}
			fs := append([]Frag{}, frags[i:i+n]...)
			l := mk()
			if pendingText != nil {
				l.Content = pendingText
				pendingText = nil
			} else if o.contentNull && r.Bool() {
				l.Content = sp("")
			}
			l.Tools = &fs
			// merge with the previous tool chunk sometimes (two opening fragments in one array)
			if o.groupFrags && i == 0 && len(out) > 0 && out[len(out)-1].Tools != nil && len(*out[len(out)-1].Tools) > 0 && out[len(out)-1].Content == nil && l.Content == nil && r.Bool() {
				prev := append([]Frag{}, *out[len(out)-1].Tools...)
				prev = append(prev, fs...)
				out[len(out)-1].Tools = &prev
			} else {
				out = append(out, l)
			}
			i += n
		}
	}
	flushText()
	// finish + usage
	fin := mk()
	fin.Finish = c.finish
	if c.usage != nil && (o.usageMode == 0 || o.usageMode == 3) {
		fin.Usage = c.usage
	}
	if o.finishOnLast && len(out) > 0 && out[len(out)-1].Choice && (c.finish != nil || fin.Usage != nil) {
		out[len(out)-1].Finish = fin.Finish
		out[len(out)-1].Usage = fin.Usage
	} else if c.finish != nil || fin.Usage != nil || r.Bool() {
		out = append(out, fin)
	}
	if c.usage != nil {
		switch o.usageMode {
		case 1:
			out = append(out, Line{T: "chunk", Usage: c.usage})
		case 2:
			l := mk()
			l.Usage = c.usage
			out = append(out, l)
		case 3:
			// continuous usage stats: earlier chunks carry running counts
			var run int64
			for i := range out[:len(out)-1] {
				if out[i].Choice && r.Bool() {
					run += int64(r.Intn(5))
					out[i].Usage = &Usage{P: c.usage.P, C: ip(run)}
				}
			}
		}
	}
	if len(out) > 0 {
		for i := range out {
			if c.model != "" && (i == 0 || r.Chance(4, 5)) {
				out[i].Model = sp(c.model)
			}
		}
	}
	return out
}

// interleavedLines: fragments of several calls in arbitrary order, argument fragments before
// or without their opening fragment, text in the middle of calls (totality clause only).
func interleavedLines(r *vlib.Rng) []Line {
	n := 2 + r.Intn(14)
	var out []Line
	ids := []string{"", "", "call_a", "call_b", "call_c"}
	names := []string{"", "", "f", "g"}
	for i := 0; i < n; i++ {
		l := Line{T: "chunk", Choice: true, Delta: true}
		switch r.Intn(6) {
		case 0:
			l.Content = sp(genStr(r, 0, 6))
		case 1:
			l.Finish = sp(vlib.Pick(r, []string{"stop", "tool_calls", "length", ""}))
			if r.Bool() {
				l.Usage = &Usage{P: ip(int64(r.Intn(100))), C: ip(int64(r.Intn(100)))}
			}
		default:
			k := 1 + r.Intn(3)
			fs := make([]Frag, k)
			for j := range fs {
				fs[j] = Frag{Idx: r.Intn(4), ID: vlib.Pick(r, ids), Name: vlib.Pick(r, names), Args: vlib.Pick(r, []string{"", "{", "\"a\":1", "}", "{}", genStr(r, 1, 5)})}
			}
			l.Tools = &fs
			if r.Chance(1, 5) {
				l.Content = sp(genStr(r, 0, 4))
			}
		}
		if r.Chance(1, 3) {
			l.Model = sp("m" + strconv.Itoa(r.Intn(3)))
		}
		out = append(out, l)
	}
	return out
}

// ---------------------------------------------------------------- SSE rendering and read chunkings

type sseOpts struct {
	sep       string // after every line
	noFinalNL bool
	done      bool
}

// sawDone: does the rendered stream contain a "[DONE]" marker as processStreamLine recognises it
// (prefix "data: ", the rest "[DONE]" up to white space)? Together with "some line is a chunk" this is
// what makes a body a completion stream at all.
func sawDone(lines []Line, o sseOpts) bool {
	if o.done {
		return true
	}
	for i := range lines {
		if l := &lines[i]; l.T == "ign" && strings.HasPrefix(l.raw, "data: ") && strings.TrimSpace(strings.TrimPrefix(l.raw, "data: ")) == "[DONE]" {
			return true
		}
	}
	return false
}

func renderSSE(e *renderer, lines []Line, o sseOpts) string {
	var b strings.Builder
	firstChunk := true
	for i := range lines {
		l := &lines[i]
		if l.raw != "" || l.T == "ign" {
			b.WriteString(l.raw)
		} else {
			b.WriteString("data: ")
			b.WriteString(e.renderChunk(l, firstChunk))
			firstChunk = false
		}
		b.WriteString(o.sep)
	}
	if o.done {
		b.WriteString("data: [DONE]")
		b.WriteString(o.sep)
	}
	s := b.String()
	if o.noFinalNL {
		s = strings.TrimRight(s, "\r\n")
	}
	return s
}

type sliceReader struct {
	data []byte
	cuts []int // ascending offsets at which a Read must stop
	pos  int
	ci   int // first cut not yet passed
}

func (s *sliceReader) Read(p []byte) (int, error) {
	if s.pos >= len(s.data) {
		return 0, io.EOF
	}
	end := len(s.data)
	for s.ci < len(s.cuts) && s.cuts[s.ci] <= s.pos {
		s.ci++
	}
	if s.ci < len(s.cuts) {
		end = s.cuts[s.ci]
	}
	if end > len(s.data) {
		end = len(s.data)
	}
	n := copy(p, s.data[s.pos:end])
	s.pos += n
	return n, nil
}

// chunking k of the byte stream: 0 whole, 1 one byte at a time, 2 per rune, 3 random sizes,
// 4 split inside every id / name / arguments value, 5 data and EOF in the same Read
func reader(r *vlib.Rng, k int, s string) io.Reader {
	data := []byte(s)
	switch k {
	case 0:
		return bytes.NewReader(data)
	case 1:
		return iotest.OneByteReader(bytes.NewReader(data))
	case 2:
		var cuts []int
		for i := 0; i < len(data); {
			_, n := utf8.DecodeRune(data[i:])
			i += n
			cuts = append(cuts, i)
		}
		return &sliceReader{data: data, cuts: cuts}
	case 3:
		var cuts []int
		for i := 0; i < len(data); {
			i += 1 + r.Intn(23)
			cuts = append(cuts, i)
		}
		return &sliceReader{data: data, cuts: cuts}
	case 4:
		var cuts []int
		for _, key := range []string{`"id":"`, `"name":"`, `"arguments":"`, `"content":"`, "data: ", "\n"} {
			from := 0
			for {
				j := strings.Index(s[from:], key)
				if j < 0 {
					break
				}
				at := from + j + len(key)
				cuts = append(cuts, at-2, at+1+r.Intn(3))
				from = at
			}
		}
		sort.Ints(cuts)
		return &sliceReader{data: data, cuts: cuts}
	case 5:
		return iotest.DataErrReader(bytes.NewReader(data))
	default:
		// k >= 6: every Read hands out at most k bytes (read sizes around the buffer sizes in the anchored code)
		var cuts []int
		for i := k; i < len(data); i += k {
			cuts = append(cuts, i)
		}
		return &sliceReader{data: data, cuts: cuts}
	}
}

// ---------------------------------------------------------------- strict reader of the emitted Anthropic SSE

type OutEv map[string]any

func bad(what string) OutEv { return OutEv{"e": "bad", "what": what} }

func keysAre(m map[string]any, ks ...string) bool {
	if len(m) != len(ks) {
		return false
	}
	for _, k := range ks {
		if _, ok := m[k]; !ok {
			return false
		}
	}
	return true
}

func asInt(v any) (int64, bool) {
	n, ok := v.(json.Number)
	if !ok {
		return 0, false
	}
	i, err := n.Int64()
	return i, err == nil
}

func parseEvent(name string, data string) OutEv {
	dec := json.NewDecoder(strings.NewReader(data))
	dec.UseNumber()
	var m map[string]any
	if err := dec.Decode(&m); err != nil || dec.More() {
		return bad("data is not one JSON object: " + name)
	}
	if t, _ := m["type"].(string); t != name {
		return bad("event name " + name + " differs from data.type")
	}
	switch name {
	case "message_start":
		msg, _ := m["message"].(map[string]any)
		if !keysAre(m, "type", "message") || !keysAre(msg, "id", "type", "role", "model", "content", "usage") {
			return bad("message_start fields")
		}
		id, _ := msg["id"].(string)
		content, cok := msg["content"].([]any)
		usage, _ := msg["usage"].(map[string]any)
		model, mok := msg["model"].(string)
		in, iok := asInt(usage["input_tokens"])
		out, ook := asInt(usage["output_tokens"])
		if !strings.HasPrefix(id, "msg_") || len(id) < 8 || msg["type"] != "message" || msg["role"] != "assistant" || !cok || len(content) != 0 || !mok || !iok || !ook || out != 0 || !keysAre(usage, "input_tokens", "output_tokens") {
			return bad("message_start values")
		}
		return OutEv{"e": "ms", "model": model, "in": in}
	case "content_block_start":
		cb, _ := m["content_block"].(map[string]any)
		i, iok := asInt(m["index"])
		if !keysAre(m, "type", "index", "content_block") || !iok || i < 0 {
			return bad("content_block_start fields")
		}
		switch cb["type"] {
		case "text":
			if !keysAre(cb, "type", "text") || cb["text"] != "" {
				return bad("text block start must carry an empty text")
			}
			return OutEv{"e": "bs", "i": i, "k": "text"}
		case "tool_use":
			id, ok1 := cb["id"].(string)
			nm, ok2 := cb["name"].(string)
			if !ok1 || !ok2 || !(keysAre(cb, "type", "id", "name") || (keysAre(cb, "type", "id", "name", "input") && isEmptyObj(cb["input"]))) {
				return bad("tool_use block start fields")
			}
			return OutEv{"e": "bs", "i": i, "k": "tool", "id": id, "name": nm}
		}
		return bad("content_block_start type")
	case "content_block_delta":
		d, _ := m["delta"].(map[string]any)
		i, iok := asInt(m["index"])
		if !keysAre(m, "type", "index", "delta") || !iok || i < 0 {
			return bad("content_block_delta fields")
		}
		switch d["type"] {
		case "text_delta":
			s, ok := d["text"].(string)
			if !ok || !keysAre(d, "type", "text") {
				return bad("text_delta fields")
			}
			return OutEv{"e": "d", "i": i, "p": "text", "s": s}
		case "input_json_delta":
			s, ok := d["partial_json"].(string)
			if !ok || !keysAre(d, "type", "partial_json") {
				return bad("input_json_delta fields")
			}
			return OutEv{"e": "d", "i": i, "p": "json", "s": s}
		}
		return bad("delta type")
	case "content_block_stop":
		i, iok := asInt(m["index"])
		if !keysAre(m, "type", "index") || !iok || i < 0 {
			return bad("content_block_stop fields")
		}
		return OutEv{"e": "be", "i": i}
	case "message_delta":
		d, _ := m["delta"].(map[string]any)
		u, _ := m["usage"].(map[string]any)
		stop, sok := d["stop_reason"].(string)
		in, iok := asInt(u["input_tokens"])
		out, ook := asInt(u["output_tokens"])
		seq, hasSeq := d["stop_sequence"]
		if !keysAre(m, "type", "delta", "usage") || !sok || !iok || !ook || !hasSeq || seq != nil || len(d) != 2 || !keysAre(u, "input_tokens", "output_tokens") {
			return bad("message_delta fields")
		}
		return OutEv{"e": "md", "stop": stop, "in": in, "out": out}
	case "message_stop":
		if !keysAre(m, "type") {
			return bad("message_stop fields")
		}
		return OutEv{"e": "stop"}
	}
	return bad("unknown event " + name)
}

func isEmptyObj(v any) bool {
	m, ok := v.(map[string]any)
	return ok && len(m) == 0
}

// parseSSE insists on `event: <name>\ndata: <one line of JSON>\n\n` repeated, nothing else.
func parseSSE(body string) []OutEv {
	out := []OutEv{}
	if body == "" {
		return out
	}
	if !strings.HasSuffix(body, "\n\n") {
		out = append(out, bad("output does not end with a blank line"))
	}
	for _, blk := range strings.Split(strings.TrimSuffix(body, "\n\n"), "\n\n") {
		ls := strings.Split(blk, "\n")
		if len(ls) != 2 || !strings.HasPrefix(ls[0], "event: ") || !strings.HasPrefix(ls[1], "data: ") {
			out = append(out, bad("not an event/data pair: "+trunc(blk, 80)))
			continue
		}
		out = append(out, parseEvent(strings.TrimPrefix(ls[0], "event: "), strings.TrimPrefix(ls[1], "data: ")))
	}
	return out
}

func maxLine(s string) int {
	m, cur := 0, 0
	for i := 0; i < len(s); i++ {
		if s[i] == '\n' {
			cur = 0
			continue
		}
		cur++
		if cur > m {
			m = cur
		}
	}
	return m
}

func trunc(s string, n int) string {
	if len(s) > n {
		return s[:n] + "…"
	}
	return s
}

// ---------------------------------------------------------------- running the real code

type streamResult struct {
	events  []OutEv
	err     string
	panic   string
	timeout bool
	ctype   string
}

// runStream runs the real stream translator under recover and a watchdog.  The watchdog is 2 s;
// a run that exceeds it is repeated once with 20 s so that a loaded machine is not mistaken for a
// hang (mk must hand out a fresh reader over the same bytes).
func runStream(tr *anthropic.Translator, mk func() io.Reader) streamResult {
	res := runStreamOnce(tr, mk(), 2*time.Second)
	if res.timeout {
		res = runStreamOnce(tr, mk(), 20*time.Second)
	}
	return res
}

func runStreamOnce(tr *anthropic.Translator, rd io.Reader, limit time.Duration) streamResult {
	ch := make(chan streamResult, 1)
	go func() {
		var res streamResult
		rec := httptest.NewRecorder()
		defer func() {
			if p := recover(); p != nil {
				res.panic = fmt.Sprint(p)
				res.events = parseSSE(rec.Body.String())
			}
			ch <- res
		}()
		err := tr.TransformStreamingResponse(context.Background(), rd, rec, httptest.NewRequest("POST", "/olla/anthropic/v1/messages", nil))
		if err != nil {
			res.err = err.Error()
		}
		res.ctype = rec.Header().Get("Content-Type")
		res.events = parseSSE(rec.Body.String())
	}()
	select {
	case r := <-ch:
		return r
	case <-time.After(limit):
		return streamResult{timeout: true, events: []OutEv{}}
	}
}

// failingWriter: a client connection that dies after `ok` successful writes
type failingWriter struct {
	h  http.Header
	ok int
}

func (w *failingWriter) Header() http.Header { return w.h }
func (w *failingWriter) WriteHeader(int)     {}
func (w *failingWriter) Write(p []byte) (int, error) {
	if w.ok <= 0 {
		return 0, errors.New("write tcp 127.0.0.1:1->127.0.0.1:2: write: broken pipe")
	}
	w.ok--
	return len(p), nil
}
func (w *failingWriter) Flush() {}

// sharedCase: ONE translator serves many clients.  First every completion is translated alone (the reference), then some
// clients die mid-stream (their writes start failing), then all completions are translated at the same time, several
// rounds.  What a client receives depends on its own completion only: the concurrent translation of each completion is
// the one it got when it was alone.
func (e *env) sharedCase(streams, rounds int) {
	r := e.r
	tr := anthropic.NewTranslator(vlib.QuietLogger(), config.AnthropicTranslatorConfig{Enabled: true, MaxMessageSize: 10 << 20})
	type one struct {
		sse string
		ref []OutEv
	}
	all := make([]one, streams)
	for i := range all {
		comp := genCompletion(r, vlib.Pick(r, []int{0, 1, 2, 3}), 0)
		// recognisable, and long enough that the streams really overlap
		comp.segs = append([]Seg{{T: "text", Pieces: []string{fmt.Sprintf("client-%02d ", i), strings.Repeat(fmt.Sprintf("c%02d.", i), 40), " end"}}}, comp.segs...)
		for j := range comp.segs {
			if comp.segs[j].T == "call" {
				comp.segs[j].Idx = j
			}
		}
		lines := toLines(r, comp, renderOpts{roleFirst: true})
		rd := &renderer{r: r, escMode: 1}
		all[i].sse = renderSSE(rd, lines, sseOpts{sep: "\n\n", done: true})
		res := runStreamOnce(tr, strings.NewReader(all[i].sse), 5*time.Second)
		all[i].ref = res.events
	}
	// clients that go away mid-stream
	for k := 0; k < 6; k++ {
		w := &failingWriter{h: http.Header{}, ok: 1 + k%4}
		func() {
			defer func() { _ = recover() }()
			_ = tr.TransformStreamingResponse(context.Background(), strings.NewReader(all[k%streams].sse), w, httptest.NewRequest("POST", "/olla/anthropic/v1/messages", nil))
		}()
	}
	mism, first := 0, ""
	var mu sync.Mutex
	for rd := 0; rd < rounds; rd++ {
		var wg sync.WaitGroup
		var start int32
		for i := range all {
			wg.Add(1)
			go func(i int) {
				defer wg.Done()
				for atomic.LoadInt32(&start) == 0 {
					runtime.Gosched()
				}
				res := runStreamOnce(tr, iotest.OneByteReader(strings.NewReader(all[i].sse)), 10*time.Second)
				if !sameEvents(res.events, all[i].ref) || res.err != "" || res.panic != "" || res.timeout {
					mu.Lock()
					mism++
					if first == "" {
						got, _ := json.Marshal(res.events)
						want, _ := json.Marshal(all[i].ref)
						first = fmt.Sprintf("round %d client %d (err '%s' panic '%s' timeout %v): alone it received %s; among %d concurrent clients %s", rd, i, res.err, res.panic, res.timeout, trunc(string(want), 500), streams, trunc(string(got), 500))
					}
					mu.Unlock()
				}
			}(i)
		}
		atomic.StoreInt32(&start, 1)
		wg.Wait()
	}
	e.c.Emit(map[string]any{"kind": "shared", "streams": streams, "rounds": rounds, "impl": map[string]any{"mismatches": mism, "first": first}})
	e.c.Count("shared-translator")
}

func sameEvents(a, b []OutEv) bool {
	x, _ := json.Marshal(a)
	y, _ := json.Marshal(b)
	return bytes.Equal(x, y)
}

// canon re-encodes a JSON value with sorted keys (Go's encoder), or returns ok=false.
func canonObj(s string) (string, bool) {
	var m map[string]any
	if err := json.Unmarshal([]byte(s), &m); err != nil || m == nil {
		return "{}", false
	}
	b, _ := json.Marshal(m)
	return string(b), true
}

type bufCall struct {
	ID      string `json:"id"`
	Name    string `json:"name"`
	Args    string `json:"args"`     // raw arguments string sent to the translator
	ArgsObj string `json:"args_obj"` // canonical JSON of the parsed arguments ("{}" if they do not parse to an object)
}

type bufResp struct {
	Content *string   `json:"content,omitempty"`
	Calls   []bufCall `json:"calls"`
	Finish  *string   `json:"finish,omitempty"`
	Usage   *Usage    `json:"usage,omitempty"`
}

func runBuffered(tr *anthropic.Translator, resp map[string]any) map[string]any {
	res := map[string]any{}
	func() {
		defer func() {
			if p := recover(); p != nil {
				res["panic"] = fmt.Sprint(p)
			}
		}()
		out, err := tr.TransformResponse(context.Background(), resp, httptest.NewRequest("POST", "/olla/anthropic/v1/messages", nil))
		if err != nil {
			res["err"] = err.Error()
			return
		}
		b, err := json.Marshal(out)
		if err != nil {
			res["err"] = "marshal: " + err.Error()
			return
		}
		dec := json.NewDecoder(bytes.NewReader(b))
		dec.UseNumber()
		var m map[string]any
		_ = dec.Decode(&m)
		blocks := []map[string]any{}
		shape := ""
		if !keysAre(m, "id", "type", "role", "model", "content", "stop_reason", "stop_sequence", "usage") && !keysAre(m, "id", "type", "role", "model", "content", "stop_sequence", "usage") {
			shape = "unexpected top-level fields"
		}
		if m["type"] != "message" || m["role"] != "assistant" || m["stop_sequence"] != nil {
			shape = "type/role/stop_sequence"
		}
		if id, _ := m["id"].(string); !strings.HasPrefix(id, "msg_") {
			shape = "id"
		}
		cs, _ := m["content"].([]any)
		for _, c := range cs {
			cm, _ := c.(map[string]any)
			switch cm["type"] {
			case "text":
				t, _ := cm["text"].(string)
				blocks = append(blocks, map[string]any{"t": "text", "s": t})
			case "tool_use":
				id, _ := cm["id"].(string)
				nm, _ := cm["name"].(string)
				in, _ := json.Marshal(cm["input"]) // absent input (omitempty on an empty map) -> null
				args := string(in)
				if args == "null" {
					args = "{}"
				}
				var tmp any
				d2 := json.NewDecoder(strings.NewReader(args))
				_ = d2.Decode(&tmp)
				cb, _ := json.Marshal(tmp)
				blocks = append(blocks, map[string]any{"t": "tool", "id": id, "name": nm, "args": string(cb)})
			default:
				shape = "unknown content block type"
			}
		}
		u, _ := m["usage"].(map[string]any)
		in, _ := asInt(u["input_tokens"])
		ot, _ := asInt(u["output_tokens"])
		stop, _ := m["stop_reason"].(string)
		model, _ := m["model"].(string)
		res["blocks"] = blocks
		res["stop"] = stop
		res["in"] = in
		res["out"] = ot
		res["model"] = model
		res["shape"] = shape
	}()
	return res
}

func bufferedMap(r *vlib.Rng, b bufResp, model string) map[string]any {
	msg := map[string]any{"role": "assistant"}
	if b.Content != nil {
		msg["content"] = *b.Content
	} else if r.Bool() {
		msg["content"] = nil
	}
	if len(b.Calls) > 0 || r.Chance(1, 4) {
		tcs := []any{}
		for _, c := range b.Calls {
			tcs = append(tcs, map[string]any{"id": c.ID, "type": "function", "function": map[string]any{"name": c.Name, "arguments": c.Args}})
		}
		msg["tool_calls"] = tcs
	}
	choice := map[string]any{"index": float64(0), "message": msg}
	if b.Finish != nil {
		choice["finish_reason"] = *b.Finish
	} else if r.Bool() {
		choice["finish_reason"] = nil
	}
	resp := map[string]any{"id": "chatcmpl-1", "object": "chat.completion", "choices": []any{choice}}
	if model != "" {
		resp["model"] = model
	}
	if b.Usage != nil {
		u := map[string]any{}
		if b.Usage.P != nil {
			u["prompt_tokens"] = float64(*b.Usage.P)
		}
		if b.Usage.C != nil {
			u["completion_tokens"] = float64(*b.Usage.C)
		}
		resp["usage"] = u
	}
	return resp
}

// ---------------------------------------------------------------- cases

type env struct {
	c        *vlib.Cases
	r        *vlib.Rng
	tr       *anthropic.Translator
	// trBase / trInsp: the translator with the debugging inspector off (default) / on (translators.anthropic.inspector.enabled)
	trBase, trInsp *anthropic.Translator
	thorough       bool
	// overrides for the boundary cases (zero values = the defaults above): the read chunkings to use and the longest
	// SSE line admitted (never above 1 MiB - 1: longer lines are outside the property)
	ks        []int
	lineLimit int
	fragRng   *vlib.Rng
}

// drawRender draws the rendering options of one stream case and renders it.  The number of draws does not depend on the
// LENGTH of any string in `lines` (only on which fields are present / empty), so a caller that saves and restores *e.r
// sees the very rendering streamCase will produce for lines that differ in the length of a fragment only (dryMaxLine).
func (e *env) drawRender(lines []Line) (sseOpts, string, bool) {
	r := e.r
	rd := &renderer{r: r, escMode: r.Intn(3), shuffle: r.Bool()}
	so := sseOpts{sep: vlib.Pick(r, []string{"\n\n", "\n\n", "\n", "\r\n\r\n", "\n\n\n"}), noFinalNL: r.Chance(1, 6), done: r.Chance(3, 4)}
	sse := renderSSE(rd, lines, so)
	// the translator's bufio.Scanner refuses lines over 1 MiB and aborts the stream (documented
	// assumption of this property, see checks/C13.json): keep every line below that
	lim := 1<<20 - 4096
	if e.lineLimit > 0 {
		lim = e.lineLimit
	}
	if maxLine(sse) > lim {
		rd.escMode = 1
		sse = renderSSE(rd, lines, so)
		if maxLine(sse) > lim {
			return so, sse, false
		}
	}
	return so, sse, true
}

// dryMaxLine: the length of the longest SSE line streamCase would render for `lines`, without consuming the PRNG.
func (e *env) dryMaxLine(lines []Line) int {
	saved := *e.r
	defer func() { *e.r = saved }()
	_, sse, _ := e.drawRender(lines)
	return maxLine(sse)
}

func (e *env) streamCase(class string, lines []Line, comp *completion, withBuffered bool) {
	r := e.r
	so, sse, fits := e.drawRender(lines)
	if !fits {
		e.c.Count("skipped.line-over-1MiB")
		return
	}
	ks := []int{0, 1 + r.Intn(5), 1 + r.Intn(5)}
	if e.thorough || len(sse) < 300 {
		ks = []int{0, 1, 2, 3, 4, 5}
	}
	if len(sse) > 200000 {
		ks = []int{0, 3, 4}
	}
	if e.ks != nil {
		ks = e.ks
	}
	var first streamResult
	equal := true
	for i, k := range ks {
		rs := r.Fork()
		res := runStream(e.tr, func() io.Reader { cp := *rs; return reader(&cp, k, sse) })
		if i == 0 {
			first = res
			continue
		}
		if !sameEvents(first.events, res.events) || first.err != res.err || first.panic != res.panic || first.timeout != res.timeout {
			equal = false
			// report the differing run as the implementation's answer if the first one looked fine
			if first.err == "" && first.panic == "" && !first.timeout {
				first = res
			}
		}
	}
	impl := map[string]any{"events": first.events, "err": first.err, "panic": first.panic, "timeout": first.timeout,
		"chunkings": len(ks), "chunk_equal": equal, "content_type": first.ctype}
	m := map[string]any{"kind": "stream", "class": class, "lines": lines, "impl": impl, "saw_done": sawDone(lines, so), "inspector": e.tr == e.trInsp && e.trInsp != nil}
	if len(sse) <= 3000 && !(e.thorough && len(sse) > 1200) {
		m["sse"] = strings.ToValidUTF8(sse, "\uFFFD")
	}
	if comp != nil {
		m["segs"] = comp.segs
		if withBuffered {
			b := bufResp{Calls: []bufCall{}, Finish: comp.finish, Usage: comp.usage}
			text := ""
			canonical := true
			for _, s := range comp.segs {
				if s.T == "text" {
					text += strings.Join(s.Pieces, "")
				} else {
					args := s.First + strings.Join(s.Pieces, "")
					ao, ok := canonObj(args)
					if args == "" {
						ok = true
					}
					if !ok || (args != "" && ao != args) {
						canonical = false
					}
					b.Calls = append(b.Calls, bufCall{ID: s.ID, Name: s.Name, Args: args, ArgsObj: ao})
				}
			}
			b.Content = sp(text)
			m["buffered"] = map[string]any{"resp": b, "impl": runBuffered(e.tr, bufferedMap(r, b, comp.model)), "pair": canonical}
		}
	}
	e.c.Emit(m)
	e.c.Count("stream." + class)
}

func (e *env) withNoise(lines []Line, level int) []Line {
	if level == 0 {
		return lines
	}
	r := e.r
	odd := oddLines()
	var out []Line
	for i := 0; i <= len(lines); i++ {
		for r.Chance(level, 8) {
			if level >= 2 && r.Chance(1, 3) {
				out = append(out, vlib.Pick(r, odd))
			} else {
				out = append(out, ignorable(r))
			}
		}
		if i < len(lines) {
			out = append(out, lines[i])
		}
	}
	return out
}

func lineFromJSON(m map[string]any) Line {
	b, _ := json.Marshal(m)
	var l Line
	_ = json.Unmarshal(b, &l)
	return l
}

// e2e: a completion of `size` bytes of text through the production stack on the Anthropic translation route
// (translators.anthropic.max_message_size = limit, which bounds REQUESTS), buffered or streamed. The client must
// hold a well-formed Anthropic message whose text is the backend's.
func e2e(engine string, size int, stream bool, limit int64) map[string]any {
	text := strings.Repeat("lorem ipsum dolor sit amet, ", size/28+1)[:size]
	b := stack.NewBackend("B")
	defer b.Close()
	b.SetScript(func(_ int, sn *stack.Seen) stack.Behaviour {
		if anth.WantsStream(sn.Body) {
			var sb strings.Builder
			chunk := func(v map[string]any) { j, _ := json.Marshal(v); sb.WriteString("data: " + string(j) + "\n\n") }
			for off := 0; off < len(text); off += 4096 {
				end := off + 4096
				if end > len(text) {
					end = len(text)
				}
				chunk(map[string]any{"id": "c1", "object": "chat.completion.chunk", "model": "m1", "choices": []any{map[string]any{"index": 0, "delta": map[string]any{"content": text[off:end]}}}})
			}
			chunk(map[string]any{"id": "c1", "object": "chat.completion.chunk", "model": "m1", "choices": []any{map[string]any{"index": 0, "delta": map[string]any{}, "finish_reason": "stop"}}})
			sb.WriteString("data: [DONE]\n\n")
			return stack.Behaviour{Kind: "ok", Status: 200, Headers: [][2]string{{"Content-Type", "text/event-stream"}}, Body: []byte(sb.String()), Chunked: true}
		}
		j, _ := json.Marshal(map[string]any{"id": "c1", "object": "chat.completion", "created": 1, "model": "m1",
			"choices": []any{map[string]any{"index": 0, "message": map[string]any{"role": "assistant", "content": text}, "finish_reason": "stop"}},
			"usage":   map[string]any{"prompt_tokens": 3, "completion_tokens": 7, "total_tokens": 10}})
		return stack.Behaviour{Kind: "ok", Status: 200, Headers: [][2]string{{"Content-Type", "application/json"}}, Body: j}
	})
	s, err := stack.Start(stack.Opts{Vary: stack.VaryFor("c13.e2e", engine, size, stream, limit), Engine: engine, Balancer: "priority", EPs: []stack.EP{{Name: "B", Type: "openai", Priority: 100, Backend: b}},
		Mutate: func(cfg *config.Config) {
			cfg.Translators.Anthropic.Enabled = true
			cfg.Translators.Anthropic.MaxMessageSize = limit
		}})
	if err != nil {
		return map[string]any{"start_err": err.Error()}
	}
	defer s.Stop()
	if err := anth.Register(s, b, []string{anth.Model}); err != nil {
		return map[string]any{"start_err": "register: " + err.Error()}
	}
	deadline := time.Now().Add(3 * time.Second)
	for !anth.Routable(s, []*stack.Backend{b}, anth.Model) && time.Now().Before(deadline) {
		time.Sleep(2 * time.Millisecond)
	}
	r := stack.Do(s.Addr, stack.Request("POST", "/olla/anthropic/v1/messages", s.Addr, [][2]string{{"Content-Type", "application/json"}, {"anthropic-version", "2023-06-01"}}, anth.AnthropicBody(anth.Model, stream, "e2e"), false), 8*time.Second)
	got := ""
	if stream {
		for _, line := range strings.Split(string(r.Body), "\n") {
			if strings.HasPrefix(line, "data: ") {
				var ev struct {
					Type  string `json:"type"`
					Delta struct {
						Text string `json:"text"`
					} `json:"delta"`
				}
				if json.Unmarshal([]byte(line[6:]), &ev) == nil && ev.Type == "content_block_delta" {
					got += ev.Delta.Text
				}
			}
		}
	} else {
		var msg struct {
			Type    string `json:"type"`
			Content []struct {
				Type string `json:"type"`
				Text string `json:"text"`
			} `json:"content"`
		}
		if json.Unmarshal(r.Body, &msg) == nil && msg.Type == "message" {
			for _, c := range msg.Content {
				got += c.Text
			}
		}
	}
	head := string(r.Body)
	if len(head) > 160 {
		head = head[:160]
	}
	return map[string]any{"status": r.Status, "err": r.Err, "text_len": len(got), "text_equal": got == text, "want_len": len(text), "head": head,
		"complete": !stream || strings.Contains(string(r.Body), "event: message_stop")}
}

// ---------------------------------------------------------------- boundary-biased sizes (round 8)
//
// One fragment of a completion (the arguments string of ONE tool_calls delta, or the content of ONE text delta) is made
// large: its length in bytes sits on / next to a power of two between 4 KiB and 512 KiB, a multiple of 64 KiB or 128 KiB,
// a size well above the typical, or is chosen so that the SSE LINE that carries it has such a length (the line reader's
// buffer starts at 64 KiB, doubles, and ends at 1 MiB).  Around every such offset INSIDE the fragment a character of
// 1, 2, 3 or 4 bytes is placed at every alignment (beginning 0..w bytes before the offset).  The cases are ordinary
// completions: they are judged by the clauses every other stream case is judged by (deltas reproduce the backend's text /
// each call's id, name, arguments; grammar; stop/usage; streamed = buffered; model = implementation).

var wideChars = [5][]string{nil, {"a", "e", "k", "z", "Q", "7", " "}, {"é", "ñ", "ß", "Ж", "߿", "\u0080"}, {"日", "語", "€", "ࠀ", "�", "￮"}, {"🎉", "😀", "𝄞", "\U00010000", "\U0010fffd", "\U000e0067"}}

// atoms the filler draws from: `plain` is every character as the backend's TEXT carries it; `inArgs` is the same inside
// an arguments string, where the backend has JSON-encoded the value once already (Go's canonical escapes, so that the
// buffered translation re-encodes to the same string)
var fillText = []string{"\n", "\"", "\\", "\t", "/", "<", "&", "é", "ß", "日", "€", "🎉", "𝄞", "\\u00e9", "\\n", " "}
var fillArgs = []string{"\\n", "\\\"", "\\\\", "\\t", "/", "é", "ß", "日", "€", "🎉", "𝄞", "\\\\u00e9", "\\\\n"}

type mark struct{ at, w, j int } // a character of w bytes beginning j bytes before offset `at` of the fragment

// sized returns a string of EXACTLY n bytes: prefix, filler, suffix, with the marks' characters at their places (a mark
// that does not fit between prefix and suffix, or overlaps an earlier one, is dropped).  mixed = 0: the filler is ASCII
// letters only; mixed = k > 0: one atom of `atoms` every ~k letters.
func sized(r *vlib.Rng, prefix, suffix string, n int, marks []mark, atoms []string, mixed int) string {
	if n < len(prefix)+len(suffix) {
		n = len(prefix) + len(suffix)
	}
	sort.Slice(marks, func(a, b int) bool { return marks[a].at-marks[a].j < marks[b].at-marks[b].j })
	end := n - len(suffix)
	var b strings.Builder
	b.Grow(n)
	b.WriteString(prefix)
	mi := 0
	const letters = "abcdefghijklmnopqrstuvwxyz ABCDEFGHIJKLMNOPQRSTUVWXYZ0123456789_-.,"
	for b.Len() < end {
		pos := b.Len()
		for mi < len(marks) && marks[mi].at-marks[mi].j < pos {
			mi++ // overlaps what is written already
		}
		next := end // where the filler must stop
		if mi < len(marks) {
			st := marks[mi].at - marks[mi].j
			if st+marks[mi].w > end {
				mi = len(marks)
			} else if st == pos {
				b.WriteString(vlib.Pick(r, wideChars[marks[mi].w]))
				mi++
				continue
			} else {
				next = st
			}
		}
		if mixed > 0 && r.Chance(1, mixed) {
			if a := vlib.Pick(r, atoms); pos+len(a) <= next {
				b.WriteString(a)
				continue
			}
		}
		b.WriteByte(letters[r.Intn(len(letters))])
	}
	b.WriteString(suffix)
	return b.String()
}

// limits of the anchored code and the sizes a size bug is likely to hinge on
var sizeLimits = []int{4096, 8192, 16384, 32768, 65536, 131072, 262144, 524288}

// marksFor: a character at some alignment around every power of two and every multiple of 64 KiB inside a fragment of n
// bytes (each with probability 3/4); `forced` is placed first and wins overlaps by being sorted first at equal start.
func marksFor(r *vlib.Rng, n int, forced []mark) []mark {
	ms := append([]mark{}, forced...)
	taken := map[int]bool{}
	for _, m := range forced {
		taken[m.at] = true
	}
	add := func(at int) {
		if at <= 0 || at > n+4 || taken[at] || !r.Chance(3, 4) {
			return
		}
		taken[at] = true
		w := vlib.Pick(r, []int{1, 2, 3, 3, 4, 4, 4})
		ms = append(ms, mark{at: at, w: w, j: r.Intn(w + 1)})
	}
	for _, l := range sizeLimits {
		add(l)
	}
	for at := 65536; at <= n+4; at += 65536 {
		add(at)
	}
	add(n) // a wide character at the very end of the fragment
	return ms
}

// boundarySize draws a fragment length: on / next to a limit, a multiple of it, or well above the typical.
func boundarySize(r *vlib.Rng, maxN int) int {
	var n int
	switch r.Intn(10) {
	case 0, 1, 2, 3:
		n = vlib.Pick(r, sizeLimits) + vlib.Pick(r, []int{-4, -3, -2, -1, 0, 1, 2, 3, 4, 5, 17})
	case 4, 5:
		n = vlib.Pick(r, []int{65536, 131072})*(2+r.Intn(5)) + vlib.Pick(r, []int{-3, -1, 0, 1, 2, 3, 4, 1000})
	case 6:
		n = vlib.Pick(r, []int{131072, 262144, 524288}) + 1 + r.Intn(70000) // just over: a second part much shorter than the first
	case 7:
		n = 65536 + r.Intn(maxN-65536) // 64 KiB .. ~1 MiB, any value
	case 8:
		n = vlib.Pick(r, []int{100000, 1000000, 10 * 65536, 640000, 999999, 3 * 131072 / 2}) // decimal sizes, 10x, non-integer ratios
	default:
		n = maxN - r.Intn(2000)
	}
	if n > maxN {
		n = maxN - r.Intn(64)
	}
	return n
}

type bigFrag struct {
	args   bool   // the arguments of a tool call (else a text delta)
	n      int    // bytes in the large fragment
	forced []mark // alignment sweep
	mixed  int
	layout int // args: 0 the whole arguments in the opening fragment, 1 in one fragment after an empty opening one, 2 lead / LARGE / tail, 3 lead / LARGE / LARGE / tail
	// lineTarget > 0: pad the fragment (ASCII letters before its end) until the SSE line that carries it is exactly this long
	lineTarget int
}

func (e *env) boundaryCase(class string, bf bigFrag) {
	r := e.r
	var comp completion
	comp.model = vlib.Pick(r, []string{"gpt-4o", "llama3.1:8b", "qwen2.5-coder", ""})
	build := func(pad int) {
		rs := *e.fragRng // the same content on every call, `pad` more letters before the end
		fr := &rs
		comp.segs = nil
		if bf.args {
			atoms := fillArgs
			var s Seg
			id, name := "call_"+genIdent(fr), genIdent(fr)
			switch bf.layout {
			case 0, 1:
				whole := sized(fr, `{"blob":"`, strings.Repeat("x", pad)+`"}`, bf.n+pad, marksFor(fr, bf.n, bf.forced), atoms, bf.mixed)
				if bf.layout == 0 {
					s = Seg{T: "call", ID: id, Name: name, First: whole, Pieces: []string{}}
				} else {
					s = Seg{T: "call", ID: id, Name: name, First: "", Pieces: []string{"", whole}}
				}
			default:
				lead := `{"k":` + strconv.Itoa(fr.Intn(1000)) + `,"blob":"` + strings.Repeat("y", fr.Intn(20))
				ps := []string{lead, sized(fr, "", strings.Repeat("x", pad), bf.n+pad, marksFor(fr, bf.n, bf.forced), atoms, bf.mixed)}
				if bf.layout == 3 {
					n2 := boundarySize(fr, 300000)
					ps = append(ps, sized(fr, "", "", n2, marksFor(fr, n2, nil), atoms, bf.mixed))
				}
				ps = append(ps, `","n":null}`)
				s = Seg{T: "call", ID: id, Name: name, First: "", Pieces: ps}
				if fr.Bool() {
					s.First, s.Pieces = ps[0], ps[1:]
				}
			}
			if fr.Chance(1, 3) {
				comp.segs = append(comp.segs, genText(fr))
			}
			comp.segs = append(comp.segs, s)
			if fr.Chance(1, 3) {
				comp.segs = append(comp.segs, genCall(fr, 1, 0))
			}
			comp.finish = sp("tool_calls")
		} else {
			ps := []string{}
			if fr.Bool() {
				ps = append(ps, genStr(fr, 1, 14))
			}
			ps = append(ps, sized(fr, "", strings.Repeat("x", pad), bf.n+pad, marksFor(fr, bf.n, bf.forced), fillText, bf.mixed))
			if fr.Bool() {
				ps = append(ps, genStr(fr, 1, 14))
			}
			comp.segs = append(comp.segs, Seg{T: "text", Pieces: ps})
			comp.finish = sp(vlib.Pick(fr, []string{"stop", "length"}))
			if fr.Chance(1, 3) {
				comp.segs = append(comp.segs, genCall(fr, 0, 0))
				comp.finish = sp("tool_calls")
			}
		}
		comp.usage = &Usage{P: ip(int64(fr.Intn(5000))), C: ip(int64(fr.Intn(300000)))}
	}
	e.fragRng = r.Fork()
	o := renderOpts{usageMode: vlib.Pick(r, []int{0, 0, 1, 2}), roleFirst: r.Bool(), contentNull: r.Chance(1, 3), finishOnLast: r.Chance(1, 6)}
	lr := r.Fork()
	mkLines := func() []Line { cp := *lr; return toLines(&cp, comp, o) }
	build(0)
	lines := mkLines()
	// read sizes around the line reader's buffer sizes, besides the whole body at once and small random reads
	ks := []int{0, vlib.Pick(r, []int{4095, 4096, 4097, 32768, 65535, 65536, 65537, 131072, 1<<20 - 1, 1 << 20}), vlib.Pick(r, []int{3, 4, 5, 1000 + r.Intn(9000)})}
	withBuffered := bf.args || r.Chance(1, 3)
	e.lineLimit = 1<<20 - 1
	defer func() { e.lineLimit = 0; e.ks = nil }()
	if bf.lineTarget > 0 {
		if have := e.dryMaxLine(lines); have <= bf.lineTarget {
			build(bf.lineTarget - have)
			lines = mkLines()
			if e.dryMaxLine(lines) == bf.lineTarget {
				e.c.Count("boundary.line-length-hit")
			} else {
				e.c.Count("boundary.line-length-missed")
			}
		} else {
			e.c.Count("boundary.line-length-missed")
		}
	}
	e.ks = ks
	e.streamCase(class, lines, &comp, withBuffered) // nothing may be drawn from r between dryMaxLine and here
}

func (e *env) boundaryCases() {
	r := e.r
	for w := 1; w <= 4; w++ {
		for _, c := range wideChars[w] {
			if len(c) != w || utf8.RuneCountInString(c) != 1 {
				panic(fmt.Sprintf("wideChars[%d]: %q has %d bytes", w, c, len(c)))
			}
		}
	}
	// 1. alignment sweep: a character of every width at every alignment around the limits found in (or plausible for) the
	// anchored code, in a fragment that goes well beyond the limit
	type sw struct {
		at     int
		widths []int
		args   bool
	}
	sweeps := []sw{{131072, []int{1, 2, 3, 4}, true}, {65536, []int{3, 4}, true}, {131072, []int{4}, false}, {65536, []int{4}, false}, {32768, []int{3, 4}, false}}
	if e.thorough {
		sweeps = nil
		for _, at := range []int{4096, 8192, 16384, 32768, 65536, 131072, 262144, 524288} {
			sweeps = append(sweeps, sw{at, []int{1, 2, 3, 4}, true}, sw{at, []int{2, 3, 4}, false})
		}
	}
	for _, s := range sweeps {
		for _, w := range s.widths {
			for j := 0; j <= w; j++ {
				n := s.at + vlib.Pick(r, []int{1, 2, 3, 4, 5, 64, 4096, s.at / 2, s.at, s.at + 7})
				forced := []mark{{at: s.at, w: w, j: j}}
				// the same alignment again at the next multiple, should the fragment reach it
				forced = append(forced, mark{at: 2 * s.at, w: w, j: j})
				e.boundaryCase("boundary.alignment-sweep", bigFrag{args: s.args, n: n, forced: forced, mixed: vlib.Pick(r, []int{0, 0, 40}), layout: r.Intn(4)})
			}
		}
	}
	// 2. sizes on, next to, at multiples of and far beyond the limits; mixed-width content
	nr := 36
	if e.thorough {
		nr = 400
	}
	for i := 0; i < nr; i++ {
		bf := bigFrag{args: r.Chance(3, 5), mixed: vlib.Pick(r, []int{0, 0, 12, 40, 3}), layout: r.Intn(4)}
		maxN := 1000000
		if bf.mixed > 0 && bf.mixed < 40 {
			maxN = 330000 // raw UTF-8 stays below the line limit even where every quote / backslash doubles
		}
		bf.n = boundarySize(r, maxN)
		if bf.args && bf.layout == 3 && bf.n > 600000 {
			bf.layout = 2
		}
		e.boundaryCase("boundary.fragment-size", bf)
	}
	// 3. the SSE line itself on / next to the line reader's buffer sizes (64 KiB initial, doubling, 1 MiB maximum: a line
	// of 1 MiB - 1 bytes is the longest the property covers)
	targets := []int{65535, 65536, 65537, 131071, 131072, 131073, 262144, 524287, 524288, 524289, 1<<20 - 1, 1<<20 - 2, 1<<20 - 3}
	if e.thorough {
		for _, p := range []int{4096, 8192, 16384, 32768, 65536, 131072, 262144, 524288} {
			for d := -3; d <= 3; d++ {
				targets = append(targets, p+d)
			}
		}
		for d := 1; d <= 12; d++ {
			targets = append(targets, 1<<20-d)
		}
	}
	for _, t := range targets {
		n := t - 1500
		if n < 1000 {
			n = 1000
		}
		e.boundaryCase("boundary.line-length", bigFrag{args: r.Bool(), n: n, mixed: 0, layout: r.Intn(3), lineTarget: t})
	}
}

func main() {
	tier := vlib.Tier()
	e := &env{c: vlib.OpenCases("cases.jsonl"), r: vlib.NewRng(vlib.Seed()).Fork(), thorough: tier == "thorough",
		tr: anthropic.NewTranslator(vlib.QuietLogger(), config.AnthropicTranslatorConfig{Enabled: true, MaxMessageSize: 10 << 20})}
	e.trBase = e.tr
	if dir, err := os.MkdirTemp(vlib.OutDir(), "inspector"); err == nil {
		defer os.RemoveAll(dir)
		e.trInsp = anthropic.NewTranslator(vlib.QuietLogger(), config.AnthropicTranslatorConfig{Enabled: true, MaxMessageSize: 10 << 20,
			Inspector: config.InspectorConfig{Enabled: true, OutputDir: dir, SessionHeader: "X-Session-ID"}})
	}
	r := e.r

	if p := vlib.ReplayPath(); p != "" {
		b, err := os.ReadFile(p)
		if err != nil {
			fmt.Fprintln(os.Stderr, "replay:", err)
			os.Exit(3)
		}
		var doc map[string]any
		_ = json.Unmarshal(b, &doc)
		fc, _ := doc["failing_case"].(map[string]any)
		if fc == nil {
			fc = doc
		}
		var lines []Line
		for _, l := range fc["lines"].([]any) {
			lines = append(lines, lineFromJSON(l.(map[string]any)))
		}
		var comp *completion
		if sj, ok := fc["segs"]; ok {
			sb, _ := json.Marshal(sj)
			var segs []Seg
			_ = json.Unmarshal(sb, &segs)
			comp = &completion{segs: segs}
		}
		if v, _ := fc["inspector"].(bool); v && e.trInsp != nil {
			e.tr = e.trInsp
		}
		e.streamCase("replay", lines, comp, comp != nil)
		e.c.Close(map[string]any{"replay": p})
		return
	}

	// ---- corpus: the known witnesses and corner cases first
	two := completion{model: "m", finish: sp("tool_calls"), usage: &Usage{P: ip(7), C: ip(9)},
		segs: []Seg{{T: "call", Idx: 0, ID: "call_a", Name: "f", First: "{}", Pieces: []string{}}, {T: "call", Idx: 1, ID: "call_b", Name: "g", First: "{}", Pieces: []string{}}}}
	e.streamCase("witness.two-tools", toLines(r, two, renderOpts{}), &two, true)
	three := completion{model: "m", finish: sp("tool_calls"),
		segs: []Seg{{T: "text", Pieces: []string{"Let me ", "check."}}, {T: "call", Idx: 0, ID: "call_a", Name: "f", First: "", Pieces: []string{"{\"a\"", ":1}"}},
			{T: "call", Idx: 1, ID: "call_b", Name: "g", First: "", Pieces: []string{"{}"}}, {T: "call", Idx: 2, ID: "call_c", Name: "h", First: "", Pieces: []string{"{\"x\":[1,2]}"}}}}
	e.streamCase("witness.three-tools", toLines(r, three, renderOpts{roleFirst: true}), &three, true)
	usageOnly := completion{model: "m", finish: sp("stop"), usage: &Usage{P: ip(7), C: ip(9)}, segs: []Seg{{T: "text", Pieces: []string{"hi"}}}}
	e.streamCase("witness.usage-chunk", toLines(r, usageOnly, renderOpts{usageMode: 1}), &usageOnly, true)
	mixed := completion{model: "m", finish: sp("tool_calls"), segs: []Seg{{T: "text", Pieces: []string{"hi"}}, {T: "call", Idx: 0, ID: "call_a", Name: "f", First: "{}", Pieces: []string{}}}}
	e.streamCase("witness.mixed-delta", toLines(r, mixed, renderOpts{mixed: true}), &mixed, true)
	emptyC := completion{}
	e.streamCase("corner.empty-stream", nil, &emptyC, false)
	e.streamCase("corner.only-done", []Line{}, &emptyC, false)
	e.streamCase("corner.empty-completion", toLines(r, completion{model: "m", finish: sp("stop")}, renderOpts{roleFirst: true}), &completion{segs: []Seg{}}, false)
	for _, l := range oddLines() {
		e.streamCase("corner.odd-shape", []Line{l}, nil, false)
	}
	for i := 0; i < 40; i++ {
		e.streamCase("corner.ignorable", []Line{ignorable(r)}, nil, false)
	}

	// ---- completions x renderings x noise
	n := 3600
	if e.thorough {
		n = 30000
	}
	for i := 0; i < n; i++ {
		shape := vlib.Pick(r, []int{0, 0, 1, 1, 2, 2, 2, 3, 3, 4})
		big := 0
		if r.Chance(1, 150) {
			big = 65536
			if e.thorough && r.Chance(1, 4) {
				big = 300000
			}
		}
		comp := genCompletion(r, shape, big)
		// the inspector (a configuration option that only logs) on for a quarter of the cases; a long text (more runes than
		// any log abbreviation threshold in sight) now and then
		e.tr = e.trBase
		if e.trInsp != nil && r.Chance(1, 4) {
			e.tr = e.trInsp
			e.c.Count("inspector.on")
		}
		bigText := big == 0 && r.Chance(1, 60)
		if bigText {
			for si := range comp.segs {
				if comp.segs[si].T == "text" {
					unit := vlib.Pick(r, []string{"lorem ipsum ", "é", "模型 ", "a"})
					total := vlib.Pick(r, []int{32768, 32769, 40000, 70000})
					np := 1 + r.Intn(6)
					ps := make([]string, np)
					for pi := range ps {
						ps[pi] = strings.Repeat(unit, total/np/len([]rune(unit))+1)
					}
					comp.segs[si].Pieces = ps
					break
				}
			}
		}
		o := renderOpts{usageMode: vlib.Pick(r, []int{0, 0, 0, 1, 1, 2, 3}), groupFrags: r.Chance(1, 4), mixed: r.Chance(1, 25),
			emptyTools: r.Chance(1, 10), roleFirst: r.Chance(2, 3), contentNull: r.Chance(1, 3), finishOnLast: r.Chance(1, 5)}
		lines := toLines(r, comp, o)
		noise := vlib.Pick(r, []int{0, 0, 1, 2})
		lines = e.withNoise(lines, noise)
		class := fmt.Sprintf("completion.shape%d", shape)
		if big > 0 {
			class = "completion.big-arguments"
		} else if bigText {
			class = "completion.big-text"
		}
		e.streamCase(class, lines, &comp, true)
		e.tr = e.trBase
		if noise > 0 {
			e.c.Count("noise.level" + strconv.Itoa(noise))
		}
		e.c.Count("usage.mode" + strconv.Itoa(o.usageMode))
	}

	// ---- boundary-biased sizes: large single fragments, wide characters at every alignment around the limits
	e.boundaryCases()

	// ---- one translator, many clients at once, after some clients died mid-stream
	e.sharedCase(8, map[bool]int{false: 30, true: 300}[e.thorough])
	e.sharedCase(3, map[bool]int{false: 30, true: 300}[e.thorough])

	// ---- arbitrary interleavings (totality clause)
	ni := 1200
	if e.thorough {
		ni = 10000
	}
	for i := 0; i < ni; i++ {
		e.streamCase("interleaved", e.withNoise(interleavedLines(r), vlib.Pick(r, []int{0, 1, 2})), nil, false)
	}

	// ---- buffered path on its own: odd arguments, shapes TransformResponse rejects
	nb := 300
	if e.thorough {
		nb = 3000
	}
	for i := 0; i < nb; i++ {
		b := bufResp{Calls: []bufCall{}}
		if r.Chance(3, 4) {
			b.Content = sp(genStr(r, 0, 30))
		}
		for k := r.Intn(4); k > 0; k-- {
			args := genArgs(r, 0)
			switch r.Intn(8) {
			case 0:
				args = ""
			case 1:
				args = "{not json"
			case 2:
				args = "[1,2]"
			case 3:
				args = " { \"b\" : 1 , \"a\" : [ ] } "
			}
			ao, _ := canonObj(args)
			id := "call_" + genIdent(r)
			if r.Chance(1, 10) {
				id = ""
			}
			b.Calls = append(b.Calls, bufCall{ID: id, Name: genIdent(r), Args: args, ArgsObj: ao})
		}
		if r.Chance(5, 6) {
			b.Finish = sp(vlib.Pick(r, []string{"stop", "tool_calls", "length", "content_filter", "function_call", "", "zz-junk"}))
		}
		if r.Chance(3, 4) {
			b.Usage = &Usage{P: ip(int64(r.Intn(5000))), C: ip(int64(r.Intn(5000)))}
			if r.Chance(1, 8) {
				b.Usage.C = nil
			}
		}
		e.c.Emit(map[string]any{"kind": "buffered", "resp": b, "impl": runBuffered(e.tr, bufferedMap(r, b, vlib.Pick(r, []string{"m", ""})))})
		e.c.Count("buffered.valid-shape")
	}
	for _, bad := range []any{nil, "x", []any{}, map[string]any{}, map[string]any{"choices": "x"}, map[string]any{"choices": []any{}},
		map[string]any{"choices": []any{"x"}}, map[string]any{"choices": []any{map[string]any{}}}, map[string]any{"choices": []any{map[string]any{"message": "x"}}},
		map[string]any{"error": map[string]any{"message": "boom"}}} {
		var res map[string]any
		if m, ok := bad.(map[string]any); ok {
			res = runBuffered(e.tr, m)
		} else {
			res = map[string]any{}
			func() {
				defer func() {
					if p := recover(); p != nil {
						res["panic"] = fmt.Sprint(p)
					}
				}()
				_, err := e.tr.TransformResponse(context.Background(), bad, httptest.NewRequest("POST", "/", nil))
				if err != nil {
					res["err"] = err.Error()
				}
			}()
		}
		e.c.Emit(map[string]any{"kind": "buffered-badshape", "impl": res})
		e.c.Count("buffered.bad-shape")
	}

	// end to end through the production stack: completions smaller and larger than max_message_size (a bound on requests)
	for _, engine := range []string{"sherpa", "olla"} {
		for _, stream := range []bool{false, true} {
			for _, sz := range []int{900, 150 << 10, 700 << 10} {
				e.c.Emit(map[string]any{"kind": "e2e", "engine": engine, "stream": stream, "size": sz, "limit": 64 << 10, "impl": e2e(engine, sz, stream, 64<<10)})
				e.c.Count("e2e")
			}
		}
	}
	e.c.Close(map[string]any{"exhaustive": false,
		"exhaustive_note": "the input space is infinite; every hand-written odd JSON shape and every ignorable line kind is run once on its own (exhaustive over those two finite lists), everything else is sampled",
		"chunkings":       "0 whole, 1 one byte per Read, 2 one rune per Read, 3 random 1..23 byte reads, 4 reads split inside every id/name/arguments/content value and after every newline, 5 data+EOF in one Read; each stream is run under 3 of them (all 6 when small or in the thorough tier) and the outputs must be identical"})
}
