//go:build verif

// gen_streaming renders Olla/Gen/Streaming.lean by RUNNING the compiled code:
//   - core.AutoDetectStreamingMode over every constants.ContentType* value (plain, with a charset
//     parameter, upper-cased, one concrete subtype per prefix constant, empty, unknown) x the three
//     proxy profiles x the client's stream flag in the context (constants.ContextKeyStream);
//   - the read-timeout defaults each engine falls back to, and config.DefaultConfig()'s value;
//   - the ClientDisconnection thresholds of both engines.
// The constants are referenced by symbol; the set of names is cross-checked against the source file
// (go/parser over internal/core/constants/content.go, cwd = the repo) so that a ContentType constant
// added later cannot be silently left out of the table.
package main

import (
	"context"
	"fmt"
	"go/ast"
	"go/parser"
	"go/token"
	"net/http"
	"os"
	"sort"
	"strings"
	"time"

	pconfig "github.com/thushan/olla/internal/adapter/proxy/config"
	"github.com/thushan/olla/internal/adapter/proxy/core"
	"github.com/thushan/olla/internal/adapter/proxy/olla"
	"github.com/thushan/olla/internal/adapter/proxy/sherpa"
	"github.com/thushan/olla/internal/app/services"
	"github.com/thushan/olla/internal/config"
	"github.com/thushan/olla/internal/core/constants"
	"github.com/thushan/olla/internal/zz_verif/vlib"
)

type ctc struct {
	name, val string
	prefix    bool
}

var cts = []ctc{
	{"JSON", constants.ContentTypeJSON, false},
	{"Text", constants.ContentTypeText, false},
	{"HTML", constants.ContentTypeHTML, false},
	{"XML", constants.ContentTypeXML, false},
	{"JavaScript", constants.ContentTypeJavaScript, false},
	{"CSS", constants.ContentTypeCSS, false},
	{"FormURLEncoded", constants.ContentTypeFormURLEncoded, false},
	{"EventStream", constants.ContentTypeEventStream, false},
	{"NDJSON", constants.ContentTypeNDJSON, false},
	{"StreamJSON", constants.ContentTypeStreamJSON, false},
	{"JSONSeq", constants.ContentTypeJSONSeq, false},
	{"TextUTF8", constants.ContentTypeTextUTF8, false},
	{"PDF", constants.ContentTypePDF, false},
	{"ZIP", constants.ContentTypeZIP, false},
	{"GZIP", constants.ContentTypeGZIP, false},
	{"TAR", constants.ContentTypeTAR, false},
	{"RAR", constants.ContentTypeRAR, false},
	{"7Z", constants.ContentType7Z, false},
	{"OctetStream", constants.ContentTypeOctetStream, false},
	{"Excel", constants.ContentTypeExcel, false},
	{"WordDOCX", constants.ContentTypeWordDOCX, false},
	{"OfficeDocument", constants.ContentTypeOfficeDocument, false},
	{"WordDOC", constants.ContentTypeWordDOC, false},
	{"PowerPoint", constants.ContentTypePowerPoint, false},
	{"ImagePNG", constants.ContentTypeImagePNG, false},
	{"ImageJPEG", constants.ContentTypeImageJPEG, false},
	{"ImageWebP", constants.ContentTypeImageWebP, false},
	{"ImageSVG", constants.ContentTypeImageSVG, false},
	{"VideoMP4", constants.ContentTypeVideoMP4, false},
	{"VideoWebM", constants.ContentTypeVideoWebM, false},
	{"PrefixImage", constants.ContentTypePrefixImage, true},
	{"PrefixVideo", constants.ContentTypePrefixVideo, true},
	{"PrefixAudio", constants.ContentTypePrefixAudio, true},
	{"PrefixFont", constants.ContentTypePrefixFont, true},
	{"PrefixModel", constants.ContentTypePrefixModel, true},
}

func declared() []string {
	fs := token.NewFileSet()
	f, err := parser.ParseFile(fs, "internal/core/constants/content.go", nil, 0)
	if err != nil {
		fmt.Fprintln(os.Stderr, "gen_streaming: cannot parse the constants source:", err)
		os.Exit(3)
	}
	var out []string
	for _, d := range f.Decls {
		g, ok := d.(*ast.GenDecl)
		if !ok || g.Tok != token.CONST {
			continue
		}
		for _, s := range g.Specs {
			for _, n := range s.(*ast.ValueSpec).Names {
				if strings.HasPrefix(n.Name, "ContentType") {
					out = append(out, strings.TrimPrefix(n.Name, "ContentType"))
				}
			}
		}
	}
	sort.Strings(out)
	return out
}

func main() {
	const ns = "Olla.Gen.Streaming"
	have := map[string]bool{}
	for _, c := range cts {
		have[c.name] = true
	}
	for _, d := range declared() {
		if !have[d] {
			fmt.Fprintf(os.Stderr, "gen_streaming: constants.ContentType%s is declared in the tree but not tabulated — extend gen_streaming\n", d)
			os.Exit(3)
		}
	}
	f := vlib.NewLeanFile(ns, "gen_streaming")
	profiles := []string{constants.ConfigurationProxyProfileAuto, constants.ConfigurationProxyProfileStreaming, constants.ConfigurationProxyProfileStandard}
	type variant struct{ tag, ct string }
	var rows []string
	eval := func(profile, ct string, cs bool) bool {
		ctx := context.Background()
		if cs {
			ctx = context.WithValue(ctx, constants.ContextKeyStream, true)
		}
		resp := &http.Response{Header: http.Header{}}
		if ct != "" {
			resp.Header.Set(constants.HeaderContentType, ct)
		}
		return core.AutoDetectStreamingMode(ctx, resp, profile)
	}
	all := append([]ctc{}, cts...)
	all = append(all, ctc{"Empty", "", false}, ctc{"Unknown", "application/x-verif-unknown", false})
	for _, c := range all {
		var vs []variant
		if c.prefix {
			vs = []variant{{"sub", c.val + "x-verif"}, {"sub-charset", c.val + "x-verif; charset=utf-8"}, {"sub-upper", strings.ToUpper(c.val + "x-verif")}}
		} else if c.val == "" {
			vs = []variant{{"plain", ""}}
		} else {
			vs = []variant{{"plain", c.val}, {"upper", strings.ToUpper(c.val)}}
			if !strings.Contains(c.val, ";") {
				vs = append(vs, variant{"charset", c.val + "; charset=utf-8"})
			}
		}
		for _, v := range vs {
			for _, p := range profiles {
				for _, cs := range []bool{false, true} {
					rows = append(rows, vlib.LeanTuple(vlib.LeanStr(p), vlib.LeanStr(c.name), vlib.LeanStr(v.tag), vlib.LeanStr(v.ct), vlib.LeanBool(cs), vlib.LeanBool(eval(p, v.ct, cs))))
				}
			}
		}
	}
	f.Def("streamDecision", "List (String × String × String × String × Bool × Bool)", vlib.LeanList(rows),
		"(proxy profile, constants.ContentType<name>, variant, Content-Type header value, client stream flag in the context, core.AutoDetectStreamingMode result)")
	names := make([]string, len(cts))
	for i, c := range cts {
		names[i] = c.name
	}
	f.Def("contentTypeNames", "List String", vlib.LeanStrList(names), "every constants.ContentType* declared in internal/core/constants/content.go (cross-checked against the source by go/parser)")
	f.Def("profiles", "List String", vlib.LeanStrList(profiles), "constants.ConfigurationProxyProfile{Auto,Streaming,Standard}")
	// a profile string the code does not know behaves like auto?
	f.Def("unknownProfileIsAuto", "Bool", vlib.LeanBool(eval("bogus", constants.ContentTypeOctetStream, false) == eval(constants.ConfigurationProxyProfileAuto, constants.ContentTypeOctetStream, false) &&
		eval("bogus", constants.ContentTypeEventStream, false) == eval(constants.ConfigurationProxyProfileAuto, constants.ContentTypeEventStream, false)), "an unrecognised profile string falls through to the auto branch")

	// read timeouts (Int nanoseconds)
	f.Def("defaultReadTimeoutNs", "Int", vlib.LeanInt(int64(pconfig.DefaultReadTimeout)), "proxy/config.DefaultReadTimeout — what sherpa.getReadTimeout and olla.NewService fall back to")
	f.Def("baseGetReadTimeoutZeroNs", "Int", vlib.LeanInt(int64((&pconfig.BaseProxyConfig{}).GetReadTimeout())), "BaseProxyConfig{}.GetReadTimeout() (sherpa's configuration type)")
	f.Def("ollaGetReadTimeoutZeroNs", "Int", vlib.LeanInt(int64((&pconfig.OllaConfig{}).GetReadTimeout())), "OllaConfig{}.GetReadTimeout() (olla's configuration type)")
	f.Def("configDefaultReadTimeoutNs", "Int", vlib.LeanInt(int64(config.DefaultConfig().Proxy.ReadTimeout)), "config.DefaultConfig().Proxy.ReadTimeout — the value the production wiring passes when the operator sets nothing")
	f.Def("sherpaGetReadTimeout150Ns", "Int", vlib.LeanInt(int64((&sherpa.Configuration{BaseProxyConfig: pconfig.BaseProxyConfig{ReadTimeout: 150e6}}).GetReadTimeout())), "a configured 150 ms is passed through unchanged (sherpa)")
	f.Def("ollaGetReadTimeout150Ns", "Int", vlib.LeanInt(int64((&olla.Configuration{OllaConfig: pconfig.OllaConfig{BaseProxyConfig: pconfig.BaseProxyConfig{ReadTimeout: 150e6}}}).GetReadTimeout())), "a configured 150 ms is passed through unchanged (olla)")
	// client-disconnect thresholds
	f.Def("sherpaDisconnectBytes", "Int", vlib.LeanInt(int64(sherpa.ClientDisconnectionBytesThreshold)), "sherpa.ClientDisconnectionBytesThreshold")
	f.Def("sherpaDisconnectNs", "Int", vlib.LeanInt(int64(sherpa.ClientDisconnectionTimeThreshold)), "sherpa.ClientDisconnectionTimeThreshold")
	f.Def("ollaDisconnectBytes", "Int", vlib.LeanInt(int64(olla.ClientDisconnectionBytesThreshold)), "olla.ClientDisconnectionBytesThreshold")
	f.Def("ollaDisconnectNs", "Int", vlib.LeanInt(int64(olla.ClientDisconnectionTimeThreshold)), "olla.ClientDisconnectionTimeThreshold")
	// the wiring between the configuration file and the engines: which read timeout and which profile the engines
	// are handed (GetReadTimeout / GetProxyProfile of what services.ProxyServiceWrapper builds) for a grid of
	// proxy sections; response_timeout 0 is "disabled", the setting recommended for long generations
	var wired []string
	for _, resp := range []time.Duration{0, time.Second, 10 * time.Minute} {
		for _, read := range []time.Duration{150 * time.Millisecond, 5 * time.Second, 90 * time.Second, 20 * time.Minute} {
			for _, prof := range []string{"auto", "streaming", "standard"} {
				pc := services.VerifProxyConfiguration(&config.ProxyConfig{Engine: "sherpa", Profile: prof, ResponseTimeout: resp, ReadTimeout: read, ConnectionTimeout: 30 * time.Second, StreamBufferSize: 8192}, vlib.QuietLogger())
				wired = append(wired, vlib.LeanTuple(vlib.LeanInt(int64(resp)), vlib.LeanInt(int64(read)), vlib.LeanStr(prof), vlib.LeanInt(int64(pc.GetReadTimeout())), vlib.LeanStr(pc.GetProxyProfile())))
			}
		}
	}
	f.Def("wiredProxySettings", "List (Int × Int × String × Int × String)", vlib.LeanList(wired),
		"(configured response_timeout ns, configured read_timeout ns, configured profile, read timeout the engines get, profile the engines get)")
	f.Write(ns)
}
