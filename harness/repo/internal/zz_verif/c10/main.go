//go:build verif

// c10: correspondence harness for the model catalogue (property C10).
//
//	hist   : operation histories (discover with filter / register listing / register one model / remove /
//	         failed discovery / malformed URL) over <= 3 endpoints against ONE real
//	         UnifiedMemoryModelRegistry (+ default unifier) fed through the real ModelDiscoveryService
//	         (scripted client, real GlobFilter); every exported query is snapshotted after every step.
//	         mode seq    : the spawned unification goroutine is waited for after every step;
//	         mode forced : the harness decides when each spawned unification runs (accessor VerifUnifyNow);
//	         burst       : several operations are issued back to back without waiting (the spawned
//	                       unification goroutines run in whatever order the scheduler picks), snapshot at quiescence;
//	         mode conc   : (thorough) endpoints register concurrently, snapshot at quiescence.
//	glob   : one real GlobFilter, a sequence of Matches calls (cache history).
//	globfn : pattern.MatchesGlob and FilterConfig.Validate, exhaustive over short strings.
package main

import (
	"strconv"
	"context"
	"errors"
	"fmt"
	"github.com/thushan/olla/internal/config"
	"github.com/thushan/olla/internal/zz_verif/stack"
	"net/url"
	"runtime"
	"sort"
	"strings"
	"sync"
	"sync/atomic"
	"time"

	"github.com/thushan/olla/internal/adapter/discovery"
	"github.com/thushan/olla/internal/adapter/filter"
	"github.com/thushan/olla/internal/adapter/registry"
	"github.com/thushan/olla/internal/core/domain"
	"github.com/thushan/olla/internal/util/pattern"
	"github.com/thushan/olla/internal/zz_verif/vlib"
)

// ------------------------------------------------------------------ op language

type mdl struct {
	Name   string `json:"name"`
	Digest string `json:"digest"`
}

type fcfg struct {
	Include []string `json:"include"`
	Exclude []string `json:"exclude"`
}

type op struct {
	Op     string `json:"op"` // disc | reg | reg1 | remove | badurl | run
	E      int    `json:"e"`
	Models []*mdl `json:"models,omitempty"` // nil entry = nil *ModelInfo
	Model  *mdl   `json:"model,omitempty"`
	Filter *fcfg  `json:"filter,omitempty"`
	Fail   bool   `json:"fail,omitempty"`
	// Cancel: the listing is fetched, but the discovery round's context is cancelled before the registry is reached
	// (what a sibling endpoint's failure does to the round's errgroup): a failed update, like Fail
	Cancel bool   `json:"cancel,omitempty"`
	I      int    `json:"i,omitempty"`
	URL    string `json:"url,omitempty"`
}

func epURL(i int) string { return fmt.Sprintf("http://h%d:1", i) }

func mi(m *mdl) *domain.ModelInfo {
	if m == nil {
		return nil
	}
	info := &domain.ModelInfo{Name: m.Name, LastSeen: time.Now()}
	if m.Digest != "" {
		d := m.Digest
		info.Details = &domain.ModelDetails{Digest: &d}
	}
	return info
}

func mis(ms []*mdl) []*domain.ModelInfo {
	out := make([]*domain.ModelInfo, 0, len(ms))
	for _, m := range ms {
		out = append(out, mi(m))
	}
	return out
}

// scripted discovery client
type client struct {
	mu   sync.Mutex
	next map[string]func() ([]*domain.ModelInfo, error)
}

func (c *client) set(u string, f func() ([]*domain.ModelInfo, error)) {
	c.mu.Lock()
	c.next[u] = f
	c.mu.Unlock()
}

func (c *client) DiscoverModels(ctx context.Context, e *domain.Endpoint) ([]*domain.ModelInfo, error) {
	c.mu.Lock()
	f := c.next[e.URLString]
	c.mu.Unlock()
	return f()
}
func (c *client) HealthCheck(ctx context.Context, e *domain.Endpoint) error { return nil }
func (c *client) GetMetrics() discovery.DiscoveryMetrics                    { return discovery.DiscoveryMetrics{} }

type repo struct{ eps []*domain.Endpoint }

func (r *repo) GetAll(ctx context.Context) ([]*domain.Endpoint, error)       { return r.eps, nil }
func (r *repo) GetRoutable(ctx context.Context) ([]*domain.Endpoint, error)  { return r.eps, nil }
func (r *repo) GetHealthy(ctx context.Context) ([]*domain.Endpoint, error)   { return r.eps, nil }
func (r *repo) UpdateEndpoint(ctx context.Context, e *domain.Endpoint) error { return nil }
func (r *repo) Exists(ctx context.Context, u *url.URL) bool                  { return true }

// ------------------------------------------------------------------ snapshots

type uent struct {
	ID      string      `json:"id"`
	Aliases []string    `json:"aliases"`
	Sources [][2]string `json:"sources"` // (endpoint index, native name)
}

type obs struct {
	Models [][]mdl          `json:"models"`
	Eps    map[string][]int `json:"eps"`
	Avail  map[string]bool  `json:"avail"`
	TE     int              `json:"te"`
	TM     int              `json:"tm"`
	PE     [][2]int         `json:"pe"`
	UCat   []uent           `json:"ucat"`
	UEps   map[string][]int `json:"ueps"`
	UAvail map[string]bool  `json:"uavail"`
}

func urlIdx(u string) int {
	var i int
	if _, err := fmt.Sscanf(u, "http://h%d:1", &i); err == nil {
		return i
	}
	return -1
}

func idxs(us []string) []int {
	out := []int{}
	for _, u := range us {
		out = append(out, urlIdx(u))
	}
	sort.Ints(out)
	return out
}

func snapshot(reg *registry.UnifiedMemoryModelRegistry, n int, names []string) obs {
	ctx := context.Background()
	o := obs{Eps: map[string][]int{}, Avail: map[string]bool{}, UEps: map[string][]int{}, UAvail: map[string]bool{}}
	for e := 0; e < n; e++ {
		ms, _ := reg.MemoryModelRegistry.GetModelsForEndpoint(ctx, epURL(e))
		row := []mdl{}
		for _, m := range ms {
			x := mdl{Name: m.Name}
			if m.Details != nil && m.Details.Digest != nil {
				x.Digest = *m.Details.Digest
			}
			row = append(row, x)
		}
		o.Models = append(o.Models, row)
	}
	for _, nm := range names {
		if nm == "" {
			continue
		}
		b, _ := reg.MemoryModelRegistry.GetEndpointsForModel(ctx, nm)
		o.Eps[nm] = idxs(b)
		o.Avail[nm] = reg.MemoryModelRegistry.IsModelAvailable(ctx, nm)
		u, _ := reg.GetEndpointsForModel(ctx, nm)
		o.UEps[nm] = idxs(u)
		o.UAvail[nm] = reg.IsModelAvailable(ctx, nm)
	}
	st, _ := reg.GetStats(ctx)
	o.TE, o.TM = st.TotalEndpoints, st.TotalModels
	o.PE = [][2]int{}
	for u, k := range st.ModelsPerEndpoint {
		o.PE = append(o.PE, [2]int{urlIdx(u), k})
	}
	sort.Slice(o.PE, func(i, j int) bool { return o.PE[i][0] < o.PE[j][0] })
	us, _ := reg.GetUnifiedModels(ctx)
	o.UCat = []uent{}
	for _, u := range us {
		e := uent{ID: u.ID, Aliases: []string{}, Sources: [][2]string{}}
		for _, a := range u.Aliases {
			e.Aliases = append(e.Aliases, a.Name)
		}
		sort.Strings(e.Aliases)
		for _, s := range u.SourceEndpoints {
			e.Sources = append(e.Sources, [2]string{fmt.Sprint(urlIdx(s.EndpointURL)), s.NativeName})
		}
		sort.Slice(e.Sources, func(i, j int) bool {
			if e.Sources[i][0] != e.Sources[j][0] {
				return e.Sources[i][0] < e.Sources[j][0]
			}
			return e.Sources[i][1] < e.Sources[j][1]
		})
		o.UCat = append(o.UCat, e)
	}
	sort.Slice(o.UCat, func(i, j int) bool { return o.UCat[i].ID < o.UCat[j].ID })
	return o
}

func key(o obs) string { return fmt.Sprintf("%v", o) }

// ------------------------------------------------------------------ running a history

type world struct {
	reg   *registry.UnifiedMemoryModelRegistry
	svc   *discovery.ModelDiscoveryService
	cl    *client
	eps   []*domain.Endpoint
	base  int
	// unsettled: a quiesce ran out of time (overloaded machine); the case is emitted as not judged
	unsettled bool
	n     int
	names []string
	pend  []op // forced mode: registrations whose unification has not been run yet
	// the registry the factory builds with model_registry.enable_unifier: false (a RoutingRegistry around a
	// MemoryModelRegistry), fed the same operations in sequential histories
	rr    domain.ModelRegistry
	rrSvc *discovery.ModelDiscoveryService
}

// staleConf: model_registry.unification with a stale threshold far below a history's duration (set by caseStale only)
var staleConf *config.UnificationConfig

func newWorld(n int, names []string) *world {
	w := &world{n: n, names: names, cl: &client{next: map[string]func() ([]*domain.ModelInfo, error){}}}
	for i := 0; i < n; i++ {
		w.eps = append(w.eps, &domain.Endpoint{Name: fmt.Sprintf("e%d", i), URLString: epURL(i), Type: "ollama", Status: domain.StatusHealthy})
	}
	w.base = vlib.SettledGoroutines()
	w.reg = registry.NewUnifiedMemoryModelRegistry(vlib.QuietLogger(), staleConf, nil, nil)
	w.svc = discovery.NewModelDiscoveryService(w.cl, &repo{w.eps}, w.reg, discovery.DiscoveryConfig{Timeout: 2 * time.Second, ConcurrentWorkers: 3}, vlib.QuietLogger())
	if rr, err := registry.NewModelRegistry(registry.RegistryConfig{Type: "memory", EnableUnifier: false}, vlib.QuietLogger()); err == nil {
		w.rr = rr
		w.rrSvc = discovery.NewModelDiscoveryService(w.cl, &repo{w.eps}, rr, discovery.DiscoveryConfig{Timeout: 2 * time.Second, ConcurrentWorkers: 3}, vlib.QuietLogger())
	}
	return w
}

// quiesce: every spawned unification goroutine is gone, the mutex is free and two snapshots agree
// startReaders: k clients that keep asking for the catalogue (model listings, a model's endpoints) while the history runs;
// what they read is not judged — what everybody reads once the writers are done is
func (w *world) startReaders(k int) (stop func()) {
	var halt atomic.Bool
	var wg sync.WaitGroup
	ctx := context.Background()
	for i := 0; i < k; i++ {
		wg.Add(1)
		go func(i int) {
			defer wg.Done()
			for n := 0; !halt.Load(); n++ {
				_, _ = w.reg.GetUnifiedModels(ctx)
				if n%4 == i%4 && len(w.names) > 0 {
					_, _ = w.reg.GetEndpointsForModel(ctx, w.names[n%len(w.names)])
				}
				if n%8 == 0 {
					time.Sleep(20 * time.Microsecond) // a polling client, not a spin loop: the writers must get their turn on a busy machine
				}
			}
		}(i)
	}
	w.base += k
	return func() {
		halt.Store(true)
		wg.Wait()
		w.base -= k
	}
}

func (w *world) quiesce() obs {
	deadline := time.Now().Add(20 * time.Second)
	prev := ""
	var last obs
	for time.Now().Before(deadline) {
		if runtime.NumGoroutine() <= w.base && w.reg.VerifUnifyIdle() {
			last = snapshot(w.reg, w.n, w.names)
			cur := key(last)
			if cur == prev {
				return last
			}
			prev = cur
			continue
		}
		time.Sleep(100 * time.Microsecond)
	}
	// the machine is too busy for the background unification to finish in time: the history is not judged
	w.unsettled = true
	return snapshot(w.reg, w.n, w.names)
}

func toFilter(f *fcfg) *domain.FilterConfig {
	if f == nil {
		return nil
	}
	return &domain.FilterConfig{Include: f.Include, Exclude: f.Exclude}
}

// applyRR: the same operation on the non-unified registry (sequential histories only)
func (w *world) applyRR(o op) {
	if w.rr == nil {
		return
	}
	ctx := context.Background()
	defer func() { _ = recover() }()
	switch o.Op {
	case "disc":
		ep := *w.eps[o.E]
		ep.ModelFilter = toFilter(o.Filter)
		ms := mis(o.Models)
		dctx, cancel := context.WithCancel(ctx)
		defer cancel()
		w.cl.set(ep.URLString, func() ([]*domain.ModelInfo, error) {
			if o.Fail {
				return nil, errors.New("scripted discovery failure")
			}
			if o.Cancel {
				cancel()
			}
			return ms, nil
		})
		_ = w.rrSvc.DiscoverEndpoint(dctx, &ep)
	case "reg":
		_ = w.rr.RegisterModels(ctx, epURL(o.E), mis(o.Models))
	case "reg1":
		_ = w.rr.RegisterModel(ctx, epURL(o.E), mi(o.Model))
	case "remove":
		_ = w.rr.RemoveEndpoint(ctx, epURL(o.E))
	case "badurl":
		_ = w.rr.RegisterModels(ctx, o.URL, mis(o.Models))
	}
}

// rrViews: what the non-unified registry says: per endpoint its listing (names), per name its endpoints
func (w *world) rrViews() (models [][]string, eps map[string][]int) {
	if w.rr == nil {
		return nil, nil
	}
	ctx := context.Background()
	eps = map[string][]int{}
	for e := 0; e < w.n; e++ {
		ms, _ := w.rr.GetModelsForEndpoint(ctx, epURL(e))
		row := []string{}
		for _, m := range ms {
			row = append(row, m.Name)
		}
		sort.Strings(row)
		models = append(models, row)
	}
	for _, nm := range w.names {
		if nm == "" {
			continue
		}
		b, _ := w.rr.GetEndpointsForModel(ctx, nm)
		eps[nm] = idxs(b)
	}
	return models, eps
}

// apply one op; returns ok (the call returned nil)
func (w *world) apply(o op, forced bool) (ok bool) {
	ctx := context.Background()
	defer func() {
		if r := recover(); r != nil {
			ok = false
		}
	}()
	switch o.Op {
	case "disc":
		ep := *w.eps[o.E]
		ep.ModelFilter = toFilter(o.Filter)
		ms := mis(o.Models)
		dctx, cancel := context.WithCancel(ctx)
		defer cancel()
		w.cl.set(ep.URLString, func() ([]*domain.ModelInfo, error) {
			if o.Fail {
				return nil, errors.New("scripted discovery failure")
			}
			if o.Cancel {
				cancel()
			}
			return ms, nil
		})
		return w.svc.DiscoverEndpoint(dctx, &ep) == nil
	case "reg":
		if forced {
			err := w.reg.MemoryModelRegistry.RegisterModels(ctx, epURL(o.E), mis(o.Models))
			if err == nil {
				w.pend = append(w.pend, o)
			}
			return err == nil
		}
		return w.reg.RegisterModels(ctx, epURL(o.E), mis(o.Models)) == nil
	case "reg1":
		return w.reg.RegisterModel(ctx, epURL(o.E), mi(o.Model)) == nil
	case "remove":
		return w.reg.RemoveEndpoint(ctx, epURL(o.E)) == nil
	case "wait": // time passes (longer than a configured stale threshold): nothing is reported meanwhile
		time.Sleep(time.Duration(o.I) * time.Millisecond)
		return true
	case "badurl":
		return w.reg.RegisterModels(ctx, o.URL, mis(o.Models)) == nil
	case "run":
		if o.I < len(w.pend) {
			t := w.pend[o.I]
			w.pend = append(w.pend[:o.I:o.I], w.pend[o.I+1:]...)
			w.reg.VerifUnifyNow(ctx, epURL(t.E), mis(t.Models))
		}
		return true
	}
	return false
}

type step struct {
	OK       bool             `json:"ok"`
	OKs      []bool           `json:"oks,omitempty"`
	Obs      obs              `json:"obs"`
	RRModels [][]string       `json:"rr_models,omitempty"`
	RREps    map[string][]int `json:"rr_eps,omitempty"`
}

func namesOf(ops []op) []string {
	set := map[string]bool{"zz-never-listed": true}
	add := func(m *mdl) {
		if m != nil && m.Name != "" {
			set[m.Name] = true
			set[strings.ToUpper(m.Name)] = true
			set[strings.ToLower(m.Name)] = true
		}
	}
	for _, o := range ops {
		for _, m := range o.Models {
			add(m)
		}
		add(o.Model)
	}
	return vlib.SortedKeys(set)
}

var histSeq int

func caseHist(c *vlib.Cases, mode string, n int, ops []op) {
	names := namesOf(ops)
	w := newWorld(n, names)
	histSeq++
	if mode != "forced" && histSeq%3 == 0 {
		defer w.startReaders(2)()
	}
	var steps []step
	for _, o := range ops {
		ok := w.apply(o, mode == "forced")
		var ob obs
		if mode == "forced" {
			ob = snapshot(w.reg, n, names)
		} else {
			ob = w.quiesce()
		}
		st := step{OK: ok, Obs: ob}
		if mode != "forced" {
			w.applyRR(o)
			st.RRModels, st.RREps = w.rrViews()
		}
		steps = append(steps, st)
	}
	c.Emit(map[string]any{"kind": "hist", "mode": mode, "n": n, "ops": ops, "names": names, "impl": map[string]any{"steps": steps, "unsettled": w.unsettled}})
}

// concurrent rounds: in every round each endpoint performs one operation from its own goroutine;
// the snapshot is taken when everything has settled.
func caseConc(c *vlib.Cases, n int, rounds [][]op) {
	var all []op
	for _, r := range rounds {
		all = append(all, r...)
	}
	names := namesOf(all)
	w := newWorld(n, names)
	defer w.startReaders(3)()
	var steps []step
	for _, r := range rounds {
		var wg sync.WaitGroup
		oks := make([]bool, len(r))
		for i := range r {
			wg.Add(1)
			go func(i int) {
				defer wg.Done()
				oks[i] = w.apply(r[i], false)
			}(i)
		}
		wg.Wait()
		ob := w.quiesce()
		allok := true
		for _, k := range oks {
			allok = allok && k
		}
		steps = append(steps, step{OK: allok, Obs: ob})
	}
	c.Emit(map[string]any{"kind": "conc", "n": n, "rounds": rounds, "names": names, "impl": map[string]any{"steps": steps, "unsettled": w.unsettled}})
}

// caseOverlap: clients keep reading the catalogue while one endpoint's listing changes round after round (the other
// endpoint's never does). After every round, once the unification it started has been processed, the unified listing
// must show exactly what the endpoints last listed: for every endpoint and every model it lists an entry that names
// this endpoint as a source, and no source that the endpoint does not list.
func caseOverlap(c *vlib.Cases, rounds, readers int) {
	names := []string{"alpha", "beta", "gamma"}
	w := newWorld(2, names)
	stop := w.startReaders(readers)
	ctx := context.Background()
	mk := func(ns ...string) []*domain.ModelInfo {
		out := []*domain.ModelInfo{}
		for _, n := range ns {
			out = append(out, &domain.ModelInfo{Name: n, Size: 1, LastSeen: time.Now()})
		}
		return out
	}
	unsettledRounds := 0
	settle := func() bool {
		deadline := time.Now().Add(10 * time.Second)
		for time.Now().Before(deadline) {
			if runtime.NumGoroutine() <= w.base && w.reg.VerifUnifyIdle() {
				return true
			}
			runtime.Gosched()
		}
		unsettledRounds++ // overloaded machine: the round is not judged
		return false
	}
	_ = w.reg.RegisterModels(ctx, epURL(0), mk("alpha", "beta"))
	settle()
	listingsOfB := [][]string{{"beta"}, {"beta", "gamma"}, {"gamma"}, {}}
	mismatches, first := 0, ""
	// what the unified listing says against what the endpoints last listed ("" = they agree)
	differs := func(bNames []string) string {
		want := map[string]bool{"alpha@0": true, "beta@0": true}
		for _, n := range bNames {
			want[n+"@1"] = true
		}
		us, _ := w.reg.GetUnifiedModels(ctx)
		got := map[string]bool{}
		for _, u := range us {
			for _, src := range u.SourceEndpoints {
				got[src.NativeName+"@"+strconv.Itoa(urlIdx(src.EndpointURL))] = true
			}
		}
		same := len(got) == len(want)
		for k := range want {
			same = same && got[k]
		}
		if same {
			return ""
		}
		var g, wl []string
		for k := range got {
			g = append(g, k)
		}
		for k := range want {
			wl = append(wl, k)
		}
		sort.Strings(g)
		sort.Strings(wl)
		return fmt.Sprintf("endpoint 1 last listed %v; unified listing has sources %v, the listings say %v", bNames, g, wl)
	}
	for r := 0; r < rounds && mismatches == 0; r++ {
		b := listingsOfB[r%len(listingsOfB)]
		_ = w.reg.RegisterModels(ctx, epURL(1), mk(b...))
		settle()
		// the background unification may take its time on a busy machine (and how it is scheduled is the registry's
		// business): the listing is wrong only if it stays wrong
		d := differs(b)
		for deadline := time.Now().Add(5 * time.Second); d != "" && time.Now().Before(deadline); d = differs(b) {
			time.Sleep(200 * time.Microsecond)
		}
		if d != "" {
			mismatches++
			first = fmt.Sprintf("round %d: %s (still so 5 s later)", r, d)
		}
	}
	stop()
	c.Emit(map[string]any{"kind": "overlap", "rounds": rounds, "readers": readers, "impl": map[string]any{"mismatches": mismatches, "first": first, "unsettled_rounds": unsettledRounds}})
}

// burst rounds: the operations of a round are issued back to back from one goroutine, without waiting
// for the unification goroutines they spawn; the snapshot is taken when everything has settled.
func caseBurst(c *vlib.Cases, n int, rounds [][]op) {
	var all []op
	for _, r := range rounds {
		all = append(all, r...)
	}
	names := namesOf(all)
	w := newWorld(n, names)
	defer w.startReaders(3)()
	var steps []step
	for _, r := range rounds {
		oks := []bool{}
		for i := range r {
			oks = append(oks, w.apply(r[i], false))
		}
		ob := w.quiesce()
		steps = append(steps, step{OK: true, OKs: oks, Obs: ob})
	}
	c.Emit(map[string]any{"kind": "burst", "n": n, "rounds": rounds, "names": names, "impl": map[string]any{"steps": steps, "unsettled": w.unsettled}})
}

// ------------------------------------------------------------------ glob

type look struct {
	Name    string   `json:"name"`
	Include []string `json:"include"`
	Exclude []string `json:"exclude"`
}

func caseGlob(c *vlib.Cases, looks []look) {
	f := filter.NewGlobFilter()
	res := []bool{}
	for _, l := range looks {
		res = append(res, f.Matches(&domain.FilterConfig{Include: l.Include, Exclude: l.Exclude}, l.Name))
	}
	c.Emit(map[string]any{"kind": "glob", "looks": looks, "impl": map[string]any{"res": res}})
}

func caseGlobFn(c *vlib.Cases, p string, strs []string) {
	valid := (&domain.FilterConfig{Include: []string{p}}).Validate() == nil
	validEx := (&domain.FilterConfig{Exclude: []string{p}}).Validate() == nil
	m := []bool{}
	for _, s := range strs {
		m = append(m, pattern.MatchesGlob(s, p))
	}
	c.Emit(map[string]any{"kind": "globfn", "p": p, "strs": strs, "impl": map[string]any{"valid": valid, "valid_ex": validEx, "m": m}})
}

func allStrings(alpha []string, maxLen int) []string {
	out := []string{""}
	cur := []string{""}
	for l := 1; l <= maxLen; l++ {
		var next []string
		for _, s := range cur {
			for _, a := range alpha {
				next = append(next, s+a)
			}
		}
		out = append(out, next...)
		cur = next
	}
	return out
}

// ------------------------------------------------------------------ generator

var modelAlpha = []mdl{
	{"x", ""}, {"x", "sha256:d1d1d1d1d1d1"}, {"x", "sha256:d2d2d2d2d2d2"}, {"X", ""}, {"X", "sha256:d1d1d1d1d1d1"},
	{"y", ""}, {"y", "sha256:d1d1d1d1d1d1"}, {"y", "sha256:d3d3d3d3d3d3"}, {"z", ""}, {"z", "sha256:d2d2d2d2d2d2"},
	{"a", ""}, {"a::a", ""}, {"a*", ""}, {"llama3:8b", "sha256:d4d4d4d4d4d4"}, {"Llama3:8B", "sha256:d4d4d4d4d4d4"}, {"m::*", "abc"},
}

var patAlpha = []string{"*", "x*", "*x", "*a*", "a*", "a::a*", "X", "y", "*:8b", "llama*", "a::*", "*::a", "z", "*y*",
	"", " ", "a**", "a*b", "*a*b*", "**"}

type gen struct {
	r     *vlib.Rng
	n     int
	cur   [][]mdl // shadow of the last accepted listing per endpoint (nil = none)
	pend  int     // forced mode: number of pending unifications
	again *op     // a discovery to repeat as the next op (the listing of a cancelled round arriving again)
}

func (g *gen) pickModels(k int) []*mdl {
	var out []*mdl
	for i := 0; i < k; i++ {
		m := vlib.Pick(g.r, modelAlpha)
		out = append(out, &m)
	}
	return out
}

func ptrs(ms []mdl) []*mdl {
	out := []*mdl{}
	for i := range ms {
		m := ms[i]
		out = append(out, &m)
	}
	return out
}

func (g *gen) accept(e int, ms []*mdl) {
	if len(ms) == 0 {
		g.cur[e] = nil
		return
	}
	l := []mdl{}
	for _, m := range ms {
		if m != nil {
			l = append(l, *m)
		}
	}
	g.cur[e] = l
}

// next picks the next op, state-directed: prefers replace-with-fewer and drop-last-holder.
func (g *gen) next(forced bool, withDisc bool) op {
	r := g.r
	e := r.Intn(g.n)
	if g.again != nil {
		o := *g.again
		g.again = nil
		if r.Chance(3, 4) {
			ok := true
			for _, m := range o.Models {
				if m == nil || strings.TrimSpace(m.Name) == "" {
					ok = false
				}
			}
			if ok {
				g.accept(o.E, o.Models)
			}
			return o
		}
	}
	if forced && g.pend > 0 && r.Chance(2, 5) {
		i := r.Intn(g.pend)
		g.pend--
		return op{Op: "run", I: i}
	}
	mkReg := func(e int, ms []*mdl) op {
		rejected := false
		hasNil := false
		for _, m := range ms {
			if m != nil && m.Name == "" {
				rejected = true
			}
			if m == nil {
				hasNil = true // a discovery client never reports nil entries: keep those on the direct path
			}
		}
		if !rejected {
			g.accept(e, ms)
			if forced {
				g.pend++
			}
		}
		if withDisc && !forced && !rejected && !hasNil && r.Chance(1, 3) {
			// through the discovery service, sometimes with a filter (the shadow is not exact then; it only steers)
			o := op{Op: "disc", E: e, Models: ms}
			if r.Chance(1, 2) {
				f := &fcfg{}
				for i := r.Intn(3); i > 0; i-- {
					f.Include = append(f.Include, vlib.Pick(r, patAlpha[:14]))
				}
				for i := r.Intn(2); i > 0; i-- {
					f.Exclude = append(f.Exclude, vlib.Pick(r, patAlpha[:14]))
				}
				if r.Chance(1, 8) {
					f.Exclude = append(f.Exclude, vlib.Pick(r, patAlpha[14:]))
				}
				o.Filter = f
			}
			return o
		}
		return op{Op: "reg", E: e, Models: ms}
	}
	switch k := r.Intn(100); {
	case k < 25: // replace with fewer
		for t := 0; t < g.n; t++ {
			if len(g.cur[e]) > 0 {
				break
			}
			e = (e + 1) % g.n
		}
		if len(g.cur[e]) > 0 {
			keep := []mdl{}
			for _, m := range g.cur[e] {
				if r.Chance(1, 2) {
					keep = append(keep, m)
				}
			}
			if len(keep) == len(g.cur[e]) {
				keep = keep[:len(keep)-1]
			}
			ms := ptrs(keep)
			if r.Chance(1, 3) {
				ms = append(ms, g.pickModels(1)...)
			}
			return mkReg(e, ms)
		}
		return mkReg(e, g.pickModels(1+r.Intn(3)))
	case k < 40: // drop last holder: an endpoint that is the only one listing some name re-registers without it
		for e0 := 0; e0 < g.n; e0++ {
			for _, m := range g.cur[e0] {
				holders := 0
				for e1 := 0; e1 < g.n; e1++ {
					for _, m1 := range g.cur[e1] {
						if m1.Name == m.Name {
							holders++
							break
						}
					}
				}
				if holders == 1 {
					keep := []mdl{}
					for _, m2 := range g.cur[e0] {
						if m2.Name != m.Name {
							keep = append(keep, m2)
						}
					}
					return mkReg(e0, ptrs(keep))
				}
			}
		}
		return mkReg(e, g.pickModels(1+r.Intn(2)))
	case k < 62: // fresh listing
		return mkReg(e, g.pickModels(r.Intn(4)))
	case k < 68: // the same listing again
		if g.cur[e] != nil {
			return mkReg(e, ptrs(g.cur[e]))
		}
		return mkReg(e, g.pickModels(2))
	case k < 76: // rejected listing: an entry without a name, at a random position
		ms := g.pickModels(1 + r.Intn(3))
		pos := r.Intn(len(ms) + 1)
		ms = append(ms[:pos:pos], append([]*mdl{{Name: ""}}, ms[pos:]...)...)
		return mkReg(e, ms)
	case k < 79: // nil entries
		ms := g.pickModels(r.Intn(3))
		ms = append(ms, nil)
		return mkReg(e, ms)
	case k < 88:
		g.cur[e] = nil
		return op{Op: "remove", E: e}
	case k < 92:
		if forced {
			return mkReg(e, g.pickModels(1))
		}
		if r.Bool() {
			// the round is cancelled after the fetch; often the same listing arrives again in the next, clean round
			ms := g.pickModels(1 + r.Intn(2))
			g.again = &op{Op: "disc", E: e, Models: ms}
			return op{Op: "disc", E: e, Cancel: true, Models: ms}
		}
		return op{Op: "disc", E: e, Fail: true, Models: g.pickModels(1)}
	case k < 95:
		return op{Op: "badurl", URL: vlib.Pick(r, []string{"", "no-scheme", "http://", "://x"}), Models: g.pickModels(1)}
	default:
		m := vlib.Pick(r, modelAlpha)
		if r.Chance(1, 6) {
			m = mdl{Name: vlib.Pick(r, []string{"", " ", "\t"})}
		} else {
			// shadow: upsert
			found := false
			for i := range g.cur[e] {
				if g.cur[e][i].Name == m.Name {
					g.cur[e][i] = m
					found = true
					break
				}
			}
			if !found {
				g.cur[e] = append(g.cur[e], m)
			}
		}
		return op{Op: "reg1", E: e, Model: &m}
	}
}

func genHist(r *vlib.Rng, forced, withDisc bool, n, length int) []op {
	g := &gen{r: r, n: n, cur: make([][]mdl, n)}
	var ops []op
	for i := 0; i < length; i++ {
		ops = append(ops, g.next(forced, withDisc))
	}
	for forced && g.pend > 0 { // drain, in a random order
		i := r.Intn(g.pend)
		g.pend--
		ops = append(ops, op{Op: "run", I: i})
	}
	return ops
}

func M(name string, digest ...string) *mdl {
	m := &mdl{Name: name}
	if len(digest) > 0 {
		m.Digest = digest[0]
	}
	return m
}

// prodLoop: the production wiring left to itself. Two backends change what they list; nothing drives discovery
// here: the periodic model-discovery loop the service manager starts (interval 1 s) has to pick the changes
// up, and the model -> endpoints attribution must then be that of the most recent listings.
func prodLoop() map[string]any {
	type lst = []string
	rounds := [][2]lst{{{"zz-x", "zz-y"}, {"zz-y"}}, {{"zz-x"}, {"zz-y", "zz-z"}}, {{}, {"zz-z", "zz-x"}}}
	var cur [2]atomic.Value
	var bes [2]*stack.Backend
	for i := range bes {
		i := i
		bes[i] = stack.NewBackend(string(rune('A' + i)))
		cur[i].Store(rounds[0][i])
		bes[i].Listing = func(path string) (int, string) {
			if !strings.HasSuffix(path, "/models") {
				return 0, ""
			}
			var items []string
			for _, m := range cur[i].Load().(lst) {
				items = append(items, fmt.Sprintf(`{"id":%q,"object":"model"}`, m))
			}
			return 200, `{"object":"list","data":[` + strings.Join(items, ",") + `]}`
		}
		defer bes[i].Close()
	}
	s, err := stack.Start(stack.Opts{Engine: "sherpa", Balancer: "priority", ModelDiscovery: true,
		EPs:    []stack.EP{{Name: "A", Type: "openai", Priority: 200, Backend: bes[0]}, {Name: "B", Type: "openai", Priority: 100, Backend: bes[1]}},
		Mutate: func(cfg *config.Config) { cfg.Discovery.ModelDiscovery.Interval = time.Second }})
	if err != nil {
		return map[string]any{"start_err": err.Error()}
	}
	defer s.Stop()
	reg, err := s.Disc.GetRegistry()
	if err != nil {
		return map[string]any{"start_err": err.Error()}
	}
	urls := []string{bes[0].URL(), bes[1].URL()}
	attribution := func() map[string][]int {
		out := map[string][]int{}
		for _, m := range []string{"zz-x", "zz-y", "zz-z"} {
			got, _ := reg.GetEndpointsForModel(context.Background(), m)
			idx := []int{}
			for _, u := range got {
				for i, w := range urls {
					if strings.TrimRight(u, "/") == strings.TrimRight(w, "/") {
						idx = append(idx, i)
					}
				}
			}
			sort.Ints(idx)
			out[m] = idx
		}
		return out
	}
	want := func(r [2]lst) map[string][]int {
		out := map[string][]int{"zz-x": {}, "zz-y": {}, "zz-z": {}}
		for i, l := range r {
			for _, m := range l {
				out[m] = append(out[m], i)
			}
		}
		return out
	}
	var obs []map[string]any
	for ri, r := range rounds {
		cur[0].Store(r[0])
		cur[1].Store(r[1])
		deadline := time.Now().Add(6 * time.Second) // several periods of the loop
		var got map[string][]int
		for time.Now().Before(deadline) {
			got = attribution()
			if fmt.Sprint(got) == fmt.Sprint(want(r)) {
				break
			}
			time.Sleep(50 * time.Millisecond)
		}
		obs = append(obs, map[string]any{"round": ri, "listed": r, "want": want(r), "got": got})
	}
	return map[string]any{"rounds": obs}
}

func main() {
	tier := vlib.Tier()
	thorough := tier == "thorough"
	r := vlib.NewRng(vlib.Seed())
	c := vlib.OpenCases("cases.jsonl")
	d1, d2 := "sha256:d1d1d1d1d1d1", "sha256:d2d2d2d2d2d2"
	loopRes := make(chan map[string]any, 1)
	go func() { loopRes <- prodLoop() }()

	// ---- the corpus: known witnesses and hand-written corner cases first
	// #10 rejected RegisterModels mutates the index
	caseHist(c, "seq", 1, []op{{Op: "reg", E: 0, Models: []*mdl{M("x"), M("y")}}, {Op: "reg", E: 0, Models: []*mdl{M("z"), M("")}}})
	// #11 unified catalogue keeps a source the endpoint stopped listing
	caseHist(c, "seq", 1, []op{{Op: "reg", E: 0, Models: []*mdl{M("x")}}, {Op: "reg", E: 0, Models: []*mdl{M("y")}}})
	caseHist(c, "seq", 2, []op{{Op: "reg", E: 0, Models: []*mdl{M("x")}}, {Op: "reg", E: 1, Models: []*mdl{M("x")}}, {Op: "remove", E: 0}, {Op: "reg", E: 1, Models: []*mdl{M("x")}}})
	caseHist(c, "seq", 2, []op{{Op: "reg", E: 0, Models: []*mdl{M("x")}}, {Op: "reg", E: 1, Models: []*mdl{M("x")}}, {Op: "reg", E: 0, Models: []*mdl{M("y")}}, {Op: "reg", E: 1, Models: []*mdl{M("x")}}})
	caseHist(c, "seq", 1, []op{{Op: "reg", E: 0, Models: []*mdl{M("x")}}, {Op: "remove", E: 0}, {Op: "reg", E: 0, Models: []*mdl{M("x")}}})
	// #12 two unifications of one endpoint applied out of order
	caseHist(c, "forced", 1, []op{{Op: "reg", E: 0, Models: []*mdl{M("x")}}, {Op: "reg", E: 0, Models: []*mdl{M("y")}}, {Op: "run", I: 1}, {Op: "run", I: 0}})
	caseHist(c, "forced", 1, []op{{Op: "reg", E: 0, Models: []*mdl{M("x")}}, {Op: "remove", E: 0}, {Op: "run", I: 0}})
	caseHist(c, "forced", 1, []op{{Op: "reg", E: 0, Models: []*mdl{M("x")}}, {Op: "reg", E: 0, Models: []*mdl{M("y")}}, {Op: "run", I: 0}, {Op: "run", I: 0}})
	for i := 0; i < 6; i++ { // natural scheduling: repeat the two-listing burst a few times
		// catalogue readers overlapping discovery results, round after round
		nOverlap := 20000
		if tier == "thorough" {
			nOverlap = 200000
		}
		caseOverlap(c, nOverlap, 1)
		caseOverlap(c, nOverlap/2, 3)
		c.Count("overlap")
		caseBurst(c, 1, [][]op{{{Op: "reg", E: 0, Models: []*mdl{M("x")}}, {Op: "reg", E: 0, Models: []*mdl{M("y")}}}})
		caseBurst(c, 1, [][]op{{{Op: "reg", E: 0, Models: []*mdl{M("x")}}, {Op: "remove", E: 0}}})
		caseBurst(c, 1, [][]op{{{Op: "reg", E: 0, Models: []*mdl{}}, {Op: "reg", E: 0, Models: []*mdl{M("x"), M("y")}}}})
	}
	// #13 glob cache key collision, directly and through the discovery service
	caseGlob(c, []look{{"a::a", []string{"a*"}, nil}, {"a", []string{"a::a*"}, nil}})
	caseGlob(c, []look{{"a", []string{"a::a*"}, nil}, {"a::a", []string{"a*"}, nil}})
	caseHist(c, "seq", 2, []op{{Op: "disc", E: 0, Models: []*mdl{M("a::a")}, Filter: &fcfg{Include: []string{"a*"}}},
		{Op: "disc", E: 1, Models: []*mdl{M("a"), M("x")}, Filter: &fcfg{Include: []string{"a::a*"}}}})
	// same name different digest, case variants, digest aliases, duplicates, nil, empty listing
	caseHist(c, "seq", 3, []op{{Op: "reg", E: 0, Models: []*mdl{M("x", d1)}}, {Op: "reg", E: 1, Models: []*mdl{M("x", d2)}}, {Op: "reg", E: 2, Models: []*mdl{M("X")}}})
	caseHist(c, "seq", 2, []op{{Op: "reg", E: 0, Models: []*mdl{M("x", d1), M("y", d1)}}, {Op: "reg", E: 1, Models: []*mdl{M("y", d1)}}, {Op: "reg", E: 0, Models: []*mdl{M("x", d1)}}})
	caseHist(c, "seq", 2, []op{{Op: "reg", E: 0, Models: []*mdl{M("x"), M("x"), nil}}, {Op: "reg", E: 1, Models: []*mdl{nil}}, {Op: "reg", E: 0, Models: []*mdl{}}})
	caseHist(c, "seq", 2, []op{{Op: "reg1", E: 0, Model: M("x")}, {Op: "reg1", E: 0, Model: M("x", d1)}, {Op: "reg1", E: 1, Model: M(" ")}, {Op: "remove", E: 0}})
	caseHist(c, "seq", 2, []op{{Op: "disc", E: 0, Models: []*mdl{M("x"), M("y")}, Filter: &fcfg{Include: []string{"x*"}, Exclude: []string{"a**"}}},
		{Op: "disc", E: 0, Models: []*mdl{M("z")}, Fail: true}, {Op: "badurl", URL: "no-scheme", Models: []*mdl{M("q")}},
		{Op: "disc", E: 1, Models: []*mdl{M("X"), M("y")}, Filter: &fcfg{Include: []string{"*"}, Exclude: []string{"x"}}}})
	// model ids with a leading or trailing blank (valid JSON): listed, then dropped from the listing / the endpoint removed
	caseHist(c, "seq", 2, []op{{Op: "reg", E: 0, Models: []*mdl{M("llama3:latest "), M("x")}}, {Op: "reg", E: 1, Models: []*mdl{M("llama3:latest ")}}, {Op: "reg", E: 0, Models: []*mdl{M("x")}}, {Op: "remove", E: 1}, {Op: "reg", E: 1, Models: []*mdl{M(" padded")}}, {Op: "reg", E: 1, Models: []*mdl{}}})
	caseHist(c, "seq", 2, []op{{Op: "disc", E: 0, Models: []*mdl{M(" phi"), M("other")}}, {Op: "disc", E: 0, Models: []*mdl{M("phi")}}, {Op: "disc", E: 0, Models: []*mdl{M("phi ")}}, {Op: "disc", E: 0, Models: []*mdl{}}})
	// model_registry.unification.stale_threshold configured (here 30 ms): an endpoint that is not listed again for longer
	// than that still owns what it last listed, in every view
	staleConf = &config.UnificationConfig{Enabled: true, StaleThreshold: 30 * time.Millisecond, CleanupInterval: 10 * time.Millisecond}
	caseHist(c, "seq", 2, []op{{Op: "reg", E: 0, Models: []*mdl{M("x")}}, {Op: "reg", E: 1, Models: []*mdl{M("y")}}, {Op: "wait", I: 80}, {Op: "reg", E: 0, Models: []*mdl{M("x")}}, {Op: "wait", I: 80}, {Op: "reg", E: 0, Models: []*mdl{M("x"), M("z")}}})
	caseHist(c, "seq", 2, []op{{Op: "disc", E: 0, Models: []*mdl{M("x")}}, {Op: "disc", E: 1, Models: []*mdl{M("x"), M("y")}}, {Op: "wait", I: 80}, {Op: "disc", E: 1, Models: []*mdl{M("q")}, Fail: true}, {Op: "disc", E: 0, Models: []*mdl{M("x")}}, {Op: "wait", I: 50}, {Op: "disc", E: 0, Models: []*mdl{M("x")}}})
	caseHist(c, "seq", 3, []op{{Op: "reg", E: 0, Models: []*mdl{M("x", d1)}}, {Op: "reg", E: 1, Models: []*mdl{M("x", d1)}}, {Op: "reg", E: 2, Models: []*mdl{M("y")}}, {Op: "wait", I: 80}, {Op: "reg", E: 2, Models: []*mdl{M("y")}}, {Op: "reg", E: 2, Models: []*mdl{M("y")}}})
	staleConf = nil
	// a listing change that arrives in a cancelled round, then again in clean rounds
	caseHist(c, "seq", 2, []op{{Op: "disc", E: 0, Models: []*mdl{M("x")}}, {Op: "disc", E: 1, Models: []*mdl{M("x")}},
		{Op: "disc", E: 1, Models: []*mdl{M("y")}, Cancel: true}, {Op: "disc", E: 1, Models: []*mdl{M("y")}}, {Op: "disc", E: 1, Models: []*mdl{M("y")}}})
	c.Count("corpus")

	// ---- random histories
	nseq, nforced, nconc := 260, 120, 0
	if thorough {
		nseq, nforced, nconc = 6000, 2500, 600
	}
	// fleets in which one model is listed by many endpoints at once and then dropped endpoint by endpoint,
	// in every order of "first to drop"
	for n := 5; n <= 7; n++ {
		for first := 0; first < n; first++ {
			var ops []op
			for e := 0; e < n; e++ {
				ops = append(ops, op{Op: "reg", E: e, Models: []*mdl{M("x"), M(fmt.Sprintf("own%d", e))}})
			}
			ops = append(ops, op{Op: "reg", E: first, Models: []*mdl{M("y")}})
			ops = append(ops, op{Op: "remove", E: (first + 1) % n})
			for k := 2; k < n; k++ {
				ops = append(ops, op{Op: "reg", E: (first + k) % n, Models: []*mdl{M(fmt.Sprintf("own%d", k))}})
			}
			caseHist(c, "seq", n, ops)
			c.Count("hist.fleet")
		}
	}
	for i := 0; i < nseq; i++ {
		n := 1 + r.Intn(3)
		length := 3 + r.Intn(10)
		if i%5 == 4 { // larger fleets: one model listed by many endpoints at once, then dropped one by one
			n = 4 + r.Intn(4)
			length = 10 + r.Intn(16)
		}
		caseHist(c, "seq", n, genHist(r, false, true, n, length))
		c.Count("hist.seq")
	}
	for i := 0; i < nforced; i++ {
		n := 1 + r.Intn(3)
		caseHist(c, "forced", n, genHist(r, true, false, n, 3+r.Intn(8)))
		c.Count("hist.forced")
	}
	nburst := 150
	if thorough {
		nburst = 3000
	}
	for i := 0; i < nburst; i++ {
		n := 1 + r.Intn(2)
		g := &gen{r: r, n: n, cur: make([][]mdl, n)}
		var rounds [][]op
		for k := 0; k < 1+r.Intn(3); k++ {
			var round []op
			for j := 0; j < 2+r.Intn(2); j++ {
				var o op
				for {
					o = g.next(false, false)
					if o.Op == "reg" || o.Op == "remove" {
						break
					}
				}
				round = append(round, o)
			}
			rounds = append(rounds, round)
		}
		caseBurst(c, n, rounds)
		c.Count("hist.burst")
	}
	for i := 0; i < nconc; i++ {
		n := 3
		g := &gen{r: r, n: n, cur: make([][]mdl, n)}
		var rounds [][]op
		for k := 0; k < 2+r.Intn(4); k++ {
			var round []op
			for e := 0; e < n; e++ {
				if r.Chance(1, 4) {
					continue
				}
				// one op per endpoint per round
				var o op
				for {
					o = g.next(false, true)
					if o.Op != "badurl" && o.Op != "run" {
						break
					}
				}
				o.E = e
				round = append(round, o)
			}
			rounds = append(rounds, round)
		}
		caseConc(c, n, rounds)
		c.Count("hist.conc")
	}

	// ---- glob: cache histories
	nglob := 400
	if thorough {
		nglob = 8000
	}
	nameAlpha := []string{"a", "a::a", "a::a::a", "A", "x", "xa", "ax", "x::a*", "a*", "llama3:8b", "::", "a:", ":a", ""}
	for i := 0; i < nglob; i++ {
		var ls []look
		for k := 1 + r.Intn(6); k > 0; k-- {
			l := look{Name: vlib.Pick(r, nameAlpha)}
			for j := r.Intn(3); j > 0; j-- {
				l.Include = append(l.Include, vlib.Pick(r, patAlpha[:14]))
			}
			for j := r.Intn(3); j > 0; j-- {
				l.Exclude = append(l.Exclude, vlib.Pick(r, patAlpha[:14]))
			}
			ls = append(ls, l)
		}
		caseGlob(c, ls)
		c.Count("glob.seq")
	}
	// ---- MatchesGlob / Validate: exhaustive over short strings
	alpha := []string{"a", "B", "*", ":", " "}
	pl, sl := 3, 3
	if thorough {
		pl, sl = 4, 4
	}
	strs := allStrings(alpha, sl)
	for _, p := range allStrings(alpha, pl) {
		caseGlobFn(c, p, strs)
		c.Count("globfn")
	}
	// every printable ASCII character in a pattern and in a name, in both cases where it has two: matching is
	// case-insensitive for EVERY letter, and for no other character (the model folds with Char.toLower, ASCII)
	for ch := 0x20; ch <= 0x7e; ch++ {
		if ch == '*' {
			continue
		}
		lo, up := strings.ToLower(string(rune(ch))), strings.ToUpper(string(rune(ch)))
		names := []string{lo, up, lo + "x", up + "x", "x" + lo, "x" + up, "x" + lo + "y", "x" + up + "y", lo + lo, up + lo, lo + up, "", "x"}
		for _, pat := range []string{lo, up, lo + "*", up + "*", "*" + lo, "*" + up, "*" + lo + "*", "*" + up + "*", "x" + up + "*", "*" + lo + "y"} {
			caseGlobFn(c, pat, names)
			c.Count("globfn.ascii")
		}
	}
	c.Emit(map[string]any{"kind": "prodloop", "impl": <-loopRes})
	c.Count("prodloop")
	c.Close(map[string]any{"exhaustive": true,
		"exhaustive_note": fmt.Sprintf("globfn: every pattern of length <= %d x every string of length <= %d over {a,B,*,:,space} through pattern.MatchesGlob and FilterConfig.Validate; histories and cache sequences are sampled (state-directed)", pl, sl)})
}
