//go:build verif

// c17: admission limits.
//
//	kind "chain": the REAL validator chain (security.NewSecurityServices → ports.SecurityChain.Validate)
//	     driven in-process with streams of SecurityRequests (several client ids, health / non-health,
//	     declared body sizes) for a grid of (global, per-ip, health, burst, max-body) limits.
//	kind "rate":  the production stack (app.CreateAndStartServiceManager) with rate limits set, a client
//	     that uses 1..8 TCP connections, keep-alive on/off, sequential or concurrent bursts, mixed
//	     routes (catch-all proxy, provider proxy, Anthropic translator, /internal/health).
//	kind "size":  the production stack with a small max_body_size / max_message_size; bodies at
//	     limit−1, limit, limit+1, 5×limit, announced by Content-Length or sent chunked; the backend
//	     reports how many body bytes reached it.
//
// Rates are a few requests per MINUTE so that refill during a scenario (well under a second) is a
// small fraction of a token and every sequential decision is exact.
package main

import (
	"runtime"
	"sort"
	"github.com/thushan/olla/internal/util"
	"net/http/httptest"
	"bufio"
	"bytes"
	"context"
	"encoding/json"
	"fmt"
	"io"
	"net"
	"net/http"
	"os"
	"strconv"
	"strings"
	"sync"
	"time"

	"github.com/thushan/olla/internal/adapter/security"
	"github.com/thushan/olla/internal/config"
	"github.com/thushan/olla/internal/core/ports"
	"github.com/thushan/olla/internal/zz_verif/stack"
	"github.com/thushan/olla/internal/zz_verif/vlib"
)

// ------------------------------------------------------------------ chain (pure)

type Limits struct {
	Global  int   `json:"global"`
	PerIP   int   `json:"per_ip"`
	Health  int   `json:"health"`
	Burst   int   `json:"burst"`
	MaxBody int64 `json:"max_body"`
}

type ChainReq struct {
	Client  string `json:"client"`
	Health  bool   `json:"health"`
	Body    int64  `json:"body"` // SecurityRequest.BodySize (−1 = unknown / chunked)
	SleepMs int    `json:"sleep_ms,omitempty"`
	// AgeMs > 0: before this request, AgeMs of silence are SIMULATED: every time stamp the rate-limit validator keeps
	// (last access per key, the x/time/rate limiters' clocks) moves that far into the past and the periodic clean-up
	// runs once, as its ticker would have during the silence. Reported times include the simulated span.
	AgeMs int64 `json:"age_ms,omitempty"`
	// Sweeps > 1: the clean-up runs Sweeps times during the simulated silence, after AgeMs*k/Sweeps for k = 1..Sweeps
	// (the ticker fires several times while a client is silent); 0 or 1: one pass at the end of the silence.
	Sweeps int `json:"sweeps,omitempty"`
}

type ChainObs struct {
	T0      int64 `json:"t0"` // ns since scenario start, before Validate
	T1      int64 `json:"t1"` // after
	Allowed bool  `json:"allowed"`
}

func runChain(l Limits, reqs []ChainReq) (out []ChainObs, errs string) {
	cfg := config.DefaultConfig()
	cfg.Server.RateLimits.GlobalRequestsPerMinute = l.Global
	cfg.Server.RateLimits.PerIPRequestsPerMinute = l.PerIP
	cfg.Server.RateLimits.HealthRequestsPerMinute = l.Health
	cfg.Server.RateLimits.BurstSize = l.Burst
	cfg.Server.RateLimits.CleanupInterval = 0
	if len(reqs) > 0 { // a client id "x#c<ms>" selects rate_limits.cleanup_interval = <ms> for the scenario
		if _, ms, ok := strings.Cut(reqs[0].Client, "#c"); ok {
			if n, err := strconv.Atoi(ms); err == nil {
				cfg.Server.RateLimits.CleanupInterval = time.Duration(n) * time.Millisecond
			}
		}
	}
	cfg.Server.RequestLimits.MaxBodySize = l.MaxBody
	cfg.Server.RequestLimits.MaxHeaderSize = 0
	defer func() {
		if r := recover(); r != nil {
			errs = fmt.Sprint("panic: ", r)
		}
	}()
	svc, ad := security.NewSecurityServices(cfg, nil, vlib.QuietLogger())
	defer ad.Stop()
	start := time.Now()
	var aged time.Duration
	for _, q := range reqs {
		if q.SleepMs > 0 {
			time.Sleep(time.Duration(q.SleepMs) * time.Millisecond)
		}
		if q.AgeMs > 0 {
			n := int64(q.Sweeps)
			if n < 1 {
				n = 1
			}
			for k := int64(1); k <= n; k++ {
				d := time.Duration(q.AgeMs*k/n-q.AgeMs*(k-1)/n) * time.Millisecond
				security.VerifAge(ad.RateLimit, d)
				security.VerifSweep(ad.RateLimit)
				aged += d
			}
		}
		t0 := (time.Since(start) + aged).Nanoseconds()
		res, err := svc.Chain.Validate(context.Background(), ports.SecurityRequest{ClientID: q.Client, IsHealthCheck: q.Health, BodySize: q.Body, Endpoint: "/x", Method: "POST"})
		t1 := (time.Since(start) + aged).Nanoseconds()
		if err != nil {
			errs = err.Error()
		}
		out = append(out, ChainObs{T0: t0, T1: t1, Allowed: res.Allowed})
	}
	return out, errs
}

// stallCase: one client address, 64 senders on two processors (so senders are descheduled at arbitrary points, also
// between reading the clock and entering the bucket), per-IP 1000/s burst 3.  Every admission is recorded with the instants
// just before and just after the validator was asked; the worst excess of any window over burst + rate x t is reported.
func stallCase(seconds float64) map[string]any {
	cfg := config.DefaultConfig()
	cfg.Server.RateLimits.GlobalRequestsPerMinute = 0
	cfg.Server.RateLimits.PerIPRequestsPerMinute = 60000
	cfg.Server.RateLimits.HealthRequestsPerMinute = 0
	cfg.Server.RateLimits.BurstSize = 3
	cfg.Server.RateLimits.CleanupInterval = 0
	svc, ad := security.NewSecurityServices(cfg, nil, vlib.QuietLogger())
	defer ad.Stop()
	prev := runtime.GOMAXPROCS(2)
	defer runtime.GOMAXPROCS(prev)
	type adm struct{ t0, t1 int64 }
	start := time.Now()
	var mu sync.Mutex
	var all []adm
	var asked int64
	var wg sync.WaitGroup
	for g := 0; g < 64; g++ {
		wg.Add(1)
		go func() {
			defer wg.Done()
			var mine []adm
			n := int64(0)
			for time.Since(start).Seconds() < seconds {
				t0 := time.Since(start).Nanoseconds()
				res, _ := svc.Chain.Validate(context.Background(), ports.SecurityRequest{ClientID: "203.0.113.50", BodySize: 10, Endpoint: "/x", Method: "POST"})
				t1 := time.Since(start).Nanoseconds()
				n++
				if res.Allowed {
					mine = append(mine, adm{t0, t1})
				}
			}
			mu.Lock()
			all = append(all, mine...)
			asked += n
			mu.Unlock()
		}()
	}
	wg.Wait()
	sort.Slice(all, func(i, j int) bool { return all[i].t0 < all[j].t0 })
	// worst window: admissions whose [t0,t1] lies inside [a.t0, b.t1], against 3 + 1000/s x (b.t1 - a.t0)
	ends := make([]int64, len(all))
	for i, a := range all {
		ends[i] = a.t1
	}
	worst, wc, ww := -1e18, 0, 0.0
	for i := range all {
		for j := i; j < len(all); j++ {
			c := 0
			for k := i; k < len(all) && all[k].t0 <= all[j].t1; k++ {
				if all[k].t1 <= all[j].t1 {
					c++
				}
			}
			w := float64(all[j].t1 - all[i].t0)
			if ex := float64(c) - (3 + w/1e6); ex > worst {
				worst, wc, ww = ex, c, w/1e6
			}
			if j-i > 400 {
				break // windows of more than 400 admissions add nothing new
			}
		}
	}
	return map[string]any{"asked": asked, "admitted": len(all), "worst_excess_milli": int64(worst * 1000), "worst_count": wc, "worst_window_us": int64(ww * 1000)}
}

// ------------------------------------------------------------------ stack scenarios

type PlanItem struct {
	Conn  int    `json:"conn"`
	Route string `json:"route"` // proxy | provider | anthropic | health
}

type RateScenario struct {
	Engine     string     `json:"engine,omitempty"` // sherpa (default) | olla
	Lim        Limits     `json:"lim"`
	Conns      int        `json:"conns"`
	KeepAlive  bool       `json:"keepalive"`
	Concurrent bool       `json:"concurrent"`
	Plan       []PlanItem `json:"plan"`
	// Trust: trust_proxy_headers is on; the configuration FILE trusts FileCIDRs, the environment override
	// (OLLA_SERVER_TRUSTED_PROXY_CIDRS) narrows that to EnvCIDRs, the configuration goes through config.Load, and
	// every request carries its own X-Forwarded-For. The client (127.0.0.1) is outside the effective list, so its
	// header must not buy it a bucket per request.
	Trust *TrustCfg `json:"trust,omitempty"`
}

type TrustCfg struct {
	FileCIDRs []string `json:"file_cidrs"`
	EnvCIDRs  []string `json:"env_cidrs,omitempty"`
}

type RateObs struct {
	Conn   int    `json:"conn"`
	Port   int    `json:"port"`
	Route  string `json:"route"`
	Send   int64  `json:"send"`
	Recv   int64  `json:"recv"`
	Status int    `json:"status"`
	Err    string `json:"err,omitempty"`
	Retry  string `json:"retry_after,omitempty"`
}

const completion = `{"id":"c1","object":"chat.completion","created":1700000000,"model":"zzm","choices":[{"index":0,"message":{"role":"assistant","content":"hi"},"finish_reason":"stop"}],"usage":{"prompt_tokens":1,"completion_tokens":1,"total_tokens":2}}`

func newBackend() *stack.Backend {
	b := stack.NewBackend("A")
	b.Listing = func(p string) (int, string) {
		if strings.HasSuffix(p, "/models") {
			return 200, `{"object":"list","data":[{"id":"zzm","object":"model","created":1700000000,"owned_by":"zz"}]}`
		}
		return 0, ""
	}
	b.SetBehaviour(stack.Behaviour{Kind: "ok", Status: 200, Headers: [][2]string{{"Content-Type", "application/json"}}, Body: []byte(completion)})
	return b
}

func startStack(engine string, l Limits, anthropicMax int64, trust ...*TrustCfg) (*stack.Stack, *stack.Backend, error) {
	if engine == "" {
		engine = "sherpa"
	}
	b := newBackend()
	var s *stack.Stack
	var err error
	for try := 0; try < 4; try++ {
		opts := stack.Opts{Engine: engine, Balancer: "priority", ModelDiscovery: true, Vary: stack.VaryFor("c17", engine, l, anthropicMax, len(trust)),
			EPs: []stack.EP{{Name: "A", Type: "openai", Priority: 100, Backend: b}}}
		var tc *TrustCfg
		if len(trust) > 0 && trust[0] != nil {
			tc = trust[0]
			opts.Load = true
			if len(tc.EnvCIDRs) > 0 {
				opts.Env = map[string]string{"OLLA_SERVER_TRUSTED_PROXY_CIDRS": strings.Join(tc.EnvCIDRs, ",")}
			}
		}
		opts.Mutate = func(c *config.Config) {
			if tc != nil {
				c.Server.RateLimits.TrustProxyHeaders = true
				c.Server.RateLimits.TrustedProxyCIDRs = tc.FileCIDRs
				c.Server.RateLimits.TrustedProxyCIDRsParsed = nil
			}
			c.Server.RateLimits.GlobalRequestsPerMinute = l.Global
			c.Server.RateLimits.PerIPRequestsPerMinute = l.PerIP
			c.Server.RateLimits.HealthRequestsPerMinute = l.Health
			c.Server.RateLimits.BurstSize = l.Burst
			c.Server.RequestLimits.MaxBodySize = l.MaxBody
			if anthropicMax > 0 {
				c.Translators.Anthropic.MaxMessageSize = anthropicMax
			}
		}
		s, err = stack.Start(opts)
		if err != nil {
			continue
		}
		// ready when healthy and the model is in the catalogue
		deadline := time.Now().Add(5 * time.Second)
		ok := false
		for time.Now().Before(deadline) {
			if s.Statuses()["A"] == "healthy" {
				r := stack.Do(s.Addr, stack.Request("GET", "/olla/models", "x", nil, nil, false), 2*time.Second)
				if strings.Contains(string(r.Body), `"zzm"`) {
					ok = true
					break
				}
			}
			time.Sleep(30 * time.Millisecond)
		}
		if ok {
			b.Taken()
			return s, b, nil
		}
		s.Stop()
		err = fmt.Errorf("stack not ready")
	}
	b.Close()
	return nil, nil, err
}

func routeReq(route string, keepAlive bool) []byte {
	var method, path, body string
	switch route {
	case "proxy":
		method, path, body = "POST", "/olla/proxy/v1/chat/completions", `{"model":"zzm","messages":[{"role":"user","content":"hi"}]}`
	case "provider":
		method, path, body = "POST", "/olla/openai/v1/chat/completions", `{"model":"zzm","messages":[{"role":"user","content":"hi"}]}`
	case "anthropic":
		method, path, body = "POST", "/olla/anthropic/v1/messages", `{"model":"zzm","max_tokens":8,"messages":[{"role":"user","content":"hi"}]}`
	default:
		method, path, body = "GET", "/internal/health", ""
	}
	var sb bytes.Buffer
	fmt.Fprintf(&sb, "%s %s HTTP/1.1\r\nHost: olla\r\n", method, path)
	if !keepAlive {
		sb.WriteString("Connection: close\r\n")
	}
	if body != "" {
		fmt.Fprintf(&sb, "Content-Type: application/json\r\nContent-Length: %d\r\n", len(body))
	}
	sb.WriteString("\r\n")
	sb.WriteString(body)
	return sb.Bytes()
}

type kaConn struct {
	c  net.Conn
	br *bufio.Reader
}

func dial(addr string) (*kaConn, error) {
	c, err := net.DialTimeout("tcp", addr, 2*time.Second)
	if err != nil {
		return nil, err
	}
	return &kaConn{c: c, br: bufio.NewReader(c)}, nil
}

func (k *kaConn) port() int { return k.c.LocalAddr().(*net.TCPAddr).Port }

// one request/response on an open connection
func (k *kaConn) roundTrip(raw []byte, start time.Time, o *RateObs) {
	o.Port = k.port()
	k.c.SetDeadline(time.Now().Add(5 * time.Second))
	o.Send = time.Since(start).Nanoseconds()
	if _, err := k.c.Write(raw); err != nil {
		o.Err = "write"
		o.Recv = time.Since(start).Nanoseconds()
		return
	}
	resp, err := http.ReadResponse(k.br, nil)
	if err != nil {
		o.Err = "read"
		o.Recv = time.Since(start).Nanoseconds()
		return
	}
	io.Copy(io.Discard, resp.Body)
	resp.Body.Close()
	o.Recv = time.Since(start).Nanoseconds()
	o.Status = resp.StatusCode
	o.Retry = resp.Header.Get("Retry-After")
}

func runRate(sc *RateScenario) (obs []RateObs, backendSaw int, startErr string) {
	s, b, err := startStack(sc.Engine, sc.Lim, 0, sc.Trust)
	if err != nil {
		return nil, 0, err.Error()
	}
	defer s.Stop()
	defer b.Close()
	start := time.Now()
	obs = make([]RateObs, len(sc.Plan))
	for i, p := range sc.Plan {
		obs[i] = RateObs{Conn: p.Conn, Route: p.Route}
	}
	conns := map[int]*kaConn{}
	var cmu sync.Mutex
	do := func(i int) {
		p := sc.Plan[i]
		var k *kaConn
		if sc.KeepAlive {
			cmu.Lock()
			k = conns[p.Conn]
			cmu.Unlock()
			if k == nil {
				var err error
				if k, err = dial(s.Addr); err != nil {
					obs[i].Err = "dial"
					return
				}
				cmu.Lock()
				conns[p.Conn] = k
				cmu.Unlock()
			}
		} else {
			var err error
			if k, err = dial(s.Addr); err != nil {
				obs[i].Err = "dial"
				return
			}
			defer k.c.Close()
		}
		rq := routeReq(p.Route, sc.KeepAlive)
		if sc.Trust != nil { // a different forwarded-for on every request
			rq = bytes.Replace(rq, []byte("\r\nHost: olla\r\n"), []byte(fmt.Sprintf("\r\nHost: olla\r\nX-Forwarded-For: 203.0.113.%d\r\nX-Real-IP: 198.51.100.%d\r\n", 1+i%250, 1+i%250)), 1)
		}
		k.roundTrip(rq, start, &obs[i])
		if obs[i].Err != "" && sc.KeepAlive {
			k.c.Close()
			cmu.Lock()
			delete(conns, p.Conn)
			cmu.Unlock()
		}
	}
	if !sc.Concurrent {
		for i := range sc.Plan {
			do(i)
		}
	} else {
		// one goroutine per connection, each walks its own items in plan order; all start together
		per := map[int][]int{}
		for i, p := range sc.Plan {
			per[p.Conn] = append(per[p.Conn], i)
		}
		gate := make(chan struct{})
		var wg sync.WaitGroup
		for _, idx := range per {
			wg.Add(1)
			go func(idx []int) {
				defer wg.Done()
				<-gate
				for _, i := range idx {
					do(i)
				}
			}(idx)
		}
		close(gate)
		wg.Wait()
	}
	for _, k := range conns {
		k.c.Close()
	}
	time.Sleep(20 * time.Millisecond)
	return obs, len(b.Taken()), ""
}

type SizeItem struct {
	Route   string `json:"route"` // proxy | provider | anthropic
	Size    int    `json:"size"`
	Chunked bool   `json:"chunked"`
	Method  string `json:"method"`
}

type SizeScenario struct {
	Engine       string     `json:"engine,omitempty"`
	Lim          Limits     `json:"lim"`
	AnthropicMax int64      `json:"anthropic_max"`
	Items        []SizeItem `json:"items"`
}

type SizeObs struct {
	Status      int    `json:"status"`
	Err         string `json:"err,omitempty"`
	BackendReqs int    `json:"backend_reqs"`
	BackendBody int    `json:"backend_body"` // body bytes the backend received (−1: not contacted)
}

// a JSON body of exactly n bytes that is a valid chat / messages request
func paddedBody(route string, n int) []byte {
	head := `{"model":"zzm","max_tokens":8,"messages":[{"role":"user","content":"`
	tail := `"}]}`
	if n < len(head)+len(tail) {
		return bytes.Repeat([]byte("a"), n)
	}
	return []byte(head + strings.Repeat("a", n-len(head)-len(tail)) + tail)
}

func runSize(sc *SizeScenario) (out []SizeObs, startErr string) {
	s, b, err := startStack(sc.Engine, sc.Lim, sc.AnthropicMax)
	if err != nil {
		return nil, err.Error()
	}
	defer s.Stop()
	defer b.Close()
	for _, it := range sc.Items {
		path := map[string]string{"proxy": "/olla/proxy/v1/chat/completions", "provider": "/olla/openai/v1/chat/completions", "anthropic": "/olla/anthropic/v1/messages"}[it.Route]
		m := it.Method
		if m == "" {
			m = "POST"
		}
		body := paddedBody(it.Route, it.Size)
		r := stack.Do(s.Addr, stack.Request(m, path, "olla", [][2]string{{"Content-Type", "application/json"}}, body, it.Chunked), 5*time.Second)
		time.Sleep(5 * time.Millisecond)
		tk := b.Taken()
		o := SizeObs{Status: r.Status, Err: r.Err, BackendReqs: len(tk), BackendBody: -1}
		for _, t := range tk {
			if t.BodyLen > o.BackendBody {
				o.BackendBody = t.BodyLen
			}
		}
		out = append(out, o)
	}
	return out, ""
}

// ------------------------------------------------------------------ generation

type chainCase struct {
	L    Limits
	Reqs []ChainReq
}

// genIdleCase: a history of one or two client addresses (optionally with health requests, which have a bucket and a
// rate of their own) that spend their burst, stay silent, come back and spend what they are given, several times.
// Boundary-biased in every number it draws:
//   - (rate, burst): burst/rate (the minutes a drained bucket needs to refill) whole and non-whole, just below, at and
//     above the 10-minute idle cut-off of the clean-up, the documented shapes (100/50, 1/20), large rates with small bursts;
//   - the silence: at and around floor(burst/rate) minutes (+1 s), the true refill time burst/rate minutes (+-1 ms, +-1 s,
//     +-3 s), the 10-minute cut-off (+-1 ms, +-2 s), whole minutes above, half, twice and ten times the refill time, the
//     refill time read in seconds, and uniform values;
//   - the number of clean-up passes that fall into the silence (1, 2, 3, 5, 9), the last one at its very end;
//   - optionally a max_body_size at a power of two (4 KiB .. 4 GiB) with declared lengths at limit-1, limit, limit+1.
// Judged like every "chain" case: decisions compared with the ideal bucket, and every bucket key against burst + rate x t.
//
// The only thing the generator avoids is a silence after which a bucket holds a whole number of tokens minus less than
// what 200 ms refill (the decision would then depend on the microseconds the calls themselves take, which the model is
// only told as the interval [t0, t1]): it keeps an exact integer copy of every bucket (1 token = 60000 rate x ms units)
// and moves such a silence on by a second or two.
func genIdleCase(r *vlib.Rng) chainCase {
	var R, B int
	switch r.Intn(10) {
	case 0, 1, 2, 3: // burst = rate x q + rem: ratio q + rem/rate minutes around and above the cut-off, mostly not whole
		R = vlib.Pick(r, []int{1, 2, 3, 4, 5, 6, 7, 8, 9, 11, 12, 13})
		q := vlib.Pick(r, []int{9, 10, 10, 10, 11, 11, 12, 15, 20, 25})
		for R*q+R-1 > 160 && q > 9 {
			q--
		}
		rem := r.Intn(R)
		if R > 1 && rem == 0 && r.Chance(2, 3) {
			rem = 1 + r.Intn(R-1)
		}
		B = R*q + rem
	case 4, 5:
		p := vlib.Pick(r, [][2]int{{6, 65}, {4, 50}, {2, 25}, {1, 20}, {1, 12}, {100, 50}, {60, 10}, {3, 40}, {7, 75}, {9, 100}, {12, 125}, {8, 81}, {5, 64}, {3, 32}, {6, 61}, {6, 59}, {2, 21}, {12, 128}})
		R, B = p[0], p[1]
	case 6, 7:
		R, B = 1+r.Intn(15), 1+r.Intn(160)
	case 8:
		R, B = vlib.Pick(r, []int{30, 60, 100, 120, 600}), vlib.Pick(r, []int{1, 5, 10, 50, 64, 128})
	default:
		R, B = vlib.Pick(r, []int{1, 2, 3}), vlib.Pick(r, []int{1, 2, 9, 10, 11, 19, 21, 29, 31})
	}
	l := Limits{PerIP: R, Burst: B}
	if r.Chance(1, 3) {
		l.Health = vlib.Pick(r, []int{1, 2, 3, 7, R})
	}
	if r.Chance(1, 4) {
		l.MaxBody = vlib.Pick(r, []int64{4096, 8192, 65536, 131072, 1 << 20, 16 << 20, 1 << 31, 1 << 32})
	}
	type key struct {
		client string
		health bool
		rate   int64
		tokens int64 // x 60000
	}
	var keys []*key
	ncl := 1
	if B <= 80 && r.Chance(1, 3) {
		ncl = 2
	}
	for c := 0; c < ncl; c++ {
		id := fmt.Sprintf("10.7.0.%d", c+1)
		keys = append(keys, &key{id, false, int64(R), int64(B) * 60000})
		if l.Health > 0 && B <= 80 {
			keys = append(keys, &key{id, true, int64(l.Health), int64(B) * 60000})
		}
	}
	capT := int64(B) * 60000
	var q []ChainReq
	body := func() int64 {
		if l.MaxBody > 0 && r.Chance(1, 8) {
			return l.MaxBody + vlib.Pick(r, []int64{-1, 0, 1, 1, l.MaxBody})
		}
		return 10
	}
	// asks of every key until it has been refused once or twice; the first request of the segment carries the silence
	segment := func(age int64, sweeps int) {
		first := true
		for _, k := range keys {
			n := int(k.tokens/60000) + 1 + r.Intn(2)
			for i := 0; i < n; i++ {
				cr := ChainReq{Client: k.client, Health: k.health, Body: body()}
				if first {
					cr.AgeMs, cr.Sweeps, first = age, sweeps, false
				}
				q = append(q, cr)
				if k.tokens >= 60000 {
					k.tokens -= 60000
				}
			}
		}
	}
	segment(0, 0)
	nseg := 1 + r.Intn(4)
	if lim := 500/(B+2) - 1; nseg > lim {
		nseg = lim
	}
	if nseg < 1 {
		nseg = 1
	}
	for s := 0; s < nseg; s++ {
		f := keys[r.Intn(len(keys))] // the silence is drawn around this bucket's numbers
		refill := int64(B) * 60000 / f.rate
		fl := int64(B) / f.rate * 60000
		var idle int64
		switch r.Intn(8) {
		case 0, 1, 2: // between the whole minutes below the refill time and the refill time
			idle = vlib.Pick(r, []int64{fl + 1000, fl + 1001, fl + 3000, fl + 5000, (fl + 1000 + refill) / 2, refill - 3000, refill - 1000, fl + 1000 + int64(r.Intn(int(refill-fl)+1))})
		case 3:
			idle = refill + vlib.Pick(r, []int64{-1, 0, 1, 999, 1000, 1001, 3000, 60000})
		case 4:
			idle = 600000 + vlib.Pick(r, []int64{-2000, -1, 0, 1, 1000, 2000, 30000})
		case 5:
			idle = vlib.Pick(r, []int64{fl - 2000, fl, fl + 60000, fl + 61000, refill / 2, 2 * refill, 10 * refill, 100 * refill, refill/60 + 1000, 60 * refill})
		case 6:
			idle = 600000 + int64(r.Intn(int(refill)+60000))
		default:
			idle = 1000 + int64(r.Intn(int(2*refill)+300000))
		}
		if idle < 1 {
			idle = 1
		}
		ok := false
		for try := 0; try < 10 && !ok; try++ {
			ok = true
			for _, k := range keys {
				t := k.tokens + k.rate*idle
				if t < capT && t%60000+k.rate*200 >= 60000 {
					ok = false
				}
			}
			if !ok {
				idle += 700 + int64(r.Intn(1500))
			}
		}
		if !ok {
			break
		}
		for _, k := range keys {
			if k.tokens += k.rate * idle; k.tokens > capT {
				k.tokens = capT
			}
		}
		segment(idle, vlib.Pick(r, []int{0, 0, 1, 2, 3, 5, 9}))
	}
	return chainCase{l, q}
}

func genPlan(r *vlib.Rng, conns, n int, routes []string) []PlanItem {
	var p []PlanItem
	for i := 0; i < n; i++ {
		p = append(p, PlanItem{Conn: r.Intn(conns), Route: vlib.Pick(r, routes)})
	}
	return p
}

func main() {
	tier := vlib.Tier()
	r := vlib.NewRng(vlib.Seed())
	c := vlib.OpenCases("cases.jsonl")

	var chains []chainCase
	var rates []*RateScenario
	var sizes []*SizeScenario

	if rp := vlib.ReplayPath(); rp != "" {
		var rep struct {
			FailingCase struct {
				Kind     string          `json:"kind"`
				Lim      Limits          `json:"lim"`
				Reqs     []ChainReq      `json:"reqs"`
				Scenario json.RawMessage `json:"scenario"`
			} `json:"failing_case"`
		}
		b, _ := os.ReadFile(rp)
		json.Unmarshal(b, &rep)
		switch rep.FailingCase.Kind {
		case "chain":
			chains = append(chains, chainCase{rep.FailingCase.Lim, rep.FailingCase.Reqs})
		case "rate":
			sc := &RateScenario{}
			json.Unmarshal(rep.FailingCase.Scenario, sc)
			rates = append(rates, sc)
		case "size":
			sc := &SizeScenario{}
			json.Unmarshal(rep.FailingCase.Scenario, sc)
			sizes = append(sizes, sc)
		}
	} else {
		// ---- chain: corner cases first
		mkReqs := func(n int, clients []string, healthEvery int, body int64) []ChainReq {
			var q []ChainReq
			for i := 0; i < n; i++ {
				q = append(q, ChainReq{Client: clients[i%len(clients)], Health: healthEvery > 0 && i%healthEvery == healthEvery-1, Body: body})
			}
			return q
		}
		// a client that empties its bucket, stays silent for several cleanup intervals and comes back:
		// the silence is far too short to refill a token, so it must still be refused
		for _, cl := range []int{50, 100} {
			id := fmt.Sprintf("9.9.9.9#c%d", cl)
			q := []ChainReq{{id, false, 10, 0, 0, 0}, {id, false, 10, 0, 0, 0}, {id, false, 10, 0, 0, 0}, {id, false, 10, 0, 0, 0},
				{id, false, 10, 6 * cl, 0, 0}, {id, false, 10, 0, 0, 0}, {id, false, 10, 0, 0, 0}, {id, false, 10, 3 * cl, 0, 0}, {id, false, 10, 0, 0, 0}}
			chains = append(chains, chainCase{Limits{0, 6, 0, 3, 0}, q})
		}
		// long silences, simulated (AgeMs): a client drains its burst, is silent for a while, comes back. The silence
		// buys back rate x silence tokens and nothing more, whatever the clean-up of idle limiters did meanwhile.
		for _, sc := range []struct {
			perIP, burst int
			ageMin       float64
		}{{1, 12, 10.5}, {1, 12, 16}, {1, 20, 10.5}, {2, 30, 11}, {6, 20, 1.1}, {6, 20, 2.5}, {1, 5, 11}, {3, 40, 12}, {1, 12, 5}, {100, 50, 11},
			// the default shape (burst below the per-minute rate) with a short cleanup_interval and silences of seconds
			{100, 50, 0.05}, {60, 10, 0.04}, {120, 30, 0.1}, {100, 50, 0.5}} {
			id := "9.9.9.7"
			if sc.ageMin < 5 {
				id = "9.9.9.7#c100" // a short cleanup_interval is configured
			}
			var q []ChainReq
			for i := 0; i < sc.burst+2; i++ {
				q = append(q, ChainReq{Client: id, Body: 10})
			}
			q = append(q, ChainReq{Client: id, Body: 10, AgeMs: int64(sc.ageMin * 60000)})
			for i := 0; i < sc.burst+1; i++ {
				q = append(q, ChainReq{Client: id, Body: 10})
			}
			// a second silence, then once more
			q = append(q, ChainReq{Client: id, Body: 10, AgeMs: int64(sc.ageMin * 60000)})
			for i := 0; i < sc.burst+1; i++ {
				q = append(q, ChainReq{Client: id, Body: 10})
			}
			chains = append(chains, chainCase{Limits{0, sc.perIP, 0, sc.burst, 0}, q})
		}
		if tier == "thorough" {
			// the same, over a silence of more than a minute with a bucket that needs 200 s to refill:
			// 65 s buy back 6.5 tokens, not a new burst of 20
			id := "9.9.9.8#c100"
			var q []ChainReq
			for i := 0; i < 44; i++ {
				sl := 0
				if i == 22 {
					sl = 65000
				}
				q = append(q, ChainReq{id, false, 10, sl, 0, 0})
			}
			chains = append(chains, chainCase{Limits{0, 6, 0, 20, 0}, q})
		}
		chains = append(chains,
			chainCase{Limits{0, 2, 0, 2, 0}, mkReqs(6, []string{"1.1.1.1"}, 0, 10)},                                                                                                          // burst then refuse
			chainCase{Limits{0, 2, 0, 2, 0}, mkReqs(8, []string{"1.1.1.1:1000", "1.1.1.1:1001"}, 0, 10)},                                                                                     // two ids, two buckets
			chainCase{Limits{3, 5, 0, 2, 0}, mkReqs(8, []string{"a", "b", "c"}, 0, 10)},                                                                                                      // global binds first
			chainCase{Limits{3, 0, 0, 2, 0}, mkReqs(8, []string{"a"}, 0, 10)},                                                                                                                // per-ip 0: bypass (even the global limiter)
			chainCase{Limits{0, 2, 1, 1, 0}, mkReqs(9, []string{"a"}, 3, 10)},                                                                                                                // health split
			chainCase{Limits{0, 2, 0, 1, 0}, mkReqs(6, []string{"a"}, 2, 10)},                                                                                                                // health limit 0: health requests bypass
			chainCase{Limits{0, 3, 3, 0, 0}, mkReqs(4, []string{"a"}, 0, 10)},                                                                                                                // burst 0: nothing admitted
			chainCase{Limits{0, 100, 0, 3, 1000}, []ChainReq{{"a", false, 999, 0, 0, 0}, {"a", false, 1000, 0, 0, 0}, {"a", false, 1001, 0, 0, 0}, {"a", false, -1, 0, 0, 0}, {"a", false, 5000, 0, 0, 0}}}, // size on declared length only
			chainCase{Limits{0, 1, 0, 1, 1000}, []ChainReq{{"a", false, 5000, 0, 0, 0}, {"a", false, 10, 0, 0, 0}}},                                                                                // an oversize request still spends the token
			chainCase{Limits{0, 120, 0, 1, 0}, []ChainReq{{"a", false, 1, 0, 0, 0}, {"a", false, 1, 100, 0, 0}, {"a", false, 1, 700, 0, 0}, {"a", false, 1, 50, 0, 0}}},                                  // refill: 2 tokens/s
			chainCase{Limits{0, 60, 0, 2, 0}, []ChainReq{{"a", false, 1, 0, 0, 0}, {"a", false, 1, 0, 0, 0}, {"a", false, 1, 0, 0, 0}, {"a", false, 1, 1300, 0, 0}, {"a", false, 1, 0, 0, 0}}},              // refill: 1 token/s
		)
		nchain := 150
		if tier == "thorough" {
			nchain = 1500
		}
		for i := 0; i < nchain; i++ {
			l := Limits{Global: vlib.Pick(r, []int{0, 0, 2, 4, 6, -1}), PerIP: vlib.Pick(r, []int{0, 1, 2, 3, 6, 6, -1}), Health: vlib.Pick(r, []int{0, 1, 3, 6}),
				Burst: vlib.Pick(r, []int{0, 1, 2, 3, 5, -1}), MaxBody: vlib.Pick(r, []int64{0, 0, 100, 1000})}
			nc := 1 + r.Intn(3)
			var cl []string
			for k := 0; k < nc; k++ {
				cl = append(cl, fmt.Sprintf("10.0.0.%d", k))
			}
			var q []ChainReq
			n := 4 + r.Intn(24)
			for k := 0; k < n; k++ {
				body := int64(10)
				if r.Chance(1, 5) {
					body = vlib.Pick(r, []int64{-1, 0, 99, 100, 101, 999, 1000, 1001, 5000})
				}
				q = append(q, ChainReq{Client: vlib.Pick(r, cl), Health: r.Chance(1, 4), Body: body})
			}
			chains = append(chains, chainCase{l, q})
		}
		// random streams with simulated silences between 30 s and 25 min (several clients, health and non-health
		// paths, optional global limiter): own PRNG stream so the cases above do not shift
		ra := vlib.NewRng(vlib.Seed() ^ 0xA6ED)
		nage := 60
		if tier == "thorough" {
			nage = 1200
		}
		for i := 0; i < nage; i++ {
			l := Limits{Global: vlib.Pick(ra, []int{0, 0, 0, 30}), PerIP: vlib.Pick(ra, []int{1, 1, 2, 3, 6, 60}), Health: vlib.Pick(ra, []int{0, 1, 3}),
				Burst: vlib.Pick(ra, []int{1, 3, 5, 12, 20, 40}), MaxBody: 0}
			cl := []string{"10.1.0.1", "10.1.0.2"}[:1+ra.Intn(2)]
			var q []ChainReq
			n := 3 + ra.Intn(4)
			for seg := 0; seg < n; seg++ {
				m := 1 + ra.Intn(l.Burst+3)
				for k := 0; k < m; k++ {
					cr := ChainReq{Client: vlib.Pick(ra, cl), Health: ra.Chance(1, 6), Body: 10}
					if k == 0 && seg > 0 {
						cr.AgeMs = int64(30000 + ra.Intn(25*60000))
					}
					q = append(q, cr)
				}
			}
			chains = append(chains, chainCase{l, q})
		}

		// silences at and around the numbers the clean-up of idle limiters computes with (own PRNG stream)
		rb := vlib.NewRng(vlib.Seed() ^ 0xB0DE17)
		nidle := 90
		if tier == "thorough" {
			nidle = 900
		}
		for i := 0; i < nidle; i++ {
			chains = append(chains, genIdleCase(rb))
		}

		// ---- rate: the three design-time witnesses first
		rates = append(rates,
			&RateScenario{Lim: Limits{0, 2, 0, 2, 0}, Conns: 5, KeepAlive: false, Plan: []PlanItem{{0, "proxy"}, {1, "proxy"}, {2, "proxy"}, {3, "proxy"}, {4, "proxy"}}},   // one bucket per connection
			&RateScenario{Lim: Limits{0, 2, 0, 2, 0}, Conns: 1, KeepAlive: true, Plan: []PlanItem{{0, "proxy"}, {0, "proxy"}, {0, "proxy"}, {0, "provider"}, {0, "proxy"}}}, // refusal status
			&RateScenario{Lim: Limits{0, 1, 0, 1, 0}, Conns: 1, KeepAlive: true, Plan: []PlanItem{{0, "anthropic"}, {0, "anthropic"}, {0, "anthropic"}, {0, "anthropic"}}},  // translator route
			&RateScenario{Lim: Limits{0, 2, 1, 2, 0}, Conns: 1, KeepAlive: true, Plan: []PlanItem{{0, "health"}, {0, "health"}, {0, "proxy"}, {0, "health"}, {0, "proxy"}, {0, "proxy"}}},
		)
		// a client outside the trusted proxies puts a different X-Forwarded-For on every request; the configuration
		// is read by config.Load from a file, with and without an environment override that narrows the trusted list
		for _, engine := range []string{"sherpa", "olla"} {
			for _, tc := range []*TrustCfg{
				{FileCIDRs: []string{"10.0.0.0/8"}},
				{FileCIDRs: []string{"127.0.0.0/8", "10.0.0.0/8"}, EnvCIDRs: []string{"10.0.0.0/8"}},
				{FileCIDRs: []string{"0.0.0.0/0"}, EnvCIDRs: []string{"192.168.0.0/16", "172.16.0.0/12"}},
			} {
				var plan []PlanItem
				for i := 0; i < 8; i++ {
					plan = append(plan, PlanItem{i % 3, vlib.Pick(r, []string{"proxy", "provider", "proxy"})})
				}
				rates = append(rates, &RateScenario{Engine: engine, Lim: Limits{0, 2, 0, 2, 0}, Conns: 3, KeepAlive: true, Plan: plan, Trust: tc})
			}
		}
		// one client address, many connections, requests that overlap inside the limiter for a couple of seconds: the
		// bucket decides AND deducts in one step, so overlapping requests cannot spend the same token
		for _, engine := range []string{"sherpa", "olla"} {
			for _, l := range []Limits{{0, 60000, 0, 1, 0}, {0, 30000, 0, 2, 0}, {90000, 60000, 0, 1, 0}, {0, 120000, 0, 1, 0}, {0, 60000, 0, 3, 0}} {
				var plan []PlanItem
				for i := 0; i < 32*150; i++ {
					plan = append(plan, PlanItem{i % 32, "proxy"})
				}
				rates = append(rates, &RateScenario{Engine: engine, Lim: l, Conns: 32, KeepAlive: true, Concurrent: true, Plan: plan})
			}
		}
		grid := []Limits{{0, 2, 0, 2, 0}, {0, 1, 0, 1, 0}, {0, 3, 0, 2, 0}, {0, 6, 0, 3, 0}, {0, 2, 0, 5, 0}, {3, 2, 0, 2, 0}, {2, 5, 0, 1, 0}, {4, 0, 0, 2, 0}, {0, 4, 1, 2, 0}}
		mixes := [][]string{{"proxy"}, {"proxy", "provider"}, {"proxy", "provider", "health"}, {"anthropic"}, {"proxy", "anthropic", "provider"}}
		for _, l := range grid {
			for _, conns := range []int{1, 2, 4, 8} {
				for _, ka := range []bool{true, false} {
					for _, conc := range []bool{false, true} {
						for _, mix := range mixes {
							if tier != "thorough" && !r.Chance(1, 5) {
								continue
							}
							n := 2*conns + 2 + r.Intn(6)
							if n > 22 {
								n = 22
							}
							rates = append(rates, &RateScenario{Engine: vlib.Pick(r, []string{"sherpa", "olla"}), Lim: l, Conns: conns, KeepAlive: ka, Concurrent: conc, Plan: genPlan(r, conns, n, mix)})
						}
					}
				}
			}
		}

		// ---- size
		// net/http reads at most 256 KiB of an unread request body before it closes the connection; a client that is still
		// writing a longer body may lose the answer to the reset, so refused bodies stay below that
		around := func(m int) []int {
			if 5*m > 200000 {
				return []int{m - 1, m, m + 1, m + 8193}
			}
			return []int{m - 1, m, m + 1, 5 * m}
		}
		szLimits := []int{1000, 300, 4096, 8192} // 8192 and the powers of two above: buffer-size constants of the proxy engines
		if tier == "thorough" {
			szLimits = append(szLimits, 16384, 65536)
		}
		for _, m := range szLimits {
			sc := &SizeScenario{Engine: map[int]string{1000: "sherpa", 300: "olla", 4096: "sherpa", 8192: "olla", 16384: "sherpa", 65536: "olla"}[m], Lim: Limits{0, 0, 0, 0, int64(m)}, AnthropicMax: int64(2 * m)}
			for _, n := range around(m) {
				for _, ch := range []bool{false, true} {
					sc.Items = append(sc.Items, SizeItem{Route: "proxy", Size: n, Chunked: ch})
				}
			}
			for _, n := range around(m) {
				sc.Items = append(sc.Items, SizeItem{Route: "provider", Size: n, Chunked: n%2 == 1})
			}
			sc.Items = append(sc.Items, SizeItem{Route: "proxy", Size: m + 1, Chunked: true, Method: "PUT"}, SizeItem{Route: "proxy", Size: m + 1, Chunked: false, Method: "PUT"},
				SizeItem{Route: "proxy", Size: m, Chunked: true, Method: "PUT"})
			for _, n := range around(2 * m) {
				for _, ch := range []bool{false, true} {
					sc.Items = append(sc.Items, SizeItem{Route: "anthropic", Size: n, Chunked: ch})
				}
			}
			sizes = append(sizes, sc)
		}
		// no server limit (0 = off), Anthropic limit only; and a large server limit
		sizes = append(sizes, &SizeScenario{Lim: Limits{0, 0, 0, 0, 0}, AnthropicMax: 1500, Items: []SizeItem{{"proxy", 20000, true, ""}, {"proxy", 20000, false, ""}, {"anthropic", 1500, false, ""}, {"anthropic", 1501, true, ""}, {"anthropic", 1501, false, ""}, {"anthropic", 9000, true, ""}}})
		nsz := 3
		if tier == "thorough" {
			nsz = 30
		}
		for i := 0; i < nsz; i++ {
			m := 200 + r.Intn(3000)
			sc := &SizeScenario{Engine: vlib.Pick(r, []string{"sherpa", "olla"}), Lim: Limits{0, 0, 0, 0, int64(m)}, AnthropicMax: int64(m + 100 + r.Intn(2000))}
			for k := 0; k < 10; k++ {
				lim := m
				route := vlib.Pick(r, []string{"proxy", "provider", "anthropic"})
				if route == "anthropic" {
					lim = int(sc.AnthropicMax)
				}
				n := lim + vlib.Pick(r, []int{-50, -1, 0, 1, 2, 50, lim, 4 * lim})
				sc.Items = append(sc.Items, SizeItem{Route: route, Size: n, Chunked: r.Bool()})
			}
			sizes = append(sizes, sc)
		}
	}

	// ---- run
	type job func()
	var jobs []job
	var mu sync.Mutex
	type emitted struct {
		order  int
		m      map[string]any
		bucket string
	}
	var outs []emitted
	add := func(order int, bucket string, m map[string]any) {
		mu.Lock()
		outs = append(outs, emitted{order, m, bucket})
		mu.Unlock()
	}
	// the bucket key of a connection: the same client address on different source ports (different TCP connections) is one
	// client, however the address is written — IPv4, IPv6, IPv4-mapped IPv6, IPv6 with a zone (link-local peers)
	if vlib.ReplayPath() == "" {
		hosts := []string{"192.0.2.7", "10.1.2.3", "::1", "2001:db8::7", "::ffff:192.0.2.9", "fe80::1%eth0", "fe80::dead:beef%en0", "fe80::1%25eth0", "2001:db8:0:0:0:0:0:7"}
		for hi, h := range hosts {
			hi, h := hi, h
			jobs = append(jobs, func() {
				var keys []string
				for _, port := range []string{"40001", "40002", "55555"} {
					ra := h + ":" + port
					if strings.Contains(h, ":") {
						ra = "[" + h + "]:" + port
					}
					req := httptest.NewRequest("POST", "/olla/proxy/v1/chat/completions", nil)
					req.RemoteAddr = ra
					keys = append(keys, util.GetClientIP(req, false, nil))
				}
				add(-1000+hi, "key", map[string]any{"kind": "key", "host": h, "impl": map[string]any{"keys": keys}})
			})
		}
	}
	for i := range chains {
		i := i
		jobs = append(jobs, func() {
			o, e := runChain(chains[i].L, chains[i].Reqs)
			add(i, "chain", map[string]any{"kind": "chain", "lim": chains[i].L, "reqs": chains[i].Reqs, "impl": map[string]any{"obs": o, "err": e}})
		})
	}
	for i := range rates {
		i := i
		jobs = append(jobs, func() {
			sc := rates[i]
			var o []RateObs
			var saw int
			var se string
			for try := 0; try < 3; try++ { // only start-up problems are retried, never an observation
				o, saw, se = runRate(sc)
				if se == "" {
					break
				}
			}
			b := fmt.Sprintf("rate.conns%d.ka%v.conc%v", sc.Conns, sc.KeepAlive, sc.Concurrent)
			add(100000+i, b, map[string]any{"kind": "rate", "scenario": sc, "impl": map[string]any{"obs": o, "backend_saw": saw, "start_err": se}})
		})
	}
	for i := range sizes {
		i := i
		jobs = append(jobs, func() {
			sc := sizes[i]
			var o []SizeObs
			var se string
			for try := 0; try < 3; try++ {
				o, se = runSize(sc)
				if se == "" {
					break
				}
			}
			add(200000+i, "size", map[string]any{"kind": "size", "scenario": sc, "impl": map[string]any{"obs": o, "start_err": se}})
		})
	}
	sem := make(chan struct{}, 10)
	var wg sync.WaitGroup
	for _, j := range jobs {
		wg.Add(1)
		sem <- struct{}{}
		go func(j job) {
			defer wg.Done()
			defer func() { <-sem }()
			j()
		}(j)
	}
	wg.Wait()
	// deterministic order
	for i := 0; i < len(outs); i++ {
		for k := i + 1; k < len(outs); k++ {
			if outs[k].order < outs[i].order {
				outs[i], outs[k] = outs[k], outs[i]
			}
		}
	}
	for _, e := range outs {
		c.Count(e.bucket)
		c.Emit(e.m)
	}
	if vlib.ReplayPath() == "" {
		for rep := 0; rep < map[bool]int{false: 2, true: 8}[tier == "thorough"]; rep++ {
			c.Emit(map[string]any{"kind": "stall", "impl": stallCase(1.5)})
			c.Count("stall")
		}
	}
	c.Close(map[string]any{"exhaustive": tier == "thorough",
		"exhaustive_note": "thorough: the whole (limits x connections 1/2/4/8 x keep-alive x sequential/concurrent x route mix) grid; quick: hard-coded witnesses + a 1/5 sample of the grid; body sizes limit-1, limit, limit+1, 5xlimit x {Content-Length, chunked} x {proxy, provider, anthropic} for three limits"})
}
