//go:build verif

// c08, kind "manager": ONE long-lived unifier.EndpointManager (subject "manager") or ONE unifier.LifecycleUnifier
// (subject "lifecycle", the manager as the discovery path uses it) is taken through a generated history over several
// endpoints: failure reports, success reports, permission requests, whole unifications (own listing, empty listing,
// a listing shared with another endpoint, a big listing, an abandoned round), forced endpoint checks, lookups, time
// that passes, passes of the orphan sweep, RemoveEndpoint and Clear.  After EVERY step the harness records what the
// instance reports for EVERY endpoint's breaker (GetCircuitBreakerStats) next to the answer the step got, so the
// driver can hold the admission decisions against the reported breaker: the breaker that admits must be the breaker
// that counts.  The per-endpoint projection of such a history is a history of one breaker (between the moments at
// which the manager forgets the endpoint), judged by the same clause predicates as the single-breaker kinds.
package main

import (
	"context"
	"errors"
	"fmt"
	"strings"
	"sync/atomic"
	"time"

	"github.com/thushan/olla/internal/adapter/unifier"
	"github.com/thushan/olla/internal/core/domain"
	"github.com/thushan/olla/internal/zz_verif/vlib"
)

const (
	mFail     = 1  // failure report for endpoint e
	mSucc     = 2  // success report for endpoint e (manager)
	mAsk      = 3  // permission request for e: GetCircuitBreaker(e).Allow() (manager)
	mCall     = 4  // one whole call for e: permission; if admitted, it runs and reports success. arg = how (see listing)
	mTick     = 5  // arg nanoseconds pass (for every endpoint)
	mSweep    = 6  // one pass of the orphan sweep; arg = bit mask of the endpoints that source a model at that moment
	mRemove   = 7  // RemoveEndpoint(e)
	mClear    = 8  // Clear (lifecycle)
	mLook     = 9  // read-only lookups about e
	mForce    = 10 // ForceEndpointCheck(e) (lifecycle); arg bit0 = the discovery fails, bit1 = e sources a model (found)
	mCallFail = 11 // one whole call for e that fails: permission; if admitted, it runs and reports failure (manager)
)

type mstep struct {
	op, e int
	arg   int64
}

type msubject interface {
	// do executes one step, returns the answer (-1 none, 0 refused, 1 let through) and the step as executed
	// (sweep mask / found bit filled in)
	do(st mstep) (int, mstep)
	report() [][4]int
	err() string
}

func phaseInt(s string) int {
	switch s {
	case "closed":
		return 0
	case "open":
		return 1
	case "half-open":
		return 2
	}
	return 3
}

func reportOf(stats map[string]unifier.CircuitBreakerStats, urls []string) [][4]int {
	out := make([][4]int, len(urls))
	for i, u := range urls {
		if st, ok := stats[u]; ok { // no breaker = nothing recorded = what a new breaker reports
			out[i] = [4]int{phaseInt(st.State), st.Failures, st.Successes, st.HalfOpenRequests}
		}
	}
	return out
}

func b2i(b bool) int {
	if b {
		return 1
	}
	return 0
}

// ---- subject "manager": the EndpointManager through its exported methods
type mgrSubject struct {
	m    *unifier.EndpointManager
	urls []string
	bad  string
}

func (s *mgrSubject) err() string { return s.bad }
func (s *mgrSubject) report() [][4]int {
	return reportOf(s.m.GetCircuitBreakerStats(), s.urls)
}
func (s *mgrSubject) do(st mstep) (int, mstep) {
	res := -1
	url := ""
	if st.e >= 0 && st.e < len(s.urls) {
		url = s.urls[st.e]
	}
	switch st.op {
	case mFail:
		s.m.RecordFailure(url, errors.New("discovery failed"))
	case mSucc:
		s.m.RecordSuccess(url)
	case mAsk, mCall, mCallFail:
		cb := s.m.GetCircuitBreaker(url)
		if cb == nil {
			s.bad = "GetCircuitBreaker returned nil although the breaker is enabled"
			return -8, st
		}
		ok := cb.Allow()
		res = b2i(ok)
		if ok && st.op == mCall {
			s.m.RecordSuccess(url)
		}
		if ok && st.op == mCallFail {
			s.m.RecordFailure(url, errors.New("call failed"))
		}
	case mTick:
		if _, ok := unifier.VerifManagerRewind(s.m, time.Duration(st.arg)); !ok {
			s.bad = "no container of breakers found in the manager"
		}
	case mSweep:
		active := map[string]bool{}
		for i, u := range s.urls {
			if st.arg&(1<<uint(i)) != 0 {
				active[u] = true
			}
		}
		s.m.CleanupOrphaned(active)
	case mRemove:
		s.m.RemoveEndpoint(url)
	case mLook:
		_ = s.m.GetCircuitBreaker(url)
		_ = s.m.GetState(url)
		_ = s.m.GetAllStates()
	default:
		s.bad = fmt.Sprintf("op %d not supported by subject manager", st.op)
	}
	return res, st
}

// ---- subject "lifecycle": LifecycleUnifier (UnifyModels, RecordEndpointFailure, ForceEndpointCheck, RemoveEndpoint,
// Clear, the clean-up pass)
type fakeDiscovery struct {
	fail   bool
	models func(url string) []*domain.ModelInfo
}

func (d *fakeDiscovery) DiscoverModels(_ context.Context, ep *domain.Endpoint) ([]*domain.ModelInfo, error) {
	if d.fail {
		return nil, errors.New("connection refused")
	}
	return d.models(ep.GetURLString()), nil
}

type lcSubject struct {
	u    *unifier.LifecycleUnifier
	eps  []*domain.Endpoint
	urls []string
	disc *fakeDiscovery
	bad  string
}

func (s *lcSubject) err() string { return s.bad }
func (s *lcSubject) report() [][4]int {
	return reportOf(s.u.GetCircuitBreakerStats(), s.urls)
}

// what an endpoint lists: 0 its own two models, 1 nothing (up, nothing loaded), 2 its own models but the round was
// abandoned (context cancelled), 3 one model that every endpoint has under the same name, 4 a nil listing, 5 a big one
func listing(e int, how int64) []*domain.ModelInfo {
	now := time.Now()
	switch how {
	case 1:
		return []*domain.ModelInfo{}
	case 3:
		return []*domain.ModelInfo{{Name: "shared:7b", Type: "llm", LastSeen: now}}
	case 4:
		return nil
	case 5:
		out := make([]*domain.ModelInfo, 0, 40)
		for i := 0; i < 40; i++ {
			out = append(out, &domain.ModelInfo{Name: fmt.Sprintf("big-e%d-%02d:13b", e, i), Type: "llm", LastSeen: now, Size: int64(1+i) << 30})
		}
		return out
	}
	return []*domain.ModelInfo{{Name: fmt.Sprintf("own-e%d:8b", e), Type: "llm", LastSeen: now}, {Name: fmt.Sprintf("own-e%d-embed", e), Type: "embedding", LastSeen: now}}
}

func (s *lcSubject) active() int64 {
	models, _ := s.u.GetAllModels(context.Background())
	var mask int64
	for _, m := range models {
		for _, src := range m.SourceEndpoints {
			for i, u := range s.urls {
				if src.EndpointURL == u {
					mask |= 1 << uint(i)
				}
			}
		}
	}
	return mask
}

func admittedOf(err error) int {
	switch {
	case err == nil:
		return 1
	case strings.Contains(err.Error(), "circuit breaker open"):
		return 0
	}
	return -8 // an error of another kind: shows as a disagreeing step
}

func (s *lcSubject) do(st mstep) (int, mstep) {
	res := -1
	url := ""
	if st.e >= 0 && st.e < len(s.urls) {
		url = s.urls[st.e]
	}
	switch st.op {
	case mFail:
		s.u.RecordEndpointFailure(url, errors.New("discovery failed"))
	case mCall:
		ctx, cancel := context.WithCancel(context.Background())
		if st.arg == 2 {
			cancel()
		}
		_, err := s.u.UnifyModels(ctx, listing(st.e, st.arg), s.eps[st.e])
		cancel()
		res = admittedOf(err)
	case mTick:
		m := unifier.VerifLifecycleManager(s.u)
		if m == nil {
			s.bad = "no endpoint manager found in the lifecycle unifier"
			break
		}
		if _, ok := unifier.VerifManagerRewind(m, time.Duration(st.arg)); !ok {
			s.bad = "no container of breakers found in the manager"
		}
	case mSweep:
		st.arg = s.active()
		unifier.VerifSweep(s.u)
	case mRemove:
		_ = s.u.RemoveEndpoint(context.Background(), url)
	case mClear:
		if err := s.u.Clear(context.Background()); err != nil {
			s.bad = "Clear: " + err.Error()
		}
	case mLook:
		_ = s.u.GetEndpointState(url)
		_ = s.u.GetCircuitBreakerStats()
		_, _ = s.u.GetAllModels(context.Background())
	case mForce:
		fails := st.arg&1 != 0
		found := s.active()&(1<<uint(st.e)) != 0
		st.arg = int64(b2i(fails)) | int64(b2i(found))<<1
		s.disc.fail = fails
		err := s.u.ForceEndpointCheck(context.Background(), url)
		s.disc.fail = false
		if found && !fails {
			res = admittedOf(err)
		}
	default:
		s.bad = fmt.Sprintf("op %d not supported by subject lifecycle", st.op)
	}
	return res, st
}

func endpointURLs(n int) []string {
	// different hosts, ports, a trailing path, an IPv6 literal: the manager keys everything by this string
	all := []string{"http://gpu-a.invalid:11434", "http://gpu-b.invalid:8000/v1", "http://[fd00::7]:1234", "https://gpu-a.invalid:11435", "http://10.1.2.3:11434/"}
	return all[:n]
}

func newSubject(name string, cfg unifier.Config, n int) (msubject, string) {
	urls := endpointURLs(n)
	switch name {
	case "manager":
		return &mgrSubject{m: unifier.NewEndpointManager(cfg, vlib.QuietLogger()), urls: urls}, ""
	case "lifecycle":
		u, ok := unifier.NewLifecycleUnifier(cfg, vlib.QuietLogger()).(*unifier.LifecycleUnifier)
		if !ok {
			return nil, "NewLifecycleUnifier does not return *LifecycleUnifier"
		}
		s := &lcSubject{u: u, urls: urls}
		for i, url := range urls {
			s.eps = append(s.eps, &domain.Endpoint{Name: fmt.Sprintf("ep%d", i), URLString: url, Type: "ollama", Status: domain.StatusHealthy})
		}
		s.disc = &fakeDiscovery{models: func(url string) []*domain.ModelInfo {
			for i, x := range urls {
				if x == url {
					return listing(i, 0)
				}
			}
			return nil
		}}
		u.SetDiscoveryClient(s.disc)
		return s, ""
	}
	return nil, "unknown subject " + name
}

// runManagerOnce: one instance, the whole history. Observation per step: answer, then (phase, failures, successes,
// half-open admissions) as reported for every endpoint.
func runManagerOnce(subject string, cfg unifier.Config, n int, steps []mstep) (done []mstep, obs []int, wall time.Duration, bad string) {
	defer func() {
		if r := recover(); r != nil {
			bad = fmt.Sprintf("panic: %v", r)
		}
	}()
	s, e := newSubject(subject, cfg, n)
	if e != "" {
		return nil, nil, 0, e
	}
	obs = make([]int, 0, len(steps)*(1+4*n))
	done = make([]mstep, 0, len(steps))
	t0 := time.Now()
	for _, st := range steps {
		res, st2 := s.do(st)
		done = append(done, st2)
		obs = append(obs, res)
		for _, r := range s.report() {
			obs = append(obs, r[0], r[1], r[2], r[3])
		}
	}
	return done, obs, time.Since(t0), s.err()
}

func flatSteps(steps []mstep) []int64 {
	out := make([]int64, 0, 3*len(steps))
	for _, st := range steps {
		out = append(out, int64(st.op), int64(st.e), st.arg)
	}
	return out
}

func unflatSteps(flat []int64) []mstep {
	var out []mstep
	for i := 0; i+2 < len(flat); i += 3 {
		out = append(out, mstep{int(flat[i]), int(flat[i+1]), flat[i+2]})
	}
	return out
}

// managerCase runs the history (again if the run was slow: the real time that passes between two steps must stay
// far below the 50 ms the driver keeps away from every time boundary) and returns the case.
func managerCase(subject string, cfg unifier.Config, n int, steps []mstep) map[string]any {
	cb := cfg.CircuitBreaker
	out := map[string]any{"kind": "manager", "subject": subject, "endpoints": n,
		"cfg": []int64{int64(cb.FailureThreshold), int64(cb.SuccessThreshold), int64(cb.OpenDuration), int64(cb.HalfOpenRequests)}}
	for i := 0; ; i++ {
		done, obs, wall, bad := runManagerOnce(subject, cfg, n, steps)
		if bad != "" {
			out["steps"] = flatSteps(steps)
			out["start_err"] = bad
			return out
		}
		if wall < 20*time.Millisecond || i >= 8 {
			out["steps"] = flatSteps(done)
			out["obs"] = obs
			if wall >= 20*time.Millisecond {
				out["slow"] = true // not judged: the machine did not let the history run in one piece
			}
			return out
		}
		atomic.AddInt64(&reruns, 1)
	}
}

// ---- generation

const (
	roleFailing = iota
	roleWorking
	roleEmpty
	roleFlapping
	nRoles
)

func genDuration(r *vlib.Rng, T int64) int64 {
	switch y := r.Intn(100); {
	case y < 30:
		return int64(time.Millisecond) + int64(r.U64()%uint64(2500*time.Millisecond))
	case y < 50:
		return T*3/10 + int64(r.U64()%uint64(T*6/10))
	default:
		return T + int64(100*time.Millisecond) + int64(r.U64()%uint64(T))
	}
}

func genConfig(r *vlib.Rng) unifier.Config {
	cfg := unifier.DefaultConfig()
	if r.Chance(2, 5) {
		return cfg
	}
	cb := &cfg.CircuitBreaker
	cb.FailureThreshold = vlib.Pick(r, []int{1, 2, 3, 5, 7})
	cb.HalfOpenRequests = vlib.Pick(r, []int{1, 2, 3, 5})
	cb.SuccessThreshold = 1 + r.Intn(cb.HalfOpenRequests) // a breaker that can close at all: not more successes than probes
	cb.OpenDuration = vlib.Pick(r, []time.Duration{5 * time.Second, 30 * time.Second, 60 * time.Second, 10 * time.Minute})
	cfg.MaxConsecutiveFailures = 1 + r.Intn(6)
	return cfg
}

// genManagerHistory: endpoints play roles (failing, working, up with nothing loaded, flapping) that change now and then;
// in between time passes, the sweep runs, endpoints are removed, everything is cleared, somebody looks.
func genManagerHistory(r *vlib.Rng, subject string, cfg unifier.Config, n, length int) []mstep {
	lc := subject == "lifecycle"
	T := int64(cfg.CircuitBreaker.OpenDuration)
	roles := make([]int, n)
	for i := range roles {
		roles[i] = r.Intn(nRoles)
	}
	steps := make([]mstep, 0, length+8*n)
	randMask := func() int64 {
		var m int64
		for i := 0; i < n; i++ {
			p := 25
			if roles[i] == roleWorking {
				p = 85
			}
			if r.Intn(100) < p {
				m |= 1 << uint(i)
			}
		}
		return m
	}
	call := func(e int) mstep {
		if !lc {
			return mstep{mCall, e, 0}
		}
		how := int64(0)
		switch roles[e] {
		case roleEmpty:
			how = vlib.Pick(r, []int64{1, 1, 1, 4})
		default:
			how = vlib.Pick(r, []int64{0, 0, 0, 2, 3, 3, 5, 1})
		}
		return mstep{mCall, e, how}
	}
	for len(steps) < length {
		if r.Chance(1, 12) {
			roles[r.Intn(n)] = r.Intn(nRoles)
		}
		e := r.Intn(n)
		switch x := r.Intn(100); {
		case x < 13:
			steps = append(steps, mstep{mTick, 0, genDuration(r, T)})
		case x < 22:
			steps = append(steps, mstep{mSweep, 0, randMask()}) // lifecycle: the mask is what the catalogue says, filled in when run
		case x < 25:
			steps = append(steps, mstep{mRemove, e, 0})
		case x < 26:
			if lc {
				steps = append(steps, mstep{mClear, 0, 0})
			}
		case x < 31:
			steps = append(steps, mstep{mLook, e, 0})
		case x < 35:
			if lc {
				steps = append(steps, mstep{mForce, e, int64(r.Intn(2))})
			}
		default:
			y := r.Intn(100)
			var st mstep
			switch roles[e] {
			case roleFailing:
				switch {
				case y < 60:
					st = mstep{mFail, e, 0}
				case y < 90 || lc:
					st = call(e)
				case y < 95:
					st = mstep{mAsk, e, 0}
				default:
					st = mstep{mCallFail, e, 0}
				}
			case roleWorking:
				switch {
				case y < 75 || (lc && y >= 85):
					st = call(e)
				case y < 85:
					st = mstep{mFail, e, 0}
				case y < 93:
					st = mstep{mSucc, e, 0}
				default:
					st = mstep{mAsk, e, 0}
				}
			case roleEmpty:
				switch {
				case y < 45:
					st = call(e)
				default:
					st = mstep{mFail, e, 0}
				}
			default:
				switch {
				case y < 50:
					st = mstep{mFail, e, 0}
				case y < 90 || lc:
					st = call(e)
				default:
					st = mstep{mCallFail, e, 0}
				}
			}
			steps = append(steps, st)
		}
	}
	// every endpoint works again: the open duration passes, then successful calls
	for round := 0; round < 2; round++ {
		steps = append(steps, mstep{mTick, 0, T + int64(1500*time.Millisecond)})
		for e := 0; e < n; e++ {
			for i := 0; i <= cfg.CircuitBreaker.SuccessThreshold; i++ {
				steps = append(steps, mstep{mCall, e, 0})
			}
		}
	}
	return steps
}

// hand-written histories first (the corpus): the orders of states that single-breaker histories cannot reach
func managerCorpus(subject string, cfg unifier.Config) [][]mstep {
	cb := cfg.CircuitBreaker
	T := int64(cb.OpenDuration)
	fails := func(e, k int) []mstep {
		out := make([]mstep, k)
		for i := range out {
			out[i] = mstep{mFail, e, 0}
		}
		return out
	}
	cat := func(xs ...[]mstep) []mstep {
		var out []mstep
		for _, x := range xs {
			out = append(out, x...)
		}
		return out
	}
	empty, own := int64(1), int64(0)
	if subject != "lifecycle" {
		empty = 0
	}
	over := mstep{mTick, 0, T + int64(1500*time.Millisecond)}
	under := mstep{mTick, 0, T * 6 / 10}
	return [][]mstep{
		// an endpoint that is up with nothing loaded is swept, then fails: trips, holds; a second one that kept its models as control
		cat([]mstep{{mCall, 0, empty}, {mCall, 1, own}, {mSweep, 0, 2}}, fails(0, cb.FailureThreshold), fails(1, cb.FailureThreshold),
			[]mstep{{mCall, 0, own}, {mCall, 1, own}, under, {mCall, 0, own}, {mCall, 1, own}, over, {mCall, 0, own}, {mCall, 1, own}, {mCall, 0, own}, {mCall, 1, own}, {mCall, 0, own}, {mCall, 1, own}}),
		// an endpoint that only ever failed: open, swept (forgotten), fails again, removed, fails again
		cat(fails(0, cb.FailureThreshold), []mstep{{mCall, 0, own}, {mSweep, 0, 0}, {mCall, 0, empty}, {mSweep, 0, 0}}, fails(0, cb.FailureThreshold),
			[]mstep{{mCall, 0, own}, {mRemove, 0, 0}, {mCall, 0, empty}}, fails(0, cb.FailureThreshold), []mstep{{mCall, 0, own}, over, {mCall, 0, own}, {mCall, 0, own}, {mCall, 0, own}}),
		// removal while open, while half-open, of an endpoint never seen; two sweeps in a row
		cat(fails(0, cb.FailureThreshold), []mstep{{mRemove, 0, 0}, {mCall, 0, own}, {mRemove, 1, 0}}, fails(0, cb.FailureThreshold),
			[]mstep{over, {mCall, 0, own}, {mRemove, 0, 0}, {mSweep, 0, 0}, {mSweep, 0, 0}}, fails(0, cb.FailureThreshold), []mstep{{mCall, 0, own}, {mLook, 0, 0}, {mCall, 0, own}}),
	}
}

func emitManagerCases(c *vlib.Cases, r *vlib.Rng, thorough bool) {
	for _, subject := range []string{"manager", "lifecycle"} {
		for _, cfg := range []unifier.Config{unifier.DefaultConfig(), func() unifier.Config {
			m := unifier.DefaultConfig()
			m.CircuitBreaker.FailureThreshold, m.CircuitBreaker.SuccessThreshold, m.CircuitBreaker.HalfOpenRequests = 1, 1, 1
			return m
		}()} {
			for _, h := range managerCorpus(subject, cfg) {
				c.Emit(managerCase(subject, cfg, 2, h))
				c.Count("unifier.manager." + subject + ".corpus")
			}
		}
		nh, maxLen := 400, 70
		if thorough {
			nh, maxLen = 6000, 220
		}
		for i := 0; i < nh; i++ {
			cfg := genConfig(r)
			n := 1 + r.Intn(4)
			length := 8 + r.Intn(maxLen)
			c.Emit(managerCase(subject, cfg, n, genManagerHistory(r, subject, cfg, n, length)))
			c.Count("unifier.manager." + subject + ".random")
		}
	}
}
