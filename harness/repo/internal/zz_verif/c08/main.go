//go:build verif

// c08: correspondence harness for the three circuit breakers (property C08).
//
// Drives the REAL types
//   - health.CircuitBreaker            (health.NewCircuitBreaker)
//   - the olla engine's circuitBreaker (Service.GetCircuitBreaker, via olla.VerifNewEngineBreaker)
//   - unifier.CircuitBreaker           (unifier.NewCircuitBreaker(unifier.DefaultConfig().CircuitBreaker))
//
// with operation histories over {fail, succ, ask, tick}.  Time is simulated: "d passes" moves
// the breaker's stored time stamps d into the past (zz_verif_export.go accessors); nothing
// sleeps.  A history whose real execution took longer than 20 ms is re-run, so that the few
// microseconds of real time that pass between two operations can never reach one of the
// comparisons (all generated tick sums stay >= 100 ms away from a time boundary).
package main

import (
	"context"
	"errors"
	"github.com/thushan/olla/internal/core/domain"
	"os"
	"runtime"
	"strings"
	"sync"
	"sync/atomic"
	"time"

	"github.com/thushan/olla/internal/adapter/health"
	"github.com/thushan/olla/internal/adapter/proxy/olla"
	"github.com/thushan/olla/internal/adapter/unifier"
	"github.com/thushan/olla/internal/zz_verif/vlib"
)

const (
	opFail = -1
	opSucc = -2
	opAsk  = -3
	// lifecycle kind only
	opUnify          = -4
	opUnifyCancelled = -5
	hurl             = "http://verif.invalid/health"
)

type breaker interface {
	Fail()
	Succ()
	Ask() bool // true = request let through
	Tick(d time.Duration)
	Obs() (phase, failures, x1, x2 int)
}

// ---- health
// the breaker keys its state by the endpoint's health-check URL as configured: plain, with a query string (an
// absolute health_check_url such as http://gpu-box:8000/health?deep=1 is used verbatim), with a fragment, escaped
type healthB struct {
	cb  *health.CircuitBreaker
	url string
}

var hurls = []string{hurl, "http://verif.invalid:8000/health?deep=1&token=abc", "http://verif.invalid/health#ready", "http://verif.invalid/he%20alth?x=1#y", "http://[::1]:9/health?a=b"}
var hurlN uint32

func newHealthB() healthB {
	return healthB{health.NewCircuitBreaker(), hurls[int(atomic.AddUint32(&hurlN, 1))%len(hurls)]}
}

func (b healthB) Fail()                { b.cb.RecordFailure(b.url) }
func (b healthB) Succ()                { b.cb.RecordSuccess(b.url) }
func (b healthB) Ask() bool            { return !b.cb.IsOpen(b.url) }
func (b healthB) Tick(d time.Duration) { health.VerifRewind(b.cb, b.url, d) }
func (b healthB) Obs() (int, int, int, int) {
	f, _, la, open, _ := health.VerifPeek(b.cb, b.url)
	x := 0
	if la != 0 {
		x = 1
	}
	return int(open), int(f), x, 0
}

// ---- engine
type engineB struct{ cb *olla.VerifEngineBreaker }

func (b engineB) Fail()                { b.cb.RecordFailure() }
func (b engineB) Succ()                { b.cb.RecordSuccess() }
func (b engineB) Ask() bool            { return !b.cb.IsOpen() }
func (b engineB) Tick(d time.Duration) { b.cb.Rewind(d) }
func (b engineB) Obs() (int, int, int, int) {
	f, st, _ := b.cb.Peek()
	return int(st), int(f), 0, 0
}

// ---- unifier
type unifierB struct{ cb *unifier.CircuitBreaker }

func (b unifierB) Fail()                { b.cb.RecordFailure() }
func (b unifierB) Succ()                { b.cb.RecordSuccess() }
func (b unifierB) Ask() bool            { return b.cb.Allow() }
func (b unifierB) Tick(d time.Duration) { b.cb.VerifRewind(d) }
func (b unifierB) Obs() (int, int, int, int) {
	st := b.cb.GetStats()
	ph := 3
	switch st.State {
	case "closed":
		ph = 0
	case "open":
		ph = 1
	case "half-open":
		ph = 2
	}
	return ph, st.Failures, st.Successes, st.HalfOpenRequests
}

// ---- the unification breaker as the discovery path uses it: through LifecycleUnifier.UnifyModels
// ops: 'F' = RecordEndpointFailure, 'U' = UnifyModels with a live context, 'C' = UnifyModels with a context that is
// already cancelled (a discovery round that was abandoned), tick = the breaker's stored stamp moves into the past.
// After the history the endpoint "works again": rounds of (tick > open duration, four live calls) must close the breaker.
func lifecycleCase(ops []int64) map[string]any {
	cfg := unifier.DefaultConfig()
	u, ok := unifier.NewLifecycleUnifier(cfg, vlib.QuietLogger()).(*unifier.LifecycleUnifier)
	if !ok {
		return map[string]any{"start_err": "NewLifecycleUnifier does not return *LifecycleUnifier"}
	}
	ep := &domain.Endpoint{Name: "e", URLString: "http://lifecycle.invalid:1", Type: "ollama", Status: domain.StatusHealthy}
	url := ep.GetURLString()
	models := []*domain.ModelInfo{{Name: "m1", Type: "llm", LastSeen: time.Now()}}
	cb := unifier.VerifLifecycleBreaker(u, url)
	if cb == nil {
		return map[string]any{"start_err": "no breaker for the endpoint"}
	}
	b := unifierB{cb}
	step := func(op int64) []int {
		res := -1
		switch {
		case op == opFail:
			u.RecordEndpointFailure(url, errors.New("discovery failed"))
		case op == opUnify, op == opUnifyCancelled:
			ctx, cancel := context.WithCancel(context.Background())
			if op == opUnifyCancelled {
				cancel()
			}
			_, err := u.UnifyModels(ctx, models, ep)
			cancel()
			res = 1
			if err != nil && strings.Contains(err.Error(), "circuit breaker open") {
				res = 0
			}
		default:
			b.Tick(time.Duration(op))
		}
		ph, f, su, ho := b.Obs()
		return []int{res, ph, f, su, ho}
	}
	var obs []int
	for _, op := range ops {
		obs = append(obs, step(op)...)
	}
	// the endpoint works again
	rec := []int64{}
	for round := 0; round < 3; round++ {
		rec = append(rec, int64(cfg.CircuitBreaker.OpenDuration+1500*time.Millisecond), opUnify, opUnify, opUnify, opUnify)
	}
	var robs []int
	for _, op := range rec {
		robs = append(robs, step(op)...)
	}
	return map[string]any{"obs": obs, "recovery_ops": rec, "recovery_obs": robs}
}

type kind struct {
	name    string
	mk      func() breaker
	timeout time.Duration
}

func kinds() []kind {
	_, hto := health.VerifBreakerConfig(health.NewCircuitBreaker())
	ucfg := unifier.DefaultConfig().CircuitBreaker
	return []kind{
		{"health", func() breaker { return newHealthB() }, hto},
		{"engine", func() breaker { return engineB{olla.VerifNewEngineBreaker("e")} }, health.DefaultCircuitBreakerTimeout},
		{"unifier", func() breaker { return unifierB{unifier.NewCircuitBreaker(ucfg)} }, ucfg.OpenDuration},
	}
}

// alphabet of the exhaustive enumeration
func alphabet(k kind) []int64 {
	return []int64{opFail, opSucc, opAsk,
		int64(k.timeout) * 6 / 10,                // tick < timeout (two of them exceed it)
		int64(k.timeout + 1500*time.Millisecond), // tick > timeout
		int64(1300 * time.Millisecond)}           // tick > probe window (1 s), < timeout
}

// runOnce executes ops on a fresh breaker; five ints per step.
func runOnce(k kind, ops []int64) (obs []int, wall time.Duration) {
	defer func() {
		if r := recover(); r != nil {
			obs = append(obs, -9, 9, 0, 0, 0) // a panic shows up as a disagreeing step
		}
	}()
	b := k.mk()
	obs = make([]int, 0, 5*len(ops))
	t0 := time.Now()
	for _, op := range ops {
		res := -1
		switch {
		case op == opFail:
			b.Fail()
		case op == opSucc:
			b.Succ()
		case op == opAsk:
			if b.Ask() {
				res = 1
			} else {
				res = 0
			}
		default:
			b.Tick(time.Duration(op))
		}
		ph, f, x1, x2 := b.Obs()
		obs = append(obs, res, ph, f, x1, x2)
	}
	return obs, time.Since(t0)
}

var reruns int64

func run(k kind, ops []int64) []int {
	for i := 0; ; i++ {
		obs, wall := runOnce(k, ops)
		if wall < 20*time.Millisecond || i >= 8 {
			return obs
		}
		atomic.AddInt64(&reruns, 1)
	}
}

func emitHist(c *vlib.Cases, k kind, ops []int64, bucket string) {
	c.Emit(map[string]any{"kind": "hist", "b": k.name, "ops": ops, "obs": run(k, ops)})
	c.Count(k.name + "." + bucket)
}

const digits = "0123456789abcdefghijklmnopqrstuvwxyz"

func pack(sb *strings.Builder, obs []int) {
	for i := 0; i+4 < len(obs); i += 5 {
		switch obs[i] {
		case 0:
			sb.WriteByte('0')
		case 1:
			sb.WriteByte('1')
		default:
			sb.WriteByte('-')
		}
		for j := 1; j < 5; j++ {
			v := obs[i+j]
			if v < 0 || v > 35 {
				v = 35
			}
			sb.WriteByte(digits[v])
		}
	}
}

// all words of length n over alpha, lexicographic, first position most significant
func words(alpha []int64, n int, f func([]int64)) {
	cur := make([]int64, n)
	var rec func(i int)
	rec = func(i int) {
		if i == n {
			f(cur)
			return
		}
		for _, a := range alpha {
			cur[i] = a
			rec(i + 1)
		}
	}
	rec(0)
}

type treeResult struct {
	prefix []int64
	pobs   []int
	sobs   string
}

func treeCase(k kind, alpha []int64, prefix []int64, depth int) treeResult {
	var sb strings.Builder
	var pobs []int
	full := make([]int64, len(prefix)+depth)
	copy(full, prefix)
	words(alpha, depth, func(suf []int64) {
		copy(full[len(prefix):], suf)
		obs := run(k, full)
		if pobs == nil {
			pobs = append([]int{}, obs[:5*len(prefix)]...)
		}
		pack(&sb, obs[5*len(prefix):])
	})
	return treeResult{prefix: append([]int64{}, prefix...), pobs: pobs, sobs: sb.String()}
}

func randomHistory(r *vlib.Rng, k kind, n int) []int64 {
	ops := make([]int64, 0, n)
	T := int64(k.timeout)
	// three moods so that long histories visit closed, open and half-open regimes
	mood := r.Intn(3)
	for len(ops) < n {
		if r.Chance(1, 25) {
			mood = r.Intn(3)
		}
		x := r.Intn(100)
		pf, ps, pa := 35, 10, 30 // failing backend
		if mood == 1 {
			pf, ps, pa = 15, 30, 30 // recovering backend
		} else if mood == 2 {
			pf, ps, pa = 25, 5, 45 // many callers
		}
		switch {
		case x < pf:
			ops = append(ops, opFail)
		case x < pf+ps:
			ops = append(ops, opSucc)
		case x < pf+ps+pa:
			ops = append(ops, opAsk)
		default:
			var d int64
			switch y := r.Intn(100); {
			case y < 40:
				d = int64(time.Millisecond) + int64(r.U64()%uint64(2500*time.Millisecond))
			case y < 65:
				d = T*3/10 + int64(r.U64()%uint64(T*6/10))
			default:
				d = T + int64(100*time.Millisecond) + int64(r.U64()%uint64(T))
			}
			ops = append(ops, d)
		}
	}
	return ops
}

func race(k kind, goroutines, trials int) map[string]any {
	minA, maxA := goroutines+1, -1
	hist := map[int]int{}
	for t := 0; t < trials; t++ {
		b := k.mk()
		for i := 0; i < 1000; i++ {
			if ph, _, _, _ := b.Obs(); ph == 1 {
				break
			}
			b.Fail()
		}
		b.Tick(k.timeout + 2*time.Second)
		var start int32
		var admitted int64
		var wg, ready sync.WaitGroup
		for g := 0; g < goroutines; g++ {
			wg.Add(1)
			ready.Add(1)
			go func() {
				defer wg.Done()
				ready.Done()
				for atomic.LoadInt32(&start) == 0 {
					runtime.Gosched()
				}
				if b.Ask() {
					atomic.AddInt64(&admitted, 1)
				}
			}()
		}
		ready.Wait()
		atomic.StoreInt32(&start, 1)
		wg.Wait()
		a := int(admitted)
		hist[a]++
		if a < minA {
			minA = a
		}
		if a > maxA {
			maxA = a
		}
	}
	var rows [][2]int
	for a := 0; a <= goroutines; a++ {
		if hist[a] > 0 {
			rows = append(rows, [2]int{a, hist[a]})
		}
	}
	return map[string]any{"min_admitted": minA, "max_admitted": maxA, "histogram": rows}
}

// raceReopen: a failure report races with callers asking for permission while the breaker is half-open (the
// protected endpoint fails its probe while others are queueing up); afterwards the endpoint works again: once the
// timeout has elapsed a probe must be admitted, and successful probes must close the breaker ("no history leaves a
// breaker open for ever once the protected endpoint works again").
func raceReopen(k kind, goroutines, trials int) map[string]any {
	stuck, notClosed := 0, 0
	minAfter := 1 << 30
	for t := 0; t < trials; t++ {
		b := k.mk()
		for i := 0; i < 1000; i++ {
			if ph, _, _, _ := b.Obs(); ph == 1 {
				break
			}
			b.Fail()
		}
		b.Tick(k.timeout + 2*time.Second)
		b.Ask() // the first probe: open -> half-open
		var stop atomic.Bool
		var warmed atomic.Int32
		var wg sync.WaitGroup
		for g := 0; g < goroutines; g++ {
			wg.Add(1)
			go func() {
				defer wg.Done()
				for n := 0; !stop.Load(); n++ {
					b.Ask()
					if n == 32 {
						warmed.Add(1)
					}
				}
			}()
		}
		for int(warmed.Load()) < goroutines {
			runtime.Gosched() // until every asker is really running
		}
		b.Fail() // the probe failed while the others keep asking
		stop.Store(true)
		wg.Wait()
		for i := 0; i < 1000; i++ { // (other breakers may need more than one failure to re-open)
			if ph, _, _, _ := b.Obs(); ph == 1 {
				break
			}
			b.Fail()
		}
		// the endpoint works again
		b.Tick(k.timeout + 2*time.Second)
		after := 0
		for i := 0; i < 16; i++ {
			if b.Ask() {
				after++
				b.Succ()
			}
		}
		if after < minAfter {
			minAfter = after
		}
		if after == 0 {
			stuck++
		}
		if ph, _, _, _ := b.Obs(); ph != 0 {
			notClosed++
		}
	}
	return map[string]any{"stuck_trials": stuck, "not_closed_trials": notClosed, "min_admitted_after": minAfter, "trials": trials}
}

// raceVerdicts: the breaker is one failure short of opening; a failure report and a success report for the same key
// arrive at the same moment (two overlapping checks of one endpoint). Whatever the outcome — open or closed — once the
// endpoint works again a probe must be admitted after the timeout and successful probes must close the breaker.
func raceVerdicts(k kind, trials int) map[string]any {
	threshold := 0
	{
		b := k.mk()
		for i := 0; i < 1000; i++ {
			if ph, _, _, _ := b.Obs(); ph == 1 {
				break
			}
			b.Fail()
			threshold++
		}
	}
	stuck, notClosed, opened := 0, 0, 0
	for t := 0; t < trials; t++ {
		b := k.mk()
		for i := 0; i < threshold-1; i++ {
			b.Fail()
		}
		var start int32
		var wg, ready sync.WaitGroup
		for g := 0; g < 2; g++ {
			g := g
			wg.Add(1)
			ready.Add(1)
			go func() {
				defer wg.Done()
				ready.Done()
				for atomic.LoadInt32(&start) == 0 {
				}
				if g == 0 {
					b.Fail()
				} else {
					b.Succ()
				}
			}()
		}
		ready.Wait()
		atomic.StoreInt32(&start, 1)
		wg.Wait()
		if ph, _, _, _ := b.Obs(); ph != 0 {
			opened++
		}
		// the endpoint works again
		b.Tick(k.timeout + 2*time.Second)
		after := 0
		for i := 0; i < 16; i++ {
			if b.Ask() {
				after++
				b.Succ()
			}
		}
		if after == 0 {
			stuck++
		}
		if ph, _, _, _ := b.Obs(); ph != 0 {
			notClosed++
		} else if !b.Ask() {
			notClosed++
		}
	}
	return map[string]any{"stuck_trials": stuck, "not_closed_trials": notClosed, "opened_trials": opened, "trials": trials, "threshold": threshold}
}

func main() {
	tier := vlib.Tier()
	thorough := tier == "thorough"
	r := vlib.NewRng(vlib.Seed())
	c := vlib.OpenCases("cases.jsonl")
	ks := kinds()

	// replay of a single recorded case: re-run exactly that history
	if rp := vlib.ReplayPath(); rp != "" {
		replay(c, ks, rp)
		c.Close(map[string]any{"replay": rp})
		return
	}

	for _, k := range ks {
		a := alphabet(k)
		F, S, A, t, T, p := a[0], a[1], a[2], a[3], a[4], a[5]
		thr := 0
		{ // failures needed to open, observed
			b := k.mk()
			for ; thr < 1000; thr++ {
				if ph, _, _, _ := b.Obs(); ph == 1 {
					break
				}
				b.Fail()
			}
		}
		fs := func(n int) []int64 {
			o := make([]int64, n)
			for i := range o {
				o[i] = F
			}
			return o
		}
		cat := func(parts ...[]int64) []int64 {
			var o []int64
			for _, x := range parts {
				o = append(o, x...)
			}
			return o
		}
		// corner cases and every known witness first (they are the corpus)
		corpus := [][]int64{
			{},
			{A}, {S}, {T, A},
			cat(fs(thr-1), []int64{A, S, A}),                  // below threshold
			cat(fs(thr-1), []int64{S}, fs(thr-1), []int64{A}), // success in between: must stay closed
			cat(fs(thr), []int64{A, t, A, T, A}),              // trips, holds, admits
			cat(fs(thr), []int64{T, A, p, A, A, A}),           // §4 #6: probes after the first one is > 1 s old
			cat(fs(thr), []int64{T, A, A, A, A, A}),           // probe limit inside the window / N
			cat(fs(thr), []int64{S, A}),                       // §4 #7: success recorded while open
			cat(fs(thr), []int64{T, A, F, A, t, A, T, A}),     // failed probe re-opens and holds again
			cat(fs(thr), []int64{T, A, S, S, A}),              // closes
			cat(fs(thr), []int64{T, A, A, A, A, T, A, S, S}),  // never stuck with exhausted half-open budget
			cat(fs(thr), []int64{t, F, t, A, t, A}),           // hold is measured from the LAST failure
			cat(fs(thr+3), []int64{T, A, S, F, A}),            // after closing, one failure must not re-open
		}
		for _, h := range corpus {
			emitHist(c, k, h, "corpus")
		}
		// all histories of length 4 as individual cases (every shorter one is a prefix)
		words(a, 4, func(w []int64) { emitHist(c, k, w, "exhaustive4") })

		// the same after the breaker has been opened by `thr` failures (with thresholds of 5 the
		// plain enumeration spends most of its length getting there)
		words(a, 4, func(w []int64) { emitHist(c, k, cat(fs(thr), w), "opened4") })

		// all histories of length 6 (quick) / 8 (thorough), from a fresh breaker and from a freshly
		// opened one: one case per prefix, continuations packed
		plen, depth := 2, 4
		if thorough {
			plen, depth = 4, 4
		}
		for _, base := range [][]int64{{}, fs(thr)} {
			var prefixes [][]int64
			words(a, plen, func(w []int64) { prefixes = append(prefixes, cat(base, w)) })
			results := make([]treeResult, len(prefixes))
			var wg sync.WaitGroup
			workers := runtime.GOMAXPROCS(0)
			if workers > 8 {
				workers = 8
			}
			next := int64(-1)
			for w := 0; w < workers; w++ {
				wg.Add(1)
				go func() {
					defer wg.Done()
					for {
						i := int(atomic.AddInt64(&next, 1))
						if i >= len(prefixes) {
							return
						}
						results[i] = treeCase(k, a, prefixes[i], depth)
					}
				}()
			}
			wg.Wait()
			for _, tr := range results {
				c.Emit(map[string]any{"kind": "tree", "b": k.name, "prefix": tr.prefix, "alphabet": a, "depth": depth, "pobs": tr.pobs, "sobs": tr.sobs})
				if len(base) == 0 {
					c.Count(k.name + ".tree.fresh")
				} else {
					c.Count(k.name + ".tree.opened")
				}
			}
		}

		// random histories up to length 200
		nr := 2000
		if thorough {
			nr = 20000
		}
		for i := 0; i < nr; i++ {
			n := 10 + r.Intn(191)
			emitHist(c, k, randomHistory(r, k, n), "random")
		}

		// race: 32 goroutines ask a breaker whose timeout has elapsed
		trials := 300
		if thorough {
			trials = 3000
		}
		c.Emit(map[string]any{"kind": "race", "b": k.name, "goroutines": 32, "trials": trials, "impl": race(k, 32, trials)})
		c.Count(k.name + ".race")
		c.Emit(map[string]any{"kind": "race-reopen", "b": k.name, "goroutines": 8, "trials": trials, "impl": raceReopen(k, 8, trials)})
		c.Count(k.name + ".race-reopen")
		c.Emit(map[string]any{"kind": "race-verdicts", "b": k.name, "trials": 10 * trials, "impl": raceVerdicts(k, 10*trials)})
		c.Count(k.name + ".race-verdicts")
		if k.name == "unifier" {
			// the smallest valid configuration (one probe, one success closes): a single lost or stale count is fatal there
			mcfg := unifier.DefaultConfig().CircuitBreaker
			mcfg.FailureThreshold, mcfg.SuccessThreshold, mcfg.HalfOpenRequests = 1, 1, 1
			km := kind{"unifier", func() breaker { return unifierB{unifier.NewCircuitBreaker(mcfg)} }, mcfg.OpenDuration}
			c.Emit(map[string]any{"kind": "race-reopen", "b": "unifier", "config": "failure=1 success=1 half_open=1", "goroutines": 8, "trials": 2 * trials, "impl": raceReopen(km, 8, 2*trials)})
			c.Count("unifier.race-reopen.min-config")
		}
	}
	// ---- the unification breaker through LifecycleUnifier.UnifyModels (live and abandoned rounds)
	{
		ucfg := unifier.DefaultConfig().CircuitBreaker
		over := int64(ucfg.OpenDuration + 1500*time.Millisecond)
		under := int64(ucfg.OpenDuration) * 6 / 10
		fails := func(n int) []int64 {
			out := make([]int64, n)
			for i := range out {
				out[i] = opFail
			}
			return out
		}
		cat := func(xs ...[]int64) []int64 {
			var out []int64
			for _, x := range xs {
				out = append(out, x...)
			}
			return out
		}
		lc := [][]int64{
			cat(fails(ucfg.FailureThreshold), []int64{over, opUnifyCancelled, opUnifyCancelled, opUnifyCancelled}),
			cat(fails(ucfg.FailureThreshold), []int64{over, opUnifyCancelled, opUnify, opUnifyCancelled, opUnifyCancelled}),
			cat(fails(ucfg.FailureThreshold), []int64{under, opUnify, opUnifyCancelled, over, opUnifyCancelled, opFail, over, opUnifyCancelled, opUnifyCancelled}),
			cat([]int64{opUnify, opUnifyCancelled}, fails(ucfg.FailureThreshold-1), []int64{opUnifyCancelled}, fails(ucfg.FailureThreshold), []int64{over, opUnifyCancelled, opUnifyCancelled, opUnifyCancelled, opUnifyCancelled}),
		}
		nl := 150
		if thorough {
			nl = 3000
		}
		for i := 0; i < nl; i++ {
			var ops []int64
			if r.Bool() {
				ops = fails(ucfg.FailureThreshold)
			}
			for n := 3 + r.Intn(12); n > 0; n-- {
				ops = append(ops, vlib.Pick(r, []int64{opFail, opFail, opUnify, opUnifyCancelled, opUnifyCancelled, over, under}))
			}
			lc = append(lc, ops)
		}
		for _, ops := range lc {
			c.Emit(map[string]any{"kind": "lifecycle", "ops": ops, "impl": lifecycleCase(ops)})
			c.Count("unifier.lifecycle")
		}
	}
	// ---- the engine's breaker driven by the engine: failures that take time (slow.go)
	for _, d := range []time.Duration{1500 * time.Millisecond, 3 * time.Second} {
		if !thorough && d > 2*time.Second {
			continue
		}
		c.Emit(map[string]any{"kind": "engine-slow", "impl": slowFailureCase(d, 8)})
		c.Count("engine-slow")
	}
	// ---- one long-lived EndpointManager / LifecycleUnifier through histories over several endpoints (manager.go)
	emitManagerCases(c, r, thorough)
	L := 6
	if thorough {
		L = 8
	}
	c.Close(map[string]any{"exhaustive": true, "reruns_for_timing": atomic.LoadInt64(&reruns),
		"exhaustive_note": "per breaker: every history over {fail, succ, ask, tick 0.6*timeout, tick timeout+1.5s, tick 1.3s} up to length " +
			map[bool]string{false: "6", true: "8"}[L == 8] + " (6^" + map[bool]string{false: "6", true: "8"}[L == 8] + " histories from a fresh breaker and as many after `threshold` failures have opened it, each run on a fresh real breaker; tree cases pack all continuations of one prefix); random histories to length 200; race test 32 goroutines"})
	_ = os.Stdout
}
