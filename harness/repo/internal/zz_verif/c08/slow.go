//go:build verif

package main

import (
	"sync"
	"time"

	"github.com/thushan/olla/internal/adapter/proxy/olla"
	"github.com/thushan/olla/internal/core/domain"
	"github.com/thushan/olla/internal/zz_verif/stack"
)

// slowFailureCase: the olla engine's breaker as the ENGINE drives it, with failures that take time.  Enough requests to
// open the breaker are dispatched at once to a backend that accepts them and stays silent for `delay`, then resets every
// connection: the failures happen `delay` after the dispatch.  "Nothing through while open until the timeout has elapsed
// since the last FAILURE": right after the failures a request is refused without reaching the backend; with the stored
// stamp moved back by (timeout - delay/2) — less than the timeout since the failures, more than the timeout since the
// dispatch — it still is; moved back past the timeout, the next request is the probe and reaches the backend.
func slowFailureCase(delay time.Duration, senders int) map[string]any {
	b := stack.NewBackend("S")
	defer b.Close()
	s, err := stack.Start(stack.Opts{Vary: stack.VaryFor("c08.slow", int64(delay)), Engine: "olla", Balancer: "priority", Profile: "auto",
		EPs: []stack.EP{{Name: "S", Type: "openai", Priority: 100, Backend: b}}})
	if err != nil {
		return map[string]any{"start_err": err.Error()}
	}
	defer s.Stop()
	svc, ok := s.Proxy.(*olla.Service)
	if !ok {
		return map[string]any{"start_err": "not the olla engine"}
	}
	ask := func() (status int, reached int) {
		b.Taken()
		s.SetStatus("S", domain.StatusHealthy)
		r := stack.Do(s.Addr, stack.Request("POST", "/olla/proxy/v1/chat/completions", s.Addr, [][2]string{{"Content-Type", "application/json"}}, []byte(`{"messages":[]}`), false), 5*time.Second)
		return r.Status, len(b.Taken())
	}
	gate := make(chan struct{})
	b.SetBehaviour(stack.Behaviour{Kind: "reset0", Status: 200, Gate: gate})
	var wg sync.WaitGroup
	for i := 0; i < senders; i++ {
		wg.Add(1)
		go func() {
			defer wg.Done()
			s.SetStatus("S", domain.StatusHealthy)
			stack.Do(s.Addr, stack.Request("POST", "/olla/proxy/v1/chat/completions", s.Addr, [][2]string{{"Content-Type", "application/json"}}, []byte(`{"messages":[]}`), false), delay+10*time.Second)
		}()
	}
	// all of them are at the backend (dispatched) before the clock of the delay starts
	for deadline := time.Now().Add(10 * time.Second); b.Count() < senders && time.Now().Before(deadline); {
		time.Sleep(time.Millisecond)
	}
	arrived := b.Count()
	time.Sleep(delay)
	failedAt := time.Now()
	close(gate)
	wg.Wait()
	b.SetBehaviour(stack.Behaviour{Kind: "ok", Status: 200, Headers: [][2]string{{"Content-Type", "application/json"}}, Body: []byte(`{"ok":true}`)})
	st0, reached0 := ask()
	timeout := 30 * time.Second
	olla.VerifRewindEndpointBreaker(svc, "S", timeout-delay/2)
	st1, reached1 := ask()
	sinceFailure := time.Since(failedAt)
	olla.VerifRewindEndpointBreaker(svc, "S", delay)
	st2, reached2 := ask()
	return map[string]any{"delay_ms": delay.Milliseconds(), "senders": senders, "arrived": arrived,
		"right_after": []int{st0, reached0}, "before_timeout": []int{st1, reached1}, "after_timeout": []int{st2, reached2},
		"real_ms_since_failure": sinceFailure.Milliseconds(), "margin_ms": (delay / 2).Milliseconds()}
}
