//go:build verif

package main

import (
	"encoding/json"
	"fmt"
	"os"

	"github.com/thushan/olla/internal/zz_verif/vlib"
)

// replay re-runs exactly the case stored in a replay file written by bin/check
// (field "failing_case"), or a bare case object.
func replay(c *vlib.Cases, ks []kind, path string) {
	raw, err := os.ReadFile(path)
	if err != nil {
		fmt.Fprintln(os.Stderr, "c08: cannot read replay:", err)
		os.Exit(3)
	}
	var doc map[string]json.RawMessage
	if err := json.Unmarshal(raw, &doc); err != nil {
		fmt.Fprintln(os.Stderr, "c08: bad replay file:", err)
		os.Exit(3)
	}
	if fc, ok := doc["failing_case"]; ok {
		raw = fc
	}
	var cs struct {
		Kind       string  `json:"kind"`
		B          string  `json:"b"`
		Ops        []int64 `json:"ops"`
		Prefix     []int64 `json:"prefix"`
		Alphabet   []int64 `json:"alphabet"`
		Depth      int     `json:"depth"`
		Goroutines int     `json:"goroutines"`
		Trials     int     `json:"trials"`
	}
	if err := json.Unmarshal(raw, &cs); err != nil {
		fmt.Fprintln(os.Stderr, "c08: bad case in replay file:", err)
		os.Exit(3)
	}
	for _, k := range ks {
		if k.name != cs.B {
			continue
		}
		switch cs.Kind {
		case "hist":
			obs := run(k, cs.Ops)
			c.Emit(map[string]any{"kind": "hist", "b": k.name, "ops": cs.Ops, "obs": obs})
			fmt.Printf("replay %s history %v\nobserved (answer,phase,failures,x1,x2 per step): %v\n", k.name, cs.Ops, obs)
		case "tree":
			tr := treeCase(k, cs.Alphabet, cs.Prefix, cs.Depth)
			c.Emit(map[string]any{"kind": "tree", "b": k.name, "prefix": tr.prefix, "alphabet": cs.Alphabet, "depth": cs.Depth, "pobs": tr.pobs, "sobs": tr.sobs})
		case "race":
			c.Emit(map[string]any{"kind": "race", "b": k.name, "goroutines": cs.Goroutines, "trials": cs.Trials, "impl": race(k, cs.Goroutines, cs.Trials)})
		}
	}
}
