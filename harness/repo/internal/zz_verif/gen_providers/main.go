//go:build verif

// gen_providers renders Olla/Gen/Providers.lean from the REAL profile loader
// (profile.NewFactoryWithDefaults(), cwd = the repo, i.e. the shipped config/profiles/*.yaml),
// the real domain.RequestProfile.IsCompatibleWith, handlers.NormaliseProviderType,
// unifier.ModelExtractor.DetectPlatform, and the route table the real Application registers.
package main

import (
	"context"
	"fmt"
	"os"
	"sort"
	"strings"

	"github.com/thushan/olla/internal/adapter/registry/profile"
	"github.com/thushan/olla/internal/adapter/unifier"
	"github.com/thushan/olla/internal/app/handlers"
	"github.com/thushan/olla/internal/config"
	"github.com/thushan/olla/internal/core/domain"
	"github.com/thushan/olla/internal/zz_verif/vlib"
)

func main() {
	const ns = "Olla.Gen.Providers"
	f := vlib.NewLeanFile(ns, "gen_providers")
	pf, err := profile.NewFactoryWithDefaults()
	if err != nil {
		fmt.Fprintln(os.Stderr, "gen_providers: profile loader:", err)
		os.Exit(3)
	}
	names := append(pf.GetAvailableProfiles(), domain.ProfileOpenAICompatible)
	sort.Strings(names)

	// ---- profiles: name, routing prefixes, openai_compatible, native model discovery path
	var rows []string
	owners := map[string][]string{} // every key the factory's prefix lookup can hold -> candidate profile names
	addOwner := func(k, p string) {
		for _, x := range owners[k] {
			if x == p {
				return
			}
		}
		owners[k] = append(owners[k], p)
	}
	var loaded []string
	for _, n := range names {
		p, err := pf.GetProfile(n)
		if err != nil {
			continue
		}
		c := p.GetConfig()
		if c == nil {
			continue
		}
		loaded = append(loaded, n)
		rows = append(rows, vlib.LeanTuple(vlib.LeanStr(n), vlib.LeanStrList(c.Routing.Prefixes), vlib.LeanBool(c.API.OpenAICompatible), vlib.LeanStr(c.API.ModelDiscoveryPath)))
		for _, pre := range c.Routing.Prefixes {
			addOwner(pre, n)
		}
		addOwner(n, n)
	}
	f.Def("profiles", "List (String × List String × Bool × String)", vlib.LeanList(rows),
		"(profile name, routing.prefixes, api.openai_compatible, api.model_discovery_path) for every profile the real loader returns, incl. openai-compatible")
	f.Def("available", "List String", vlib.LeanStrList(pf.GetAvailableProfiles()), "Factory.GetAvailableProfiles() — what createProviderProfile iterates over")

	// ---- prefix lookup: Factory.buildPrefixLookup iterates a Go map, so a key claimed by two profiles
	// ("openai") resolves to either of them depending on the process; both are listed (sorted).
	var orows []string
	for _, k := range vlib.SortedKeys(owners) {
		o := owners[k]
		sort.Strings(o)
		// the real function must answer with one of the candidates
		got := pf.NormalizeProviderName(k)
		ok := false
		for _, x := range o {
			if x == got {
				ok = true
			}
		}
		if !ok {
			fmt.Fprintf(os.Stderr, "gen_providers: NormalizeProviderName(%q)=%q is not one of %v\n", k, got, o)
			os.Exit(3)
		}
		orows = append(orows, vlib.LeanTuple(vlib.LeanStr(k), vlib.LeanStrList(o)))
	}
	f.Def("prefixOwners", "List (String × List String)", vlib.LeanList(orows),
		"key of Factory.prefixLookup -> the profile names NormalizeProviderName may answer with (checked: the real answer of this run is among them)")
	f.Def("normalizeUnknown", "String", vlib.LeanStr(pf.NormalizeProviderName("zz-not-a-provider")), "NormalizeProviderName of a name in no profile (passes through)")

	// ---- the universe of endpoint types the configuration accepts: ValidateProfileType is true
	// exactly for `auto`, the lookup keys and the profile names; a few near-misses are tabulated too.
	uni := append([]string{"auto"}, vlib.SortedKeys(owners)...)
	extra := []string{"", "AUTO", "Ollama", "LM_Studio", "llama-cpp", "llama_cpp", "vllmmlx", "zz-not-a-provider"}
	var trows []string
	seen := map[string]bool{}
	for _, t := range append(append([]string{}, uni...), extra...) {
		if seen[t] {
			continue
		}
		seen[t] = true
		plat := unifier.NewModelExtractor().DetectPlatform("", nil, t)
		trows = append(trows, vlib.LeanTuple(vlib.LeanStr(t), vlib.LeanBool(pf.ValidateProfileType(t)), vlib.LeanStr(handlers.NormaliseProviderType(t)),
			vlib.LeanStr(handlers.NormaliseProviderType(plat))))
	}
	f.Def("types", "List (String × Bool × String × String)", vlib.LeanList(trows),
		"(endpoint type / url prefix, Factory.ValidateProfileType, handlers.NormaliseProviderType, NormaliseProviderType(unifier DetectPlatform(\"\", nil, type)) — the alias source the model-listing filter sees)")

	// ---- IsCompatibleWith over (single supported profile) x (normalised endpoint type)
	sups := append(append([]string{}, loaded...), "zz-not-a-provider")
	normTypes := map[string]bool{}
	for t := range seen {
		normTypes[handlers.NormaliseProviderType(t)] = true
		normTypes[handlers.NormaliseProviderType(unifier.NewModelExtractor().DetectPlatform("", nil, t))] = true
	}
	var crows []string
	for _, s := range sups {
		rp := domain.NewRequestProfile("")
		rp.AddSupportedProfile(s)
		for _, t := range vlib.SortedKeys(normTypes) {
			crows = append(crows, vlib.LeanTuple(vlib.LeanStr(s), vlib.LeanStr(t), vlib.LeanBool(rp.IsCompatibleWith(t))))
		}
	}
	f.Def("compat1", "List (String × String × Bool)", vlib.LeanList(crows),
		"(s, t, RequestProfile{SupportedBy:[s]}.IsCompatibleWith(t)) for every loaded profile name s and every normalised type t")
	empty := domain.NewRequestProfile("")
	f.Def("compatEmpty", "Bool", vlib.LeanBool(empty.IsCompatibleWith("zz-not-a-provider")), "IsCompatibleWith of a profile with no SupportedBy (no constraint)")
	two := domain.NewRequestProfile("")
	two.AddSupportedProfile("vllm")
	two.AddSupportedProfile("sglang")
	f.Def("compatIsAny", "Bool", vlib.LeanBool(two.IsCompatibleWith("sglang") && two.IsCompatibleWith("vllm") && !two.IsCompatibleWith("ollama")), "a two-entry SupportedBy accepts either entry and nothing else (IsCompatibleWith is an `any`)")

	// ---- the routes the real Application registers
	cfg := config.DefaultConfig()
	app, err := handlers.NewApplication(context.Background(), cfg, nil, nil, nil, nil, nil, nil, vlib.QuietLogger())
	if err != nil {
		fmt.Fprintln(os.Stderr, "gen_providers: NewApplication:", err)
		os.Exit(3)
	}
	// the route table is printed to stdout by nobody here (WireUp is not called)
	app.RegisterRoutes()
	routes := app.GetRouteRegistry().GetRoutes()
	var proxyPrefixes []string
	var listing []string
	for _, r := range vlib.SortedKeys(routes) {
		info := routes[r]
		if !strings.HasPrefix(r, "/olla/") {
			continue
		}
		rest := strings.TrimPrefix(r, "/olla/")
		i := strings.Index(rest, "/")
		if i < 0 {
			continue
		}
		pre, sub := rest[:i], rest[i:]
		if info.IsProxy && sub == "/" {
			if pre != "proxy" {
				proxyPrefixes = append(proxyPrefixes, pre)
			}
			continue
		}
		if info.Method == "GET" && pre != "proxy" && pre != "models" && pre != "anthropic" && (strings.HasSuffix(sub, "/models") || strings.HasSuffix(sub, "/tags")) {
			listing = append(listing, vlib.LeanTuple(vlib.LeanStr(pre), vlib.LeanStr(sub)))
		}
	}
	f.Def("proxyPrefixes", "List String", vlib.LeanStrList(proxyPrefixes), "provider prefixes p for which the router registers the catch-all proxy route /olla/p/ (RegisterProxyRoute)")
	f.Def("listingRoutes", "List (String × String)", vlib.LeanList(listing), "(provider prefix, sub-path) of the GET model-listing routes registered under provider prefixes")
	f.Write(ns)
}
