//go:build verif

// Package stack starts the unchanged production wiring (app.CreateAndStartServiceManager,
// the call main.go makes) in-process in front of scripted loopback backends, and gives the
// harnesses a raw-socket client. cwd must be /repo so ./config/profiles is the shipped YAML.
package stack

import (
	"encoding/json"
	"hash/fnv"
	"bufio"
	"bytes"
	"context"
	"crypto/sha256"
	"encoding/hex"
	"fmt"
	"github.com/thushan/olla/internal/zz_verif/vlib"
	"io"
	"net"
	"net/http"
	"os"
	"path/filepath"
	"sort"
	"strconv"
	"strings"
	"sync"
	"sync/atomic"
	"syscall"
	"time"

	"github.com/thushan/olla/internal/app"
	"github.com/thushan/olla/internal/app/services"
	"github.com/thushan/olla/internal/config"
	"github.com/thushan/olla/internal/core/domain"
	"github.com/thushan/olla/internal/core/ports"
	"github.com/thushan/olla/internal/logger"
	"gopkg.in/yaml.v3"
)

// ---------------------------------------------------------------- scripted backend

// Behaviour is what a backend does with one (non-health, non-model-listing) request.
type Behaviour struct {
	Kind    string        `json:"kind"` // ok | reset0 | close0 | garbage | hdr-reset | hdr-close | body-reset | body-close | body-stall | shortcl | truncchunk | stall0
	Status  int           `json:"status,omitempty"`
	Interim int           `json:"interim,omitempty"` // an interim response with this 1xx status is sent before anything else the kind does
	Headers [][2]string   `json:"headers,omitempty"`
	Body    []byte        `json:"-"`
	BodyHex string        `json:"body_hex,omitempty"`
	Chunked bool          `json:"chunked,omitempty"`
	K       int           `json:"k,omitempty"`        // body bytes delivered before the fault
	ChunkSz int           `json:"chunk_sz,omitempty"` // size of chunks when Chunked (default: whole body)
	StallMs int           `json:"stall_ms,omitempty"`
	GapUs   int           `json:"gap_us,omitempty"` // kind "pause": the gap between the pieces after the pause, in microseconds (0: the 20 ms it always was; negative: none)
	// KeepAlive (kinds "ok" and "pause" only): the answer does not say "Connection: close" and the connection is kept for
	// the next request, so the proxy's transport may reuse it for a different request later
	KeepAlive bool `json:"keep_alive,omitempty"`
	Gate    chan struct{} `json:"-"` // if set, the backend waits on it after reading the request
}

// Seen is one request as the backend received it.
type Seen struct {
	Method   string              `json:"method"`
	Path     string              `json:"path"` // as sent on the wire (escaped form)
	RawQuery string              `json:"rawquery"`
	Host     string              `json:"host"`
	Header   map[string][]string `json:"header"`
	BodyLen  int                 `json:"body_len"`
	BodySHA  string              `json:"body_sha"`
	Body     []byte              `json:"-"`
	TE       []string            `json:"te,omitempty"`
	CL       int64               `json:"cl"`
	Wrote    int                 `json:"wrote"` // response body bytes this backend put on the wire
	Seq      int64               `json:"seq"`   // global arrival order across all backends
	Backend  string              `json:"backend"`
}

var globalSeq int64

type Backend struct {
	Name             string
	ln               net.Listener
	addr             string
	mu               sync.Mutex
	script           func(n int, s *Seen) Behaviour
	seen             []*Seen
	nreq             int
	refusing         bool
	Models           []string // for model listing (openai format unless ListingBody set)
	Listing          func(path string) (int, string)
	HealthStatus     int32 // 0 => 200
	healthHits       int64
	holder           int // fd of the bound, non-listening socket that keeps the port while the backend refuses
	conns            sync.WaitGroup
	open             int64
	closed           bool
	KeepBodies       bool
	live             map[net.Conn]struct{}
	AbortUploadAfter int64 // >0: read this many body bytes of a proxied request, then RST without answering
	busy             int64 // scripted (non-health, non-listing) requests that are being answered right now
}

// ownPorts: every port this process has listened on (its backends, its stacks).  Several harness processes may run at
// once on one machine and ports are handed out again as soon as they are free, so a proxy of another process that still
// holds the address of a backend long gone can send a request here.  Such a request names, in X-Forwarded-Host, a proxy
// address on this machine that was never ours: it is answered 503 and not recorded.  (Anything else — no such header, a
// host name, an address of ours — is recorded as before: a proxy of ours that sends a wrong request is still seen.)
var (
	ownPorts    sync.Map
	ForeignHits int64
)

func OwnPort(addr string) {
	if _, p, err := net.SplitHostPort(addr); err == nil {
		ownPorts.Store(p, true)
	}
}

func foreign(req *http.Request) bool {
	vs := req.Header.Values("X-Forwarded-Host")
	if len(vs) != 1 {
		return false
	}
	h, p, err := net.SplitHostPort(vs[0])
	if err != nil || h != "127.0.0.1" {
		return false
	}
	if _, err := strconv.Atoi(p); err != nil {
		return false
	}
	_, ours := ownPorts.Load(p)
	return !ours
}

func NewBackend(name string) *Backend {
	ln, err := net.Listen("tcp", "127.0.0.1:0")
	if err != nil {
		panic(err)
	}
	OwnPort(ln.Addr().String())
	b := &Backend{Name: name, ln: ln, addr: ln.Addr().String()}
	b.script = func(int, *Seen) Behaviour {
		return Behaviour{Kind: "ok", Status: 200, Headers: [][2]string{{"Content-Type", "application/json"}}, Body: []byte(`{"ok":true,"from":"` + name + `"}`)}
	}
	go b.serve(ln)
	return b
}

func (b *Backend) Addr() string { return b.addr }
func (b *Backend) URL() string  { return "http://" + b.addr }

func (b *Backend) SetScript(f func(n int, s *Seen) Behaviour) {
	b.mu.Lock()
	b.script = f
	b.mu.Unlock()
}
func (b *Backend) SetBehaviour(bh Behaviour) {
	b.SetScript(func(int, *Seen) Behaviour { return bh })
}

// Refuse closes the listener (connections are refused); Listen re-opens the same port. While refusing the port
// stays OURS: a socket is bound to it without listening (a connect to it is answered with RST, i.e. refused),
// so that no other process's ":0" listener — several harnesses may run at once — can be handed the port and
// answer in this backend's place.
func (b *Backend) Refuse() {
	b.mu.Lock()
	defer b.mu.Unlock()
	if !b.refusing {
		b.refusing = true
		b.ln.Close()
		b.hold()
	}
}

// hold binds (without listening) the backend's address; best effort.
func (b *Backend) hold() {
	addr, err := net.ResolveTCPAddr("tcp", b.addr)
	if err != nil || addr.IP.To4() == nil {
		return
	}
	for i := 0; i < 20; i++ {
		fd, err := syscall.Socket(syscall.AF_INET, syscall.SOCK_STREAM, 0)
		if err != nil {
			return
		}
		_ = syscall.SetsockoptInt(fd, syscall.SOL_SOCKET, syscall.SO_REUSEADDR, 1)
		sa := &syscall.SockaddrInet4{Port: addr.Port}
		copy(sa.Addr[:], addr.IP.To4())
		if err := syscall.Bind(fd, sa); err == nil {
			b.holder = fd
			return
		}
		syscall.Close(fd)
		time.Sleep(time.Millisecond)
	}
}

func (b *Backend) unhold() {
	if b.holder > 0 {
		syscall.Close(b.holder)
		b.holder = 0
	}
}

func (b *Backend) Listen() {
	b.mu.Lock()
	defer b.mu.Unlock()
	if b.refusing {
		b.unhold()
		for i := 0; i < 50; i++ {
			ln, err := net.Listen("tcp", b.addr)
			if err == nil {
				b.ln = ln
				b.refusing = false
				go b.serve(ln)
				return
			}
			time.Sleep(10 * time.Millisecond)
		}
		panic("stack: cannot re-listen on " + b.addr)
	}
}

func (b *Backend) Close() {
	b.mu.Lock()
	b.closed = true
	if !b.refusing {
		b.ln.Close()
	}
	b.unhold()
	for c := range b.live {
		c.Close()
	}
	b.live = nil
	b.mu.Unlock()
}

// Taken returns and clears the requests seen so far (health / listing requests excluded).
func (b *Backend) Taken() []*Seen {
	b.mu.Lock()
	defer b.mu.Unlock()
	s := b.seen
	b.seen = nil
	return s
}

func (b *Backend) Count() int        { b.mu.Lock(); defer b.mu.Unlock(); return len(b.seen) }
func (b *Backend) HealthHits() int64 { return atomic.LoadInt64(&b.healthHits) }
func (b *Backend) OpenConns() int64  { return atomic.LoadInt64(&b.open) }

// Busy: scripted requests (not health probes, not model listings) this backend has received and not finished answering.
func (b *Backend) Busy() int64 { return atomic.LoadInt64(&b.busy) }

func (b *Backend) serve(ln net.Listener) {
	for {
		c, err := ln.Accept()
		if err != nil {
			return
		}
		atomic.AddInt64(&b.open, 1)
		b.mu.Lock()
		if b.closed {
			b.mu.Unlock()
			c.Close()
			atomic.AddInt64(&b.open, -1)
			continue
		}
		if b.live == nil {
			b.live = map[net.Conn]struct{}{}
		}
		b.live[c] = struct{}{}
		b.mu.Unlock()
		go func() {
			defer func() {
				atomic.AddInt64(&b.open, -1)
				b.mu.Lock()
				delete(b.live, c)
				b.mu.Unlock()
			}()
			b.handle(c)
		}()
	}
}

func rst(c net.Conn) {
	if tc, ok := c.(*net.TCPConn); ok {
		tc.SetLinger(0)
	}
	c.Close()
}

func (b *Backend) handle(c net.Conn) {
	defer c.Close()
	br := bufio.NewReader(c)
	for {
		req, err := http.ReadRequest(br)
		if err != nil {
			return
		}
		p := req.URL.EscapedPath()
		if foreign(req) {
			atomic.AddInt64(&ForeignHits, 1)
			_, _ = io.Copy(io.Discard, req.Body)
			fmt.Fprintf(c, "HTTP/1.1 503 X\r\nContent-Type: text/plain\r\nX-Verif-Foreign: 1\r\nContent-Length: 7\r\nConnection: close\r\n\r\nforeign")
			return
		}
		if n := atomic.LoadInt64(&b.AbortUploadAfter); n > 0 && p != "/health" && !strings.HasSuffix(p, "/zz-health") && !strings.HasSuffix(p, "/v1/models") {
			// consume part of the upload, then reset the connection without answering
			got, _ := io.CopyN(io.Discard, req.Body, n)
			b.mu.Lock()
			b.seen = append(b.seen, &Seen{Method: req.Method, Path: p, RawQuery: req.URL.RawQuery, Host: req.Host, Header: map[string][]string(req.Header),
				BodyLen: int(got), BodySHA: "partial", CL: req.ContentLength, Seq: atomic.AddInt64(&globalSeq, 1), Backend: b.Name})
			b.nreq++
			b.mu.Unlock()
			rst(c)
			return
		}
		body, _ := io.ReadAll(req.Body)
		if p == "/health" || strings.HasSuffix(p, "/zz-health") || (req.Method == "GET" && strings.HasSuffix(p, "/health") && strings.HasPrefix(strings.ToLower(req.Header.Get("User-Agent")), "olla")) {
			atomic.AddInt64(&b.healthHits, 1)
			st := int(atomic.LoadInt32(&b.HealthStatus))
			if st == 0 {
				st = 200
			}
			fmt.Fprintf(c, "HTTP/1.1 %d X\r\nContent-Type: application/json\r\nContent-Length: 2\r\n\r\n{}", st)
			continue
		}
		if b.Listing != nil {
			if st, js := b.Listing(p); st != 0 {
				fmt.Fprintf(c, "HTTP/1.1 %d X\r\nContent-Type: application/json\r\nContent-Length: %d\r\n\r\n%s", st, len(js), js)
				continue
			}
		}
		sum := sha256.Sum256(body)
		s := &Seen{Method: req.Method, Path: p, RawQuery: req.URL.RawQuery, Host: req.Host, Header: map[string][]string(req.Header),
			BodyLen: len(body), BodySHA: hex.EncodeToString(sum[:]), TE: req.TransferEncoding, CL: req.ContentLength}
		s.Seq = atomic.AddInt64(&globalSeq, 1)
		s.Backend = b.Name
		if b.KeepBodies || len(body) <= 1<<16 {
			s.Body = body
		}
		b.mu.Lock()
		n := b.nreq
		b.nreq++
		b.seen = append(b.seen, s)
		f := b.script
		b.mu.Unlock()
		atomic.AddInt64(&b.busy, 1)
		bh := f(n, s)
		if bh.Gate != nil {
			<-bh.Gate
		}
		again := b.respond(c, bh, s)
		if !again {
			c.Close()
		}
		atomic.AddInt64(&b.busy, -1)
		if !again {
			return
		}
	}
}

// respond returns false when the connection must not be reused.
func (b *Backend) respond(c net.Conn, bh Behaviour, s *Seen) bool {
	body := bh.Body
	if body == nil && bh.BodyHex != "" {
		body, _ = hex.DecodeString(bh.BodyHex)
	}
	status := bh.Status
	if status == 0 {
		status = 200
	}
	head := func(extra string) string {
		var sb strings.Builder
		fmt.Fprintf(&sb, "HTTP/1.1 %03d %s\r\n", status, http.StatusText(status))
		for _, h := range bh.Headers {
			fmt.Fprintf(&sb, "%s: %s\r\n", h[0], h[1])
		}
		sb.WriteString(extra)
		if bh.KeepAlive && (bh.Kind == "ok" || bh.Kind == "" || bh.Kind == "pause") {
			sb.WriteString("\r\n")
		} else {
			sb.WriteString("Connection: close\r\n\r\n")
		}
		return sb.String()
	}
	w := func(p []byte) {
		n, _ := c.Write(p)
		_ = n
	}
	wb := func(p []byte) { // body bytes, counted
		n, _ := c.Write(p)
		s.Wrote += n
	}
	chunked := func(p []byte) {
		sz := bh.ChunkSz
		if sz <= 0 {
			sz = len(p)
		}
		for len(p) > 0 {
			k := sz
			if k > len(p) {
				k = len(p)
			}
			w([]byte(fmt.Sprintf("%x\r\n", k)))
			wb(p[:k])
			w([]byte("\r\n"))
			p = p[k:]
		}
	}
	k := bh.K
	if k > len(body) {
		k = len(body)
	}
	if bh.Interim > 0 { // an interim (1xx) response first: 103 Early Hints, 102 Processing
		w([]byte(fmt.Sprintf("HTTP/1.1 %03d %s\r\nLink: </style.css>; rel=preload\r\nX-Backend-Interim: %s\r\n\r\n", bh.Interim, http.StatusText(bh.Interim), b.Name)))
		time.Sleep(15 * time.Millisecond)
	}
	switch bh.Kind {
	case "ok", "":
		if s != nil && s.Method == "HEAD" { // the headers of the answer a GET would get, and no body
			w([]byte(head(fmt.Sprintf("Content-Length: %d\r\n", len(body)))))
			return false
		}
		if bh.Chunked {
			w([]byte(head("Transfer-Encoding: chunked\r\n")))
			chunked(body)
			w([]byte("0\r\n\r\n"))
		} else {
			w([]byte(head(fmt.Sprintf("Content-Length: %d\r\n", len(body)))))
			wb(body)
		}
		return bh.KeepAlive
	case "reset0":
		rst(c)
	case "close0":
		c.Close()
	case "stall0":
		time.Sleep(time.Duration(bh.StallMs) * time.Millisecond)
		c.Close()
	case "garbage":
		w([]byte("\x00\x01GARBAGE not http\r\n\r\n"))
		c.Close()
	case "hdr-reset", "hdr-close", "body-reset", "body-close", "body-stall":
		if bh.Chunked {
			w([]byte(head("Transfer-Encoding: chunked\r\n")))
			if k > 0 {
				chunked(body[:k])
			}
		} else {
			w([]byte(head(fmt.Sprintf("Content-Length: %d\r\n", len(body)))))
			if k > 0 {
				wb(body[:k])
			}
		}
		// give the proxy a moment to relay what was sent before the fault hits the socket
		time.Sleep(30 * time.Millisecond)
		switch bh.Kind {
		case "hdr-reset", "body-reset":
			rst(c)
		case "body-stall":
			time.Sleep(time.Duration(bh.StallMs) * time.Millisecond)
			c.Close()
		default:
			c.Close()
		}
	case "pause": // k bytes, a pause of StallMs, then the rest in ChunkSz pieces 20 ms apart, proper end
		if bh.Chunked {
			w([]byte(head("Transfer-Encoding: chunked\r\n")))
			if k > 0 {
				chunked(body[:k])
			}
		} else {
			w([]byte(head(fmt.Sprintf("Content-Length: %d\r\n", len(body)))))
			wb(body[:k])
		}
		time.Sleep(time.Duration(bh.StallMs) * time.Millisecond)
		rest := body[k:]
		sz := bh.ChunkSz
		if sz <= 0 {
			sz = len(rest)
		}
		for len(rest) > 0 {
			n := sz
			if n > len(rest) {
				n = len(rest)
			}
			before := s.Wrote
			if bh.Chunked {
				w([]byte(fmt.Sprintf("%x\r\n", n)))
				wb(rest[:n])
				w([]byte("\r\n"))
			} else {
				wb(rest[:n])
			}
			if bh.GapUs != 0 && s.Wrote == before {
				return false // (only with GapUs, i.e. for thousands of pieces) nobody takes the bytes any more
			}
			rest = rest[n:]
			if len(rest) > 0 {
				switch {
				case bh.GapUs == 0:
					time.Sleep(20 * time.Millisecond)
				case bh.GapUs > 0:
					time.Sleep(time.Duration(bh.GapUs) * time.Microsecond)
				}
			}
		}
		if bh.Chunked {
			w([]byte("0\r\n\r\n"))
		}
		return bh.KeepAlive
	case "shortcl": // declares len(body) but sends only k bytes then closes cleanly
		w([]byte(head(fmt.Sprintf("Content-Length: %d\r\n", len(body)))))
		wb(body[:k])
		time.Sleep(30 * time.Millisecond)
		c.Close()
	case "truncchunk": // chunked, k bytes, no terminator
		w([]byte(head("Transfer-Encoding: chunked\r\n")))
		if k > 0 {
			chunked(body[:k])
		}
		time.Sleep(30 * time.Millisecond)
		c.Close()
	default:
		c.Close()
	}
	return false
}

// ---------------------------------------------------------------- the stack

type EP struct {
	Name     string
	Type     string
	Priority int
	Backend  *Backend
	Host     string // if set, the endpoint URL uses this host name instead of the backend's 127.0.0.1 (e.g. an unresolvable name)
	BasePath string // appended to the backend URL
	Preserve bool
	Interval time.Duration
	Timeout  time.Duration
}

// URL is the endpoint URL as configured.
func (e EP) URL() string {
	u := e.Backend.URL()
	if e.Host != "" {
		_, port, _ := net.SplitHostPort(e.Backend.Addr())
		u = "http://" + e.Host + ":" + port
	}
	return u + e.BasePath
}

type Opts struct {
	Engine         string // sherpa | olla
	Balancer       string // priority | round-robin | least-connections
	Profile        string // auto | streaming | standard
	EPs            []EP
	ModelDiscovery bool
	// Env: environment variables set while config.Load reads the configuration (only with Load); the process
	// environment is shared, so loads with Env are serialised and the variables are removed again afterwards
	Env    map[string]string
	Mutate func(*config.Config)
	// Load: write the configuration out as YAML and read it back through config.Load (the call main.go makes),
	// so that the file loader, its defaulting and its validation are part of what is exercised
	Load bool
	// Vary (non-zero): a seed for settings that no property mentions and that must therefore be inert for every check —
	// applied after the defaults and before Mutate, so a harness's own settings always win.  The same number gives the
	// same settings, so a scenario that records it replays exactly.
	Vary uint64
}

// VaryFor: a Vary seed that depends only on the run's seed and on what identifies the scenario (so a replay of the
// scenario gets the same settings); zero — the defaults — for half of the scenarios.
func VaryFor(parts ...any) uint64 {
	h := fnv.New64a()
	fmt.Fprint(h, vlib.Seed(), "|")
	for _, p := range parts {
		fmt.Fprint(h, p, "|")
	}
	v := h.Sum64()
	if v%2 == 0 {
		return 0
	}
	return v
}

// VaryForJSON: VaryFor keyed by the JSON rendering of a scenario description.
func VaryForJSON(tag string, v any) uint64 {
	b, _ := json.Marshal(v)
	return VaryFor(tag, string(b))
}

// applyVary: valid non-default values for knobs the properties do not mention (see DESIGN 11.4, round 4).
// ApplyVary is applyVary for harnesses that assemble their configuration themselves (zero seed: nothing changes);
// the returned scratch directories are the caller's to remove.
func ApplyVary(cfg *config.Config, seed uint64) (tmp []string) {
	if seed == 0 {
		return nil
	}
	return applyVary(cfg, seed)
}

func applyVary(cfg *config.Config, seed uint64) (tmp []string) {
	r := vlib.NewRng(seed)
	cfg.Server.RequestLogging = r.Chance(3, 4)
	if r.Chance(1, 2) { // limits so generous that no scenario reaches them, instead of no limits
		cfg.Server.RateLimits.GlobalRequestsPerMinute = 60_000_000
		cfg.Server.RateLimits.PerIPRequestsPerMinute = 60_000_000
		cfg.Server.RateLimits.HealthRequestsPerMinute = 60_000_000
		cfg.Server.RateLimits.BurstSize = 1_000_000
	}
	if r.Chance(1, 3) {
		cfg.Server.RequestLimits.MaxBodySize = 1 << 30
	}
	if r.Chance(1, 3) {
		cfg.Server.ReadTimeout = 5 * time.Minute
	}
	if r.Chance(1, 3) {
		cfg.Server.WriteTimeout = 10 * time.Minute
	}
	if r.Chance(1, 3) {
		cfg.Server.IdleTimeout = 10 * time.Minute
	}
	if r.Chance(1, 2) {
		cfg.Proxy.StreamBufferSize = vlib.Pick(r, []int{1024, 2048, 4096, 16384, 65536})
	}
	if r.Chance(1, 2) { // deprecated and documented as unused
		cfg.Proxy.MaxRetries = vlib.Pick(r, []int{0, 1, 2, 10})
		cfg.Proxy.RetryBackoff = vlib.Pick(r, []time.Duration{0, time.Second, 30 * time.Second})
	}
	if r.Chance(1, 2) {
		cfg.Discovery.ModelDiscovery.ConcurrentWorkers = vlib.Pick(r, []int{1, 2, 16})
	}
	if r.Chance(1, 3) {
		cfg.ModelRegistry.Unification.StaleThreshold = time.Hour
		cfg.ModelRegistry.Unification.CleanupInterval = time.Minute
	}
	if r.Chance(1, 3) {
		cfg.ModelRegistry.Unification.CacheTTL = time.Minute
	}
	if r.Chance(1, 4) {
		if dir, err := os.MkdirTemp(vlib.OutDir(), "inspector"); err == nil {
			cfg.Translators.Anthropic.Inspector = config.InspectorConfig{Enabled: true, OutputDir: dir, SessionHeader: "X-Session-ID"}
			tmp = append(tmp, dir)
		}
	}
	if r.Chance(1, 3) {
		cfg.Translators.Anthropic.MaxMessageSize = 50 << 20
	}
	cfg.Engineering.ShowNerdStats = r.Bool()
	return tmp
}

type Stack struct {
	tmpDirs []string
	Cfg     *config.Config
	Manager *services.ServiceManager
	Addr    string
	Repo    domain.EndpointRepository
	Stats   ports.StatsCollector
	Proxy   ports.ProxyService
	Disc    *services.DiscoveryService
	cancel  context.CancelFunc
	EPs     []EP
}

var logOnce sync.Once
var sharedLog logger.StyledLogger

func quiet() logger.StyledLogger {
	logOnce.Do(func() {
		_, sl, _, err := logger.NewWithTheme(&logger.Config{Level: "error", Theme: "default"})
		if err != nil {
			panic(err)
		}
		sharedLog = sl
	})
	return sharedLog
}

var portCtr uint32

var (
	portBlockOnce sync.Once
	portBlockBase int
	portBlockLock *os.File // held (flock) for the life of the process
)

// claimPortBlock reserves one block of 100 ports for this process. Harnesses of different properties may
// run at the same time (and so may several checks against different trees): a block is claimed by taking an
// exclusive flock on a file named after it, held until the process exits, so two live processes never share
// a block. The search starts at a pid-derived index to spread processes out.
func claimPortBlock() {
	dir := filepath.Join(os.TempDir(), "verif-portblocks")
	_ = os.MkdirAll(dir, 0o777)
	start := os.Getpid() % 120
	for i := 0; i < 120; i++ {
		k := (start + i) % 120
		f, err := os.OpenFile(filepath.Join(dir, fmt.Sprintf("block-%03d.lock", k)), os.O_CREATE|os.O_RDWR, 0o666)
		if err != nil {
			continue
		}
		if err := syscall.Flock(int(f.Fd()), syscall.LOCK_EX|syscall.LOCK_NB); err != nil {
			f.Close()
			continue
		}
		portBlockLock, portBlockBase = f, 20000+k*100
		return
	}
	portBlockBase = 20000 + start*100 // every block taken (or no lock directory): fall back to the pid-derived block
}

// freePort hands out listen ports for the Olla server. The server binds the port itself (we cannot
// pass it a listener), so a port must never be handed out twice while a stack may still be coming up:
// ports come from a per-process block BELOW the kernel's ephemeral range (so backends' :0 listeners and
// outgoing connections never take them), round-robin inside the block.
func freePort() int {
	portBlockOnce.Do(claimPortBlock)
	base := portBlockBase
	for i := 0; i < 100; i++ {
		p := base + int(atomic.AddUint32(&portCtr, 1)%100)
		ln, err := net.Listen("tcp", fmt.Sprintf("127.0.0.1:%d", p))
		if err == nil {
			ln.Close()
			return p
		}
	}
	ln, err := net.Listen("tcp", "127.0.0.1:0")
	if err != nil {
		panic(err)
	}
	p := ln.Addr().(*net.TCPAddr).Port
	ln.Close()
	return p
}

// FreePort is freePort for harnesses that wire the server themselves.
func FreePort() int { return freePort() }

var startMu sync.Mutex
var envMu sync.Mutex

func Start(o Opts) (*Stack, error) {
	var lastErr error
	for try := 0; try < 5; try++ {
		s, err := start1(o)
		if err == nil {
			return s, nil
		}
		lastErr = err
	}
	return nil, lastErr
}

func start1(o Opts) (*Stack, error) {
	cfg := config.DefaultConfig()
	cfg.Server.Host = "127.0.0.1"
	cfg.Server.RequestLogging = true // the default: the logging middleware is part of what production runs
	cfg.Server.RateLimits.GlobalRequestsPerMinute = 0
	cfg.Server.RateLimits.PerIPRequestsPerMinute = 0
	cfg.Server.RateLimits.HealthRequestsPerMinute = 0
	cfg.Server.RateLimits.BurstSize = 0
	if o.Engine != "" {
		cfg.Proxy.Engine = o.Engine
	}
	if o.Balancer != "" {
		cfg.Proxy.LoadBalancer = o.Balancer
	}
	if o.Profile != "" {
		cfg.Proxy.Profile = o.Profile
	}
	cfg.Discovery.ModelDiscovery.Enabled = o.ModelDiscovery
	cfg.Discovery.ModelDiscovery.RetryAttempts = 1
	cfg.Discovery.ModelDiscovery.RetryBackoff = 10 * time.Millisecond
	cfg.Discovery.ModelDiscovery.Timeout = 2 * time.Second
	cfg.Discovery.Static.Endpoints = nil
	for i := range o.EPs {
		e := o.EPs[i]
		pr := e.Priority
		iv, to := e.Interval, e.Timeout
		if iv == 0 {
			iv = 10 * time.Minute
		}
		if to == 0 {
			to = 2 * time.Second
		}
		ty := e.Type
		if ty == "" {
			ty = "openai"
		}
		cfg.Discovery.Static.Endpoints = append(cfg.Discovery.Static.Endpoints, config.EndpointConfig{
			URL: e.URL(), Name: e.Name, Type: ty, Priority: &pr,
			HealthCheckURL: "/health", ModelURL: "/v1/models", CheckInterval: iv, CheckTimeout: to, PreservePath: e.Preserve,
		})
	}
	var tmpDirs []string
	if o.Vary != 0 {
		tmpDirs = applyVary(cfg, o.Vary)
		if o.Profile == "" { // what a response carries does not depend on how eagerly the engine flushes it
			cfg.Proxy.Profile = []string{"auto", "auto", "streaming", "standard"}[(o.Vary>>20)%4]
		}
	}
	ok := false
	defer func() {
		if !ok {
			for _, d := range tmpDirs {
				os.RemoveAll(d)
			}
		}
	}()
	if o.Mutate != nil {
		o.Mutate(cfg)
	}
	cfg.Server.Port = freePort()
	OwnPort(fmt.Sprintf("127.0.0.1:%d", cfg.Server.Port))
	if o.Load {
		data, err := yaml.Marshal(cfg)
		if err != nil {
			return nil, fmt.Errorf("stack: marshal config: %w", err)
		}
		// TrustedProxyCIDRsParsed is a cache without a yaml tag: an operator's file never carries it
		var kept []string
		for _, ln := range strings.Split(string(data), "\n") {
			if strings.HasPrefix(strings.TrimSpace(ln), "trustedproxycidrsparsed:") {
				continue
			}
			kept = append(kept, ln)
		}
		data = []byte(strings.Join(kept, "\n"))
		f, err := os.CreateTemp("", "olla-verif-*.yaml")
		if err != nil {
			return nil, err
		}
		f.Write(data)
		f.Close()
		envMu.Lock()
		for k, v := range o.Env {
			os.Setenv(k, v)
		}
		loaded, err := config.Load(f.Name())
		for k := range o.Env {
			os.Unsetenv(k)
		}
		envMu.Unlock()
		os.Remove(f.Name())
		if err != nil {
			return nil, fmt.Errorf("stack: config.Load: %w", err)
		}
		cfg = loaded
	}
	ctx, cancel := context.WithCancel(context.Background())

	mgr, err := app.CreateAndStartServiceManager(ctx, cfg, quiet())

	if err != nil {
		cancel()
		return nil, err
	}
	s := &Stack{Cfg: cfg, Manager: mgr, Addr: fmt.Sprintf("127.0.0.1:%d", cfg.Server.Port), cancel: cancel, EPs: o.EPs, tmpDirs: tmpDirs}
	reg := mgr.GetRegistry()
	if d, err := reg.GetDiscovery(); err == nil {
		s.Disc = d
		s.Repo, _ = d.GetEndpointRepository()
	}
	if st, err := reg.GetStats(); err == nil {
		s.Stats, _ = st.GetCollector()
	}
	if p, err := reg.GetProxy(); err == nil {
		s.Proxy, _ = p.GetProxyService()
	}
	deadline := time.Now().Add(5 * time.Second)
	for time.Now().Before(deadline) {
		c, err := net.DialTimeout("tcp", s.Addr, 200*time.Millisecond)
		if err == nil {
			c.Close()
			ok = true
			return s, nil
		}
		time.Sleep(10 * time.Millisecond)
	}
	s.Stop()
	return nil, fmt.Errorf("stack: server did not come up on %s", s.Addr)
}

func (s *Stack) Stop() {
	ctx, c := context.WithTimeout(context.Background(), 3*time.Second)
	defer c()
	if s.Manager != nil {
		s.Manager.Stop(ctx)
	}
	s.cancel()
	for _, d := range s.tmpDirs {
		os.RemoveAll(d)
	}
}

// Endpoint returns the repository's current record for the endpoint named name.
func (s *Stack) Endpoint(name string) *domain.Endpoint {
	all, _ := s.Repo.GetAll(context.Background())
	for _, e := range all {
		if e.Name == name {
			return e
		}
	}
	return nil
}

// SetStatus writes a status straight into the repository (as a health result would).
func (s *Stack) SetStatus(name string, st domain.EndpointStatus) {
	e := s.Endpoint(name)
	if e == nil {
		return
	}
	cp := *e
	cp.Status = st
	if st == domain.StatusHealthy {
		cp.ConsecutiveFailures = 0
		cp.BackoffMultiplier = 1
	}
	cp.NextCheckTime = time.Now().Add(10 * time.Minute)
	s.Repo.UpdateEndpoint(context.Background(), &cp)
}

func (s *Stack) Statuses() map[string]string {
	out := map[string]string{}
	all, _ := s.Repo.GetAll(context.Background())
	for _, e := range all {
		out[e.Name] = string(e.Status)
	}
	return out
}

// ---------------------------------------------------------------- raw client

type Resp struct {
	Err      string              `json:"err"` // "" | dial | timeout | eof-before-status | bad-status-line | truncated
	Status   int                 `json:"status"`
	Header   map[string][]string `json:"header"`
	Body     []byte              `json:"-"`
	Complete bool                `json:"complete"` // framing satisfied (Content-Length reached / chunked terminator / close-delimited EOF)
	Raw      []byte              `json:"-"`
	Ms       int64               `json:"ms"`
	// Interims: for every interim (1xx) response that came before the final one, which backend said it (the scripted
	// backends put their name into X-Backend-Interim) or "?" when it carries no such header
	Interims []string `json:"interims,omitempty"`
}

// Do sends raw request bytes on a fresh connection and reads the reply until EOF or timeout.
func Do(addr string, raw []byte, timeout time.Duration) *Resp {
	t0 := time.Now()
	r := &Resp{Header: map[string][]string{}}
	defer func() { r.Ms = time.Since(t0).Milliseconds() }()
	c, err := net.DialTimeout("tcp", addr, 2*time.Second)
	if err != nil {
		r.Err = "dial"
		return r
	}
	defer c.Close()
	c.SetDeadline(time.Now().Add(timeout))
	if _, err := c.Write(raw); err != nil {
		r.Err = "write"
		return r
	}
	var buf bytes.Buffer
	tmp := make([]byte, 64<<10)
	timedOut := false
	for {
		n, err := c.Read(tmp)
		buf.Write(tmp[:n])
		if err != nil {
			if ne, ok := err.(net.Error); ok && ne.Timeout() {
				timedOut = true
			}
			break
		}
	}
	r.Raw = buf.Bytes()
	ParseResp(r, timedOut)
	return r
}

// ParseResp is a strict little HTTP/1.1 response reader over the raw bytes.
func ParseResp(r *Resp, timedOut bool) {
	raw := r.Raw
	// interim responses: a status line 1xx (other than 101) and its header block, then the next response
	for {
		j := bytes.Index(raw, []byte("\r\n\r\n"))
		if j < 0 || len(raw) < 12 || !bytes.HasPrefix(raw, []byte("HTTP/1.")) || raw[8] != ' ' || raw[9] != '1' || string(raw[9:12]) == "101" {
			break
		}
		who := "?"
		for _, l := range strings.Split(string(raw[:j]), "\r\n")[1:] {
			if kv := strings.SplitN(l, ":", 2); len(kv) == 2 && strings.EqualFold(strings.TrimSpace(kv[0]), "X-Backend-Interim") {
				who = strings.TrimSpace(kv[1])
			}
		}
		r.Interims = append(r.Interims, who)
		raw = raw[j+4:]
	}
	i := bytes.Index(raw, []byte("\r\n\r\n"))
	if i < 0 {
		if timedOut {
			r.Err = "timeout"
		} else if len(raw) == 0 {
			r.Err = "eof-before-status"
		} else {
			r.Err = "bad-status-line"
		}
		return
	}
	lines := strings.Split(string(raw[:i]), "\r\n")
	parts := strings.SplitN(lines[0], " ", 3)
	if len(parts) < 2 || !strings.HasPrefix(parts[0], "HTTP/") {
		r.Err = "bad-status-line"
		return
	}
	r.Status, _ = strconv.Atoi(parts[1])
	for _, l := range lines[1:] {
		kv := strings.SplitN(l, ":", 2)
		if len(kv) == 2 {
			k := http.CanonicalHeaderKey(strings.TrimSpace(kv[0]))
			r.Header[k] = append(r.Header[k], strings.TrimSpace(kv[1]))
		}
	}
	rest := raw[i+4:]
	te := strings.ToLower(strings.Join(r.Header["Transfer-Encoding"], ","))
	switch {
	case strings.Contains(te, "chunked"):
		var body []byte
		for {
			j := bytes.Index(rest, []byte("\r\n"))
			if j < 0 {
				break
			}
			szs := strings.TrimSpace(strings.SplitN(string(rest[:j]), ";", 2)[0])
			sz, err := strconv.ParseInt(szs, 16, 64)
			if err != nil {
				break
			}
			rest = rest[j+2:]
			if sz == 0 {
				r.Complete = true
				break
			}
			if int64(len(rest)) < sz {
				body = append(body, rest...)
				rest = nil
				break
			}
			body = append(body, rest[:sz]...)
			rest = rest[sz:]
			if len(rest) >= 2 {
				rest = rest[2:]
			}
		}
		r.Body = body
	case len(r.Header["Content-Length"]) > 0:
		cl, _ := strconv.Atoi(r.Header["Content-Length"][0])
		if len(rest) >= cl {
			r.Body = rest[:cl]
			r.Complete = true
		} else {
			r.Body = rest
		}
	default:
		r.Body = rest
		r.Complete = !timedOut
	}
	if !r.Complete {
		if timedOut {
			r.Err = "timeout"
		} else {
			r.Err = "truncated"
		}
	}
}

// Request renders a simple HTTP/1.1 request with Connection: close.
func Request(method, target, host string, hdr [][2]string, body []byte, chunked bool) []byte {
	var b bytes.Buffer
	fmt.Fprintf(&b, "%s %s HTTP/1.1\r\nHost: %s\r\n", method, target, host)
	for _, h := range hdr {
		fmt.Fprintf(&b, "%s: %s\r\n", h[0], h[1])
	}
	b.WriteString("Connection: close\r\n")
	if chunked {
		b.WriteString("Transfer-Encoding: chunked\r\n\r\n")
		p := body
		for len(p) > 0 {
			k := 1000
			if k > len(p) {
				k = len(p)
			}
			fmt.Fprintf(&b, "%x\r\n", k)
			b.Write(p[:k])
			b.WriteString("\r\n")
			p = p[k:]
		}
		b.WriteString("0\r\n\r\n")
	} else {
		if body != nil || method == "POST" || method == "PUT" {
			fmt.Fprintf(&b, "Content-Length: %d\r\n", len(body))
		}
		b.WriteString("\r\n")
		b.Write(body)
	}
	return b.Bytes()
}

// EndToEnd filters a header map down to the end-to-end headers of the backend
// (drops hop-by-hop, framing, Date and everything Olla adds on its own).
func EndToEnd(h map[string][]string) [][2]string {
	drop := map[string]bool{"Connection": true, "Keep-Alive": true, "Transfer-Encoding": true, "Content-Length": true, "Date": true,
		"Via": true, "X-Served-By": true, "Trailer": true, "Upgrade": true, "Te": true, "Proxy-Authenticate": true, "Proxy-Authorization": true}
	var out [][2]string
	for k, vs := range h {
		if drop[k] || strings.HasPrefix(k, "X-Olla-") || strings.HasPrefix(k, "X-Ratelimit-") {
			continue
		}
		for _, v := range vs {
			out = append(out, [2]string{k, v})
		}
	}
	sort.Slice(out, func(i, j int) bool {
		if out[i][0] != out[j][0] {
			return out[i][0] < out[j][0]
		}
		return out[i][1] < out[j][1]
	})
	return out
}

// Quiesce polls f until two consecutive equal snapshots 20 ms apart (max 2 s) and returns the last.
func Quiesce(f func() string) string {
	prev := f()
	deadline := time.Now().Add(2 * time.Second)
	for time.Now().Before(deadline) {
		time.Sleep(20 * time.Millisecond)
		cur := f()
		if cur == prev {
			return cur
		}
		prev = cur
	}
	return prev
}
