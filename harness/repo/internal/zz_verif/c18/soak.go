//go:build verif

package main

import "github.com/thushan/olla/internal/zz_verif/soak"

// soak: see zz_verif/soak (shared with c02)
func soak1(engine string, rounds, aborters, readers int) map[string]any {
	return soak.Run(engine, rounds, aborters, readers)
}
