//go:build verif

package main

import (
	"bufio"
	"bytes"
	"fmt"
	"net"
	"strings"
	"sync"
	"time"

	"github.com/thushan/olla/internal/zz_verif/stack"
)

// soak: ONE long-lived stack per engine. In every round some clients go away in the middle of a free-running
// stream while others read a short stream to its end. "A completed stream is delivered whole" must hold for the
// latter whatever happened to earlier requests on the same engine instance (pooled per-stream state, connection
// reuse, …). Returns the observation that is emitted as one case.
func soak(engine string, rounds, aborters, readers int) map[string]any {
	const chunks, chunkSize = 12, 31
	body := func(tag byte) []byte {
		var b bytes.Buffer
		for i := 0; i < chunks; i++ {
			fmt.Fprintf(&b, "data: %c%02d%s\n\n", tag, i, strings.Repeat("x", chunkSize-11))
		}
		return b.Bytes()
	}
	be := stack.NewBackend("S")
	defer be.Close()
	full := body('s')
	be.SetScript(func(int, *stack.Seen) stack.Behaviour {
		// free-running: chunked, one SSE event per chunk, 1 ms apart (the "pause" kind with k = first event)
		return stack.Behaviour{Kind: "pause", Status: 200, Headers: [][2]string{{"Content-Type", "text/event-stream"}}, Body: full, Chunked: true, K: chunkSize, StallMs: 1, ChunkSz: chunkSize}
	})
	s, err := stack.Start(stack.Opts{Engine: engine, Balancer: "priority", EPs: []stack.EP{{Name: "S", Type: "openai", Priority: 1, Backend: be}}})
	if err != nil {
		return map[string]any{"start_err": err.Error()}
	}
	defer s.Stop()
	req := stack.Request("POST", "/olla/proxy/v1/chat/completions", s.Addr, [][2]string{{"Content-Type", "application/json"}}, []byte(`{"stream":true}`), false)
	truncated, completeOK, aborted := 0, 0, 0
	first := ""
	var mu sync.Mutex
	for r := 0; r < rounds; r++ {
		var wg sync.WaitGroup
		for a := 0; a < aborters; a++ {
			wg.Add(1)
			go func() {
				defer wg.Done()
				c, err := net.DialTimeout("tcp", s.Addr, time.Second)
				if err != nil {
					return
				}
				c.SetDeadline(time.Now().Add(3 * time.Second))
				c.Write(req)
				br := bufio.NewReader(c)
				// read until the first event has arrived, then go away while the backend keeps sending
				for {
					line, err := br.ReadString('\n')
					if err != nil || strings.HasPrefix(line, "data: ") {
						break
					}
				}
				c.Close()
				mu.Lock()
				aborted++
				mu.Unlock()
			}()
		}
		wg.Wait()
		for k := 0; k < readers; k++ {
			wg.Add(1)
			go func() {
				defer wg.Done()
				rp := stack.Do(s.Addr, req, 5*time.Second)
				mu.Lock()
				if rp.Status == 200 && rp.Err == "" && bytes.Equal(rp.Body, full) {
					completeOK++
				} else {
					truncated++
					if first == "" {
						first = fmt.Sprintf("round %d: status %d err '%s', client got %d of %d bytes", r, rp.Status, rp.Err, len(rp.Body), len(full))
					}
				}
				mu.Unlock()
			}()
		}
		wg.Wait()
	}
	return map[string]any{"rounds": rounds, "aborted": aborted, "complete_whole": completeOK, "complete_not_whole": truncated, "first": first}
}
