//go:build verif

package main

import (
	"encoding/json"
	"fmt"
	"os"

	"github.com/thushan/olla/internal/zz_verif/timing"
)

func main() {
	var scs []*timing.Scenario
	base := func(engine, profile string, forced bool, ct string) *timing.Scenario {
		return &timing.Scenario{Engine: engine, Profile: profile, Forced: forced, CT: ct, Framing: "chunked", AbortBytes: -1, TimeoutMs: 150, AckMs: 60, HoldMs: 1150, Route: "proxy", Ending: "eof", EndGapMs: 20}
	}
	for _, e := range []string{"sherpa", "olla"} {
		a := base(e, "auto", false, "text/event-stream")
		a.Steps = []timing.Step{{20, 10}, {60, 100}, {20, 5000}}
		scs = append(scs, a)
		b := base(e, "auto", false, "text/event-stream")
		b.Steps = []timing.Step{{20, 10}, {60, 100}}
		b.Ending = "stall"
		scs = append(scs, b)
		c := base(e, "auto", false, "text/event-stream")
		c.Steps = []timing.Step{{20, 10}, {400, 100}, {20, 7}}
		scs = append(scs, c)
		d := base(e, "standard", false, "text/event-stream")
		d.Steps = []timing.Step{{20, 10}, {20, 100}, {20, 7}}
		scs = append(scs, d)
		d2 := base(e, "standard", true, "text/event-stream")
		d2.Steps = []timing.Step{{20, 10}, {20, 100}, {20, 7}}
		scs = append(scs, d2)
		f := base(e, "streaming", false, "application/octet-stream")
		f.Steps = []timing.Step{{20, 10}, {20, 100}, {20, 7}}
		scs = append(scs, f)
		g := base(e, "auto", false, "text/event-stream")
		g.Steps = []timing.Step{{20, 10}, {60, 100}, {60, 100}, {60, 100}}
		g.AbortBytes = 10
		scs = append(scs, g)
		h := base(e, "auto", false, "text/event-stream")
		h.Pre = "stall"
		scs = append(scs, h)
		i := base(e, "auto", false, "application/json")
		i.Steps = []timing.Step{{20, 10}, {60, 100}}
		i.Ending = "reset"
		scs = append(scs, i)
	}
	out, lk := timing.RunBatch(scs)
	for i := range scs {
		a, _ := json.Marshal(scs[i])
		b, _ := json.Marshal(out[i])
		fmt.Println(string(a))
		fmt.Println("   ", string(b))
	}
	b, _ := json.Marshal(lk)
	fmt.Println(string(b))
	os.Exit(0)
}
