//go:build verif

// c18: streams flow live, stalls are cut, cancellations propagate — in real time, through the
// unchanged production stack, against causally gated backends (package timing).
//
// Every scenario gets a fresh stack + backend; scenarios run in batches; per batch the goroutine count
// and the backends' open connections are measured before and at quiescence after (leak clause: measured,
// not proved). Because the verdicts depend on wall-clock time, a scenario whose verdict is bad is re-run
// (same scenario, same seed) and only reported if it is bad three times; the oracle for "bad" is the Lean
// driver itself ($VERIF_OUT/olla_model, which bin/check places there before the harness starts).
//
// Round 7: besides the fresh rig per scenario, histories (history.go) take ONE long-lived rig per engine through phases of
// different scenarios that follow and overlap each other; every request of a history is judged like a scenario.
package main

import (
	"github.com/thushan/olla/internal/zz_verif/stack"
	"github.com/thushan/olla/internal/adapter/proxy/olla"
	"strings"
	"bufio"
	"bytes"
	"encoding/json"
	"fmt"
	"os"
	"os/exec"
	"time"

	"github.com/thushan/olla/internal/zz_verif/timing"
	"github.com/thushan/olla/internal/zz_verif/vlib"
)

const (
	timeoutMs = 150
	ackMs     = 60
	holdMs    = 1150
)

var engines = []string{"sherpa", "olla"}
var cts = []string{"text/event-stream", "application/x-ndjson", "application/json", "application/octet-stream"}

// (profile, forced): "wired" is the production wiring alone, "forced" pushes the profile into the engine
type pm struct {
	profile string
	forced  bool
}

var pms = []pm{{"auto", false}, {"streaming", true}, {"standard", true}, {"streaming", false}, {"standard", false}}

func base(engine string, p pm, ct string) *timing.Scenario {
	return &timing.Scenario{Engine: engine, Profile: p.profile, Forced: p.forced, CT: ct, Framing: "chunked", AbortBytes: -1,
		TimeoutMs: timeoutMs, AckMs: ackMs, HoldMs: holdMs, Route: "proxy", Ending: "eof", EndGapMs: 20}
}

func steps(gs []int, sz []int) []timing.Step {
	out := make([]timing.Step, len(gs))
	for i := range gs {
		out[i] = timing.Step{GapMs: gs[i], Size: sz[i%len(sz)]}
	}
	return out
}

// corpus: the corner cases and every known witness, for both engines
func corpus() []*timing.Scenario {
	var out []*timing.Scenario
	for _, e := range engines {
		sse, bin, js, nd := cts[0], cts[3], cts[2], cts[1]
		auto := pm{"auto", false}
		add := func(s *timing.Scenario) { out = append(out, s) }
		// live, complete
		s := base(e, auto, sse)
		s.Steps = steps([]int{20, 60, 20}, []int{1, 100, 5000})
		add(s)
		s = base(e, auto, nd)
		s.Steps = steps([]int{60, 20, 60, 20}, []int{17, 1, 300, 2})
		add(s)
		// DESIGN §4 #20 witness: [chunk, stallForever]
		s = base(e, auto, sse)
		s.Steps = steps([]int{20}, []int{64})
		s.Ending = "stall"
		add(s)
		// stall right after the headers
		s = base(e, auto, sse)
		s.Ending = "stall"
		add(s)
		// stall before any header
		s = base(e, auto, sse)
		s.Pre = "stall"
		add(s)
		// pause above the timeout, then the backend carries on
		s = base(e, auto, sse)
		s.Steps = steps([]int{20, 400, 20}, []int{10, 100, 7})
		add(s)
		// pause above the timeout, then a clean EOF
		s = base(e, auto, js)
		s.Steps = steps([]int{20, 60}, []int{10, 100})
		s.EndGapMs = 400
		add(s)
		// upstream reset mid-body / right after the headers
		s = base(e, auto, js)
		s.Steps = steps([]int{20, 60}, []int{10, 100})
		s.Ending = "reset"
		add(s)
		s = base(e, auto, sse)
		s.Ending = "reset"
		add(s)
		// buffered: binary under auto, anything under a forced standard profile
		s = base(e, auto, bin)
		s.Steps = steps([]int{20, 20, 20}, []int{10, 100, 7})
		add(s)
		s = base(e, pm{"standard", true}, sse)
		s.Steps = steps([]int{20, 20, 20}, []int{10, 100, 7})
		add(s)
		// streaming profile really pushed into the engine: binary flows live
		s = base(e, pm{"streaming", true}, bin)
		s.Steps = steps([]int{20, 20, 20}, []int{10, 100, 7})
		add(s)
		// the configured profile through the production wiring only
		s = base(e, pm{"streaming", false}, bin)
		s.Steps = steps([]int{20, 20, 20}, []int{10, 100, 7})
		add(s)
		s = base(e, pm{"standard", false}, sse)
		s.Steps = steps([]int{20, 20, 20}, []int{10, 100, 7})
		add(s)
		// buffered + stall: the client has seen nothing when the backend stops
		s = base(e, pm{"standard", true}, js)
		s.Steps = steps([]int{20, 20}, []int{10, 100})
		s.Ending = "stall"
		add(s)
		// client aborts: after the headers, after the first chunk, in the middle of a long pause, before the headers
		s = base(e, auto, sse)
		s.Steps = steps([]int{60, 60, 60}, []int{10, 100, 100})
		s.AbortBytes = 0
		add(s)
		s = base(e, auto, sse)
		s.Steps = steps([]int{20, 60, 60, 60}, []int{10, 100, 100, 100})
		s.AbortBytes = 10
		add(s)
		s = base(e, auto, nd)
		s.Steps = steps([]int{20, 400, 20}, []int{10, 100, 100})
		s.AbortMs = 100
		add(s)
		s = base(e, auto, sse)
		s.HdrDelayMs = 300
		s.Steps = steps([]int{20}, []int{10})
		s.AbortMs = 80
		add(s)
		// big chunks (many reads per chunk), live and buffered; content-length framing
		s = base(e, auto, sse)
		s.Steps = steps([]int{20, 20}, []int{65536, 262144})
		add(s)
		s = base(e, auto, bin)
		s.Steps = steps([]int{20, 20}, []int{262144, 1})
		s.Framing = "cl"
		add(s)
		s = base(e, auto, js)
		s.Steps = steps([]int{20, 60}, []int{8192, 8193})
		s.Framing = "cl"
		add(s)
		// the Anthropic translation route (handler_translation.go: engine -> pipe -> stream translator -> client)
		s = base(e, auto, sse)
		s.Route = "anthropic"
		s.Steps = steps([]int{20, 60, 20}, []int{5, 40, 300})
		add(s)
		s = base(e, auto, sse)
		s.Route = "anthropic"
		s.Steps = steps([]int{20, 20}, []int{5, 40})
		s.Ending = "stall"
		add(s)
		s = base(e, auto, sse)
		s.Route = "anthropic"
		s.Steps = steps([]int{20, 60, 60, 60}, []int{5, 40, 40, 40})
		s.AbortMs = 130
		add(s)
		s = base(e, auto, sse)
		s.Route = "anthropic"
		s.Steps = steps([]int{20, 60}, []int{5, 40})
		s.Ending = "reset"
		add(s)
		// an encoded stream (Content-Encoding: gzip / br from a compressing front end) and a content type written the way
		// some servers write it: both are streams like any other
		for _, enc := range []string{"gzip", "br"} {
			s = base(e, auto, sse)
			s.Enc = enc
			s.Steps = steps([]int{20, 400, 400}, []int{40, 60, 64})
			add(s)
		}
		s = base(e, auto, "Text/Event-Stream; Charset=UTF-8")
		s.Steps = steps([]int{20, 400, 400}, []int{40, 60, 64})
		add(s)
		// proxy.stream_buffer_size below the default (the documentation's advice for a faster first token): events that fill
		// the buffer exactly, or a whole number of times, followed by a long pause
		for _, buf := range []int{1024, 2048, 4096} {
			for _, mult := range []int{1, 2} {
				s = base(e, auto, sse)
				s.StreamBufferSize = buf
				s.Steps = steps([]int{20, 400, 400}, []int{buf * mult, buf, 64})
				add(s)
			}
		}
	}
	return out
}

var sizes = []int{1, 2, 7, 64, 512, 2047, 2048, 4096, 8191, 8192, 8193, 20000, 65536, 131072, 262144}

func random(r *vlib.Rng) *timing.Scenario {
	e := vlib.Pick(r, engines)
	p := vlib.Pick(r, pms)
	if r.Chance(1, 2) {
		p = pms[0]
	}
	s := base(e, p, vlib.Pick(r, cts))
	n := 1 + r.Intn(5)
	long := -1
	shape := r.Intn(10)
	if shape == 3 || shape == 4 {
		long = r.Intn(n)
	}
	for i := 0; i < n; i++ {
		g := vlib.Pick(r, []int{20, 20, 60})
		if i == long {
			g = 400
		}
		sz := sizes[r.Intn(9)] // mostly small
		if r.Chance(1, 5) {
			sz = vlib.Pick(r, sizes)
		}
		s.Steps = append(s.Steps, timing.Step{GapMs: g, Size: sz})
	}
	s.EndGapMs = vlib.Pick(r, []int{20, 60})
	switch shape {
	case 0, 1, 2, 3: // eof
	case 4:
		s.Ending = "reset"
	case 5:
		s.Ending = "stall"
	case 6:
		s.Ending = "stall"
		if r.Chance(1, 3) {
			s.Steps = nil
		}
	case 7:
		s.EndGapMs = 400
	case 8: // abort after some bytes
		tot := 0
		for _, st := range s.Steps {
			tot += st.Size
		}
		s.AbortBytes = r.Intn(tot + 1)
	case 9:
		if r.Chance(1, 2) {
			s.Ending = "reset"
		} else {
			s.AbortMs = 30 + r.Intn(150)
		}
	}
	if r.Chance(1, 4) {
		s.Framing = "cl"
	}
	if r.Chance(1, 8) && s.AbortBytes < 0 {
		// same schedule through the Anthropic translation route
		s.Route, s.CT, s.Framing, s.Profile, s.Forced = "anthropic", "text/event-stream", "chunked", "auto", false
		for i := range s.Steps {
			if s.Steps[i].Size > 4096 {
				s.Steps[i].Size = 4096
			}
		}
	}
	return s
}

// ---------------------------------------------------------------- verdict oracle for the 3x rule

type verdict struct {
	Agree bool   `json:"agree"`
	Spec  bool   `json:"spec"`
	Sig   string `json:"sig"`
}

func modelBin() string {
	if v := os.Getenv("VERIF_MODEL_BIN"); v != "" {
		return v
	}
	p := vlib.OutDir() + "/olla_model"
	if _, err := os.Stat(p); err == nil {
		return p
	}
	return ""
}

// judge returns one verdict per (scenario, obs) pair, or nil when the Lean driver is not available.
func judge(scs []*timing.Scenario, obs []*timing.Obs) []verdict {
	cases := make([]map[string]any, len(scs))
	for i := range scs {
		cases[i] = map[string]any{"kind": "scenario", "scenario": scs[i], "impl": obs[i]}
	}
	return judgeCases(cases)
}

// judgeCases: one verdict per case (any kind the driver knows), or nil when the Lean driver is not available.
func judgeCases(cases []map[string]any) []verdict {
	bin := modelBin()
	if bin == "" {
		return nil
	}
	var in bytes.Buffer
	for i, m := range cases {
		m2 := map[string]any{"case": i}
		for k, v := range m {
			m2[k] = v
		}
		b, _ := json.Marshal(m2)
		in.Write(b)
		in.WriteByte('\n')
	}
	cmd := exec.Command(bin, "C18")
	cmd.Stdin = &in
	out, err := cmd.Output()
	if err != nil {
		fmt.Fprintln(os.Stderr, "c18: olla_model failed:", err)
		return nil
	}
	vs := make([]verdict, 0, len(cases))
	sc := bufio.NewScanner(bytes.NewReader(out))
	sc.Buffer(make([]byte, 1<<20), 1<<26)
	for sc.Scan() {
		var v verdict
		if json.Unmarshal(sc.Bytes(), &v) == nil {
			vs = append(vs, v)
		}
	}
	if len(vs) != len(cases) {
		return nil
	}
	return vs
}

func bad(v verdict) bool { return !v.Agree || !v.Spec }

// uptimeCase: the backend sends the first events of a stream, pauses, and sends the rest; during the pause `idleMin`
// minutes pass without a new request (simulated) and the olla engine's clean-up pass runs.  The client stays to the end:
// "a completed stream is delivered whole".
func uptimeCase(engine string, idleMin int) map[string]any {
	be := stack.NewBackend("U")
	defer be.Close()
	var body bytes.Buffer
	for i := 0; i < 40; i++ {
		fmt.Fprintf(&body, "data: event-%03d %s\n\n", i, strings.Repeat("u", 20))
	}
	be.SetBehaviour(stack.Behaviour{Kind: "pause", Status: 200, Headers: [][2]string{{"Content-Type", "text/event-stream"}}, Body: body.Bytes(), Chunked: true, K: 3 * 38, StallMs: 500, ChunkSz: 38})
	s, err := stack.Start(stack.Opts{Vary: stack.VaryFor("c18.uptime", engine, idleMin), Engine: engine, Balancer: "priority", EPs: []stack.EP{{Name: "U", Type: "openai", Priority: 1, Backend: be}}})
	if err != nil {
		return map[string]any{"start_err": err.Error()}
	}
	defer s.Stop()
	req := stack.Request("POST", "/olla/proxy/v1/chat/completions", s.Addr, [][2]string{{"Content-Type", "application/json"}}, []byte(`{"stream":true}`), false)
	done := make(chan *stack.Resp, 1)
	go func() { done <- stack.Do(s.Addr, req, 8*time.Second) }()
	time.Sleep(200 * time.Millisecond) // the first events are out, the backend pauses
	ran := false
	if os, ok := s.Proxy.(*olla.Service); ok {
		olla.VerifCleanupPassAfter(os, time.Duration(idleMin)*time.Minute)
		ran = true
	}
	rp := <-done
	return map[string]any{"pass_ran": ran, "status": rp.Status, "err": rp.Err, "got": len(rp.Body), "want": body.Len(), "whole": bytes.Equal(rp.Body, body.Bytes())}
}

func main() {
	tier := vlib.Tier()
	r := vlib.NewRng(vlib.Seed())
	c := vlib.OpenCases("cases.jsonl")
	t0 := time.Now()
	var scs []*timing.Scenario
	if rp := vlib.ReplayPath(); rp != "" {
		var rep struct {
			FailingCase struct {
				Scenario *timing.Scenario `json:"scenario"`
			} `json:"failing_case"`
		}
		b, _ := os.ReadFile(rp)
		json.Unmarshal(b, &rep)
		if rep.FailingCase.Scenario == nil {
			fmt.Fprintln(os.Stderr, "c18: replay file has no failing_case.scenario")
			os.Exit(2)
		}
		scs = append(scs, rep.FailingCase.Scenario)
	} else {
		scs = corpus()
		n, batch := 92, 36
		if tier == "thorough" {
			n = 600
		}
		_ = batch
		for len(scs) < n {
			scs = append(scs, random(r))
		}
		// round 8: scenarios on and next to the limits of every numeric dimension (boundary.go)
		scs = append(scs, boundaryScenarios(r.Fork(), tier, c)...)
		// a third of the deployments run with proxy.response_timeout disabled (0), the setting recommended for long
		// generations: the read timeout must cut off a stalled backend there too
		for i := range scs {
			if i%3 == 1 {
				scs[i].NoResponseTimeout = true
			}
			if i%4 == 2 && scs[i].StreamBufferSize == 0 { // and a quarter with a stream buffer other than the default 8 KiB
				scs[i].StreamBufferSize = []int{1024, 16384, 65536}[(i/4)%3]
			}
		}
	}
	batch := 36
	if tier == "thorough" {
		batch = 40
	}
	obs := make([]*timing.Obs, len(scs))
	var leaks []timing.Leak
	for lo := 0; lo < len(scs); lo += batch {
		hi := lo + batch
		if hi > len(scs) {
			hi = len(scs)
		}
		o, lk := timing.RunBatch(scs[lo:hi])
		copy(obs[lo:hi], o)
		leaks = append(leaks, lk)
	}
	// 3x rule
	repro := make([]int, len(scs))
	flaky := 0
	if vs := judge(scs, obs); vs != nil {
		var idx []int
		for i, v := range vs {
			if bad(v) {
				idx = append(idx, i)
				repro[i] = 1
			}
		}
		for round := 0; round < 2 && len(idx) > 0; round++ {
			sub := make([]*timing.Scenario, len(idx))
			for k, i := range idx {
				sub[k] = scs[i]
			}
			var o2 []*timing.Obs
			for lo := 0; lo < len(sub); lo += batch {
				hi := lo + batch
				if hi > len(sub) {
					hi = len(sub)
				}
				o, lk := timing.RunBatch(sub[lo:hi])
				o2 = append(o2, o...)
				leaks = append(leaks, lk)
			}
			v2 := judge(sub, o2)
			if v2 == nil {
				break
			}
			var still []int
			for k, i := range idx {
				if bad(v2[k]) {
					repro[i]++
					still = append(still, i)
				} else {
					// not reproduced: the clean observation replaces the bad one, the flake is counted
					obs[i] = o2[k]
					repro[i] = 0
					flaky++
					c.Count("timing-flake-not-reproduced")
				}
			}
			idx = still
		}
	} else {
		c.Count("no-oracle-available-for-reruns")
	}
	for i, sc := range scs {
		mode := "wired"
		if sc.Forced {
			mode = "forced"
		}
		c.Count("engine." + sc.Engine)
		c.Count("route." + sc.Route)
		c.Count("profile." + sc.Profile + "." + mode)
		c.Count("ct." + sc.CT)
		c.Count("ending." + sc.Ending)
		if sc.Pre != "" {
			c.Count("pre." + sc.Pre)
		}
		if sc.AbortBytes >= 0 || sc.AbortMs > 0 {
			c.Count("client-abort")
		}
		mx := 0
		for _, st := range sc.Steps {
			if st.Size > mx {
				mx = st.Size
			}
			if st.GapMs >= 400 {
				c.Count("long-pause")
			}
		}
		switch {
		case mx >= 65536:
			c.Count("maxchunk.>=64KiB")
		case mx >= 8192:
			c.Count("maxchunk.>=8KiB")
		case mx > 0:
			c.Count("maxchunk.<8KiB")
		}
		m := map[string]any{"kind": "scenario", "scenario": sc, "impl": obs[i]}
		if repro[i] > 0 {
			m["reproduced"] = repro[i]
		}
		c.Emit(m)
	}
	for _, lk := range leaks {
		c.Emit(map[string]any{"kind": "leak", "impl": lk})
	}
	// histories: long-lived rigs taken through phases of different scenarios (history.go)
	if vlib.ReplayPath() == "" {
		flaky += histories(r.Fork(), c)
	}
	// long uptime: a stream is in flight when the engine's periodic clean-up pass runs, minutes after the last request
	// started on that endpoint (simulated: the pools' last-used stamps move into the past, then the pass runs once)
	for _, engine := range engines {
		for _, idle := range []int{6, 61} {
			c.Emit(map[string]any{"kind": "uptime", "engine": engine, "idle_min": idle, "impl": uptimeCase(engine, idle)})
			c.Count("uptime." + engine)
		}
	}
	// long-lived engine instances: client aborts mid-flow, then complete streams on the same instance
	rounds := 40
	if vlib.Tier() == "thorough" {
		rounds = 400
	}
	for _, engine := range engines {
		c.Emit(map[string]any{"kind": "soak", "engine": engine, "impl": soak1(engine, rounds, 4, 8)})
		c.Count("soak." + engine)
	}
	c.Close(map[string]any{"exhaustive": false, "flaky_not_reproduced": flaky, "harness_wall_s": time.Since(t0).Seconds(),
		"note": "corpus of hard-coded corner cases and witnesses for both engines first, then random scenarios; leak clause measured per batch"})
}
