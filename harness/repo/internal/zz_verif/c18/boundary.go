//go:build verif

// Round 8: boundary-biased scenarios.  The numeric dimensions of a C18 scenario are the configured
// proxy.stream_buffer_size, the sizes of the backend's writes (and so of the engines' upstream reads), the number of
// chunks, and the configured read timeout with the pauses measured against it.  The generators of main.go draw small,
// round, typical values for all of them (buffer 1 KiB / 8 KiB / 16 KiB / 64 KiB, chunks mostly below 8 KiB, 1-5 chunks,
// read timeout 150 ms); the scenarios here sit ON the limits and next to them:
//
//   - bufferSweep: every stream_buffer_size of a list of limits and their neighbours (1 B .. 256 KiB quick, .. 16 MiB
//     thorough; incl. the coded constants 8192 = sherpa's ring capacity / default buffer and 65536 = olla's default, and the
//     documented 16384 / 65536) x both engines, with backend writes of B-1, B, B+1, 2B-1, 2B, 2B+1, B+8192(+1), 10B, the
//     same around 4096 / 8192 / 16384 / 65536 whatever B is, and pairs of writes that together fill 8192 to within one byte;
//   - chunkCounts: 31..128 chunks in one stream (counts at and around powers of two, 50, 100);
//   - timeoutUnits: read timeouts that are not a round number of the default unit (999 / 1000 / 1001 / 1500 ms ..) with a
//     pause just below the timeout (must not be cut), and a stall (must be cut within the timeout plus slack).
//
// Every scenario is an ordinary timing.Scenario: it runs on a fresh production stack against the gated backend and is
// judged by Olla.Driver.C18.judgeScenario — the property's own clauses (live / whole / stall / abort / not-cut) and the
// comparison with the model — exactly like the corpus and the random scenarios, 3x rule included.
package main

import (
	"fmt"
	"sort"

	"github.com/thushan/olla/internal/zz_verif/timing"
	"github.com/thushan/olla/internal/zz_verif/vlib"
)

const maxChunk = 262144 // the property quantifies over chunk sizes 1 B .. 256 KiB

// the stream_buffer_size limits: powers of two and the coded / documented constants, each with its neighbours
func bufferBounds(tier string) []int {
	out := []int{1, 64, 512, 1023, 1024, 2048, 4095, 4096, 4097, 8191, 8192, 8193, 10000, 12288, 16383, 16384, 16385,
		32768, 65535, 65536, 65537, 100000, 131072, 262144}
	if tier == "thorough" {
		out = append(out, 2, 255, 256, 1025, 32767, 32769, 81920, 131071, 131073, 262143, 262145, 524288, 1<<20 - 1, 1 << 20, 1<<20 + 1, 4 << 20, 16 << 20)
	}
	return out
}

// writeSizes: the backend write sizes worth trying against a stream buffer of b bytes
func writeSizes(b int) []int {
	c := []int{b - 1, b, b + 1, 2*b - 1, 2 * b, 2*b + 1, 3 * b, b / 2, b + 8192, b + 8193, b + 4096, 10 * b, 100 * b}
	if b >= 1024 {
		// the coded constants whatever the configured buffer is: net/http's 4 KiB reader, the 8 KiB ring / default
		// buffer, the documented 16 KiB, olla's 64 KiB default
		for _, k := range []int{4096, 8192, 16384, 65536} {
			c = append(c, k-1, k, k+1)
		}
		c = append(c, 20000, maxChunk-1, maxChunk)
	} else {
		c = append(c, 1, 100, 1000, 64*b)
	}
	lim := maxChunk
	if b < 64 {
		lim = 8192 // a 1-byte buffer relays byte by byte: keep those streams short
	}
	seen := map[int]bool{}
	var out []int
	for _, v := range c {
		if v >= 1 && v <= lim && !seen[v] {
			seen[v] = true
			out = append(out, v)
		}
	}
	sort.Ints(out)
	return out
}

func bufferScenario(r *vlib.Rng, e string, b int) *timing.Scenario {
	p := pms[0]
	if r.Chance(1, 4) {
		p = vlib.Pick(r, pms)
	}
	s := base(e, p, vlib.Pick(r, cts))
	s.StreamBufferSize = b
	ws := writeSizes(b)
	// above: sizes strictly above the buffer / above the 8 KiB ring (one read can then be larger than either)
	var above []int
	for _, w := range ws {
		if w > b || w > 8192 {
			above = append(above, w)
		}
	}
	n := 2 + r.Intn(3)
	switch r.Intn(4) {
	case 0: // two writes that together fill the 8 KiB ring (or the buffer) to within one byte, then boundary sizes
		lim := 8192
		if b < lim && b > 2 {
			lim = b
		}
		x := 1 + r.Intn(lim-1)
		s.Steps = append(s.Steps, timing.Step{GapMs: 20, Size: x}, timing.Step{GapMs: 20, Size: max1(lim - x + r.Intn(3) - 1)})
		n--
	case 1: // a write that fills the buffer a whole number of times, then a pause above the read timeout (nothing may be
		// held back: the chunk is acknowledged before the pause), then the rest
		m := 1 + r.Intn(3)
		if b*m <= maxChunk && (b >= 64 || b*m <= 8192) {
			s.Steps = append(s.Steps, timing.Step{GapMs: 20, Size: b * m}, timing.Step{GapMs: 400, Size: vlib.Pick(r, ws)})
			n--
		}
	}
	for i := 0; i < n; i++ {
		w := vlib.Pick(r, ws)
		if len(above) > 0 && r.Chance(1, 2) {
			w = vlib.Pick(r, above)
		}
		s.Steps = append(s.Steps, timing.Step{GapMs: vlib.Pick(r, []int{20, 20, 60}), Size: w})
	}
	if r.Chance(1, 2) {
		s.Framing = "cl" // the body reads are then not cut at chunk-framing boundaries
	}
	s.EndGapMs = vlib.Pick(r, []int{20, 60})
	switch r.Intn(8) {
	case 0:
		s.Ending = "stall"
	case 1:
		s.Ending = "reset"
	case 2:
		tot := 0
		for _, st := range s.Steps {
			tot += st.Size
		}
		s.AbortBytes = 1 + r.Intn(tot)
	}
	return s
}

func max1(v int) int {
	if v < 1 {
		return 1
	}
	return v
}

// chunkCounts: many small chunks in one live stream
func countScenario(r *vlib.Rng, e string, n int) *timing.Scenario {
	s := base(e, pms[0], vlib.Pick(r, cts[:2])) // SSE / NDJSON: live under auto, so every chunk is acknowledged at once
	for i := 0; i < n; i++ {
		s.Steps = append(s.Steps, timing.Step{GapMs: vlib.Pick(r, []int{0, 0, 1, 2, 5}), Size: vlib.Pick(r, []int{1, 2, 3, 17, 63, 64, 65, 255, 256, 257})})
	}
	s.EndGapMs = vlib.Pick(r, []int{0, 20})
	if r.Chance(1, 4) {
		s.StreamBufferSize = vlib.Pick(r, []int{64, 256, 16384, 65536})
	}
	return s
}

// timeoutUnits: a read timeout that is not the rigs' 150 ms, with a pause just below it (the backend merely pauses: not
// cut, delivered whole) or a stall (cut within the timeout plus slack)
func timeoutScenario(r *vlib.Rng, e string, T int) *timing.Scenario {
	s := base(e, pms[0], vlib.Pick(r, cts[:3]))
	s.TimeoutMs = T
	s.HoldMs = T + 1200
	near := T - 90 - r.Intn(30) // recorded pauses within 40 ms below the timeout are not judged
	if near < 20 {
		near = 20
	}
	switch r.Intn(3) {
	case 0: // pause just below the timeout in the middle
		s.Steps = steps([]int{20, near, 20}, []int{vlib.Pick(r, sizes[:9]), vlib.Pick(r, sizes[:9]), 7})
	case 1: // pause just below the timeout before the end
		s.Steps = steps([]int{20, 20}, []int{vlib.Pick(r, sizes[:9]), 33})
		s.EndGapMs = near
	default: // stall after a chunk
		s.Steps = steps([]int{20, 60}, []int{vlib.Pick(r, sizes[:9]), 9})
		s.Ending = "stall"
	}
	return s
}

// boundaryScenarios: the round-8 additions, drawn from the check's seeded PRNG
func boundaryScenarios(r *vlib.Rng, tier string, c *vlib.Cases) []*timing.Scenario {
	var out []*timing.Scenario
	bounds := bufferBounds(tier)
	per := 1
	if tier == "thorough" {
		per = 3
	}
	for _, e := range engines {
		for _, b := range bounds {
			for k := 0; k < per; k++ {
				out = append(out, bufferScenario(r, e, b))
				c.Count(fmt.Sprintf("boundary.buffer.%s", bufClass(b)))
			}
		}
		counts := []int{31, 32, 33, 50, 64, 65, 100, 128}
		nc := 2
		ts := []int{999, 1000, 1001, 1500, 250, 2000, 2500}
		nt := 3
		if tier == "thorough" {
			nc, nt = len(counts), len(ts)
		}
		for k := 0; k < nc; k++ {
			n := counts[(k*3+r.Intn(3))%len(counts)]
			if tier == "thorough" {
				n = counts[k]
			}
			out = append(out, countScenario(r, e, n))
			c.Count("boundary.chunk-count")
		}
		for k := 0; k < nt; k++ {
			T := ts[k]
			if tier != "thorough" && k == 2 {
				T = vlib.Pick(r, ts[2:5])
			}
			out = append(out, timeoutScenario(r, e, T))
			c.Count("boundary.read-timeout")
		}
	}
	return out
}

func bufClass(b int) string {
	switch {
	case b < 1024:
		return "<1KiB"
	case b < 8192:
		return "1KiB..8KiB-1"
	case b == 8192:
		return "=8KiB(default)"
	case b <= 65536:
		return "8KiB+1..64KiB"
	default:
		return ">64KiB"
	}
}
