//go:build verif

// Histories (round 7): ONE long-lived rig per history — one production stack, one engine instance, the process-wide pools
// it uses — is taken through phases of DIFFERENT scenarios that follow and overlap each other: bursts of short complete
// answers, fast token streams, and right behind them (and in the middle of them) backends that go silent after the
// headers / after the first chunk / between chunks, streams that merely pause, streams that must stay live, clients that
// go away, upstream resets; between the phases idle spans, health flaps and the engine's clean-up pass.  The read timeout
// is 1–2 s (not the 150 ms of the per-scenario rigs), so that anything the engines scale by the timeout has room.
//
// Every request is a timing.Scenario with its own T0 and is judged by the Lean driver with the SAME predicate as a
// scenario on a fresh rig (liveness, wholeness, stall bound, not-cut, cancellation; model run on the recorded schedule);
// the history's verdict is the conjunction.  Which scenario follows which, after which request, how many ms later, of
// which shape: all from the check's PRNG.
package main

import (
	"fmt"
	"sync"
	"time"

	"github.com/thushan/olla/internal/adapter/proxy/olla"
	"github.com/thushan/olla/internal/core/domain"
	"github.com/thushan/olla/internal/zz_verif/timing"
	"github.com/thushan/olla/internal/zz_verif/vlib"
)

type hReq struct {
	Role     string           `json:"role"`
	After    int              `json:"after"`    // -1: the start of the phase; k: the moment request k of this phase was over
	DelayMs  int              `json:"delay_ms"` // launched this long after that
	Scenario *timing.Scenario `json:"scenario"`
	StartUs  int64            `json:"start_us"` // observed: launch time since the history began
	Impl     *timing.Obs      `json:"impl"`
}

type hPhase struct {
	Pattern   string  `json:"pattern"`
	Between   string  `json:"between"` // what happened on the rig before this phase: none | idle | flap | cleanup-6 | cleanup-61
	BetweenMs int     `json:"between_ms"`
	MidOp     string  `json:"mid_op,omitempty"` // while the phase's requests are in flight: cleanup-6 | cleanup-61 | flap
	MidAtMs   int     `json:"mid_at_ms,omitempty"`
	Reqs      []*hReq `json:"reqs"`
}

type hist struct {
	Name              string    `json:"name"`
	GenSeed           uint64    `json:"gen_seed"`
	Engine            string    `json:"engine"`
	Profile           string    `json:"profile"`
	Forced            bool      `json:"forced"`
	TimeoutMs         int       `json:"timeout_ms"`
	StreamBufferSize  int       `json:"stream_buffer_size,omitempty"`
	NoResponseTimeout bool      `json:"no_response_timeout,omitempty"`
	Phases            []*hPhase `json:"phases"`
	StartErr          string    `json:"start_err,omitempty"`
	WallMs            int64     `json:"wall_ms"`
}

const hAckMs = 100

var hSmall = []int{1, 2, 7, 11, 40, 64, 200, 512}

func (h *hist) base(ct string) *timing.Scenario {
	return &timing.Scenario{Engine: h.Engine, Profile: h.Profile, Forced: h.Forced, CT: ct, Framing: "chunked", AbortBytes: -1,
		TimeoutMs: h.TimeoutMs, AckMs: hAckMs, HoldMs: h.TimeoutMs + 1200, Route: "proxy", Ending: "eof", EndGapMs: 5,
		NoResponseTimeout: h.NoResponseTimeout, StreamBufferSize: h.StreamBufferSize}
}

func hSteps(r *vlib.Rng, n int, gaps []int, sz []int) []timing.Step {
	out := make([]timing.Step, n)
	for i := range out {
		out[i] = timing.Step{GapMs: vlib.Pick(r, gaps), Size: vlib.Pick(r, sz)}
	}
	return out
}

// scenario of one role on this history's rig
func (h *hist) scenario(r *vlib.Rng, role string) *timing.Scenario {
	T := h.TimeoutMs
	stream := vlib.Pick(r, []string{cts[0], cts[0], cts[1]})
	anyCT := vlib.Pick(r, cts)
	var s *timing.Scenario
	switch role {
	case "short-json": // a small complete answer
		s = h.base(cts[2])
		s.Framing = "cl"
		s.Steps = hSteps(r, 1, []int{0, 0, 1}, hSmall)
		s.EndGapMs = 0
	case "short-sse": // a stream of one to three events, over at once
		s = h.base(stream)
		s.Steps = hSteps(r, 1+r.Intn(3), []int{0, 1, 5}, hSmall)
		s.EndGapMs = vlib.Pick(r, []int{0, 5})
	case "tokens": // a fast token stream
		s = h.base(stream)
		s.Steps = hSteps(r, 8+r.Intn(24), []int{0, 1, 2, 3}, []int{1, 2, 7, 11, 40})
		s.EndGapMs = vlib.Pick(r, []int{0, 2})
	case "stall-hdr": // headers, then silence
		s = h.base(anyCT)
		s.Ending = "stall"
	case "stall-first": // headers, one chunk, then silence
		s = h.base(anyCT)
		s.Steps = hSteps(r, 1, []int{0, 5, 20}, hSmall)
		s.Ending = "stall"
	case "stall-mid": // silence between chunks
		s = h.base(anyCT)
		s.Steps = hSteps(r, 2+r.Intn(3), []int{0, 5, 20, 60}, hSmall)
		s.Ending = "stall"
	case "stall-end": // everything sent, the end never comes in time
		s = h.base(anyCT)
		s.Steps = hSteps(r, 1+r.Intn(3), []int{5, 20}, hSmall)
		s.EndGapMs = T + 300
	case "long-pause": // a pause above the timeout, then the backend carries on
		s = h.base(stream)
		s.Steps = hSteps(r, 2+r.Intn(3), []int{5, 20, 60}, hSmall)
		s.Steps[1+r.Intn(len(s.Steps)-1)].GapMs = T + 300
	case "live": // must stay live, chunk by chunk
		s = h.base(stream)
		s.Steps = hSteps(r, 3+r.Intn(4), []int{20, 20, 60}, sizes[:9])
		if r.Chance(1, 6) {
			s.Steps[r.Intn(len(s.Steps))].Size = vlib.Pick(r, sizes)
		}
		s.EndGapMs = vlib.Pick(r, []int{20, 60})
	case "pause-live": // merely pauses (well below the timeout): not to be cut, delivered whole
		s = h.base(anyCT)
		s.Steps = hSteps(r, 2+r.Intn(3), []int{5, 20, 60}, hSmall)
		s.Steps[r.Intn(len(s.Steps))].GapMs = T/3 + r.Intn(T-300-T/3)
		if r.Chance(1, 3) {
			s.EndGapMs = T/3 + r.Intn(T-300-T/3)
		}
	case "abort": // the client goes away
		s = h.base(stream)
		s.Steps = hSteps(r, 3+r.Intn(3), []int{20, 60, 60}, hSmall)
		if r.Chance(1, 2) {
			tot := 0
			for _, st := range s.Steps {
				tot += st.Size
			}
			s.AbortBytes = r.Intn(tot + 1)
		} else {
			s.AbortMs = 30 + r.Intn(250)
		}
		if r.Chance(1, 3) {
			s.Ending = "stall"
		}
	case "reset": // the backend breaks the connection mid-body
		s = h.base(anyCT)
		s.Steps = hSteps(r, 1+r.Intn(2), []int{20, 60}, hSmall)
		s.Ending = "reset"
		s.EndGapMs = 20
	case "anth-live", "anth-stall": // through the Anthropic translation route
		s = h.base(cts[0])
		s.Route = "anthropic"
		s.Steps = hSteps(r, 2+r.Intn(3), []int{20, 60}, []int{5, 40, 300})
		s.EndGapMs = 20
		if role == "anth-stall" {
			s.Ending = "stall"
		}
	default:
		panic("c18 history: role " + role)
	}
	if r.Chance(1, 5) && s.Route == "proxy" && role != "short-json" {
		s.Framing = "cl"
	}
	return s
}

type wrole struct {
	role string
	w    int
}

func pickRole(r *vlib.Rng, ws []wrole) string {
	tot := 0
	for _, w := range ws {
		tot += w.w
	}
	k := r.Intn(tot)
	for _, w := range ws {
		if k < w.w {
			return w.role
		}
		k -= w.w
	}
	return ws[0].role
}

var (
	probeRoles = []wrole{{"stall-hdr", 5}, {"stall-first", 3}, {"stall-mid", 2}, {"stall-end", 1}, {"live", 2}, {"pause-live", 2}, {"long-pause", 1}, {"abort", 1}, {"anth-stall", 1}}
	mixedRoles = []wrole{{"short-json", 3}, {"short-sse", 3}, {"tokens", 1}, {"stall-hdr", 2}, {"stall-first", 1}, {"stall-mid", 1}, {"stall-end", 1}, {"live", 3}, {"pause-live", 2},
		{"long-pause", 1}, {"abort", 2}, {"reset", 1}, {"anth-live", 1}, {"anth-stall", 1}}
	afterCutRoles = []wrole{{"live", 4}, {"pause-live", 2}, {"short-json", 2}, {"short-sse", 2}, {"tokens", 1}, {"stall-hdr", 2}, {"stall-first", 1}, {"abort", 1}, {"anth-live", 1}}
	stallRoles    = []wrole{{"stall-hdr", 3}, {"stall-first", 2}, {"stall-mid", 2}, {"stall-end", 1}, {"long-pause", 1}}
	shortRoles    = []wrole{{"short-json", 3}, {"short-sse", 2}}
)

func (h *hist) phase(r *vlib.Rng, pattern string) *hPhase {
	T := h.TimeoutMs
	p := &hPhase{Pattern: pattern, Between: "none"}
	add := func(role string, after, delay int) int {
		p.Reqs = append(p.Reqs, &hReq{Role: role, After: after, DelayMs: delay, Scenario: h.scenario(r, role)})
		return len(p.Reqs) - 1
	}
	delays := []int{0, 0, 0, 1, 3, 10, T / 64, T / 40, T / 20}
	switch pattern {
	case "burst-probe":
		// w clients, each sending m short requests back to back; right behind (and into) the burst: the probes
		w, m := 3+r.Intn(8), 1+r.Intn(4)
		for i := 0; i < w*m; i++ {
			after, d := -1, r.Intn(3)
			if i >= w {
				after, d = i-w, 0
			}
			add(pickRole(r, shortRoles), after, d)
		}
		burst := len(p.Reqs)
		for k, n := 0, 3+r.Intn(6); k < n; k++ {
			after := burst - 1 - r.Intn(w) // the tail of one client's run
			if r.Chance(1, 4) {
				after = r.Intn(burst) // into the burst
			}
			add(pickRole(r, probeRoles), after, vlib.Pick(r, delays))
		}
	case "tokens-probe":
		// fast token streams; as each one ends, probes
		n := 2 + r.Intn(4)
		for i := 0; i < n; i++ {
			add("tokens", -1, r.Intn(20))
		}
		for k, m := 0, 3+r.Intn(5); k < m; k++ {
			add(pickRole(r, probeRoles), r.Intn(n), vlib.Pick(r, delays))
		}
	case "after-cut":
		// backends that stall; the moment one of them has been cut off: streams that must stay live, short answers, more stalls
		n := 2 + r.Intn(3)
		for i := 0; i < n; i++ {
			add(pickRole(r, stallRoles), -1, r.Intn(40))
		}
		for k, m := 0, 4+r.Intn(6); k < m; k++ {
			add(pickRole(r, afterCutRoles), r.Intn(n), vlib.Pick(r, delays))
		}
	case "mixed":
		for k, n := 0, 6+r.Intn(10); k < n; k++ {
			add(pickRole(r, mixedRoles), -1, r.Intn(300))
		}
	case "chain":
		// one thing after the other on an otherwise idle rig: A, B, A, …
		prev := -1
		for k, n := 0, 5+r.Intn(6); k < n; k++ {
			role := pickRole(r, shortRoles)
			if k%2 == 1 {
				role = pickRole(r, probeRoles)
			}
			prev = add(role, prev, vlib.Pick(r, delays))
		}
	default:
		panic("c18 history: pattern " + pattern)
	}
	return p
}

var hPatterns = []string{"burst-probe", "burst-probe", "tokens-probe", "after-cut", "mixed", "chain"}

// genHistory: the whole history from one number.
func genHistory(genSeed uint64, name, engine string, p pm, timeoutMs, phases int) *hist {
	r := vlib.NewRng(genSeed)
	h := &hist{Name: name, GenSeed: genSeed, Engine: engine, Profile: p.profile, Forced: p.forced, TimeoutMs: timeoutMs}
	if r.Chance(1, 3) {
		h.NoResponseTimeout = true
	}
	if r.Chance(1, 4) {
		h.StreamBufferSize = vlib.Pick(r, []int{1024, 16384, 65536})
	}
	// every pattern at least once (while there is room), in an order of the PRNG's choosing; then whatever it picks
	order := append([]string(nil), hPatterns...)
	for i := len(order) - 1; i > 0; i-- {
		j := r.Intn(i + 1)
		order[i], order[j] = order[j], order[i]
	}
	for i := 0; i < phases; i++ {
		pat := vlib.Pick(r, hPatterns)
		if i < len(order) {
			pat = order[i]
		}
		ph := h.phase(r, pat)
		if i > 0 {
			switch r.Intn(8) {
			case 0, 1, 2: // straight on
			case 3:
				ph.Between, ph.BetweenMs = "idle", 20+r.Intn(timeoutMs/8)
			case 4:
				ph.Between, ph.BetweenMs = "idle", timeoutMs/8+r.Intn(timeoutMs/2)
			case 5:
				ph.Between, ph.BetweenMs = "flap", r.Intn(30)
			case 6:
				ph.Between = "cleanup-6"
			case 7:
				ph.Between = "cleanup-61"
			}
		}
		if r.Chance(1, 4) {
			ph.MidOp, ph.MidAtMs = vlib.Pick(r, []string{"cleanup-6", "cleanup-61"}), 50+r.Intn(timeoutMs)
		}
		h.Phases = append(h.Phases, ph)
	}
	return h
}

func (h *hist) requests() int {
	n := 0
	for _, p := range h.Phases {
		n += len(p.Reqs)
	}
	return n
}

func rigOp(rig *timing.Rig, op string, ms int) {
	switch op {
	case "idle":
		time.Sleep(time.Duration(ms) * time.Millisecond) // part of the script, not a wait for something to settle
	case "flap": // a health check round that failed, and the next one that passed
		rig.S.SetStatus("T", domain.StatusUnhealthy)
		time.Sleep(time.Duration(ms) * time.Millisecond)
		rig.S.SetStatus("T", domain.StatusHealthy)
	case "cleanup-6", "cleanup-61": // the olla engine's periodic clean-up pass, minutes (simulated) after the last request started
		if os, ok := rig.S.Proxy.(*olla.Service); ok {
			min := 6
			if op == "cleanup-61" {
				min = 61
			}
			olla.VerifCleanupPassAfter(os, time.Duration(min)*time.Minute)
		}
	}
}

// play runs the history on the rig and fills in the observations.
func (h *hist) play(rig *timing.Rig) {
	t0 := time.Now()
	for pi, p := range h.Phases {
		vlib.Breadcrumb(map[string]any{"c18": "history", "name": h.Name, "gen_seed": h.GenSeed, "phase": pi, "pattern": p.Pattern})
		rigOp(rig, p.Between, p.BetweenMs)
		// what the next health check would do after an upstream reset took the endpoint out (as Rig.Play does after every scenario)
		rig.S.SetStatus("T", domain.StatusHealthy)
		done := make([]chan struct{}, len(p.Reqs))
		for i := range done {
			done[i] = make(chan struct{})
		}
		var wg sync.WaitGroup
		start := time.Now()
		for i, q := range p.Reqs {
			wg.Add(1)
			go func(i int, q *hReq) {
				defer wg.Done()
				defer close(done[i])
				if q.After >= 0 {
					<-done[q.After]
				}
				if q.DelayMs > 0 {
					time.Sleep(time.Duration(q.DelayMs) * time.Millisecond)
				}
				q.StartUs = time.Since(t0).Microseconds()
				q.Impl = rig.PlayScript(fmt.Sprintf("%s-p%d-r%d", h.Name, pi, i), q.Scenario)
			}(i, q)
		}
		if p.MidOp != "" {
			wg.Add(1)
			go func() {
				defer wg.Done()
				time.Sleep(time.Until(start.Add(time.Duration(p.MidAtMs) * time.Millisecond)))
				rigOp(rig, p.MidOp, 0)
			}()
		}
		wg.Wait()
	}
	h.WallMs = time.Since(t0).Milliseconds()
}

// runHistories: one long-lived rig per history, the histories side by side (they share the process, as deployments of both
// engines' code share package-level pools), one leak measurement around all of them.
func runHistories(hs []*hist) timing.Leak {
	rigs := make([]*timing.Rig, len(hs))
	var wg sync.WaitGroup
	for i, h := range hs {
		wg.Add(1)
		go func(i int, h *hist) {
			defer wg.Done()
			r, err := timing.StartRigBuf(h.Engine, h.Profile, h.Forced, h.TimeoutMs, h.StreamBufferSize, h.NoResponseTimeout)
			if err != nil {
				h.StartErr = err.Error()
				return
			}
			rigs[i] = r
		}(i, h)
	}
	wg.Wait()
	conns := func() int64 {
		var c int64
		for _, r := range rigs {
			if r != nil {
				c += r.B.OpenConns()
			}
		}
		return c
	}
	lk := timing.Leak{}
	lk.GoBase = timing.Goroutines(2 * time.Second)
	lk.ConnsBase = conns()
	for i, h := range hs {
		if rigs[i] == nil {
			continue
		}
		lk.Scenarios += h.requests()
		wg.Add(1)
		go func(i int, h *hist) {
			defer wg.Done()
			h.play(rigs[i])
		}(i, h)
	}
	wg.Wait()
	lk.GoAfter, lk.ConnsAfter, lk.SettleMs = timing.SettleLeak(lk.GoBase, lk.ConnsBase, conns, 10*time.Second)
	for _, r := range rigs {
		if r != nil {
			wg.Add(1)
			go func(r *timing.Rig) { defer wg.Done(); r.Stop() }(r)
		}
	}
	wg.Wait()
	return lk
}

func (h *hist) caseJSON() map[string]any {
	return map[string]any{"kind": "history", "engine": h.Engine, "timeout_ms": h.TimeoutMs, "history": h, "impl": map[string]any{"start_err": h.StartErr}}
}

// histories: generate, run, and re-run what the Lean driver judges bad (the verdicts depend on wall-clock time: a history is
// reported only when it is bad three times out of three, as for the scenarios on fresh rigs).
func histories(r *vlib.Rng, c *vlib.Cases) (flaky int) {
	phases, perEngine := 7, 1
	timeouts := []int{1000, 1200, 1500, 2000}
	if vlib.Tier() == "thorough" {
		phases, perEngine = 14, 4
	}
	var hs []*hist
	for k := 0; k < perEngine; k++ {
		for _, e := range engines {
			p := pms[0]
			if k > 0 {
				p = vlib.Pick(r, []pm{{"auto", false}, {"streaming", true}, {"standard", true}})
			}
			hs = append(hs, genHistory(r.U64(), fmt.Sprintf("h%d%s", k, e[:1]), e, p, vlib.Pick(r, timeouts), phases))
		}
	}
	emitLeak := func(lk timing.Leak) { c.Emit(map[string]any{"kind": "leak", "impl": lk}) }
	// two histories (one per engine) side by side at a time
	for lo := 0; lo < len(hs); lo += 2 {
		hi := lo + 2
		if hi > len(hs) {
			hi = len(hs)
		}
		emitLeak(runHistories(hs[lo:hi]))
	}
	judgeH := func(h *hist) (verdict, bool) {
		vs := judgeCases([]map[string]any{h.caseJSON()})
		if vs == nil {
			return verdict{}, false
		}
		return vs[0], true
	}
	for _, h := range hs {
		repro := 0
		if v, ok := judgeH(h); ok && bad(v) {
			repro = 1
			for round := 0; round < 2; round++ {
				h2 := genHistory(h.GenSeed, h.Name, h.Engine, pm{h.Profile, h.Forced}, h.TimeoutMs, len(h.Phases))
				emitLeak(runHistories([]*hist{h2}))
				v2, ok := judgeH(h2)
				if !ok {
					break
				}
				if bad(v2) {
					repro++
					continue
				}
				// not reproduced: the clean observation replaces the bad one, the flake is counted
				h, repro = h2, 0
				flaky++
				c.Count("history-timing-flake-not-reproduced")
				break
			}
		} else if !ok {
			c.Count("no-oracle-available-for-reruns")
		}
		m := h.caseJSON()
		if repro > 0 {
			m["reproduced"] = repro
		}
		c.Emit(m)
		c.Count("history." + h.Engine)
		c.Count(fmt.Sprintf("history.timeout.%dms", h.TimeoutMs))
		for _, p := range h.Phases {
			c.Count("history.pattern." + p.Pattern)
			c.Count("history.between." + p.Between)
			if p.MidOp != "" {
				c.Count("history.mid-op." + p.MidOp)
			}
			for _, q := range p.Reqs {
				c.Count("history.role." + q.Role)
			}
		}
	}
	return flaky
}
