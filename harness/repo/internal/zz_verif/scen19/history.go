//go:build verif

// Histories: ONE long-lived production stack (one collector, one engine, one balancer, one repository) taken through
// a sequence of DIFFERENT counters scenarios.  Whatever the code keeps between requests — per-endpoint records of the
// collector and their clean-up, look-up short-cuts, pooled objects, engine connection pools, selector state — is
// carried from one step into the next, which a fresh stack per scenario never does.  Steps:
//
//	traffic  a counters scenario (the Scenario of Run: behaviours per endpoint, repository statuses per endpoint — an
//	         endpoint that was offline in the previous step and is healthy now has recovered —, N clients, gated /
//	         aborting clients / Anthropic route / request path and size) run on the shared stack; gauges and counters
//	         are read mid-flight (gated) and at quiescence; counters as the step's own increase
//	silence  nothing happens for Minutes (simulated: the collector's own time stamps move into the past); the next
//	         recorded request finds the clean-up interval elapsed and runs the pass, as in production
//	pass     the clean-up pass runs now, as RecordRequest would run it Minutes after the last one
//	flap     every endpoint fails one health check and passes the next, through the real health checker
//
// Every traffic step's observation has the shape of a Run observation, so one predicate judges both.
package scen19

import (
	"context"
	"encoding/hex"
	"fmt"
	"sort"
	"strings"
	"sync"
	"sync/atomic"
	"time"

	"github.com/thushan/olla/internal/adapter/stats"
	"github.com/thushan/olla/internal/core/domain"
	"github.com/thushan/olla/internal/zz_verif/stack"
)

type HStep struct {
	Op      string    `json:"op"`                // traffic | silence | pass | flap
	Minutes int       `json:"minutes,omitempty"` // silence / pass
	Sc      *Scenario `json:"scenario,omitempty"`
}

type History struct {
	Engine    string   `json:"engine"`
	Balancer  string   `json:"balancer"`
	Names     []string `json:"names"`
	Prios     []int    `json:"prios"`
	BasePaths []string `json:"base_paths,omitempty"`
	Discovery bool     `json:"discovery,omitempty"` // model discovery enabled (the recovery hook of the discovery service runs when an endpoint passes a health check again)
	Steps     []HStep  `json:"steps"`
}

type HStepObs struct {
	Op     string           `json:"op"`
	Impl   *Obs             `json:"impl,omitempty"`   // traffic
	Gauges map[string]int64 `json:"gauges,omitempty"` // silence / pass / flap: the gauges afterwards (nothing is in flight)
	Rows   map[string]bool  `json:"rows,omitempty"`   // which endpoints the collector's readers have a record for afterwards
}

type HistObs struct {
	StartErr string     `json:"start_err,omitempty"`
	Steps    []HStepObs `json:"steps"`
	Stopped  string     `json:"stopped,omitempty"` // the history ended early: a step could not be observed reliably (see its not_judged)
	Ms       int64      `json:"ms"`
}

type hist struct {
	h          *History
	s          *stack.Stack
	backends   []*stack.Backend
	translated bool // some step uses the translator route: the registry must list "m1" for every endpoint
}

// catalogue: the translator route resolves the model through the registry — "m1" on every endpoint (registered directly;
// with model discovery enabled the backends' listings say the same, and a recovery re-reads them in its own goroutine).
func (x *hist) catalogue(register bool) {
	if !x.translated || x.s.Disc == nil {
		return
	}
	reg, err := x.s.Disc.GetRegistry()
	if err != nil {
		return
	}
	if register {
		for i, b := range x.backends {
			reg.RegisterModels(context.Background(), epKey(x.s, x.h.Names[i], b), []*domain.ModelInfo{{Name: "m1", Type: "llm", LastSeen: time.Now()}})
		}
	}
	deadline := time.Now().Add(5 * time.Second)
	for time.Now().Before(deadline) {
		if got, _ := reg.GetEndpointsForModel(context.Background(), "m1"); len(got) == len(x.backends) {
			return
		}
		time.Sleep(5 * time.Millisecond)
	}
}

func (x *hist) beh(e int, sc *Scenario, gate chan struct{}) stack.Behaviour {
	bh := sc.EPs[e].Beh
	if bh.Body == nil && bh.BodyHex != "" {
		bh.Body, _ = hex.DecodeString(bh.BodyHex)
	}
	bh.Gate = gate
	return bh
}

// refs: the collector's current record per endpoint (see stats.VerifEntryRef)
func (x *hist) refs(sc *Scenario) (map[string]any, bool) {
	out := map[string]any{}
	for i, e := range sc.EPs {
		r, ok := stats.VerifEntryRef(x.s.Stats, epKey(x.s, e.Name, x.backends[i]))
		if !ok {
			return nil, false
		}
		out[e.Name] = r
	}
	return out, true
}

// readSince: the counters' increase since the base line.  Per endpoint: if the collector's record is still the one
// the base line was read from, the difference; if the clean-up pass dropped that (idle) record in between, the numbers
// of the record that was started afterwards, from zero (no record: nothing recorded).
func (x *hist) readSince(sc *Scenario, b0 *baseline, refs0 map[string]any, haveRefs bool) Counters {
	if !haveRefs {
		return read(x.s, sc, x.backends, b0)
	}
	abs := read(x.s, sc, x.backends, nil)
	refs1, ok := x.refs(sc)
	// a record replaced between the two reads above would go unnoticed: read again until the references stand still
	for try := 0; ok && try < 5; try++ {
		abs2 := read(x.s, sc, x.backends, nil)
		refs2, ok2 := x.refs(sc)
		same := ok2
		for k, v := range refs1 {
			if refs2[k] != v {
				same = false
			}
		}
		abs, refs1 = abs2, refs2
		if same {
			break
		}
	}
	if !ok {
		return read(x.s, sc, x.backends, b0)
	}
	sub := func(a, b [3]int64) [3]int64 { return [3]int64{a[0] - b[0], a[1] - b[1], a[2] - b[2]} }
	c := abs
	c.Global = sub(abs.Global, b0.g)
	c.Engine = sub(abs.Engine, b0.e)
	c.Translator = sub(abs.Translator, b0.tr)
	for k, v := range abs.PerEP {
		if refs1[k] == refs0[k] {
			c.PerEP[k] = sub(v, b0.pe[k])
		}
	}
	for k, v := range abs.Models {
		c.Models[k] = sub(v, b0.mo[k])
	}
	return c
}

func (x *hist) gauges() (map[string]int64, map[string]bool) {
	g, rows := map[string]int64{}, map[string]bool{}
	cs := x.s.Stats.GetConnectionStats()
	for i, n := range x.h.Names {
		v, ok := cs[epKey(x.s, n, x.backends[i])]
		g[n], rows[n] = v, ok
	}
	return g, rows
}

func (x *hist) openConns() int64 {
	var n int64
	for _, b := range x.backends {
		n += b.OpenConns()
	}
	return n
}

// calm: nothing of an earlier step is still going on — every gauge reads 0 and keeps doing so.
func (x *hist) calm(max time.Duration) bool {
	deadline := time.Now().Add(max)
	for {
		zero := true
		for _, v := range x.s.Stats.GetConnectionStats() {
			if v != 0 {
				zero = false
			}
		}
		if zero {
			return true
		}
		if time.Now().After(deadline) {
			return false
		}
		time.Sleep(10 * time.Millisecond)
	}
}

// RunHistory starts the stack and takes it through the steps.
func RunHistory(h *History) *HistObs {
	out := &HistObs{Steps: []HStepObs{}}
	t0 := time.Now()
	defer func() { out.Ms = time.Since(t0).Milliseconds() }()
	x := &hist{h: h}
	eps := make([]stack.EP, len(h.Names))
	for i, n := range h.Names {
		b := stack.NewBackend(n)
		x.backends = append(x.backends, b)
		eps[i] = stack.EP{Name: n, Type: "openai", Priority: h.Prios[i], Backend: b}
		if i < len(h.BasePaths) {
			eps[i].BasePath = h.BasePaths[i]
		}
		if h.Discovery {
			b.Listing = func(path string) (int, string) {
				if strings.HasSuffix(path, "/models") {
					return 200, `{"object":"list","data":[{"id":"m1","object":"model"}]}`
				}
				return 0, ""
			}
		}
		b.KeepBodies = true
	}
	defer func() {
		for _, b := range x.backends {
			b.Close()
		}
	}()
	s, err := stack.Start(stack.Opts{Vary: stack.VaryForJSON("c19.history", map[string]any{"e": h.Engine, "b": h.Balancer, "n": len(h.Steps), "d": h.Discovery}),
		Engine: h.Engine, Balancer: h.Balancer, Profile: "auto", EPs: eps, ModelDiscovery: h.Discovery})
	if err != nil {
		out.StartErr = err.Error()
		return out
	}
	defer s.Stop()
	x.s = s
	for _, st := range h.Steps {
		if st.Sc != nil && st.Sc.Route != "proxy" {
			x.translated = true
		}
	}
	x.catalogue(true)
	for i, st := range h.Steps {
		so := HStepObs{Op: st.Op}
		switch st.Op {
		case "traffic":
			so.Impl = x.traffic(st.Sc, 1000*(i+1))
		case "silence":
			stats.VerifAge(s.Stats, time.Duration(st.Minutes)*time.Minute)
			so.Gauges, so.Rows = x.gauges()
		case "pass":
			stats.VerifCleanupPassAfter(s.Stats, time.Duration(st.Minutes)*time.Minute)
			so.Gauges, so.Rows = x.gauges()
		case "flap":
			x.flap()
			so.Gauges, so.Rows = x.gauges()
		}
		out.Steps = append(out.Steps, so)
		if so.Impl != nil && so.Impl.NotJudged != "" {
			out.Stopped = fmt.Sprintf("step %d: %s", i, so.Impl.NotJudged)
			break
		}
	}
	return out
}

// flap: every endpoint fails a health check and passes the next one, through the real checker.
func (x *hist) flap() bool {
	if x.s.Disc == nil {
		return false
	}
	hc, err := x.s.Disc.GetHealthChecker()
	if err != nil {
		return false
	}
	for _, b := range x.backends {
		atomic.StoreInt32(&b.HealthStatus, 503)
	}
	_ = hc.RunHealthCheck(context.Background(), true)
	for _, b := range x.backends {
		atomic.StoreInt32(&b.HealthStatus, 0)
	}
	_ = hc.RunHealthCheck(context.Background(), true)
	x.catalogue(false)
	return true
}

// traffic runs one counters scenario on the shared stack.  Its request ids start at base, so that a backend contact is
// attributed to a request of this step only.
func (x *hist) traffic(sc *Scenario, base int) *Obs {
	s, backends := x.s, x.backends
	obs := &Obs{}
	t0 := time.Now()
	defer func() { obs.Ms = time.Since(t0).Milliseconds() }()
	if !x.calm(10 * time.Second) {
		// (a gauge that stays up after a step is that step's finding; this is only about where the next step starts from)
		obs.NotJudged = fmt.Sprint("the gauges are not all 0 before the step: ", s.Stats.GetConnectionStats())
		obs.Reqs = []ReqObs{}
		return obs
	}
	gate := make(chan struct{})
	var gateOnce sync.Once
	release := func() { gateOnce.Do(func() { close(gate) }) }
	defer release()
	for i, e := range sc.EPs {
		var g chan struct{}
		if sc.Gated {
			g = gate
		}
		if e.Beh.Kind == "refuse" {
			backends[i].Refuse()
		} else {
			backends[i].Listen()
			backends[i].SetBehaviour(x.beh(i, sc, g))
		}
		backends[i].Taken()
		st := domain.StatusHealthy
		if e.Status != "" {
			st = domain.EndpointStatus(e.Status)
		}
		s.SetStatus(e.Name, st)
	}
	idle := x.openConns() // connections the health checker keeps open are not traffic (the scripted backends close theirs after every answer)
	b0c := read(s, sc, backends, nil)
	b0 := &baseline{g: b0c.Global, e: b0c.Engine, pe: b0c.PerEP, tr: b0c.Translator, mo: b0c.Models}
	refs0, haveRefs := x.refs(sc)

	n := sc.Clients
	if n <= 0 {
		n = 1
	}
	res := make([]ReqObs, n)
	done := make(chan int, n)
	var finished int64
	for i := 0; i < n; i++ {
		go func(i int) {
			raw := reqBytes(sc, s.Addr, base+i)
			if sc.Abort {
				res[i] = abortingClient(s.Addr, raw)
			} else {
				r := stack.Do(s.Addr, raw, 20*time.Second)
				res[i] = ReqObs{Err: r.Err, Status: r.Status, Complete: r.Complete, BodyLen: len(r.Body)}
				if strings.Contains(string(r.Body), "event: message_start") {
					res[i].Marker = strings.Contains(string(r.Body), "event: message_stop") && !strings.Contains(string(r.Body), "event: error")
				} else {
					res[i].Marker = strings.Contains(string(r.Body), `"type":"message"`)
				}
			}
			res[i].Cid = base + i
			atomic.AddInt64(&finished, 1)
			done <- i
		}(i)
	}
	if sc.Gated {
		// until every request is either held inside a backend or finished
		all := false
		held := map[string]int{}
		deadline := time.Now().Add(20 * time.Second)
		for time.Now().Before(deadline) {
			f := int(atomic.LoadInt64(&finished)) // read first: a request finishes only after it left its backend
			tot := 0
			for i, b := range backends {
				held[sc.EPs[i].Name] = b.Count()
				tot += held[sc.EPs[i].Name]
			}
			if tot+f >= n {
				all = true
				break
			}
			time.Sleep(5 * time.Millisecond)
		}
		if !all {
			obs.NotJudged = fmt.Sprintf("gated step: after 20 s only %v requests are held and %d finished, of %d", held, atomic.LoadInt64(&finished), n)
		} else {
			// the attempts of requests that finished without being held (refused, no candidate, …) have ended: their
			// deferred decrement runs after the client has its answer, so poll (as for quiescence) until the gauges stand still
			stack.Quiesce(func() string { return fmt.Sprint(s.Stats.GetConnectionStats(), s.Stats.GetProxyStats()) })
			deadline := time.Now().Add(5 * time.Second)
			for time.Now().Before(deadline) {
				cs := s.Stats.GetConnectionStats()
				ok := true
				for i, e := range sc.EPs {
					if cs[epKey(s, e.Name, backends[i])] != int64(held[e.Name]) {
						ok = false
					}
				}
				if ok {
					break
				}
				time.Sleep(10 * time.Millisecond)
			}
			m := &Mid{Held: held, Finished: int(atomic.LoadInt64(&finished))}
			if sc.Flap {
				m.Flapped = x.flap()
				// the checker's connections stay open; the held requests' are still counted
				idle = x.openConns()
				for _, k := range held {
					idle -= int64(k)
				}
			}
			if sc.UptimeMin > 0 {
				stats.VerifCleanupPassAfter(s.Stats, time.Duration(sc.UptimeMin)*time.Minute)
			}
			m.C = x.readSince(sc, b0, refs0, haveRefs)
			obs.Mid = m
		}
		release()
	}
	timeout := time.After(40 * time.Second)
	for i := 0; i < n; i++ {
		select {
		case <-done:
		case <-timeout:
			obs.NotJudged = "clients did not return within 40 s"
			obs.Reqs = []ReqObs{}
			return obs
		}
	}
	contacts := func() int64 {
		var k int64
		for _, b := range backends {
			k += int64(b.Count())
		}
		return k
	}
	// quiescence: every backend has finished what it was doing; every attempt that reached a backend has been recorded
	// (the last thing an attempt does before its deferred decrement) — for an aborting client the engine notices the
	// client's absence on its own clock —; every gauge is back at 0.  Generous: the machine may be loaded.
	deadline := time.Now().Add(15 * time.Second)
	var since time.Time // when the collector's side was first seen settled
	for time.Now().Before(deadline) {
		zero := true
		for _, v := range s.Stats.GetConnectionStats() {
			if v != 0 {
				zero = false
			}
		}
		rec := s.Stats.GetProxyStats().TotalRequests - b0.g[0]
		if zero && rec >= contacts() && (!sc.Abort || rec >= int64(n)) {
			if since.IsZero() {
				since = time.Now()
			}
			// the backends' side: their connections are closed (a connection the health checker or the discovery
			// service opened meanwhile stays open: not waited for beyond two seconds)
			if x.openConns() <= idle || time.Since(since) > 2*time.Second {
				obs.Settled = x.openConns() <= idle
				break
			}
		} else {
			since = time.Time{}
		}
		time.Sleep(10 * time.Millisecond)
	}
	stack.Quiesce(func() string {
		return fmt.Sprint(s.Stats.GetConnectionStats(), s.Stats.GetProxyStats(), s.Stats.GetTranslatorStats())
	})
	type hit struct {
		seq  int64
		name string
	}
	per := make([][]hit, n)
	for i, b := range backends {
		for _, sn := range b.Taken() {
			body := string(sn.Body)
			for cid := 0; cid < n; cid++ {
				if strings.Contains(body, marker(base+cid)) {
					per[cid] = append(per[cid], hit{sn.Seq, sc.EPs[i].Name})
					break
				}
			}
		}
	}
	for cid := 0; cid < n; cid++ {
		sort.Slice(per[cid], func(a, b int) bool { return per[cid][a].seq < per[cid][b].seq })
		res[cid].Contacted = []string{}
		for _, h := range per[cid] {
			res[cid].Contacted = append(res[cid].Contacted, h.name)
		}
	}
	obs.Reqs = res
	obs.Statuses = s.Statuses()
	obs.Final = x.readSince(sc, b0, refs0, haveRefs)
	return obs
}
