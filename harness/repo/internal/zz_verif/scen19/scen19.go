//go:build verif

// Package scen19 runs one "counters scenario" for C19: a fresh production stack in front of up to
// three scripted backends, N concurrent clients (each request carries its own id so that every
// backend contact can be attributed to a request), optionally *gated* backends that hold every
// attempt open so that "in flight" is exact while gauges and counters are read mid-flight, an
// optional client abort (socket closed mid-stream), and the proxy / Anthropic-translator routes.
// Gauges and counters are read from the collector and the engine exactly the way the
// /internal/status handlers read them.
package scen19

import (
	"bytes"
	"context"
	"encoding/hex"
	"fmt"
	"github.com/thushan/olla/internal/adapter/stats"
	"net"
	"sort"
	"strings"
	"sync"
	"sync/atomic"
	"time"

	"github.com/thushan/olla/internal/core/domain"
	"github.com/thushan/olla/internal/zz_verif/scen"
	"github.com/thushan/olla/internal/zz_verif/stack"
)

type Scenario struct {
	Engine    string        `json:"engine"`
	Balancer  string        `json:"balancer"`
	Route     string        `json:"route"` // proxy | anthropic | anthropic-stream
	EPs       []scen.EPSpec `json:"eps"`
	Clients   int           `json:"clients"`
	Gated     bool          `json:"gated,omitempty"`      // backends hold every request until all clients are held
	Flap      bool          `json:"flap,omitempty"`       // gated only: while the attempts are held every endpoint fails one health check and passes the next (model discovery enabled, so the recovery hook of the discovery service runs)
	IdleMin   int           `json:"idle_min,omitempty"`   // gated only: before the held attempts, every endpoint serves warm-up requests and then IdleMin minutes pass without traffic (simulated: the collector's time stamps move into the past)
	UptimeMin int           `json:"uptime_min,omitempty"` // gated only: while the attempts are held, the collector's periodic clean-up pass runs as it would after this many minutes of uptime
	Abort     bool          `json:"abort,omitempty"`      // the client closes its socket after the first body byte
	BasePaths []string      `json:"base_paths,omitempty"` // per endpoint: what the configured url carries after host:port ("" | "/" | "/api/": the documented trailing-slash forms)
	Path      string        `json:"path,omitempty"`       // proxy route: the path behind /olla/proxy ("" = /v1/chat/completions)
	Pad       int           `json:"pad,omitempty"`        // proxy route: this many extra bytes in the request body
}

type ReqObs struct {
	Cid       int      `json:"cid"`
	Err       string   `json:"err"`
	Status    int      `json:"status"`
	Complete  bool     `json:"complete"`
	BodyLen   int      `json:"body_len"`
	Aborted   bool     `json:"aborted,omitempty"`
	Marker    bool     `json:"marker,omitempty"` // translator route: the Anthropic message is complete (message_stop event / "type":"message")
	Contacted []string `json:"contacted"`        // backends that saw this request, in arrival order
}

type Counters struct {
	Conns      map[string]int64    `json:"conns"`      // collector gauge per endpoint
	Global     [3]int64            `json:"global"`     // collector total, ok, failed
	Engine     [3]int64            `json:"engine"`     // engine ProxyStats total, ok, failed
	PerEP      map[string][3]int64 `json:"per_ep"`     // collector per endpoint
	Translator [3]int64            `json:"translator"` // translator collector "anthropic"
	Models     map[string][3]int64 `json:"models"`     // model collector
}

type Mid struct {
	Held     map[string]int `json:"held"` // requests currently waiting inside each backend
	Finished int            `json:"finished"`
	C        Counters       `json:"c"`
	Flapped  bool           `json:"flapped,omitempty"`
}

type Obs struct {
	Reqs     []ReqObs          `json:"reqs"`
	Mid      *Mid              `json:"mid,omitempty"`
	Warm     map[string]int    `json:"warm,omitempty"` // requests each backend served in the warm-up phase (IdleMin)
	Final    Counters          `json:"final"`
	Statuses map[string]string `json:"statuses"`
	StartErr string            `json:"start_err,omitempty"`
	Settled  bool              `json:"settled"` // backends closed all connections before the final read
	// NotJudged (histories): the step could not be observed reliably (something did not settle within a generous
	// deadline on a loaded machine); it is reported, not judged, and the history ends here
	NotJudged string `json:"not_judged,omitempty"`
	Ms        int64  `json:"ms"`
}

func marker(cid int) string { return fmt.Sprintf("#cid-%d#", cid) }

func reqBytes(sc *Scenario, addr string, cid int) []byte {
	hdr := [][2]string{{"Content-Type", "application/json"}, {"X-Verif", "1"}}
	switch sc.Route {
	case "anthropic":
		return stack.Request("POST", "/olla/anthropic/v1/messages", addr, hdr, []byte(`{"model":"m1","max_tokens":16,"messages":[{"role":"user","content":"`+marker(cid)+`"}]}`), false)
	case "anthropic-stream":
		return stack.Request("POST", "/olla/anthropic/v1/messages", addr, hdr, []byte(`{"model":"m1","max_tokens":16,"stream":true,"messages":[{"role":"user","content":"`+marker(cid)+`"}]}`), false)
	default:
		path, pad := "/v1/chat/completions", ""
		if sc.Path != "" {
			path = sc.Path
		}
		if sc.Pad > 0 {
			pad = `,"pad":"` + strings.Repeat("p", sc.Pad) + `"`
		}
		return stack.Request("POST", "/olla/proxy"+path, addr, hdr, []byte(`{"messages":[{"role":"user","content":"`+marker(cid)+`"}]`+pad+`}`), false)
	}
}

// openBreaker drives the olla engine's per-endpoint breaker open (same recipe as scen.openBreaker).
func openBreaker(s *stack.Stack, sc *Scenario, idx int, backends []*stack.Backend) {
	for j, e := range sc.EPs {
		if j != idx {
			s.SetStatus(e.Name, domain.StatusOffline)
		}
	}
	b := backends[idx]
	b.SetBehaviour(stack.Behaviour{Kind: "close0"})
	for i := 0; i < 12; i++ {
		before := b.Count()
		stack.Do(s.Addr, stack.Request("POST", "/olla/proxy/v1/chat/completions", s.Addr, [][2]string{{"Content-Type", "application/json"}}, []byte(`{"prime":true}`), false), 2*time.Second)
		s.SetStatus(sc.EPs[idx].Name, domain.StatusHealthy)
		if b.Count() == before {
			break
		}
	}
	b.Taken()
	for j, e := range sc.EPs {
		if j != idx {
			st := domain.StatusHealthy
			if e.Status != "" {
				st = domain.EndpointStatus(e.Status)
			}
			s.SetStatus(e.Name, st)
		}
	}
}

type baseline struct {
	g, e [3]int64
	pe   map[string][3]int64
	tr   [3]int64
	mo   map[string][3]int64
}

// epKey: the key production's readers (balancer, status handlers) look an endpoint's numbers up under
func epKey(s *stack.Stack, name string, b *stack.Backend) string {
	if e := s.Endpoint(name); e != nil {
		return e.URLString
	}
	return b.URL()
}

func read(s *stack.Stack, sc *Scenario, backends []*stack.Backend, b0 *baseline) Counters {
	var c Counters
	c.Conns = map[string]int64{}
	cs := s.Stats.GetConnectionStats()
	for i, e := range sc.EPs {
		c.Conns[e.Name] = cs[epKey(s, e.Name, backends[i])]
	}
	g := s.Stats.GetProxyStats()
	c.Global = [3]int64{g.TotalRequests, g.SuccessfulRequests, g.FailedRequests}
	en, _ := s.Proxy.GetStats(context.Background())
	c.Engine = [3]int64{en.TotalRequests, en.SuccessfulRequests, en.FailedRequests}
	c.PerEP = map[string][3]int64{}
	pe := s.Stats.GetEndpointStats()
	for i, e := range sc.EPs {
		x := pe[epKey(s, e.Name, backends[i])]
		c.PerEP[e.Name] = [3]int64{x.TotalRequests, x.SuccessfulRequests, x.FailedRequests}
	}
	if t, ok := s.Stats.GetTranslatorStats()["anthropic"]; ok {
		c.Translator = [3]int64{t.TotalRequests, t.SuccessfulRequests, t.FailedRequests}
	}
	c.Models = map[string][3]int64{}
	for name, m := range s.Stats.GetModelStats() {
		c.Models[name] = [3]int64{m.TotalRequests, m.SuccessfulRequests, m.FailedRequests}
	}
	if b0 != nil {
		sub := func(a, b [3]int64) [3]int64 { return [3]int64{a[0] - b[0], a[1] - b[1], a[2] - b[2]} }
		c.Global = sub(c.Global, b0.g)
		c.Engine = sub(c.Engine, b0.e)
		c.Translator = sub(c.Translator, b0.tr)
		for k, v := range c.PerEP {
			if b := b0.pe[k]; v[0] < b[0] || v[1] < b[1] || v[2] < b[2] {
				// the collector dropped this endpoint's (idle) entry since the baseline and started a new one:
				// its counters restarted from zero, there is nothing to subtract
				continue
			}
			c.PerEP[k] = sub(v, b0.pe[k])
		}
		for k, v := range c.Models {
			c.Models[k] = sub(v, b0.mo[k])
		}
	}
	return c
}

// abortingClient sends the request, reads until the status line, the headers and at least one
// body byte have arrived, then closes the socket.
func abortingClient(addr string, raw []byte) ReqObs {
	o := ReqObs{Aborted: true}
	c, err := net.DialTimeout("tcp", addr, 2*time.Second)
	if err != nil {
		o.Err = "dial"
		return o
	}
	c.SetDeadline(time.Now().Add(4 * time.Second))
	c.Write(raw)
	var buf bytes.Buffer
	tmp := make([]byte, 4096)
	for {
		n, err := c.Read(tmp)
		buf.Write(tmp[:n])
		if i := bytes.Index(buf.Bytes(), []byte("\r\n\r\n")); i >= 0 && buf.Len() > i+4+8 {
			break
		}
		if err != nil {
			o.Err = "eof-before-body"
			break
		}
	}
	r := &stack.Resp{Header: map[string][]string{}, Raw: buf.Bytes()}
	stack.ParseResp(r, false)
	o.Status = r.Status
	o.BodyLen = len(r.Body)
	o.Complete = false
	c.Close()
	return o
}

func Run(sc *Scenario) *Obs {
	obs := &Obs{}
	t0 := time.Now()
	defer func() { obs.Ms = time.Since(t0).Milliseconds() }()
	backends := make([]*stack.Backend, len(sc.EPs))
	eps := make([]stack.EP, len(sc.EPs))
	for i, e := range sc.EPs {
		backends[i] = stack.NewBackend(e.Name)
		eps[i] = stack.EP{Name: e.Name, Type: "openai", Priority: e.Prio, Backend: backends[i]}
		if i < len(sc.BasePaths) {
			eps[i].BasePath = sc.BasePaths[i]
		}
	}
	defer func() {
		for _, b := range backends {
			b.Close()
		}
	}()
	if sc.Flap {
		for _, b := range backends {
			b.Listing = func(path string) (int, string) {
				if strings.HasSuffix(path, "/models") {
					return 200, `{"object":"list","data":[{"id":"m1","object":"model"}]}`
				}
				return 0, ""
			}
		}
	}
	s, err := stack.Start(stack.Opts{Vary: stack.VaryForJSON("c19", sc), Engine: sc.Engine, Balancer: sc.Balancer, Profile: "auto", EPs: eps, ModelDiscovery: sc.Flap})
	if err != nil {
		obs.StartErr = err.Error()
		return obs
	}
	defer s.Stop()
	for i, e := range sc.EPs {
		if e.Open {
			openBreaker(s, sc, i, backends)
		}
	}
	if sc.Route != "proxy" {
		// the translator route resolves the model through the registry: catalogue "m1" on every endpoint
		if reg, err := s.Disc.GetRegistry(); err == nil {
			for i, b := range backends {
				reg.RegisterModels(context.Background(), epKey(s, sc.EPs[i].Name, b), []*domain.ModelInfo{{Name: "m1", Type: "llm", LastSeen: time.Now()}})
			}
			deadline := time.Now().Add(2 * time.Second)
			for time.Now().Before(deadline) {
				if got, _ := reg.GetEndpointsForModel(context.Background(), "m1"); len(got) == len(backends) {
					break
				}
				time.Sleep(5 * time.Millisecond)
			}
		}
	}
	gate := make(chan struct{})
	var gateOnce sync.Once
	release := func() { gateOnce.Do(func() { close(gate) }) }
	defer release()
	for i, e := range sc.EPs {
		bh := e.Beh
		if bh.Body == nil && bh.BodyHex != "" {
			bh.Body, _ = hex.DecodeString(bh.BodyHex)
		}
		if sc.Gated {
			bh.Gate = gate
		}
		if bh.Kind == "refuse" {
			backends[i].Refuse()
		} else {
			backends[i].SetBehaviour(bh)
		}
		backends[i].KeepBodies = true
		st := domain.StatusHealthy
		if e.Status != "" {
			st = domain.EndpointStatus(e.Status)
		}
		s.SetStatus(e.Name, st)
	}
	if sc.Gated && sc.IdleMin > 0 {
		// warm-up: every backend answers at once; then the silence
		obs.Warm = map[string]int{}
		for i, e := range sc.EPs {
			if e.Beh.Kind == "ok" {
				bh := e.Beh
				if bh.Body == nil && bh.BodyHex != "" {
					bh.Body, _ = hex.DecodeString(bh.BodyHex)
				}
				backends[i].SetBehaviour(bh)
			}
		}
		for i := 0; i < 4*len(sc.EPs); i++ {
			stack.Do(s.Addr, reqBytes(sc, s.Addr, 1000+i), 4*time.Second)
		}
		stack.Quiesce(func() string { return fmt.Sprint(s.Stats.GetConnectionStats(), s.Stats.GetProxyStats()) })
		for i, b := range backends {
			obs.Warm[sc.EPs[i].Name] = len(b.Taken())
		}
		stats.VerifAge(s.Stats, time.Duration(sc.IdleMin)*time.Minute)
		for i, e := range sc.EPs { // back to the scenario's (gated) behaviours and statuses
			bh := e.Beh
			if bh.Body == nil && bh.BodyHex != "" {
				bh.Body, _ = hex.DecodeString(bh.BodyHex)
			}
			bh.Gate = gate
			if bh.Kind != "refuse" {
				backends[i].SetBehaviour(bh)
			}
			st := domain.StatusHealthy
			if e.Status != "" {
				st = domain.EndpointStatus(e.Status)
			}
			s.SetStatus(e.Name, st)
		}
	}
	// connections the health checker keeps alive are not traffic
	var idle int64
	for _, b := range backends {
		idle += b.OpenConns()
	}
	b0c := read(s, sc, backends, nil)
	b0 := &baseline{g: b0c.Global, e: b0c.Engine, pe: b0c.PerEP, tr: b0c.Translator, mo: b0c.Models}

	n := sc.Clients
	if n <= 0 {
		n = 1
	}
	res := make([]ReqObs, n)
	done := make(chan int, n)
	var finished int64
	var fmu sync.Mutex
	for i := 0; i < n; i++ {
		go func(i int) {
			raw := reqBytes(sc, s.Addr, i)
			if sc.Abort {
				res[i] = abortingClient(s.Addr, raw)
			} else {
				r := stack.Do(s.Addr, raw, 8*time.Second)
				res[i] = ReqObs{Err: r.Err, Status: r.Status, Complete: r.Complete, BodyLen: len(r.Body)}
				// a streamed message is complete when its message_stop event has arrived and no error event did
				// (message_start carries "type":"message" too, so that is a sign of completeness only for a buffered answer)
				if bytes.Contains(r.Body, []byte("event: message_start")) {
					res[i].Marker = bytes.Contains(r.Body, []byte("event: message_stop")) && !bytes.Contains(r.Body, []byte("event: error"))
				} else {
					res[i].Marker = bytes.Contains(r.Body, []byte(`"type":"message"`))
				}
			}
			res[i].Cid = i
			fmu.Lock()
			finished++
			fmu.Unlock()
			done <- i
		}(i)
	}
	if sc.Gated {
		// wait until every request is either held inside a backend or finished
		// (the olla engine caps connections per endpoint: requests beyond the cap wait inside the transport,
		// already dispatched — so also stop once nothing has moved for a while)
		deadline := time.Now().Add(5 * time.Second)
		last, lastChange := -1, time.Now()
		for time.Now().Before(deadline) {
			held := 0
			for _, b := range backends {
				held += b.Count()
			}
			fmu.Lock()
			f := int(finished)
			fmu.Unlock()
			if held+f >= n {
				break
			}
			if held+f != last {
				last, lastChange = held+f, time.Now()
			} else if held+f > 0 && time.Since(lastChange) > 400*time.Millisecond {
				break
			}
			time.Sleep(5 * time.Millisecond)
		}
		stack.Quiesce(func() string { return fmt.Sprint(s.Stats.GetConnectionStats(), s.Stats.GetProxyStats()) })
		m := &Mid{Held: map[string]int{}}
		for i, b := range backends {
			m.Held[sc.EPs[i].Name] = b.Count()
		}
		fmu.Lock()
		m.Finished = int(finished)
		fmu.Unlock()
		if sc.Flap {
			// every endpoint fails a health check and passes the next one, through the real checker
			if s.Disc != nil {
				if hc, err := s.Disc.GetHealthChecker(); err == nil {
					for _, b := range backends {
						atomic.StoreInt32(&b.HealthStatus, 503)
					}
					_ = hc.RunHealthCheck(context.Background(), true)
					for _, b := range backends {
						atomic.StoreInt32(&b.HealthStatus, 0)
					}
					_ = hc.RunHealthCheck(context.Background(), true)
					time.Sleep(250 * time.Millisecond) // the recovery hook runs in its own goroutine
					m.Flapped = true
				}
			}
		}
		if sc.UptimeMin > 0 {
			time.Sleep(10 * time.Millisecond) // the held attempts have been in flight for a while
			stats.VerifCleanupPassAfter(s.Stats, time.Duration(sc.UptimeMin)*time.Minute)
		}
		m.C = read(s, sc, backends, b0)
		obs.Mid = m
		release()
	}
	for i := 0; i < n; i++ {
		<-done
	}
	if sc.Abort {
		// the backend is still stalling mid-body and (sherpa) the engine notices the client's absence only on its
		// next 1 s tick: wait until every request's attempt has been recorded somewhere (that is the last thing an
		// attempt does before its deferred Decrement), at most 6 s
		deadline := time.Now().Add(6 * time.Second)
		for time.Now().Before(deadline) {
			g := s.Stats.GetProxyStats()
			if g.TotalRequests-b0.g[0] >= int64(n) {
				break
			}
			time.Sleep(20 * time.Millisecond)
		}
	}
	// quiescence: every backend has finished what it was doing, then gauges and counters settle
	deadline := time.Now().Add(2 * time.Second)
	for time.Now().Before(deadline) {
		open := int64(0)
		for _, b := range backends {
			open += b.OpenConns()
		}
		if open <= idle {
			obs.Settled = true
			break
		}
		time.Sleep(10 * time.Millisecond)
	}
	stack.Quiesce(func() string {
		return fmt.Sprint(s.Stats.GetConnectionStats(), s.Stats.GetProxyStats(), s.Stats.GetTranslatorStats())
	})
	type hit struct {
		seq  int64
		name string
	}
	per := make([][]hit, n)
	for i, b := range backends {
		for _, x := range b.Taken() {
			body := string(x.Body)
			for cid := 0; cid < n; cid++ {
				if strings.Contains(body, marker(cid)) {
					per[cid] = append(per[cid], hit{x.Seq, sc.EPs[i].Name})
					break
				}
			}
		}
	}
	for cid := 0; cid < n; cid++ {
		sort.Slice(per[cid], func(a, b int) bool { return per[cid][a].seq < per[cid][b].seq })
		res[cid].Contacted = []string{}
		for _, h := range per[cid] {
			res[cid].Contacted = append(res[cid].Contacted, h.name)
		}
	}
	obs.Reqs = res
	obs.Statuses = s.Statuses()
	obs.Final = read(s, sc, backends, b0)
	return obs
}
