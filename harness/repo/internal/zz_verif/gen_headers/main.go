//go:build verif

// gen_headers renders Olla/Gen/Headers.lean: the hop-by-hop list core.CopyHeaders
// consults (as compiled), the set of header names CopyHeaders drops for a reason other
// than that list (determined behaviourally by running the real function over a universe
// of names), the names and values of the headers olla writes itself.
package main

import (
	"crypto/tls"
	"net/http"
	"sort"
	"strings"

	"github.com/thushan/olla/internal/adapter/proxy/core"
	"github.com/thushan/olla/internal/core/constants"
	"github.com/thushan/olla/internal/zz_verif/vlib"
)

func chars(s string) string {
	if s == "" {
		return "[]"
	}
	var items []string
	for _, r := range s {
		switch r {
		case '\'':
			items = append(items, `'\''`)
		case '\\':
			items = append(items, `'\\'`)
		default:
			if r < 0x20 || r == 0x7f {
				items = append(items, "(Char.ofNat "+vlib.LeanNat(uint64(r))+")")
			} else {
				items = append(items, "'"+string(r)+"'")
			}
		}
	}
	return "[" + strings.Join(items, ",") + "]"
}

func charsList(xs []string) string {
	out := make([]string, len(xs))
	for i, x := range xs {
		out[i] = chars(x)
	}
	return vlib.LeanList(out)
}

// universe of header names the drop behaviour is tabulated over: every header-name constant
// the code base declares, plus names commonly used for credentials / connection management.
func universe() []string {
	u := []string{
		constants.HeaderContentType, constants.HeaderAccept, constants.HeaderAuthorization, constants.HeaderUserAgent,
		constants.HeaderCacheControl, constants.HeaderCookie, constants.HeaderVia, constants.HeaderAcceptEncoding,
		constants.HeaderConnection, constants.HeaderKeepAlive, constants.HeaderProxyAuthenticate, constants.HeaderTE,
		constants.HeaderTrailer, constants.HeaderTransferEncoding, constants.HeaderUpgrade,
		constants.HeaderXForwardedFor, constants.HeaderXForwardedProto, constants.HeaderXForwardedHost,
		constants.HeaderXRealIP, constants.HeaderXProxiedBy,
		constants.HeaderXRateLimitLimit, constants.HeaderXRateLimitRemaining, constants.HeaderXRateLimitReset, constants.HeaderRetryAfter,
		constants.HeaderXRequestID, constants.HeaderXModel, constants.HeaderXAPIKey, constants.HeaderXAuthToken,
		constants.HeaderXServedBy, constants.HeaderProxyAuthorization, constants.HeaderCFConnectingIP,
		constants.HeaderXProfileOllamaVersion, constants.HeaderXOllaRequestID, constants.HeaderXOllaEndpoint,
		constants.HeaderXOllaBackendType, constants.HeaderXOllaModel, constants.HeaderXOllaResponseTime,
		constants.HeaderXOllaRoutingStrategy, constants.HeaderXOllaRoutingDecision, constants.HeaderXOllaRoutingReason, constants.HeaderXOllaMode,
		// input domain only (not a table): further names a deny-list might plausibly carry
		"Set-Cookie", "Cookie2", "Www-Authenticate", "Proxy-Connection", "Trailers", "X-Csrf-Token", "X-Xsrf-Token",
		"Api-Key", "X-Access-Token", "X-Amz-Security-Token", "X-Goog-Api-Key", "Anthropic-Version", "Anthropic-Beta",
		"Openai-Organization", "Content-Length", "Host", "Origin", "Referer", "Forwarded", "X-Forwarded-Port",
		"X-Forwarded-Server", "Accept-Language", "If-None-Match", "Range", "Expect", "Date", "Pragma",
	}
	seen := map[string]bool{}
	var out []string
	for _, n := range u {
		c := http.CanonicalHeaderKey(n)
		if !seen[c] {
			seen[c] = true
			out = append(out, c)
		}
	}
	sort.Strings(out)
	return out
}

func run(h http.Header, host, remote string, withTLS bool) http.Header {
	o := &http.Request{Method: "GET", Header: h, Host: host, RemoteAddr: remote}
	if withTLS {
		o.TLS = &tls.ConnectionState{}
	}
	p := &http.Request{Method: "GET", Header: http.Header{}}
	core.CopyHeaders(p, o)
	return p.Header
}

func main() {
	const ns = "Olla.Gen.Headers"
	f := vlib.NewLeanFile(ns, "gen_headers")

	f.Def("hopByHop", "List (List Char)", charsList(core.VerifHopByHopHeaders()),
		"core.hopByHopHeaders as compiled (compared with strings.EqualFold by isHopByHopHeader)")

	const probe = "zz-verif-probe-value"
	var dropped, sensitive, passed, rewritten []string
	for _, n := range universe() {
		out := run(http.Header{n: {probe}}, "", "", false)
		v, ok := out[n]
		switch {
		case ok && len(v) == 1 && v[0] == probe:
			passed = append(passed, n)
		case ok:
			rewritten = append(rewritten, n)
		default:
			dropped = append(dropped, n)
			if !core.VerifIsHopByHopHeader(n) {
				sensitive = append(sensitive, n)
			}
		}
	}
	f.Def("nameUniverse", "List (List Char)", charsList(universe()), "canonical header names the drop behaviour of core.CopyHeaders was tabulated over")
	f.Def("dropped", "List (List Char)", charsList(dropped), "names of the universe that core.CopyHeaders does not forward")
	f.Def("sensitive", "List (List Char)", charsList(sensitive),
		"dropped names that isHopByHopHeader does not match: the canonical-key deny-list inside CopyHeaders")
	f.Def("rewritten", "List (List Char)", charsList(rewritten), "names of the universe whose single client value came out changed")

	// the headers olla writes on a request that carries none
	empty := run(http.Header{}, "client.example", "192.0.2.7:4711", false)
	f.Def("addedOnEmpty", "List (List Char)", charsList(vlib.SortedKeys(empty)),
		"keys core.CopyHeaders writes for a request without headers (Host client.example, RemoteAddr 192.0.2.7:4711)")
	emptyNoHost := run(http.Header{}, "", "", false)
	f.Def("addedOnEmptyNoHost", "List (List Char)", charsList(vlib.SortedKeys(emptyNoHost)),
		"same with empty Host and empty RemoteAddr")

	canon := http.CanonicalHeaderKey
	f.Def("hVia", "List Char", chars(canon(constants.HeaderVia)), "map key http.Header.Set/Get use for constants.HeaderVia")
	f.Def("hXFF", "List Char", chars(canon(constants.HeaderXForwardedFor)), "")
	f.Def("hXFP", "List Char", chars(canon(constants.HeaderXForwardedProto)), "")
	f.Def("hXFH", "List Char", chars(canon(constants.HeaderXForwardedHost)), "")
	f.Def("hXRealIP", "List Char", chars(canon(constants.HeaderXRealIP)), "")
	f.Def("hProxiedBy", "List Char", chars(canon(constants.HeaderXProxiedBy)), "")
	f.Def("hXModel", "List Char", chars(canon(constants.HeaderXModel)), "written by both engines after CopyHeaders when the request names a model")
	f.Def("viaValue", "List Char", chars(core.GetViaHeader()), "core.GetViaHeader()")
	f.Def("proxiedByValue", "List Char", chars(core.GetProxiedByHeader()), "core.GetProxiedByHeader()")
	plain := run(http.Header{}, "", "", false).Get(constants.HeaderXForwardedProto)
	secure := run(http.Header{}, "", "", true).Get(constants.HeaderXForwardedProto)
	f.Def("protoPlain", "List Char", chars(plain), "X-Forwarded-Proto written when Request.TLS == nil")
	f.Def("protoTLS", "List Char", chars(secure), "X-Forwarded-Proto written when Request.TLS != nil")
	f.Write(ns)
}
