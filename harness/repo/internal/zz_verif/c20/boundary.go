//go:build verif

// c20, boundary-biased generators (round 8): strings a backend controls — tool arguments that are not JSON, data: lines
// that are not JSON, model names, finish reasons, texts, tool names / ids, error messages, listing names, response
// tails — drawn from multi-byte alphabets (2-, 3-, 4-byte characters, combining marks, joiner sequences, invalid
// bytes) at EVERY byte length 0..200, at every rune count 0..70, and around the constants of the anchored code
// (20 = util.DefaultTruncateLengthPII, 8192 = the response-tail ring, 64 KiB / 1 MiB = the stream scanner's buffers,
// powers of two, 10 MiB = max message size / discovery.MaxResponseSize), with ASCII padding placed so that a multi-byte
// character sits at every offset around the length.  Every case is judged by the clause the existing cases of its kind
// are judged by: the call ends (no panic, no hang); listings have no nameless entry; metrics are absent or finite.
package main

import (
	"bytes"
	"context"
	"encoding/hex"
	"encoding/json"
	"fmt"
	"net/http/httptest"
	"strings"
	"time"
	"unicode/utf8"

	"github.com/thushan/olla/internal/adapter/metrics"
	"github.com/thushan/olla/internal/adapter/registry/profile"
	"github.com/thushan/olla/internal/adapter/translator/anthropic"
	"github.com/thushan/olla/internal/zz_verif/vlib"
)

type alphabet struct {
	name  string
	units []string // each unit is kept whole
}

var u8Alphabets = []alphabet{
	{"ascii", []string{"a", "Z", "7", " ", "{", "}", ":", ",", "[", "-"}},
	{"cyrillic", []string{"П", "о", "г", "д", "а", "ё", "Ж", "я"}},                      // 2 bytes
	{"cjk", []string{"北", "京", "今", "天", "的", "气", "、", "한", "あ"}},                     // 3 bytes
	{"emoji", []string{"😀", "🚀", "🔥", "𝔘", "🀄", "𠀀"}},                                 // 4 bytes
	{"combining", []string{"é", "ạ̈", "ỗ́", "́"}}, // base + marks, a lone mark
	{"joined", []string{"👨‍👩‍👧", "🇦🇺", "✌️", "\u200d", "\ufeff"}},     // joiner sequences, flags, variation selectors, BOM
	{"mixed", []string{"a", "é", "北", "😀", " ", "\"", "\\", "я", "{", " ", "\x7f", "\u0080", "߿", "ࠀ", "￿", "\U00010000", "\U0010ffff"}},
	{"invalid", []string{"\xff", "\xc3", "\xe5\x8c", "\xf0\x9f\x98", "\xed\xa0\x80", "\xc0\xaf", "\x80", "北", "a"}}, // lone lead/continuation bytes, truncated characters, a surrogate, an overlong form
}

// u8String: a string of exactly n bytes over the alphabet; what does not fit a whole unit is ASCII padding put in
// front (so that the multi-byte characters sit at offsets 1, 2, 3 ... past a boundary), at the end, or in the middle.
func u8String(r *vlib.Rng, a alphabet, n int) string {
	if n <= 0 {
		return ""
	}
	if n >= 4096 { // long strings: one random block repeated (the generator must not dominate the run time)
		block := u8String(r, a, 61+r.Intn(7))
		lead := r.Intn(4)
		if lead > n {
			lead = n
		}
		var b strings.Builder
		b.Grow(n + len(block))
		b.WriteString(strings.Repeat("x", lead))
		for b.Len()+len(block) <= n {
			b.WriteString(block)
		}
		rest := n - b.Len()
		tail := u8String(r, a, rest)
		b.WriteString(tail)
		return b.String()
	}
	var units []string
	left := n
	lead := 0
	if r.Chance(1, 2) {
		lead = r.Intn(4)
		if lead > left {
			lead = left
		}
		left -= lead
	}
	for tries := 0; left > 0 && tries < 8; {
		u := vlib.Pick(r, a.units)
		if len(u) > left {
			tries++
			continue
		}
		units = append(units, u)
		left -= len(u)
	}
	pad := strings.Repeat("x", left)
	body := strings.Join(units, "")
	switch r.Intn(3) {
	case 0:
		body = pad + body
	case 1:
		body = body + pad
	default:
		k := 0
		if len(units) > 0 {
			k = r.Intn(len(units) + 1)
		}
		body = strings.Join(units[:k], "") + pad + strings.Join(units[k:], "")
	}
	return strings.Repeat("x", lead) + body
}

// u8Runes: exactly n units of the alphabet, no padding (the count of characters, not of bytes, is the dimension).
func u8Runes(r *vlib.Rng, a alphabet, n int) string {
	var b strings.Builder
	if r.Chance(1, 3) { // one unit repeated: the narrowest / widest string of that many characters
		u := vlib.Pick(r, a.units)
		return strings.Repeat(u, n)
	}
	for i := 0; i < n; i++ {
		b.WriteString(vlib.Pick(r, a.units))
	}
	return b.String()
}

// rawJSONString writes s as a JSON string literal escaping only what the grammar demands, so that multi-byte
// characters and invalid bytes reach the decoder as they are (encoding/json would replace invalid bytes before
// the code under test ever sees them; a backend is not that polite).
func rawJSONString(s string) string {
	var b strings.Builder
	b.Grow(len(s) + 2)
	b.WriteByte('"')
	for i := 0; i < len(s); i++ {
		c := s[i]
		switch {
		case c == '"' || c == '\\':
			b.WriteByte('\\')
			b.WriteByte(c)
		case c < 0x20 || c == 0x7f:
			fmt.Fprintf(&b, "\\u%04x", c)
		default:
			b.WriteByte(c)
		}
	}
	b.WriteByte('"')
	return b.String()
}

// boundarySizes: byte lengths around the constants of the anchored code and the powers of two.
func boundarySizes(thorough bool) (small []int, big []int) {
	for n := 0; n <= 200; n++ {
		small = append(small, n)
	}
	for _, b := range []int{255, 256, 512, 1000, 1024, 2048} {
		for d := -3; d <= 3; d++ {
			small = append(small, b+d)
		}
	}
	around := func(b, w int) {
		for d := -w; d <= w; d++ {
			big = append(big, b+d)
		}
	}
	around(4096, 2)
	around(8192, 3) // the proxy engines keep the last 8 KiB of a response for the metrics extractor
	around(64<<10, 3) // the stream scanner's initial buffer
	around(128<<10, 1)
	around(1<<20, 2) // the stream scanner's largest line
	if thorough {
		for p := 14; p <= 24; p++ {
			if p != 16 && p != 17 && p != 20 {
				around(1<<uint(p), 1)
			}
		}
		around(10<<20, 1) // translator max message size, discovery.MaxResponseSize
		around(10*(64<<10), 1)
		around(100*8192, 1)
	}
	return small, big
}

func u8Emit(c *vlib.Cases, tr *anthropic.Translator, body []byte, stream bool, place string, a alphabet, s string) {
	var outcome string
	// the watchdog allows for the size: 3 s up to 1 MiB, then 3 s more per MiB (the machine is shared)
	g := guardedFor(time.Duration(3+3*(len(body)>>20))*time.Second, func() { outcome = xlateCall(tr, body, stream) })
	ph := s
	if len(ph) > 96 {
		ph = ph[:96]
	}
	c.Emit(map[string]any{"kind": "xlate", "stream": stream, "how": "u8." + place, "body_hex": hexCap(body),
		"place": place, "alphabet": a.name, "bytes": len(s), "runes": utf8.RuneCountInString(s), "payload_hex": hex.EncodeToString([]byte(ph)),
		"impl": map[string]any{"guard": g, "outcome": outcome}})
	c.Count("xlate.u8." + place)
}

var respPlaces = []string{"args", "args-truncjson", "args-validjson", "model", "finish", "content", "toolname", "toolid", "errmsg", "args-second"}
var streamPlaces = []string{"dataline", "dataline-only", "dataline-truncjson", "dataline-nospace", "frag", "frag-split", "model", "finish", "content", "toolname", "comment", "errevent"}

// respBody: a non-streaming chat completion with s in one of the places a backend controls.
func respBody(r *vlib.Rng, place, s string) []byte {
	model, finish, content := `"m"`, `"tool_calls"`, `null`
	name, id, args := `"f"`, `"call_1"`, rawJSONString(`{"a":1}`)
	second := ""
	switch place {
	case "args": // arguments that are not JSON at all
		args = rawJSONString(s)
	case "args-truncjson": // a JSON object with s as key and value, cut somewhere (a backend that ran out of tokens)
		full := `{` + rawJSONString(s) + `:` + rawJSONString(s) + `,"单位":"摄氏"}`
		cut := len(full)
		if cut > 1 {
			cut = 1 + r.Intn(len(full)-1)
		}
		args = rawJSONString(full[:cut])
	case "args-validjson":
		args = rawJSONString(`{` + rawJSONString(s) + `:` + rawJSONString(s) + `}`)
	case "args-second": // the first call is fine, the second is not
		second = `,{"id":"call_2","type":"function","function":{"name":"g","arguments":` + rawJSONString(s) + `}}`
	case "model":
		model = rawJSONString(s)
	case "finish":
		finish = rawJSONString(s)
	case "content":
		content = rawJSONString(s)
	case "toolname":
		name = rawJSONString(s)
	case "toolid":
		id = rawJSONString(s)
	case "errmsg": // an error document where a completion was expected
		return []byte(`{"error":{"message":` + rawJSONString(s) + `,"type":` + rawJSONString(s) + `,"code":null},"object":"error","message":` + rawJSONString(s) + `}`)
	}
	return []byte(`{"id":"c","object":"chat.completion","model":` + model + `,"choices":[{"index":0,"message":{"role":"assistant","content":` + content +
		`,"tool_calls":[{"id":` + id + `,"type":"function","function":{"name":` + name + `,"arguments":` + args + `}}` + second + `]},"finish_reason":` + finish +
		`}],"usage":{"prompt_tokens":1,"completion_tokens":2,"total_tokens":3}}`)
}

// streamBody: a chat-completion stream with s in one of the places a backend controls.
func streamBody(r *vlib.Rng, place, s string) []byte {
	var b bytes.Buffer
	model, finish := `"m"`, `"stop"`
	if place == "model" {
		model = rawJSONString(s)
	}
	if place == "finish" {
		finish = rawJSONString(s)
	}
	ev := func(delta, extra string) {
		fmt.Fprintf(&b, "data: {\"id\":\"c\",\"model\":%s,\"choices\":[{\"index\":0,\"delta\":%s%s}]}\n\n", model, delta, extra)
	}
	oneLine := strings.NewReplacer("\n", " ", "\r", " ").Replace(s)
	if place != "dataline-only" {
		if r.Chance(2, 3) {
			ev(`{"role":"assistant","content":""}`, "")
		}
		if r.Bool() {
			ev(`{"content":"Hi"}`, "")
		}
	}
	switch place {
	case "dataline", "dataline-only": // a data: line that is not JSON
		b.WriteString("data: " + oneLine + "\n\n")
	case "dataline-nospace":
		b.WriteString("data:" + oneLine + "\n\n")
	case "dataline-truncjson": // a chunk cut inside its text
		full := `{"id":"c","choices":[{"index":0,"delta":{"content":` + rawJSONString(oneLine)
		cut := len(full) - r.Intn(len(oneLine)+2)
		b.WriteString("data: " + full[:cut] + "\n\n")
	case "comment":
		b.WriteString(": " + oneLine + "\n\nevent: " + oneLine + "\n\nid: " + oneLine + "\n" + oneLine + "\n\n")
	case "errevent": // an error object in the middle of the stream
		b.WriteString("data: {\"error\":{\"message\":" + rawJSONString(s) + ",\"type\":" + rawJSONString(s) + "}}\n\n")
	case "content":
		ev(`{"content":`+rawJSONString(s)+`}`, "")
	case "toolname":
		ev(`{"tool_calls":[{"index":0,"id":`+rawJSONString(s)+`,"type":"function","function":{"name":`+rawJSONString(s)+`,"arguments":""}}]}`, "")
		ev(`{"tool_calls":[{"index":0,"function":{"arguments":"{}"}}]}`, "")
	case "frag": // arguments that do not add up to JSON, in one fragment
		ev(`{"tool_calls":[{"index":0,"id":"call_0","type":"function","function":{"name":"f","arguments":""}}]}`, "")
		ev(`{"tool_calls":[{"index":0,"function":{"arguments":`+rawJSONString(s)+`}}]}`, "")
	case "frag-split": // ... and cut into fragments at arbitrary BYTE offsets, in the middle of characters too
		ev(`{"tool_calls":[{"index":0,"id":"call_0","type":"function","function":{"name":"f","arguments":""}}]}`, "")
		rest := s
		if r.Bool() {
			rest = `{"q":` + rawJSONString(s) + `}`
		}
		for n := 0; len(rest) > 0 && n < 64; n++ {
			cut := 1 + r.Intn(len(rest))
			if n == 63 {
				cut = len(rest)
			}
			ev(`{"tool_calls":[{"index":0,"function":{"arguments":`+rawJSONString(rest[:cut])+`}}]}`, "")
			rest = rest[cut:]
		}
	}
	if place != "dataline-only" || r.Bool() {
		if !r.Chance(1, 8) {
			ev(`{}`, `,"finish_reason":`+finish)
		}
		if !r.Chance(1, 8) {
			b.WriteString("data: [DONE]\n\n")
		}
	}
	return b.Bytes()
}

// u8Translator: the strings through both translators.  Small lengths: every length x every alphabet, the two
// "payload is not JSON" places always, two more places drawn; character counts 0..70 likewise; big lengths: fewer.
func u8Translator(c *vlib.Cases, r *vlib.Rng, tr *anthropic.Translator, thorough bool) {
	small, big := boundarySizes(thorough)
	one := func(a alphabet, s string, extra int) {
		u8Emit(c, tr, respBody(r, "args", s), false, "args", a, s)
		u8Emit(c, tr, streamBody(r, "dataline", s), true, "dataline", a, s)
		for k := 0; k < extra; k++ {
			p := vlib.Pick(r, respPlaces)
			u8Emit(c, tr, respBody(r, p, s), false, p, a, s)
			p = vlib.Pick(r, streamPlaces)
			u8Emit(c, tr, streamBody(r, p, s), true, p, a, s)
		}
	}
	reps := 1
	if thorough {
		reps = 6
	}
	for rep := 0; rep < reps; rep++ {
		for _, n := range small {
			for _, a := range u8Alphabets {
				one(a, u8String(r, a, n), 1)
			}
		}
		for n := 0; n <= 70; n++ { // character counts (the log preview length is counted in characters)
			for _, a := range u8Alphabets {
				one(a, u8Runes(r, a, n), 1)
			}
		}
	}
	for _, n := range big {
		k := 2
		if thorough && n <= 2<<20 {
			k = len(u8Alphabets)
		}
		for i := 0; i < k; i++ {
			a := u8Alphabets[(n+i*3+r.Intn(2))%len(u8Alphabets)]
			s := u8String(r, a, n)
			if n > 2<<20 { // the largest: the two not-JSON places and a text
				u8Emit(c, tr, respBody(r, "args", s), false, "args", a, s)
				u8Emit(c, tr, streamBody(r, "dataline", s), true, "dataline", a, s)
				u8Emit(c, tr, streamBody(r, "content", s), true, "content", a, s)
				continue
			}
			one(a, s, 1)
			// a line that is exactly n bytes long, whatever it says (the scanner's limits are about the line)
			line := "data: " + s
			if len(line) > n {
				line = line[:n]
			}
			body := []byte("data: {\"id\":\"c\",\"model\":\"m\",\"choices\":[{\"index\":0,\"delta\":{\"content\":\"a\"}}]}\n\n" + line + "\n\ndata: [DONE]\n\n")
			u8Emit(c, tr, body, true, "line-of-n-bytes", a, s)
		}
	}
}

// xlateCall: what xlateCase does, without the emission.
func xlateCall(tr *anthropic.Translator, body []byte, stream bool) string {
	req := httptest.NewRequest("POST", "/olla/anthropic/v1/messages", strings.NewReader(`{}`))
	if stream {
		w := httptest.NewRecorder()
		err := tr.TransformStreamingResponse(context.Background(), bytes.NewReader(body), w, req)
		return fmt.Sprintf("stream err=%v bytes=%d", err != nil, w.Body.Len())
	}
	var v any
	if json.Unmarshal(body, &v) != nil {
		return "not-json"
	}
	_, err := tr.TransformResponse(context.Background(), v, req)
	return fmt.Sprintf("resp err=%v", err != nil)
}

// ---------------------------------------------------------------- metrics: response tails cut by a ring of 8192 bytes

// u8Metrics: what the proxy engines hand to the extractor is the LAST 8192 bytes of the response, cut wherever that
// falls — in the middle of a character, of a number, of the usage object.  Tails of responses whose text is multi-byte
// with every alignment of the cut, and final objects carrying multi-byte strings of boundary lengths.
func u8Metrics(c *vlib.Cases, r *vlib.Rng, ex *metrics.Extractor, thorough bool) {
	provs := vlib.SortedKeys(chunkSeeds)
	const ring = 8192
	aligns := 12
	if thorough {
		aligns = 200
	}
	for _, prov := range provs {
		for _, seed := range chunkSeeds[prov] {
			for _, a := range u8Alphabets[1:] {
				for k := 0; k < aligns; k++ {
					// text ... final object; total length ring + k so that the cut walks through the characters
					fin := seed
					textLen := ring + k - len(fin)
					var whole string
					switch r.Intn(3) {
					case 0: // the text is in an earlier line of the stream
						whole = "data: {\"choices\":[{\"delta\":{\"content\":" + rawJSONString(u8String(r, a, textLen)) + "}}]}\n\n" + fin
					case 1: // the text is inside the final object itself (non-streaming answer)
						whole = strings.Replace(fin, `"model":"`, `"x":`+rawJSONString(u8String(r, a, textLen))+`,"model":"`, 1)
					default:
						whole = u8String(r, a, textLen) + fin
					}
					cut := len(whole) - ring - r.Intn(2)*r.Intn(4)
					if cut < 0 {
						cut = 0
					}
					metricsCase(c, ex, prov, []byte(whole[cut:]), "u8.tail-of-"+a.name)
					c.Count("metrics.u8.tail")
				}
			}
			// strings of boundary lengths inside the final object
			for _, n := range []int{0, 1, 3, 16, 17, 19, 20, 21, 22, 23, 24, 63, 64, 65, 127, 128, 129, 255, 256, 257, 1023, 1024, 1025, 4095, 4096, 4097, 8191, 8192, 8193} {
				a := vlib.Pick(r, u8Alphabets)
				s := rawJSONString(u8String(r, a, n))
				var m string
				switch r.Intn(3) {
				case 0:
					m = strings.Replace(seed, `"model":"`, `"model":`+s+`,"zz":"`, 1)
				case 1:
					m = strings.Replace(seed, `{`, `{`+s+`:`+s+`,`, 1)
				default:
					m = strings.Replace(seed, `:`, `:`+s+`,"zz":`, 1)
				}
				metricsCase(c, ex, prov, []byte(m), "u8.string-in-final")
				c.Count("metrics.u8.string")
			}
		}
	}
}

// ---------------------------------------------------------------- listings: names and counts at the boundaries

// u8Listings: model names (and the other strings of an entry) of boundary lengths and multi-byte alphabets, and
// boundary numbers of entries, through every profile's listing parser.
func u8Listings(c *vlib.Cases, r *vlib.Rng, pf *profile.Factory, profiles []string, thorough bool) {
	lens := []int{0, 1, 2, 3, 4, 19, 20, 21, 63, 64, 65, 127, 128, 129, 255, 256, 257, 511, 512, 513, 1023, 1024, 1025, 4096, 8192, 65535, 65536, 65537}
	counts := []int{0, 1, 2, 49, 50, 51, 63, 64, 65, 127, 128, 129, 1000}
	if thorough {
		lens = append(lens, 1<<20-1, 1<<20, 1<<20+1)
		counts = append(counts, 4095, 4096, 4097, 65536)
	}
	for _, pn := range profiles {
		p, err := pf.GetProfile(pn)
		if err != nil {
			continue
		}
		emit := func(data []byte, how string) {
			var names []string
			var perr bool
			g := guarded(func() {
				ms, e := p.ParseModelsResponse(data)
				perr = e != nil
				for i, m := range ms {
					if m == nil {
						names = append(names, "<nil>")
					} else if i < 40 || m.Name == "" {
						names = append(names, m.Name)
					}
				}
			})
			for i := range names {
				if len(names[i]) > 80 {
					names[i] = names[i][:80]
				}
			}
			c.Emit(map[string]any{"kind": "parse", "profile": pn, "how": how, "data_hex": hexCap(data), "impl": map[string]any{"guard": g, "err": perr, "names": names}})
			c.Count("parse." + how)
		}
		entry := func(s string) string { // the union of the fields the shipped parsers read; every string is s
			q := rawJSONString(s)
			return `{"id":` + q + `,"name":` + q + `,"model":` + q + `,"object":"model","owned_by":` + q + `,"publisher":` + q + `,"arch":` + q + `,"type":` + q + `,"state":` + q +
				`,"quantization":` + q + `,"checkpoint":` + q + `,"recipe":` + q + `,"digest":` + q + `,"modified_at":` + q + `,"root":` + q + `,"parent":` + q +
				`,"details":{"family":` + q + `,"families":[` + q + `],"parameter_size":` + q + `,"quantization_level":` + q + `,"format":` + q + `,"parent_model":` + q + `}}`
		}
		wrap := func(entries []string) []byte {
			l := strings.Join(entries, ",")
			return []byte(`{"object":"list","data":[` + l + `],"models":[` + l + `]}`)
		}
		for _, n := range lens {
			a := vlib.Pick(r, u8Alphabets)
			s := u8String(r, a, n)
			emit(wrap([]string{entry("first"), entry(s)}), "u8.name-length")
			if n > 2 && n < 70000 { // a path separator at every kind of position (publisher / namespace prefixes are cut at it)
				k := r.Intn(n)
				for k > 0 && !utf8.RuneStart(s[k]) {
					k--
				}
				emit(wrap([]string{entry(s[:k] + "/" + s[k:]), entry("/" + s), entry(s + "/"), entry(s + ":" + s)}), "u8.name-with-separator")
			}
		}
		for _, k := range counts {
			es := make([]string, k)
			a := vlib.Pick(r, u8Alphabets[1:7])
			for i := range es {
				es[i] = `{"id":` + rawJSONString(fmt.Sprintf("%s-%d", u8String(r, a, 9), i)) + `,"name":` + rawJSONString(fmt.Sprintf("%s-%d", u8String(r, a, 9), i)) + `,"object":"model"}`
			}
			emit(wrap(es), "u8.entry-count")
		}
	}
}
